# clitools sub-package

from cnfgen.clitools.cnfgen import cli as cnfgen
from cnfgen.clitools.cnfshuffle import cli as cnfshuffle
from cnfgen.clitools.kthlist2pebbling import cli as kthlist2pebbling

from cnfgen.clitools.cmdline import CLIError
from cnfgen.clitools.cmdline import CLIParser
from cnfgen.clitools.cmdline import CLIHelpFormatter
from cnfgen.clitools.cmdline import compose_two_parsers

from cnfgen.clitools.graph_args import ObtainSimpleGraph
from cnfgen.clitools.graph_args import ObtainBipartiteGraph
from cnfgen.clitools.graph_args import ObtainDirectedAcyclicGraph
from cnfgen.clitools.graph_args import make_graph_from_spec
from cnfgen.clitools.graph_docs import make_graph_doc

from cnfgen.clitools.cmdline import get_formula_helpers
from cnfgen.clitools.cmdline import get_transformation_helpers

from cnfgen.clitools.msg import interactive_msg
from cnfgen.clitools.msg import msg_prefix
from cnfgen.clitools.cmdline import redirect_stdin

from cnfgen.clitools.cmdline import positive_int
from cnfgen.clitools.cmdline import positive_even_int
from cnfgen.clitools.cmdline import nonnegative_int
