from cnfgen.graphs import supported_graph_formats

simple_graph_doc = """
            HOW TO SPECIFY A SIMPLE UNDIRECTED GRAPH

A graph argument on the command line is one among
  <filename>
  <fileformat> <filename>
  <construction> <arg1> <arg2> ...

examples:
 {0} ... graphfile.dot              --- graph from DOT file
 {0} ... graphfile.gml              --- graph from GML file
 {0} ... gnp 10 .5                  --- random G(n,p) graph
 {0} ... gnm 10 40 addedges 4       --- random G(n,m) graph + 4 random edges
 {0} ... grid 4 3 5 plantclique 5   --- 4x3x5 3-dimensional grid + 5-clique
 {0} ... dot -                      --- graph in DOT format from <stdin>

                  ---- Graph from a file ----
 {0} ... <filename>
 {0} ... <fileformat> <filename>

where <fileformat> is one among {formats} and
is required only when it does not match the extension of <filename>.

                 ---- Graph constructions ----

  {0} ... gnp N p               --- N vertices, p-biased independent edges
  {0} ... gnp N p t             --- t-partite with t*N vertices, p-biased edges between parts
  {0} ... gnm N m               --- N vertices, m edges at random
  {0} ... gnd N d               --- Random d-regular graph of order N
  {0} ... grid  d1 d2 d3 ...    --- d1 x d2 x d3 x ... grid graph
  {0} ... torus d1 d2 d3 ...    --- d1 x d2 x d3 x ... torus graph
  {0} ... complete N            --- complete graph of order N
  {0} ... complete N t          --- complete t-partite graph with t*N vertices
  {0} ... empty N               --- empty graph of order N

                 ---- Graph modifications ----
It is possible to enhance a graph contruction by appending one or more
of the following options to the graph specifications.

  plantclique k            --- add a randomly chosen k-clique
  addedges    m            --- add m new edges at random
  splitedges  k            --- randomly split k edges putting a vertex in between

                  ---- Saving the graph ----
For reproducibility it is possible the graph using the option

  save <filename>
  save <fileformat> <filename>

where <fileformat> is one among {formats} and
is required only when it does not match the extension of <filename>.
"""

bipartite_graph_doc = """
            HOW TO SPECIFY A BIPARTITE GRAPH

A graph argument on the command line is one among
  <filename>
  <fileformat> <filename>
  <construction> <arg1> <arg2> ...

examples:
  {0} ... bipartite.dot               --- graph from DOT file
  {0} ... bipartite.matrix            --- graph from matrix file
  {0} ... gnp 10 .5                   --- random G(n,p) graph
  {0} ... glrd 15 10 4 addedges 4     --- random 4-regular 15,10-bipartite + 4 edges
  {0} ... empty 20 20 plantbiclique 5 --- 20,20-bipartite with a random 5-clique
  {0} ... dot -                       --- graph in DOT format from <stdin>

                  ---- Graph from a file ----
  {0} ... <filename>
  {0} ... <fileformat> <filename>

where <fileformat> is one among {formats} and
is required only when it does not match the extension of <filename>.

                 ---- Graph constructions ----
       (L,R)-bipartite with L left vertices, R right vertices

  {0} ... glrp L R p            --- p-biased independent edges
  {0} ... glrm L R m            --- m edges at random
  {0} ... glrd L R d            --- d edges at random per left vertex
  {0} ... regular L R d         --- Regular bipartite. Degree d on the left
  {0} ... shift L R v1 v2 ...   --- Shift graph graph: left vertex i connected to x+v1, x+v2,...
  {0} ... complete L R          --- complete bipartite
  {0} ... empty L R             --- empty bipartite

                 ---- Graph modifications ----
It is possible to modify the previous contruction by appending one or
more of the following options to the graph specifications.

  plantbiclique A B        --- add a random biclique of size (A,B)
  addedges      m          --- add m new edges at random

                  ---- Saving the graph ----
For reproducibility it is possible the graph using the option

  save <filename>
  save <fileformat> <filename>

where <fileformat> is one among {formats} and
is required only when it does not match the extension of <filename>.
"""

dag_graph_doc = """
      HOW TO SPECIFY A DIRECTED ACYCLIC GRAPH

A graph argument on the command line is one among
  <filename>
  <fileformat> <filename>
  <construction> <arg1> <arg2> ...

examples:
  {0} ... graphfile.kthlist   --- graph from kthlist file
  {0} ... graphfile.gml       --- graph from GML file
  {0} ... tree 10             --- a complete rooted tree of height 5
  {0} ... dot -               --- graph in DOT format from <stdin>

                  ---- Graph from a file ----
  {0} ... <filename>
  {0} ... <fileformat> <filename>

where <fileformat> is one among {formats} and
is required only when it does not match the extension of <filename>.

                 ---- Graph constructions ----
  {0} ... tree h         --- complete rooted tree of height h
  {0} ... pyramid h      --- pyramid graph of height h
  {0} ... path L         --- path of length L (i.e. L+1 vertices)

                  ---- Saving the graph ----
For reproducibility it is possible the graph using the option

  save <filename>
  save <fileformat> <filename>

where <fileformat> is one among {formats} and
is required only when it does not match the extension of <filename>.
"""


def make_graph_doc(graphtype, progname):
    formats = supported_graph_formats()[graphtype]
    if graphtype == 'simple':
        return simple_graph_doc.format(progname,
                                       formats=str(formats)[1:-1])
    elif graphtype == 'bipartite':
        return bipartite_graph_doc.format(progname,
                                          formats=str(formats)[1:-1])
    elif graphtype == 'dag':
        return dag_graph_doc.format(progname,
                                    formats=str(formats)[1:-1])
    return ""
