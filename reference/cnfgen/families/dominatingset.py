#!/usr/bin/env python
# -*- coding:utf-8 -*-
"""Formulas that encode dominating set problems
"""

from itertools import combinations

from cnfgen.formula.cnf import CNF
from cnfgen.graphs import Graph
from cnfgen.localtypes import positive_int

def unique_neighborhoods(G):
    """List the neighborhoods of a graph

List sets of vertices, each of them representing a neighborhood in the
graph. Each neighborhood is listed just one. Each one is sorted and
they are enumerated in a sorted fashion."""
    n = G.number_of_vertices()
    if n == 0:
        return []
    neighborhoods = []
    for v in range(1, n+1):
        neighborhoods.append(sorted([v] + list(G.neighbors(v))))
    neighborhoods.sort()
    unique = [neighborhoods[0]]
    for n in neighborhoods:
        if n != unique[-1]:
            unique.append(n)
    return unique



def DominatingSet(G, d, alternative=False, formula_class=CNF):
    r"""Generates the clauses for a dominating set for G of size <= d

    The formula encodes the fact that the graph :math:`G` has
    a dominating set of size :math:`d`. This means that it is possible
    to pick at most :math:`d` vertices in :math:`V(G)` so that all remaining
    vertices have distance at most one from the selected ones.

    Parameters
    ----------
    G : cnfgen.Graph or networkx.Graph
        a simple undirected graph
    d : a positive int
        the size limit for the dominating set
    alternative : bool
        use an alternative construction that
        is provably hard from resolution proofs.

    Returns
    -------
    CNF
       the CNF encoding for dominating of size :math:`\leq d` for graph :math:`G`

    """
    # Describe the formula
    G = Graph.normalize(G, 'G')
    positive_int(d, 'd')

    description = "{}-dominating set on {}".format(d, G.name)
    F = formula_class(description=description)

    # Create variables
    V = G.number_of_vertices()
    D = F.new_block(V, label='x_{{{0}}}')
    M = F.new_mapping(V, d)

    if V == 0:
        return F

    # No two (active) vertices map to the same index
    if alternative:
        for u, v in combinations(range(1,V+1), 2):
            for i in range(1, d + 1):
                F.add_clause([- D(u), -D(v), -M(u, i), - M(v, i)])
    else:
        F.force_injective_mapping(M)

    # (Active) Vertices in the sequence are not repeated
    if alternative:
        for v in range(1,V+1):
            for i, j in combinations(range(1, d + 1), 2):
                F.add_clause([ -D(v), -M(v, i), -M(v,j)])
    else:
        F.force_nondecreasing_mapping(M)

    # D(v) = M(v,1) or M(v,2) or ... or M(v,d)
    if not alternative:
        for i in range(1, d + 1):
            for v in range(1,V+1):
                F.add_clause([-M(v, i), D(v)])
    for v in G.vertices():
        F.add_clause([-D(v)] + list(M(v, None)))

    # Every neighborhood must have a true D variable
    for N in unique_neighborhoods(G):
        F.add_clause([D(v) for v in N])
    return F

def Tiling(G, formula_class=CNF):
    r"""Generates the clauses for a tiling of G

    The formula encodes the fact that the graph :math:`G` has a
    tiling. This means that it is possible to pick a subset of
    vertices :math:`D` so that all vertices have distance at most one
    from exactly one verteix in :math:`D`.

    Parameters
    ----------
    G : cnfgen.Graph or networkx.Graph
        a simple undirected graph

    Returns
    -------
    CNF
       the CNF encoding of a tiling of graph :math:`G`

    """
    # Describe the formula
    G = Graph.normalize(G,'G')
    description = "tiling of {}".format(G.name)

    F = formula_class(description=description)
    x = F.new_block(G.number_of_vertices() , label='x_{{{0}}}')
    # Every neighborhood must have exactly one variable
    for N in unique_neighborhoods(G):
        F.cardinality_eq([x(v) for v in N],1)

    return F
