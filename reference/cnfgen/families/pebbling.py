#!/usr/bin/env python
# -*- coding:utf-8 -*-
"""Implementation of the pigeonhole principle formulas
"""

from itertools import product
from cnfgen.formula.cnf import CNF
from cnfgen.graphs import BipartiteGraph, CompleteBipartiteGraph
from cnfgen.graphs import DirectedGraph
from cnfgen.localtypes import non_negative_int



def _uniqify_list(seq):
    """Remove duplicates while maintaining the order.

    (due to Dave Kirby)

    Seen on https://www.peterbe.com/plog/uniqifiers-benchmark
    """
    seen = set()
    return [x for x in seq if x not in seen and not seen.add(x)]


def PebblingFormula(digraph, formula_class=CNF):
    """Pebbling formula

    Build a pebbling formula from the directed graph. If the graph has
    an `ordered_vertices` attribute, then it is used to enumerate the
    vertices (and the corresponding variables).

    Arguments:
    - `digraph`: directed acyclic graph.
    """
    digraph = DirectedGraph.normalize(digraph, 'digraph')
    if not digraph.is_dag():
        raise ValueError(
            "'digraph' must be acyclic, and topologically sorted")

    description = 'Pebbling formula'
    description += " for " + digraph.name

    peb = formula_class(description=description)
    x = peb.new_block(digraph.number_of_vertices(), label='x({})')

    for v in digraph.vertices():
        # If predecessors are pebbled the vertex must be pebbled
        peb.add_clause([-x(p) for p in digraph.predecessors(v)] + [x(v)])

        if digraph.out_degree(v) == 0:  #the sink
            peb.add_clause([-x(v)])

    return peb



def StoneFormula(D, nstones, formula_class=CNF):
    """Stone formulas

    The stone formulas have been introduced in [2]_ and generalized in
    [1]_. They are one of the classic examples that separate regular
    resolutions from general resolution [1]_.

    A \"Stones formula\" from a directed acyclic graph :math:`D`
    claims that each vertex of the graph is associated with one on
    :math:`s` stones (not necessarily in an injective way).
    In particular for each vertex :math:`v` in :math:`V(D)` and each
    stone :math:`j` we have a variable :math:`P_{v,j}` that claims
    that stone :math:`j` is associated to vertex :math:`v`.

    Each stone can be either red or blue, and not both.
    The propositional variable :math:`R_j` if true when the stone
    :math:`j` is red and false otherwise.

    The clauses of the formula encode the following constraints.
    If a stone is on a source vertex (i.e. a vertex with no incoming
    edges), then it must be red. If all stones on the predecessors of
    a vertex are red, then the stone of the vertex itself must be red.

    The formula furthermore enforces that the stones on the sinks
    (i.e. vertices with no outgoing edges) are blue.

    Parameters
    ----------
    D : a directed acyclic graph
        it should be a directed acyclic graph.
    nstones : int
       the number of stones.

    Raises
    ------
    ValueError
       if :math:`D` is not a directed acyclic graph

    ValueError
       if the number of stones is negative

    References
    ----------
    .. [1] M. Alekhnovich, J. Johannsen, T. Pitassi and A. Urquhart
    	   An Exponential Separation between Regular and General Resolution.
           Theory of Computing (2007)
    .. [2] R. Raz and P. McKenzie
           Separation of the monotone NC hierarchy.
           Combinatorica (1999)

    """
    D = DirectedGraph.normalize(D, 'D')
    if not D.is_dag():
        raise ValueError(
            "'D' must be acyclic, and topologically sorted")
    non_negative_int(nstones, 'nstones')

    description = "Stone formula of {} with {} stones".format(D.name, nstones)
    B = CompleteBipartiteGraph(D.number_of_vertices(),nstones)
    F = SparseStoneFormula(D, B, formula_class=formula_class)
    F.header['description'] = description
    return F

def SparseStoneFormula(D, B, formula_class=CNF):
    """Sparse Stone formulas

    This is a variant of the :py:func:`StoneFormula`. See that for
    a description of the formula. This variant is such that each
    vertex has only a small selection of which stone can go to that
    vertex. In particular which stones are allowed on each vertex is
    specified by a bipartite graph :math:`B` on which the left
    vertices represent the vertices of DAG :math:`D` and the right
    vertices are the stones.

    If a vertex of :math:`D` correspond to the left vertex :math:`v`
    in :math:`B`, then its neighbors describe which stones are allowed
    for it.

    The vertices in :math:`D` do not need to have the same name as the
    one on the left side of :math:`B`. It is only important that the
    number of vertices in :math:`D` is the same as the vertices in the
    left side of :math:`B`.

    In that case the element at position :math:`i` in the ordered
    sequence ``enumerate_vertices(D)`` corresponds to the element of
    rank :math:`i` in the sequence of left side vertices of
    :math:`B` according to the output of ``Left, Right =
    bipartite_sets(B)``.

    Standard :py:func:`StoneFormula` is essentially equivalent to
    a sparse stone formula where :math:`B` is the complete graph.

    Parameters
    ----------
    D : a directed acyclic graph
        it should be a directed acyclic graph.
    B : bipartite graph

    Raises
    ------
    ValueError
       if :math:`D` is not a directed acyclic graph

    ValueError
       if :math:`B` is not a bipartite graph

    ValueError
       when size differs between :math:`D` and the left side of
       :math:`B`

    See Also
    --------
    StoneFormula

    """
    D = DirectedGraph.normalize(D, 'D')
    B = BipartiteGraph.normalize(B, 'B')
    if not D.is_dag():
        raise ValueError(
            "'D' must be acyclic, and topologically sorted")

    Left, stones = B.parts()

    if len(Left) != D.number_of_vertices():
        raise ValueError(
            "Formula requires the bipartite left side to match #vertices of the DAG."
        )

    description = "Sparse stone formula of {} with {} stones".format(D.name, len(stones))
    F = formula_class(description=description)

    # Add variables in the appropriate order
    R = F.new_block(len(stones), label='R_{{{0}}}')  # a stone j is red

    # mapping from vertices to stones
    P = F.new_sparse_mapping(B, label='P_{{{0},{1}}}')
    F.force_complete_mapping(P)

    # If predecessors have red stones, the sink must have a red stone
    for v in D.vertices():
        for j in B.right_neighbors(v):
            pred = list(D.predecessors(v))
            stone_patterns = product(*tuple([s for s in
                                             B.right_neighbors(p) if s != j] for p in pred))
            for pattern in stone_patterns:
                F.add_clause([-P(p, s) for (p, s) in zip(pred, pattern)] +
                             [-P(v, j)] +
                             [-R(s) for s in _uniqify_list(pattern)] +
                             [R(j)])

        if D.out_degree(v) == 0:  #the sink
            for j in B.right_neighbors(v):
                F.add_clause([-P(v, j), -R(j)])

    return F
