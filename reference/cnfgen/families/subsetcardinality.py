#!/usr/bin/env python
# -*- coding:utf-8 -*-
"""Implementation of subset cardinality formulas
"""
from math import ceil, floor

from cnfgen.formula.cnf import CNF
from cnfgen.graphs import BipartiteGraph


def SubsetCardinalityFormula(B, equalities=False, formula_class=CNF):
    r"""SubsetCardinalityFormula

    Consider a bipartite graph :math:`B`. The CNF claims that at least half
    of the edges incident to each of the vertices on left side of :math:`B`
    must be zero, while at least half of the edges incident to each
    vertex on the left side must be one.

    Variants of these formula on specific families of bipartite graphs
    have been studied in [1]_, [2]_ and [3]_, and turned out to be
    difficult for resolution based SAT-solvers.

    Each variable of the formula is denoted as :math:`x_{i,j}` where
    :math:`\{i,j\}` is an edge of the bipartite graph. The clauses of
    the CNF encode the following constraints on the edge variables.

    For every left vertex i with neighborhood :math:`\Gamma(i)`

    .. math::

         \sum_{j \in \Gamma(i)} x_{i,j} \geq \frac{|\Gamma(i)|}{2}

    For every right vertex j with neighborhood :math:`\Gamma(j)`

    .. math::

         \sum_{i \in \Gamma(j)} x_{i,j} \leq \frac{|\Gamma(j)|}{2}.

    If the ``equalities`` flag is true, the constraints are instead
    represented by equations.

    .. math::

         \sum_{j \in \Gamma(i)} x_{i,j} = \left\lceil \frac{|\Gamma(i)|}{2} \right\rceil

    .. math::

         \sum_{i \in \Gamma(j)} x_{i,j} = \left\lfloor \frac{|\Gamma(j)|}{2} \right\rfloor .

    Parameters
    ----------
    B : cnfgen.graphs.BipartiteGraph
        the graph vertices must have the 'bipartite' attribute
        set. Left vertices must have it set to 0 and the right ones to 1.
        A KeyException is raised otherwise.

    equalities : boolean
        use equations instead of inequalities to express the
        cardinality constraints.  (default: False)

    Returns
    -------
    A CNF object

    References
    ----------
    .. [1] Mladen Miksa and Jakob Nordstrom
           Long proofs of (seemingly) simple formulas
           Theory and Applications of Satisfiability Testing--SAT 2014 (2014)
    .. [2] Ivor Spence
           sgen1: A generator of small but difficult satisfiability benchmarks
           Journal of Experimental Algorithmics (2010)
    .. [3] Allen Van Gelder and Ivor Spence
           Zero-One Designs Produce Small Hard SAT Instances
           Theory and Applications of Satisfiability Testing--SAT 2010(2010)

    """
    B = BipartiteGraph.normalize(B,'B')

    Left, Right = B.parts()

    description = "Subset cardinality formula for {0}".format(B.name)
    F = formula_class(description=description)

    e = F.new_bipartite_edges(B, label='x_{{{0},{1}}}')

    for u in Left:

        hceil = (B.right_degree(u)+1) // 2
        if equalities:
            F.cardinality_eq(e(u, None),  hceil)
        else:
            F.add_loose_majority(e(u, None))

    for v in Right:

        hfloor = B.left_degree(v) // 2
        if equalities:
            F.cardinality_eq(e(None, v),  hfloor)
        else:
            F.add_loose_minority(e(None, v))

    return F
