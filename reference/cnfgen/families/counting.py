#!/usr/bin/env python
# -*- coding:utf-8 -*-
"""Implementation of counting/matching formulas
"""

from cnfgen.formula.cnf import CNF
from cnfgen.graphs import Graph
from cnfgen.localtypes import positive_int, non_negative_int


def CountingPrinciple(M, p, formula_class=CNF):
    """Counting principle

    The principle claims that there is a way to partition M elements
    in sets of size p each.

    Parameters
    ----------
    M : non negative integer
        size of the domain
    p : positive integer
        size of each part

    Returns
    -------
    cnfgen.CNF
    """
    non_negative_int(M, "M")
    positive_int(p, "p")

    description = "Counting Principle: {0} divided in parts of size {1}.".format(
        M, p)
    F = formula_class(description=description)

    X = F.new_combinations(M, p)

    stars = [[] for i in range(M)]
    for pattern, var in zip(X.indices(), X()):
        for i in pattern:
            stars[i-1].append(var)

    # Each element of the domain is in exactly one part.
    for star in stars:
        F.cardinality_eq(star,  1)

    return F


def PerfectMatchingPrinciple(G, formula_class=CNF):
    """Generates the clauses for the graph perfect matching principle.

    The principle claims that there is a way to select edges to such
    that all vertices have exactly one incident edge set to 1.

    Parameters
    ----------
    G : undirected graph

    """
    # Describe the formula
    G = Graph.normalize(G, 'G')

    description = "Perfect Matching Principle on {}".format(G.name)
    F = formula_class(description=description)
    e = F.new_graph_edges(G, label='e_{{{0},{1}}}')

    # Each vertex has exactly one edge set to one.
    for u in G.vertices():

        F.cardinality_eq(e(u, None),  1)

    return F
