#!/usr/bin/env python
# -*- coding:utf-8 -*-
"""Implementation of the ordering principle formulas
"""

from itertools import combinations, permutations
from cnfgen.formula.cnf import CNF
from cnfgen.graphs import Graph
from cnfgen.localtypes import non_negative_int


def OrderingPrinciple(size, total=False, smart=False, plant=False, knuth=0, formula_class=CNF):
    """Generates the clauses for ordering principle

    Arguments:
    - `size`  : size of the domain
    - `total` : add totality axioms (i.e. "x < y" or "x > y")
    - `smart` : "x < y" and "x > y" are represented by a single variable (implies totality)
    - `plant` : allow a single element to be minimum (could make the formula SAT)
    - `knuth` : Donald Knuth variant of the formula ver. 2 or 3 (anything else suppress it)
    """
    non_negative_int(size, 'size')

    if total or smart:
        description = "Total ordering principle"
    else:
        description = "Ordering principle"

    if smart:
        description += " (compact representation)"

    if knuth in [2, 3]:
        description += " (Knuth variant {})".format(knuth)

    F = GraphOrderingPrinciple(Graph.complete_graph(size), total, smart,
                               plant, knuth, formula_class=formula_class)
    F.header['description'] = description
    return F


def GraphOrderingPrinciple(graph,
                           total=False,
                           smart=False,
                           plant=False,
                           knuth=0,
                           formula_class=CNF):
    """Generates the clauses for graph ordering principle

    Arguments:
    - `graph` : undirected graph
    - `total` : add totality axioms (i.e. "x < y" or "x > y")
    - `smart` : "x < y" and "x > y" are represented by a single variable (implies `total`)
    - `plant` : allow last element to be minimum (and could make the formula SAT)
    - `knuth` : Don Knuth variants 2 or 3 of the formula (anything else suppress it)
    """
    # Describe the formula
    graph = Graph.normalize(graph, 'graph')

    if total or smart:
        description = "Total graph ordering principle"
    else:
        description = "Graph ordering principle"

    if smart:
        description += " (compact representation)"

    if knuth in [2, 3]:
        description += " (Knuth variant {})".format(knuth)

    description += " on " + graph.name

    gop = formula_class(description=description)

    # Fix the vertex order
    n = graph.number_of_vertices()
    V = range(1, n+1)

    # Add variables
    if smart:
        X = gop.new_combinations(n, 2, label='x_{{{}}}')
    else:
        X = gop.new_permutations(n, 2, label='x_{{{}}}')
    #
    # Non minimality axioms
    #

    # Clause is generated in such a way that if totality is enforces,
    # every pair occurs with a specific orientation.
    # Allow minimum on last vertex if 'plant' options.
    for v in V:

        if v == n and plant:
            continue

        if smart:
            clause = []
            for u in graph.neighbors(v):
                if u < v:
                    clause.append(X(u, v))
                else:
                    clause.append(-X(v, u))
        else:
            clause = [X(u, v) for u in graph.neighbors(v)]

        gop.add_clause(clause)

    #
    # Smart version just needs 1/3 of transitivity axioms
    #
    if smart:
        for (v1, v2, v3) in combinations(V, 3):
            gop.add_clause([ X(v1, v2),  X(v2, v3), -X(v1, v3)])
            gop.add_clause([-X(v1, v2), -X(v2, v3),  X(v1, v3)])
        return gop

    #
    # Transitivity axiom for the other versions
    #
    for (v1, v2, v3) in permutations(V, 3):

        # knuth variants will reduce the number of
        # transitivity axioms
        if knuth == 2 and ((v2 < v1) or (v2 < v3)):
            continue
        if knuth == 3 and ((v3 < v1) or (v3 < v2)):
            continue

        gop.add_clause([-X(v1, v2), -X(v2, v3),  X(v1, v3)])

    # Antisymmetry axioms (useless for 'smart' representation)
    for (v1, v2) in combinations(V, 2):
        gop.add_clause([-X(v1, v2), -X(v2, v1)])

    # Totality axioms (useless for 'smart' representation)
    if total:
        for (v1, v2) in combinations(V, 2):
            gop.add_clause([X(v1, v2), X(v2, v1)])

    return gop
