#!/usr/bin/env python
# -*- coding:utf-8 -*-
"""Implementation of the clique-coloring formula
"""

from itertools import combinations
from cnfgen.formula.cnf import CNF
from cnfgen.localtypes import non_negative_int

def CliqueColoring(n, k, c, formula_class=CNF):
    r"""Clique-coloring CNF formula

    The formula claims that a graph :math:`G` with :math:`n` vertices
    simultaneously contains a clique of size :math:`k` and a coloring
    of size :math:`c`.

    If :math:`k = c + 1` then the formula is clearly unsatisfiable,
    and it is the only known example of a formula hard for cutting
    planes proof system. [1]_

    Variables :math:`e_{u,v}` to encode the edges of the graph.

    Variables :math:`q_{i,v}` encode a function from :math:`[k]` to
    :math:`[n]` that represents a clique.

    Variables :math:`r_{v,\ell}` encode a function from :math:`[n]` to
    :math:`[c]` that represents a coloring.

    Parameters
    ----------
    n : number of vertices in the graph
    k : size of the clique
    c : size of the coloring

    Returns
    -------
    A CNF object

    References
    ----------
    .. [1] Pavel Pudlak.
           Lower bounds for resolution and cutting plane proofs and
           monotone computations.
           Journal of Symbolic Logic (1997)

    """
    non_negative_int(n, 'n')
    non_negative_int(k, 'k')
    non_negative_int(c, 'c')

    description = "There is a graph of {0} vertices with a {1}-clique and a {2}-coloring".format(
        n, k, c)
    F = formula_class(description=description)

    # Variables
    e = F.new_combinations(n,2,label='e_{{{}}}')
    q = F.new_mapping(k,n,label='q_{{{0},{1}}}')
    r = F.new_mapping(n,c,label='r_{{{0},{1}}}')


    # some vertex is i'th member of clique
    F.force_complete_mapping(q)
    F.force_functional_mapping(q)
    F.force_injective_mapping(q)

    for u, v in e.indices():
        for i, j in combinations(q.domain(), 2):
            F.add_clause([e(u, v), -q(i, u), -q(j, v)])
            F.add_clause([e(u, v), -q(i, v), -q(j, u)])

    # every vertex v has exactly one colour
    F.force_complete_mapping(r)
    F.force_functional_mapping(r)

    # neighbours have distinct colours
    for u, v in e.indices():
        for ell in r.range():
            F.add_clause([-e(u, v), -r(u, ell), -r(v, ell)])
    return F
