#!/usr/bin/env python
# -*- coding:utf-8 -*-
"""Pigeonhole principle formulas

The pigeonhole principle :math:`\\mathsf{PHP}_{n}^{m}`, written in
conjunctive normal form, is a propositional formula which claims that
it is possible to place :math:`m` pigeons into :math:`n` holes without
collisions, whenever :math:`m > n`.

Pigeonhole principle formulas are classic benchmarks for SAT solving
and for Resolution proof systems. The module contains the
implementation of several variants of this formulas.

The most classic pigeonhole principle formula
:math:`\\mathsf{PHP}_{n}^{n+1}` was the first CNF proved to be hard
for resolution [H85]_.

.. [H85] Haken, A. (1985). The intractability of resolution.
         Theoretical Computer Science, 39, 297–308.
"""

from itertools import combinations, product

from cnfgen.formula.cnf import CNF
from cnfgen.graphs import BaseBipartiteGraph, BipartiteGraph
from cnfgen.localtypes import non_negative_int


def PigeonholePrinciple(pigeons, holes, functional=False, onto=False,
                        formula_class=CNF):
    """Pigeonhole Principle CNF formula

    The pigeonhole principle CNF formula claims that that it is
    possibile to place :math:`m` pigeons into :math:`n` holes without
    collisions. This is clearly impossible whenever :math:`m > n`.

    The formula is encoded with variables :math:`p_{i,j}` for :math:`i
    \\in [m]` and :math:`j \\in [n]` where the intended meaning is
    that :math:`p_{i,j}` is `True` when pigeon :math:`i` flies into
    hole :math:`j`. There are different variants of this formula,
    depending on the values of `functional` and `onto` argument.

    - PHP: pigeon can sit in multiple holes
    - FPHP: each pigeon sits in exactly one hole
    - onto-PHP: pigeon can  sit in multiple holes, every  hole must be covered
    - Matching: one-to-one bijection between pigeons and holes.

    Parameters
    ----------
    pigeon: int
        number of pigeons (must be >=0).
    hole: int
        number of holes (must be >=0).
    functional: bool, optional
        enforce at most one hole per pigeon (default: False).
    onto: bool, optional
        enforce that any hole must have a pigeon (default: False).

    Returns
    -------
    :py:class:`cnfgen.formula.cnf.CNF`
         A CNF formulas encoding the pigeonhole principle.

    Raises
    ------
    TypeError
        If either `pigeons` or `holes` is not an integer number.
    ValueError
        If either `pigeons` or `holes` is less than zero.

    Examples
    --------
    >>> print(PigeonholePrinciple(4,3).to_dimacs())
    p cnf 12 22
    1 2 3 0
    4 5 6 0
    7 8 9 0
    10 11 12 0
    -1 -4 0
    -1 -7 0
    -1 -10 0
    -4 -7 0
    -4 -10 0
    -7 -10 0
    -2 -5 0
    -2 -8 0
    -2 -11 0
    -5 -8 0
    -5 -11 0
    -8 -11 0
    -3 -6 0
    -3 -9 0
    -3 -12 0
    -6 -9 0
    -6 -12 0
    -9 -12 0
    <BLANKLINE>
    """
    non_negative_int(pigeons, 'pigeon')
    non_negative_int(holes, 'holes')

    if functional:
        if onto:
            formula_name = "Matching"
        else:
            formula_name = "Functional pigeonhole principle"
    else:
        if onto:
            formula_name = "Onto pigeonhole principle"
        else:
            formula_name = "Pigeonhole principle"

    description = "{0} formula for {1} pigeons and {2} holes".format(
        formula_name, pigeons, holes)
    F = formula_class(description=description)

    p = F.new_mapping(pigeons, holes, label='p_{{{},{}}}')
    F.force_complete_mapping(p)

    if onto:
        F.force_surjective_mapping(p)

    F.force_injective_mapping(p)

    if functional:
        F.force_functional_mapping(p)

    return F


def GraphPigeonholePrinciple(G, functional=False, onto=False,
                             formula_class=CNF):
    """Graph Pigeonhole Principle CNF formula

    The graph pigeonhole principle CNF formula, defined on a bipartite
    graph :math:`G=(L,R,E)`, is a variant of the pigeonhole principle
    where the left vertices :math:`L` are the pigeons, the right
    vertices :math:`R` are the holes. The formula claims that there is
    a subset of edges :math:`E' \\subseteq E` such that every vertex in
    :math:`u \\in L` has at least one incident edge in :math:`E'` and every
    :math:`v \\in R` has at most one incident edge in :math:`E'`.

    The formula is satisfiable if and only if the graph has a matching
    of size :math:`|L|`.

    The formula is encoded with variables :math:`p_{u,v}` for :math:`u
    \\in L` and :math:`v \\in R` where the intended meaning is
    that :math:`p_{u,v}` is `True` when pigeon :math:`u` flies into
    hole :math:`v`. There are different variants of this formula,
    depending on the values of `functional` and `onto` argument.

    - PHP(G):  each :math:`u \\in L` can fly to multiple :math:`v \\in R`
    - FPHP(G): each :math:`u \\in L` can fly to exactly one :math:`v \\in R`
    - onto-PHP: each :math:`v \\in R` must get a pigeon
    - matching: :math:`E'` must be a perfect matching

    Parameter `G` can be either of type
    :py:class:`cnfgen.graphs.BipartiteGraph` or of type
    a :py:class:`networkx.graph`. In the latter case it must be
    a correct representation of a bipartite graph according to
    [NetworkX]_.

    Parameters
    ----------
    G : :py:class:`cnfgen.graphs.BipartiteGraph` or :py:class:`networkx.graph`
        the bipartite graph describing the possible pairings
    functional: bool
        enforce at most one edge per left vertex
    onto: bool
        enforce that any right vertex has one incident edge

    Returns
    -------
    :py:class:`cnfgen.formula.cnf.CNF`
         A CNF formulas encoding the graph pigeonhole principle.

    Raises
    ------
    TypeError
        `G` is neither a :py:class:`cnfgen.graphs.BipartiteGraph` nor a :py:class:`networkx.graph`
    ValueError
        `G` is not a proper bipartite graph

    References
    ----------
    [Networkx] https://networkx.org/documentation/networkx-2.5/reference/algorithms/generated/networkx.algorithms.bipartite.basic.is_bipartite.html

    """
    G = BipartiteGraph.normalize(G, 'G')
    if functional:
        if onto:
            formula_name = "Graph matching"
        else:
            formula_name = "Graph functional pigeonhole principle"
    else:
        if onto:
            formula_name = "Graph onto pigeonhole principle"
        else:
            formula_name = "Graph pigeonhole principle"

    description = "{0} formula on {1}".format(formula_name, G.name)
    F = formula_class(description=description)
    p = F.new_sparse_mapping(G, label='p_{{{},{}}}')
    F.force_complete_mapping(p)

    if onto:
        F.force_surjective_mapping(p)

    F.force_injective_mapping(p)

    if functional:
        F.force_functional_mapping(p)

    return F


def BinaryPigeonholePrinciple(pigeons, holes, formula_class=CNF):
    """Binary Pigeonhole Principle CNF formula

    The binary pigeonhole principle CNF formula claims that that it is
    possibile to place :math:`m` pigeons into :math:`n` holes without
    collisions. This is clearly impossible whenever :math:`m > n`.

    This formula encodes the principle using binary strings to
    identify the holes. Let :math:`b` the smallest number of bits
    sufficient to encode in binary all values from :math:`0` to
    :math:`n-1`. For every :math:`i \\in [m]` there are :math:`b`
    dedicated boolean variables encoding the hole where the pigeon
    :math:`i` flies.

    Parameters
    ----------
    pigeon: int
        number of pigeons (must be >=0).
    hole: int
        number of holes (must be >=0).

    Returns
    -------
    :py:class:`cnfgen.formula.cnf.CNF`
         A CNF formulas encoding binary the pigeonhole principle.

    Raises
    ------
    TypeError
        If either `pigeons` or `holes` is not an integer number.
    ValueError
        If either `pigeons` or `holes` is less than zero.
    """
    non_negative_int(pigeons, 'pigeon')
    non_negative_int(holes, 'holes')

    description = "Binary Pigeonhole Principle for {0} pigeons and {1} holes".format(
        pigeons, holes)
    F = formula_class(description=description)

    p = F.new_binary_mapping(pigeons, holes)
    F.force_complete_mapping(p)
    F.force_injective_mapping(p)
    return F


def RelativizedPigeonholePrinciple(pigeons, resting_places, holes, formula_class=CNF):
    """Relativized Pigeonhole Principle CNF formula

    This formula is a variant of the pigeonhole principle. We consider
    :math:`m` pigeons, :math:`r` resting places, and :math:`n` holes.
    The formula claims that pigeons can fly into holes with no
    conflicts, with the additional caveat that before landing in
    a hole, each pigeon stops in some resting place. No two pigeons
    can rest in the same place.

    The formula is encoded with variables :math:`p_{i,j}` for :math:`i
    \\in [m]` and :math:`k \\in [t]`, and variables :math:`q_{k,j}`
    for :math:`k \\in [t]` and :math:`j \\in [n]`. The intended
    meaning is that :math:`p_{i,k}` is `True` when pigeon :math:`i`
    rests into a resting place :math:`k`, and :math:`q_{k,j}` is
    `True` when the pigeon resting at :math:`k` flies into hole
    :math:`j`. The formula is only satisfiable when :math:`m \\leq
    t \\leq n`.

    A more complete description of the formula can be found in
    [ALN16]_

    Parameters
    ----------
    pigeons: int
        number of pigeons (must be >=0).
    resting_places: int
        number of resting places (must be >=0).
    holes: int
        number of holes (must be >=0).

    Returns
    -------
    :py:class:`cnfgen.formula.cnf.CNF`
         A CNF formulas encoding the pigeonhole principle.

    Raises
    ------
    TypeError
        If either `pigeons`, `resting_places`, or `holes` is not an integer
        number.
    ValueError
        If either `pigeons`, `resting_places`, or `holes` is less than zero.

    References
    ----------
    .. [ALN16] Atserias, A., Lauria, M., & Nordstr\"om, Jakob (2016).
               Narrow Proofs May Be Maximally Long. ACM Transactions on
               Computational Logic, 17(3), 19–1–19–30.
               http://dx.doi.org/10.1145/2898435

    """
    non_negative_int(pigeons, 'pigeon')
    non_negative_int(resting_places, 'resting_places')
    non_negative_int(holes, 'holes')

    rphp = formula_class()
    rphp.header[
        'description'] = "Relativized pigeonhole principle formula for {0} pigeons, {1} resting places and {2} holes".format(
            pigeons, resting_places, holes)

    U = pigeons
    V = resting_places
    W = holes
    p = rphp.new_mapping(U, V, label='p_{{{0},{1}}}')
    q = rphp.new_mapping(V, W, label='q_{{{0},{1}}}')
    if V > 0:
        r = rphp.new_block(V, label='r_{{{0}}}')

    # NOTE: the order of ranges in the products are chosen such that related clauses appear after each other

    # (3.1a) p[u,1] v p[u,2] v ... v p[u,n] for all u \in [k]
    # Each pigeon goes into a resting place
    for u in p.domain():
        rphp.add_clause(p(u,None))
    # (3.1b) ~p[u,v] v ~p[u',v] for all u, u' \in [k], u != u', v \in [n]
    # no conflict on any resting place
    for v in p.range():
        rphp.cardinality_leq(p(None,v), 1)
    # (3.1c) ~p[u,v] v r[v] for all u \in [k], v \in [n]
    # resting place activation
    for (v, u) in product(p.range(), p.domain()):
        rphp.add_clause([-p(u, v), r(v)])
    # (3.1d) ~r[v] v q[v,1] v ... v q[v,k-1] for all v \in [n]
    # pigeons leave the resting place
    for v in q.domain():
        rphp.add_clause([-r(v)] + list(q(v, None)))
    # (3.1e) ~r[v] v ~r[v'] v ~q[v,w] v ~q[v',w] for all v, v' \in [n], v != v', w \in [k-1]
    # no conflict on any hole, for two pigeons coming from two resting places
    for (w, (v1, v2)) in product(q.range(), combinations(q.domain(), 2)):
        rphp.add_clause([-r(v1), -r(v2), -q(v1, w), -q(v2, w)])

    return rphp
