#!/usr/bin/env python
# -*- coding:utf-8 -*-
"""Implementation of Thapen's size-width tradeoff formula
"""

from itertools import product

from cnfgen.formula.cnf import CNF
from cnfgen.localtypes import positive_int


def intlog2(x):
    """Compute the ceiling of the log2(x)"""
    ilog = 0
    while 2**ilog < x:
        ilog += 1
    return ilog


def CPLSFormula(a, b, c, formula_class=CNF):
    """Thapen's size-width tradeoff formula

    The formula is a propositional version of the coloured polynomial
    local search principle (CPLS). A description can be found in [1]_.
    The difference with the formula in the paper is that here unary
    indices start from 1 instead of 0. Binary strings stil counts from
    0, therefore the mappings :math:`f[i](x)=x'` is actually
    represented in binary with the binary representation
    of :math:`x'-1`.

    Parameters
    ----------
    a: integer
       number of levels
    b: integer
       nodes per level (must be a power of 2)
    c: integer
       number of colours (must be a power of 2)

    References
    ----------
    .. [1] N. Thapen (2016)
           Trade-offs between length and width in resolution.
           Theory of Computing, 12(1), 1–14.

    """
    positive_int(a, 'a')
    positive_int(b, 'b')
    positive_int(c, 'c')
    if b & (b - 1):
        raise ValueError("b must be a power of two.")
    if c & (c - 1):
        raise ValueError("c must be a power of two.")

    description = "Thapen's CPLS formula with {} levels, {} nodes per level, {} colours".format(a, b, c)
    F = formula_class(description=description)

    # 1. For each 1 <= i <= a, 1 <= x <= b and 1 <= y <= c
    # G_i(x, y)
    G = F.new_block(a, b, c, label='G_{}({},{})')

    # 2. For each 1 <= i <= a, 1 <= x <= b and j < log b
    # (f_i(x))_j
    f = [None]
    for i in range(1,a+1):
        ilabel = '(f_{{'+str(i)+'}}'+'({}))_{{{}}}'
        f.append(F.new_binary_mapping(b, b, label=ilabel))

    # 3. For each 1 <= x <= b and j < log c, there is a variable (u(x))_j,
    # (u(x))_j
    u = F.new_binary_mapping(b, c, label='(u({0}))_{{{1}}}')

    # Axiom 1. For each 1 <= y <= c, the clause ~G_1(1, y)
    for var in G(1, 1, None):
        F.add_clause([-var])

    # Axiom 2. For each 1 <= i < a, each pair x,x' in [b] and each [c],
    #    the clause f_i(x) = x' ^ G_{i+1}(x', y) -> G_i(x, y)
    domains = product(range(1, a),
                      range(1, b+1),
                      range(1, b+1),
                      range(1, c+1))
    for i, x, xx, y in domains:
        first = f[i].forbid(x, xx - 1)
        F.add_clause(first + [-G(i+1, xx, y), G(i, x, y)])

    # Axiom 3. For each 1 <= x <= b and each 1 <= y <= c,
    #     the clause u(x) = y-1 -> G_{a}(x, y)
    for x, y in product(range(1, b+1), range(1, c+1)):
        F.add_clause(u.forbid(x, y - 1) + [G(a, x, y)])

    nvars = a*b*c + a*b*intlog2(b) + b*intlog2(c)
    ncls = c + (a-1)*b*b*c + b*c
    assert F.number_of_variables() == nvars
    assert len(F) == ncls
    return F
