#!/usr/bin/env python
"""CNF Formulas for Ramsey-like statements
"""


from textwrap import dedent
from itertools import combinations
from math import sqrt

from cnfgen.formula.cnf import CNF
from cnfgen.localtypes import positive_int, positive_int_seq
from cnfgen.localtypes import non_negative_int

def PythagoreanTriples(N, formula_class=CNF):
    """There is a Pythagorean triples free coloring on N

    The formula claims that it is possible to bicolor the numbers from
    1 to :math:`N` so that there  is no monochromatic triplet
    :math:`(x,y,z)` so that :math:`x^2+y^2=z^2`.

    Parameters
    ----------
    N  : int
         size of the interval

    Return
    ------
    A CNF object

    Raises
    ------
    ValueError
       Parameters are not positive
    TypeError
       Parameters are not integers

    References
    ----------
    .. [1] M. J. Heule, O. Kullmann, and V. W. Marek.
           Solving and verifying the boolean pythagorean triples problem via cube-and-conquer.
           arXiv preprint arXiv:1605.00723, 2016.
    """
    non_negative_int(N, 'N')

    description = "Pythagorean triples problem on 1...{}".format(N)
    F = formula_class(description=description)

    # Variables represent the coloring of the number
    v = F.new_block(N, label='v({})')

    for x, y in combinations(range(1, N + 1), 2):
        z = int(sqrt(x**2 + y**2))
        if z <= N and z**2 == x**2 + y**2:
            F.add_clause([+v(x), +v(y), +v(z)])
            F.add_clause([-v(x), -v(y), -v(z)])

    return F


def RamseyNumber(s, k, N, formula_class=CNF):
    """Ramsey number r(s,k) > N

    This formula, given :math:`s`, :math:`k`, and :math:`N`, claims
    that there is some graph with :math:`N` vertices which has neither
    independent sets of size :math:`s` nor cliques of size :math:`k`.

    It turns out that there is a number :math:`r(s,k)` so that every
    graph with at least :math:`r(s,k)` vertices must contain either
    one or the other. Hence the generated formula is satisfiable if
    and only if

    .. math::

         r(s,k) > N

    Parameters
    ----------
    s  : int
         independent set size
    k  : int
         clique size
    N  : int
         number of vertices

    Returns
    -------
    A CNF object

    Raises
    ------
    ValueError
       Parameters are not positive
    TypeError
       Parameters are not integers

    """
    non_negative_int(N, 'N')
    positive_int(s, 's')
    positive_int(k, 'k')
    description = "{}-vertices graph free of {}-independent sets and {}-cliques".format(N, s, k)
    ram = formula_class(description=description)

    # One variable per edge (indices are ordered)
    e = ram.new_combinations(N, 2, label='e_{{{}}}')

    # No independent set of size s
    for vertex_set in combinations(range(1, N + 1), s):
        clause = [e(u, v) for u, v in combinations(vertex_set, 2)]
        ram.add_clause(clause)

    # No clique of size k
    for vertex_set in combinations(range(1, N + 1), k):
        clause = [-e(u, v) for u, v in combinations(vertex_set, 2)]
        ram.add_clause(clause)

    return ram


def _vdw_ap_generator(N, k):
    '''Generates arithmetic progressions of length k in 1...N'''

    # the largest gap d must be such that
    # 1+ d*(k-1) <= N
    # so d <= (N-1)/(k-1)
    if k == 1:
        # every single number is a progression of length 1
        for i in range(1, N + 1):
            yield [i]
        return
    max_d = (N - 1) // (k - 1)
    for d in range(1, max_d + 1):
        max_i = N - d * k + d
        for i in range(1, max_i + 1):
            yield [i + d * t for t in range(k)]


def VanDerWaerden(N, k1, k2, *ks, formula_class=CNF):
    """Formula claims that van der Waerden number vdw(k1,k2,k3,k4,...) > N

    Consider a coloring the of integers from 1 to :math:`N`, with
    :math:`d` colors. The coloring has an arithmetic progression of
    color :math:`c` of length :math:`k` if there are :math:`i` and
    :math:`d` so that all numbers

    .. math::

         i, i+d, i+2d, \ldots, i +(k-1)d

    have color :math:`c`. In fact, given any number of lengths
    :math:`k_1`, :math:`k_2`,..., :math:`k_C`, there is some value of
    :math:`N` large enough so that no matter how the integers
    :math:`1, \ldots, N` are colored with :math:`C` colors, such
    coloring must have one arithmetic progression of color
    :math:`c` and length :math:`k_c`.

    The smallest :math:`N` such that it is impossible to avoid the
    arithmetic progression regardless of the coloring is called van
    der Waerden number and is denotes as

    .. math::

         VDW(k_1, k_2 , \ldots, k_C)

    The formula, given :math:`N` and :math`k_1`, :math`k_2` , \ldots,
    :math`k_C`, is the CNF encoding of the claim

    .. math::

         VDW(k_1, k_2 , \ldots, k_C) > N

    which is expressed, more concretely, as a CNF which forbids, for
    each color :math:`c` between 1 and :math:`C`, all arithmetic
    progressions of length :math:`k_C`

    Parameters
    ----------
    N : int
        size of the interval
    k1: int
        length of the arithmetic progressions of color 1
    k2: int
        length of the arithmetic progressions of color 2
    *ks : optional
        lengths of the arithmetic progressions of color >2

    Returns
    -------
    A CNF object

    Raises
    ------
    ValueError
       Parameters are not positive
    TypeError
       Parameters are not integers
    """
    non_negative_int(N,'N')
    positive_int(k1,'k1')
    positive_int(k2,'k2')
    positive_int_seq(ks, '*ks')

    K = [k1, k2] + list(ks)
    K_text = ", ".join(str(k) for k in K)
    description = "is van der Waerden number vdw({1}) > {0} ?".format(
        N, K_text)
    vdw = formula_class(description=description)

    # Only one row of variable needed for 2 colors.
    if len(K) == 2:
        X = vdw.new_block(N, label='x_{{{}}}')

        for ap in _vdw_ap_generator(N, K[0]):
            vdw.add_clause([X(i) for i in ap])

        for ap in _vdw_ap_generator(N, K[1]):
            vdw.add_clause([-X(i) for i in ap])

    else:
        X = vdw.new_block(N, len(K), label='x_{{{0},{1}}}')
        for i in range(1, N + 1):
            vdw.cardinality_eq(X(i, None),  1)

        # Forbid arithmetic progressions
        for c in range(1,len(K)+1):
            for ap in _vdw_ap_generator(N, K[c - 1]):
                vdw.add_clause([-X(i, c) for i in ap])
    return vdw
