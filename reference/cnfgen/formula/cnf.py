#!/usr/bin/env python
# -*- coding:utf-8 -*-
"""Build and manipulate CNF formulas

The module `contains facilities to generate cnf formulas, in order to
be printed in DIMACS, OPB or LaTeX formats. Such formulas are ready to
be fed to sat solvers.

The module implements the `CNF` object, which is the main entry point
to the `cnfgen` library.

Copyright (C) 2012-2022  Massimo Lauria <lauria.massimo@gmail.com>
https://github.com/MassimoLauria/cnfgen.git

"""
from cnfgen.formula.cnfio import CNFio
from cnfgen.formula.linear import CNFLinear
from cnfgen.formula.variables import VariablesManager


class CNF(VariablesManager, CNFio, CNFLinear):
    """Propositional formulas in conjunctive normal form.

    A CNF  formula is a  sequence of  clauses, which are  sequences of
    literals. Each literal is either a variable or its negation.

    Use ``add_clause`` to add new clauses to CNF. Clauses will be added
    multiple times in case of multiple insertion of the same clauses.

    For documentation purpose it is possible use have an additional
    comment header at the top of the formula, which will be
    *optionally* exported to LaTeX or dimacs.

    Implementation:  for efficiency reason clauses and variable can
    only be added, and not deleted. Furthermore order matters in
    the representation.

    Examples
    --------
    >>> c=CNF([[1, 2, -3], [-2, 4]])
    >>> print( c.to_dimacs(),end='')
    p cnf 4 2
    1 2 -3 0
    -2 4 0
    >>> c.add_clause([-3, 4, -5])
    >>> print( c.to_dimacs(),end='')
    p cnf 5 3
    1 2 -3 0
    -2 4 0
    -3 4 -5 0
    >>> print(c[1])
    [-2, 4]
    """

    def __init__(self, clauses=None, description=None):
        """Propositional formulas in conjunctive normal form.

        Parameters
        ----------
        clauses : ordered list of clauses
            a clause with k literals list containing k pairs, each
            representing a literal (see `add_clause`). First element
            is the polarity and the second is the variable, which must
            be an hashable object.

            E.g. (not x3) or x4 or (not x2) is encoded as [(False,"x3"),(True,"x4"),False,"x2")]

        description: string, optional
            a description of the formula
        """
        CNFLinear.__init__(self,
                           clauses=clauses,
                           description=description)
        VariablesManager.__init__(self,self)
