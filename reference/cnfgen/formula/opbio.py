#!/usr/bin/env python
# -*- coding:utf-8 -*-
"""CNF formula with read/write capabilities"""

import os
from io import StringIO

from cnfgen.formula.cnfio import guess_output_format

from cnfgen.utils.latexoutput import to_latex_string, to_latex_document
from cnfgen.utils.opb    import to_opb_file
from cnfgen.formula.baseopb import BaseOPB

class OPBio(BaseOPB):
    """OPB class with I/O capabilities

    - read and write DIMACS
    - write to OPB format
    - write to LaTeX format

    Examples
    --------
    >>> c=OPBio()
    >>> c.cardinality_geq([1,2,4,-3],3)
    >>> print( c.to_opb(),end='')
    * #variable= 4 #constraint= 1
    +1 x1 +1 x2 +1 x4 +1 ~x3 >= 3
    """
    def __init__(self, constraints=None, description=None):
        BaseOPB.__init__(self, constraints=constraints, description=description)

    def to_opb(self):
        """Produce the OPB encoding of the formula

        .. note:: the OPB output is *ascii* encoded,
                  with non-ascii characters replaced.

        Returns
        -------
        string
            the string contains the OPB code

        Examples
        --------
        >>> c=OPBio()
        >>> c.cardinality_leq([1,4,2],2)
        >>> c.cardinality_eq([3,-4],1)
        >>> print(c.to_opb(),end='')
        * #variable= 4 #constraint= 2
        +1 ~x1 +1 ~x4 +1 ~x2 >= 1
        +1 x3 +1 ~x4 = 1

        >>> c=OPBio()
        >>> print(c.to_opb(),end='')
        * #variable= 0 #constraint= 0

        References
        ----------
        .. [1] https://www.cril.univ-artois.fr/PB12/format.pdf
        """
        output = StringIO()
        to_opb_file(self, output, export_header=False, export_varnames=False)
        return output.getvalue()

    def to_latex(self):
        """Output a LaTeX version of the CNF formula

        The CNF formula is translated into the LaTeX markup language
        [1]_, using the names of the variable literally. The formula
        is rendered in the ``align`` environment, with one clause per
        row. Negated literals are rendered using the
        ``\\neg`` command.

        The output string is ready to be included in a document, but
        it does not include neither a preamble nor is nested inside
        ``\\begin{document}`` ... ``\\end{document}``.

        .. note::  By default the LaTeX document in output is *UTF-8* encoded.

        Returns
        -------
        string
            the string contains the LaTeX code

        Examples
        --------
        >>> c=OPBio()
        >>> c.cardinality_geq([1,3,-2,4],3)
        >>> c.cardinality_eq([1,3,-2,4],3)
        >>> c.add_constraint([(2,3),(2,-1),(1,-2),">=",2])
        >>> print(c.to_latex())
        \\begin{align}
        & {x_1} + {x_3} + {\\overline{x}_2} + {x_4} \\geq 3 \\\\
        & {x_1} + {x_3} + {\\overline{x}_2} + {x_4} = 3 \\\\
        & 2{x_3} + 2{\\overline{x}_1} + {\\overline{x}_2} \\geq 2
        \\end{align}

        References
        ----------
        .. [1] http://www.latex-project.org/
        """
        return to_latex_string(self)


    def to_file(self,
                fileorname=None,
                fileformat=None,
                export_header=True,
                export_varnames=False,
                extra_text=""):
        """Save the formula to a file

        The formula is saved on file, in either as a OPB file, or
        as a LaTeX document.

        If `fileformat` is either `opb` or `tex` then the output is
        saved in the corresponding format.

        If `fileformat` is `None`, then OPB format is the default
        output format unless the file name ends with '.tex'.

        Parameters
        ----------
        fileorname: file name or file object
            where to print the file (default: <stdout>)

        fileformat: 'tex', 'opb' or None
            format of the output file

        export_header: bool
            print some additional information on the output file (default: True)

        export_varnames: bool
            add the variable ID --> name information in the dimacs (default: True)

        extra_text: str
            additional text to be included in the LaTeX output document
        """
        fileformat = guess_output_format(fileorname,fileformat)

        if fileformat == 'latex':
            to_latex_document(self,
                              fileorname,
                              export_header=export_header,
                              extra_text=extra_text)
        else:
            to_opb_file(self,
                        fileorname,
                        export_header=export_header,
                        export_varnames=export_varnames)
