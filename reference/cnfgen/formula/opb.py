#!/usr/bin/env python
# -*- coding:utf-8 -*-
"""Build and manipulate pseudo boolean formulas

The module `contains facilities to generate pseudo boolean formulas,
in order to be printed in OPB or LaTeX formats. Such formulas are
ready to be fed to sat solvers.

The module implements the `OPB` object, which is the main entry point
to the `cnfgen` library.

Copyright (C) 2012-2022  Massimo Lauria <lauria.massimo@gmail.com>
https://github.com/MassimoLauria/cnfgen.git

"""
from cnfgen.formula.opbio import OPBio
from cnfgen.formula.baseopb import BaseOPB
from cnfgen.formula.variables import VariablesManager


class OPB(VariablesManager, OPBio):
    """Pseudo boolean formula

    A OPB formula is a sequence of pseudo boolean constraints, which
    are positive integer linear combinations of boolean literals,
    either >= or == some integer number.

    Use ``add_constraint`` to add new constraint to the formula, but
    in this case there is no restriction of negative of positive
    coefficients, and the operator can be '>=', '<=', '==', '>', '<'.

    Use ``add_clause`` to add just disjunction of literals.

    Constraints will be added multiple times in case of multiple insertion.

    For documentation purpose it is possible use have an additional
    comment header at the top of the formula, which will be
    *optionally* exported to LaTeX or dimacs.

    Implementation:  for efficiency reason constraints and variables
    can only be added, and not deleted. Furthermore order matters in
    the representation.

    Examples
    --------
    >>> c=OPB()
    >>> c.add_clause([1, 2, -3])
    >>> c.add_clause([-2, 4])
    >>> c.add_clause([-3, 4, -5])
    >>> print(c[1])
    [(1, -2), (1, 4), '>=', 1]
    >>> c.add_constraint([(1,2),(4,-3), '>=', 2])
    >>> print(c[-1])
    [(1, 2), (4, -3), '>=', 2]

    >>> c = OPB()
    >>> f = c.new_mapping(5,4)
    >>> c.force_complete_mapping(f)
    >>> c.force_injective_mapping(f)
    >>> print( c.to_opb(), end='')
    * #variable= 20 #constraint= 9
    +1 x1 +1 x2 +1 x3 +1 x4 >= 1
    +1 x5 +1 x6 +1 x7 +1 x8 >= 1
    +1 x9 +1 x10 +1 x11 +1 x12 >= 1
    +1 x13 +1 x14 +1 x15 +1 x16 >= 1
    +1 x17 +1 x18 +1 x19 +1 x20 >= 1
    +1 ~x1 +1 ~x5 +1 ~x9 +1 ~x13 +1 ~x17 >= 4
    +1 ~x2 +1 ~x6 +1 ~x10 +1 ~x14 +1 ~x18 >= 4
    +1 ~x3 +1 ~x7 +1 ~x11 +1 ~x15 +1 ~x19 >= 4
    +1 ~x4 +1 ~x8 +1 ~x12 +1 ~x16 +1 ~x20 >= 4
    """

    def __init__(self, constraints=None, description=None):
        OPBio.__init__(self,
                           constraints=constraints,
                           description=description)
        VariablesManager.__init__(self,self)
