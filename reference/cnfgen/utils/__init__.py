#!/usr/bin/env python
# -*- coding:utf-8 -*-
"""Various utilities for the manipulation of the CNFs.
"""

