#!/usr/bin/env python
# -*- coding:utf-8 -*-
"""Implementation of some graph formulas helpers

Copyright (C) 2012, 2013, 2014, 2015, 2016, 2019, 2020, 2021, 2022 Massimo Lauria <massimo.lauria@uniroma1.it>
https://massimolauria.net/cnfgen/
"""

import sys

from cnfgen.families.pebbling import PebblingFormula
from cnfgen.families.pebbling import StoneFormula
from cnfgen.families.pebbling import SparseStoneFormula

from cnfgen.graphs import bipartite_random_left_regular

from cnfgen.clitools import ObtainDirectedAcyclicGraph, make_graph_doc
from cnfgen.clitools import ObtainBipartiteGraph
from cnfgen.clitools import positive_int

from .formula_helpers import FormulaHelper


class PebblingCmdHelper(FormulaHelper):
    """Command line helper for pebbling formulas
    """
    name = 'peb'

    @staticmethod
    def setup_command_line(parser):
        """Setup the command line options for pebbling formulas

        Arguments:
        - `parser`: parser to load with options.
        """

        parser.usage = "usage:\n {} [-h|--help] <dag>".format(parser.prog)

        parser.description = """The Pebbling Formula is defined on a directed acyclic graph <dag>
and claims that (1) each source vertex of <dag> (i.e. with no
predecessors) has a pebble on it; (2) if all predecessors of a vertex
are pebbled, the vertex is pebbled too; (3) the sink is not pebbled.
This is clearly unsatisfiable.

positional arguments:
  <stones>            number of stones
  <dag>               a directed acyclic graph (see \'cnfgen --help-dag\')

optional arguments:
  --help, -h          show this help message and exit
"""
        parser.add_argument('D', action=ObtainDirectedAcyclicGraph)

    @staticmethod
    def build_formula(args, formula_class):
        """Build the pebbling formula

        Arguments:
        - `args`: command line options
        """
        return PebblingFormula(args.D,
                               formula_class=formula_class)


class StoneCmdHelper(FormulaHelper):
    """Command line helper for stone formulas
    """
    name = 'stone'

    @staticmethod
    def setup_command_line(parser):
        """Setup the command line options for stone formulas

        Arguments:
        - `parser`: parser to load with options.
        """
        parser.usage = """usage:
 {} [-h|--help] <stones> <dag> [--sparse <degree>]""".format(parser.prog)

        parser.description = """A Stones formula claims that each vertex of a directed acyclic
graph <dag> is associated with one among <stones> stones.
Each stone can be either red or blue, and not both. The clauses of
the formula encode the following constraints. (1) if a stone is on
a vertex with no incoming edges, then it must be red. (2) if all
stones on the predecessors of a vertex are red, then the stone of
the vertex itself must be red. (3) the formula furthermore
enforces that the stones on the sinks (i.e. vertices with no
outgoing edges) are blue.

In the sparse variant of the Stone Formula each vertex has only
<degree> choices of stones to which it can be associated. This avoid
large clauses in the formula.

positional arguments:
  <stones>            number of stones
  <dag>               a directed acyclic graph (see \'cnfgen --help-dag\')

optional arguments:
  --sparse <degree>   each vertex can only choose among <degree> many stones
  --help, -h          show this help message and exit
"""
        parser.add_argument('s', type=positive_int)
        parser.add_argument('D', action=ObtainDirectedAcyclicGraph)
        parser.add_argument('--sparse', metavar='<degree>', type=positive_int)

    @staticmethod
    def build_formula(args, formula_class):
        """Build the stone formula

        Arguments:
        - `args`: command line options
        """
        D = args.D
        if hasattr(args, 'sparse') and args.sparse is not None:
            degree = args.sparse
            nvertices = D.order()
            nstones = args.s
            if degree > nstones:
                raise ValueError("It must hold that <degree> <= <stones>")
            B = bipartite_random_left_regular(nvertices, nstones, degree)
            return SparseStoneFormula(D, B,
                                      formula_class=formula_class)
        else:
            return StoneFormula(D, args.s,
                                formula_class=formula_class)
