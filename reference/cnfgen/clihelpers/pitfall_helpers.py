#!/usr/bin/env python
# -*- coding:utf-8 -*-
"""Formula Helpers for the Pitfall formula

Copyright (C) 2012-2022 Massimo Lauria <massimo.lauria@uniroma1.it>
https://massimolauria.net/cnfgen/
"""

from cnfgen.families.pitfall import PitfallFormula

from .formula_helpers import FormulaHelper
from cnfgen.clitools import positive_int, positive_even_int

usage = """usage:
 {0} <v> <d> <ny> <nz> <k>"""


description = """The Pitfall formula was designed to be specifically easy for
Resolution and hard for common CDCL heuristics. The formula is
unsatisfiable and consists of three parts: an easy formula, a hard
formula, and a pitfall misleading the solver into working with the
hard part. For more details, see the corresponding paper by Marc
Vinyals (AAAI 2020).

example:
 {0} 45 4 30 5 8      --- parameters used in the paper

positional arguments:
  <v>               number of vertices of the Tseitin graph
  <d>               degree of the Tseitin graph
  <ny>              number of pitfall variables
  <nz>              number of safety variables
  <k>               number of copies of the hard and pitfall parts; controls how
                    easy the easy part is

optional arguments:
  --help, -h        show this help message and exit
"""


class PitfallCmdHelper(FormulaHelper):
    name = 'pitfall'

    @staticmethod
    def setup_command_line(parser):

        parser.usage = usage.format(parser.prog)
        parser.description = description.format(parser.prog)

        parser.add_argument('v',  type=positive_int)
        parser.add_argument('d',  type=positive_int)
        parser.add_argument('ny', type=positive_int)
        parser.add_argument('nz', type=positive_int)
        parser.add_argument('k',  type=positive_even_int)

    @staticmethod
    def build_formula(args, formula_class):
        return PitfallFormula(args.v, args.d, args.ny, args.nz, args.k,
                              formula_class=formula_class)
