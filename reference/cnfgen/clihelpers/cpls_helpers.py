#!/usr/bin/env python
# -*- coding:utf-8 -*-
"""Implementation of Thapen's size-width tradeoff formula
"""

from cnfgen.families.cpls import CPLSFormula

from cnfgen.clitools import positive_int
from .formula_helpers import FormulaHelper


class CPLSCmdHelper(FormulaHelper):
    """Command line helper for Thapen's size-width tradeoff formula"""

    name = 'cpls'

    @staticmethod
    def setup_command_line(parser):
        """Setup the command line options for Thapen's size-width tradeoff formula

        Arguments:
        - `parser`: parser to load with options.
        """
        parser.usage = "usage:\n {0} [-h|--help] <a> <b> <c>".format(parser.prog)
        parser.description = """ The formula is a propositional version of the coloured polynomial
    local search principle (CPLS). A description can be found in [1].
    The difference with the formula in the paper is that here unary
    indices start from 1 instead of 0. Binary strings still counts
    from 0, therefore the mappings f[i](x)=x is actually represented
    in binary with the binary representation of x-1.

    [1] N. Thapen (2016) Trade-offs between length and width in resolution.

positional arguments:
  <a>                     number of levels
  <b>                     number of nodes per level (must be a power of two)
  <c>                     number of colours (must be a power of two)

optional arguments:
  --help, -h            show this help message and exit
"""

        parser.add_argument('a', type=positive_int)
        parser.add_argument('b', type=positive_int)
        parser.add_argument('c', type=positive_int)

    @staticmethod
    def build_formula(args, formula_class):
        """Build Thapen's size-width tradeoff formula according to the arguments

        Arguments:
        - `args`: command line options
        """
        return CPLSFormula(args.a, args.b, args.c, formula_class=formula_class)
