#!/usr/bin/env python
# -*- coding:utf-8 -*-
"""Implementation of counting/matching formulas helpers

Copyright (C) 2012, 2013, 2014, 2015, 2016, 2019, 2020, 2021, 2022, 2023 Massimo Lauria <massimo.lauria@uniroma1.it>
https://massimolauria.net/cnfgen/
"""

from cnfgen.families.counting import CountingPrinciple
from cnfgen.families.counting import PerfectMatchingPrinciple
from cnfgen.families.tseitin import TseitinFormula
from cnfgen.families.subsetcardinality import SubsetCardinalityFormula

from cnfgen.clitools import ObtainSimpleGraph
from cnfgen.clitools import ObtainBipartiteGraph
from cnfgen.clitools import make_graph_from_spec, make_graph_doc

from cnfgen.clitools import CLIParser, compose_two_parsers
from cnfgen.clitools import positive_int, nonnegative_int

from .formula_helpers import FormulaHelper

import random
import argparse


class ParityCmdHelper(FormulaHelper):
    """Command line helper for Parity Principle formulas
    """
    name = 'parity'

    @staticmethod
    def setup_command_line(parser):
        """Setup the command line options for Parity Principle formula

        Arguments:
        - `parser`: parser to load with options.
        """
        parser.usage = "usage:\n {0} N".format(parser.prog)
        parser.description = """The formula claims that a set of N elements can
be grouped in pairs. This is of course possible only if N is even.

positional arguments:
  N                       number of elements

optional arguments:
  --help, -h              show this help message and exit
"""
        parser.add_argument('N', type=nonnegative_int)

    @staticmethod
    def build_formula(args, formula_class):
        return CountingPrinciple(args.N, 2,
                                 formula_class=formula_class)


class PMatchingCmdHelper(FormulaHelper):
    """Command line helper for Perfect Matching Principle formulas
    """
    name = 'matching'

    @staticmethod
    def setup_command_line(parser):
        """Setup the command line options for Perfect Matching Principle formula

        Arguments:
        - `parser`: parser to load with options.
        """
        parser.usage = "usage:\n {0} [-h|--help] G".format(parser.prog)
        parser.description = """The perfect matching principle claims that
a graph G has a perfect matching.

positional arguments:
  G                     a simple undirected graph (see 'cnfgen --help-graph')

optional arguments:
  --help, -h            show this help message and exit
"""
        parser.add_argument('G',action=ObtainSimpleGraph)

    @staticmethod
    def build_formula(args, formula_class):
        return PerfectMatchingPrinciple(args.G,
                                        formula_class=formula_class)


class CountingCmdHelper(FormulaHelper):
    """Command line helper for Counting Principle formulas
    """
    name = 'count'

    @staticmethod
    def setup_command_line(parser):
        """Setup the command line options for Counting Principle formula

        Arguments:
        - `parser`: parser to load with options.
        """
        parser.usage = "usage:\n {0} [-h|--help] M p".format(parser.prog)
        parser.description = """The formula claims that a set of M elements can be partitioned in sets
of size p each. This is of course possible only if p divides M.

positional arguments:
  M                       domain size
  p                       size of each part
optional arguments:
  --help, -h              show this help message and exit
"""
        parser.add_argument('M', type=nonnegative_int)
        parser.add_argument('p', type=positive_int)

    @staticmethod
    def build_formula(args, formula_class):
        """Build an Counting Principle formula according to the arguments

        Arguments:
        - `args`: command line options
        """
        return CountingPrinciple(args.M, args.p,
                                 formula_class=formula_class)


tse_help_usage = """usage:
 {0} N                --- random 4-regular graph with N vertices.
 {1}                      Random odd charge
 {0} N d              --- random d-regular graph with N vertices.
 {1}                      Random odd charge
 {0} <charge> <graph> --- specific <charge> on specific <graph>
"""

tse_help_description = """A Tseitin formula is defined over a simple undirected graph G.
Each vertex has a {{0,1}} charge and the variables of the formula are
graph's edges. Formula asks to set all edges so that the charge of
each vertex is equal (mod 2) with the sum of the values of the edges
adjacent to that edge.

examples:

 {0} 100 4                 --- Random odd charge on 4-regular graph of size 100
 {0} randomeven gnd 20 6   --- Random odd charge on 6-regular graph of size 20
 {0} first file.dot        --- Put odd charge just on first vertex on graph in 'file.dot'

positional arguments:
  <charge>       --- It can be one of the following:
                     `first'  puts odd charge on first vertex;
                     `random' puts a random charge on vertices;
                     `randomodd' puts random odd  charge on vertices;
                     `randomeven' puts random even charge on vertices;
                     `zero' puts charge 0 on every vertex;
                     `one'  puts charge 1 on every vertex.
  <graph>        --- a simple undirected graph (see 'cnfgen --help-graph')

optional arguments:
  --help, -h            show this help message and exit
"""


class TseitinCmdHelper(FormulaHelper):
    """Command line helper for Tseitin  formulas
    """
    name = 'tseitin'

    @staticmethod
    def setup_command_line(parser):
        """Setup the command line options for Tseitin formula

        Arguments:
        - `parser`: parser to load with options.
        """

        parser.usage = tse_help_usage.format(
            parser.prog, " " * len(parser.prog))
        parser.description = tse_help_description.format(
            parser.prog, " " * len(parser.prog))

        shortcut = CLIParser()
        shortcut.add_argument('N', type=positive_int, action='store')
        shortcut.add_argument('d',
                              nargs='?',
                              type=positive_int,
                              action='store',
                              default=4)

        longform = CLIParser()
        longform.add_argument(
            'charge',
            metavar='<charge>',
            choices=['first', 'random', 'randomodd', 'randomeven','zero','one'],
            help="""charge on the vertices.
                                    `first'  puts odd charge on first vertex;
                                    `random' puts a random charge on vertices;
                                    `randomodd' puts random odd  charge on vertices;
                                    `randomeven' puts random even charge on vertices;
                                    `zero' puts charge 0 on every vertex;
                                    `one'  puts charge 1 on every vertex.
                                     """)
        longform.add_argument(
            'G',
            metavar='<graph>',
            help='a simple undirected graph (see \'cnfgen --help-graph\')',
            action=ObtainSimpleGraph)

        tsaction = compose_two_parsers(shortcut, longform)
        parser.add_argument('args',
                            action=tsaction,
                            nargs='*',
                            help=argparse.SUPPRESS)

    @staticmethod
    def build_formula(args, formula_class):
        """Build Tseitin formula according to the arguments

        Arguments:
        - `args`: command line options
        """
        if not hasattr(args, 'G'):
            N = args.N
            d = args.d
            if N <= d:
                raise ValueError(
                    "There are no {}-regular graphs with {} vertices.\n"
                    "The graph order must be larger than degree.".format(d, N))
            if N * d % 2 == 1:
                raise ValueError(
                    "There are no {}-regular graphs with {} vertices.\n"
                    "Either the order or the degree must be even.".format(
                        d, N))
            G = make_graph_from_spec('simple', ["gnd", N, d])
            charge = [random.randint(0, 1) for _ in range(G.order() - 1)]
            charge.append(1 - sum(charge) % 2)
        else:
            G = args.G

        if G.order() < 1:
            charge = None

        elif not hasattr(args, 'charge'):

            pass

        elif args.charge == 'first':

            charge = [1] + [0] * (G.order() - 1)

        elif args.charge == 'zero':

            charge = [0] * G.order()

        elif args.charge == 'one':

            charge = [1] * G.order()

        else:  # random vector
            charge = [random.randint(0, 1) for _ in range(G.order() - 1)]

            parity = sum(charge) % 2

            if args.charge == 'random':
                charge.append(random.randint(0, 1))
            elif args.charge == 'randomodd':
                charge.append(1 - parity)
            elif args.charge == 'randomeven':
                charge.append(parity)
            else:
                raise ValueError(
                    'Illegal charge specification on command line')

        return TseitinFormula(G, charge,
                              formula_class=formula_class)


ssc_help_usage = """usage:
 {0} N               --- unsat instance of width 3
 {0} N d             --- unsat instance of width d//2 + 1
 {0} <bipartite>     --- formula over a bipartite graph
 {1}                     (see 'cnfgen --help-bipartite')"""

ssc_help_description = """Subset cardinality formula is defined over a bipartite graph: boolean
values are associated to the edges of the graph are set to {{0,1}}.
The formula claims that all vertices on the left have the (loose)
majority of edges set to 1, and all vertices on the right have the
(loose) majority of edges set to 0. The hard unsat cases are when the
graph is a (N,N)-bipartite d-regular graph with an additional edge.
 In particular with d=4 such formula is an unsat 3-CNF, typically hard
for resolution.

examples:
 {0} 100             --- (100,100)-bipartite 4-regular + 1 edge
 {0} 20 6            --- (20,20)-bipartite 4-regular + 1 edge
 {0} scheme.matrix   --- edges of the graphs are specificed by
 {1}                     graph in 'scheme.matrix'

positional arguments:
  N                  --- size of the bipartite graph
  d                  --- size of each constraint
  <bipartite>        --- bipartite graph underlying the formula

optional arguments:
  --equal, -e        encode cardinality constraints as equations
  --help, -h         show this help message and exit
"""
class SCCmdHelper(FormulaHelper):
    name = 'subsetcard'

    @staticmethod
    def setup_command_line(parser):

        parser.usage = ssc_help_usage.format(
            parser.prog, " " * len(parser.prog))
        parser.description = ssc_help_description.format(
            parser.prog, " " * len(parser.prog))

        # now we setup the main parser for the formula generation command
        firstparser = CLIParser()
        firstparser.add_argument('N', type=positive_int, action='store')
        firstparser.add_argument('d',
                                 nargs='?',
                                 type=positive_int,
                                 action='store',
                                 default=4)
        secondparser = CLIParser()
        secondparser.add_argument('B', action=ObtainBipartiteGraph)

        scaction = compose_two_parsers(firstparser, secondparser)

        parser.add_argument('--equal',
                            '-e',
                            default=False,
                            action='store_true',
                            help="encode cardinality constraints as equations")
        parser.add_argument('args',
                            metavar='<graph_description>',
                            action=scaction,
                            nargs='*',
                            help=argparse.SUPPRESS)

    @staticmethod
    def build_formula(args, formula_class):
        if hasattr(args, 'N'):
            N = args.N
            d = args.d
            B = make_graph_from_spec('bipartite',
                                     ['regular', N, N, d, 'addedges', 1])
        elif hasattr(args, 'B'):
            B = args.B
        return SubsetCardinalityFormula(B, args.equal,
                                        formula_class=formula_class)
