#!/usr/bin/env python
# -*- coding:utf-8 -*-
"""Transformation Helpers for command line

Copyright (C) 2012, 2013, 2014, 2015, 2016, 2019, 2020, 2021 Massimo Lauria <massimo.lauria@uniroma1.it>
https://massimolauria.net/cnfgen/
"""

import argparse

# Formula transformation implemented
from cnfgen.transformations.shuffle import Shuffle
from cnfgen.transformations.substitutions import AllEqualSubstitution
from cnfgen.transformations.substitutions import ExactlyOneSubstitution
from cnfgen.transformations.substitutions import ExactlyKSubstitution
from cnfgen.transformations.substitutions import AnythingButKSubstitution
from cnfgen.transformations.substitutions import AtMostKSubstitution
from cnfgen.transformations.substitutions import AtLeastKSubstitution
from cnfgen.transformations.substitutions import FlipPolarity
from cnfgen.transformations.substitutions import FormulaLifting
from cnfgen.transformations.substitutions import IfThenElseSubstitution
from cnfgen.transformations.substitutions import MajoritySubstitution
from cnfgen.transformations.substitutions import NotAllEqualSubstitution
from cnfgen.transformations.substitutions import OrSubstitution
from cnfgen.transformations.substitutions import VariableCompression
from cnfgen.transformations.substitutions import XorSubstitution

from cnfgen.clitools import ObtainBipartiteGraph, make_graph_doc, make_graph_from_spec
from cnfgen.clitools import CLIParser, positive_int, compose_two_parsers


class TransformationHelper:
    """Command line helper for a formula family"""
    name = ""

    @staticmethod
    def setup_command_line(parser):
        """Setup the command line parser for this transformation subcommand"""
        raise NotImplementedError(
            "Transformation family helper must be subclassed")

    @staticmethod
    def transform_cnf(F, args):
        """Build the new CNF by applying the transformation"""
        raise NotImplementedError(
            "Transformation family helper must be subclassed")


class ShuffleCmd(TransformationHelper):
    """Shuffle
    """
    name = 'shuffle'

    @staticmethod
    def setup_command_line(parser):

        parser.usage="""usage:
 {0} [-p] [-v] [-c]""".format(parser.prog)

        parser.description= """Randomly reorder the formula, shuffling the variables, the clauses and
flipping the polarity of literal.

optional arguments:
  --no-polarity-flips, -p
                        Suppress polarity flips (default: active)
  --no-variables-permutation, -v
                        Suppress variable permutations (default: active)
  --no-clauses-permutation, -c
                        Suppress clauses permutations (default: active)
  --help, -h          show this help message and exit
"""

        parser.add_argument('--no-polarity-flips',
                            '-p',
                            action='store_true',
                            default=False,
                            dest='no_polarity_flips')
        parser.add_argument('--no-variables-permutation',
                            '-v',
                            action='store_true',
                            default=False,
                            dest='no_variables_permutation')
        parser.add_argument('--no-clauses-permutation',
                            '-c',
                            action='store_true',
                            default=False,
                            dest='no_clauses_permutation')

    @staticmethod
    def transform_cnf(F, args):
        return Shuffle(
            F,
            polarity_flips='fixed' if args.no_polarity_flips else 'shuffle',
            variables_permutation='fixed'
            if args.no_variables_permutation else 'shuffle',
            clauses_permutation='fixed'
            if args.no_clauses_permutation else 'shuffle')


#
# Command line helpers for these substitutions
#


class NoSubstitutionCmd(TransformationHelper):
    name = 'none'
    description = 'no transformation'

    @staticmethod
    def setup_command_line(parser):
        parser.usage = "usage:\n {0}".format(parser.prog)

        parser.description =\
"""No transformation is applied.

optional arguments:
  --help, -h          show this help message and exit
"""
        pass

    @staticmethod
    def transform_cnf(F, args):
        return F


class OrSubstitutionCmd(TransformationHelper):
    name = 'or'

    @staticmethod
    def setup_command_line(parser):
        parser.usage = "usage:\n {0} N".format(parser.prog)

        parser.description =\
"""The value of each original variable X substituted with the
predicate ``X(1) or ... or X(N)'' where variables X(1), ..., X(N)
are new.

positional arguments:
  N                   the arity of the or operator

optional arguments:
  --help, -h          show this help message and exit
"""
        parser.add_argument('N', type=positive_int)

    @staticmethod
    def transform_cnf(F, args):
        return OrSubstitution(F, args.N)


class XorSubstitutionCmd(TransformationHelper):
    name = 'xor'

    @staticmethod
    def setup_command_line(parser):
        parser.usage = "usage:\n {0} N".format(parser.prog)

        parser.description =\
"""The value of each original variable X substituted with the
predicate ``X(1)+...+X(N) == 1 (mod 2)'' where variables
X(1), ..., X(N) are new.

positional arguments:
  N                   the arity of the sum

optional arguments:
  --help, -h          show this help message and exit
"""
        parser.add_argument('N', type=positive_int)

    @staticmethod
    def transform_cnf(F, args):
        return XorSubstitution(F, args.N)


class AllEqualsSubstitutionCmd(TransformationHelper):
    name = 'eq'

    @staticmethod
    def setup_command_line(parser):
        parser.usage = "usage:\n {0} N".format(parser.prog)

        parser.description =\
"""The value of each original variable X substituted with the
 predicate claiming that all the new variables X(1),...,X(N) have
 the same value.

positional arguments:
  N                   the arity of the predicate

optional arguments:
  --help, -h          show this help message and exit
"""
        parser.add_argument('N', type=positive_int)

    @staticmethod
    def transform_cnf(F, args):
        return AllEqualSubstitution(F, args.N)


class NeqSubstitutionCmd(TransformationHelper):
    name = 'neq'

    @staticmethod
    def setup_command_line(parser):
        parser.usage = "usage:\n {0} N".format(parser.prog)

        parser.description =\
"""The value of each original variable X substituted with the
 predicate claiming that the new variables X(1),...,X(N) do not have
 all the same value.

positional arguments:
  N                   the arity of the predicate

optional arguments:
  --help, -h          show this help message and exit
"""
        parser.add_argument('N', type=positive_int)

    @staticmethod
    def transform_cnf(F, args):
        return NotAllEqualSubstitution(F, args.N)


class MajSubstitution(TransformationHelper):
    name = 'maj'

    @staticmethod
    def setup_command_line(parser):
        parser.usage = "usage:\n {0} N".format(parser.prog)

        parser.description =\
"""The value of each original variable X substituted with the
predicate ``X(1)+...+X(N) >= N/2'' where variables X(1), ..., X(N)
are new.

positional arguments:
  N                   the arity of the sum

optional arguments:
  --help, -h          show this help message and exit
"""
        parser.add_argument('N', type=positive_int)

    @staticmethod
    def transform_cnf(F, args):
        return MajoritySubstitution(F, args.N)


class IfThenElseSubstitutionCmd(TransformationHelper):
    name = 'ite'

    @staticmethod
    def setup_command_line(parser):
        parser.usage="usage:\n {0}".format(parser.prog)
        parser.description=\
"""Substitute a variable X with the predicate
  if C then Y else Z
where C, Y, Z are new variables.

optional arguments:
  --help, -h          show this help message and exit
"""

    @staticmethod
    def transform_cnf(F, args):
        return IfThenElseSubstitution(F)


class ExactlyOneSubstitutionCmd(TransformationHelper):
    name = 'one'

    @staticmethod
    def setup_command_line(parser):
        parser.usage = "usage:\n {0} N".format(parser.prog)

        parser.description =\
"""The value of each original variable X substituted with the
 predicate X(1)+...+X(N) == 1 where variables X(1), ..., X(N) are new.

positional arguments:
  N                   the arity of the sum

optional arguments:
  --help, -h          show this help message and exit
"""
        parser.add_argument('N', type=positive_int)

    @staticmethod
    def transform_cnf(F, args):
        return ExactlyOneSubstitution(F, args.N)


class AtLeastKSubstitutionCmd(TransformationHelper):
    name = 'atleast'

    @staticmethod
    def setup_command_line(parser):
        parser.usage = "usage:\n {0} N k".format(parser.prog)

        parser.description =\
"""The value of each original variable X substituted with the
 predicate X(1)+...+X(N) >= k where variables X(1), ..., X(N) are new.

positional arguments:
  N                   the arity of the sum
  k                   the lower threshold

optional arguments:
  --help, -h          show this help message and exit
"""
        parser.add_argument('N', type=positive_int)
        parser.add_argument('K', type=positive_int)

    @staticmethod
    def transform_cnf(F, args):
        return AtLeastKSubstitution(F, args.N, args.K)


class AtMostKSubstitutionCmd(TransformationHelper):
    name = 'atmost'

    @staticmethod
    def setup_command_line(parser):
        parser.usage = "usage:\n {0} N k".format(parser.prog)

        parser.description =\
"""The value of each original variable X substituted with the
 predicate X(1)+...+X(N) <= k where variables X(1), ..., X(N) are new.

positional arguments:
  N                   the arity of the sum
  k                   the upper threshold

optional arguments:
  --help, -h          show this help message and exit
"""
        parser.add_argument('N', type=positive_int)
        parser.add_argument('K', type=positive_int)

    @staticmethod
    def transform_cnf(F, args):
        return AtMostKSubstitution(F, args.N, args.K)


class ExactlyKSubstitutionCmd(TransformationHelper):
    name = 'exact'

    @staticmethod
    def setup_command_line(parser):
        parser.usage = "usage:\n {0} N k".format(parser.prog)

        parser.description =\
"""The value of each original variable X substituted with the
 predicate X(1)+...+X(N) == k where variables X(1), ..., X(N) are new.

positional arguments:
  N                   the arity of the sum
  k                   the desired value

optional arguments:
  --help, -h          show this help message and exit
"""
        parser.add_argument('N', type=positive_int)
        parser.add_argument('K', type=positive_int)

    @staticmethod
    def transform_cnf(F, args):
        return ExactlyKSubstitution(F, args.N, args.K)


class AnythingButKSubstitutionCmd(TransformationHelper):
    name = 'anybut'

    @staticmethod
    def setup_command_line(parser):
        parser.usage = "usage:\n {0} N k".format(parser.prog)

        parser.description =\
"""The value of each original variable X substituted with the
 predicate X(1)+...+X(N) !=k where variables X(1), ..., X(N) are new.

positional arguments:
  N                   the arity of the sum
  k                   the forbidded value

optional arguments:
  --help, -h          show this help message and exit
"""
        parser.add_argument('N', type=positive_int)
        parser.add_argument('K', type=positive_int)

    @staticmethod
    def transform_cnf(F, args):
        return AnythingButKSubstitution(F, args.N, args.K)


# Technically lifting is not a substitution, therefore it should be in
# another file. Unfortunately there is a lot of dependency from
# this one.


class FormulaLiftingCmd(TransformationHelper):
    """Lifting
    """
    name = 'lift'

    @staticmethod
    def setup_command_line(parser):
        parser.usage = "usage:\n {0} k".format(parser.prog)

        parser.description =\
"""One dimensional lifting of the formula. The value of the original
variable X is taken from one among new variables X(1), ..., X(k).
Which one is decided by the new selector variables Y(1), ..., Y(k), for
which the condition Y(1)+...+Y(k) = 1 is enforced.

positional arguments:
  k                   the rank of the lifting

optional arguments:
  --help, -h          show this help message and exit
"""
        parser.add_argument('k', type=positive_int, action='store')

    @staticmethod
    def transform_cnf(F, args):
        return FormulaLifting(F, args.k)


class FlipCmd(TransformationHelper):
    name = 'flip'

    @staticmethod
    def setup_command_line(parser):
        parser.usage = "usage:\n {0}\n".format(parser.prog)
        parser.description ="Inverts the polarity of all literals in the formula."

    @staticmethod
    def transform_cnf(F, args):

        return FlipPolarity(F)


class XorCompressionCmd(TransformationHelper):
    name = 'xorcomp'

    @staticmethod
    def setup_command_line(parser):

        parser.usage = """usage:
 {0} N
 {0} N d
 {0} <bipartite>""".format(parser.prog)

        parser.description =\
"""Variable compression: each variable in the original formula is
substituted with the XOR of d members of a set of N new variables.
Alternatively you can use

 {0} <mapping>

to give an explicit mapping between each original variable and the
corresponding set of new variables. In this case <mapping> is
a bipartite graph (see 'cnfgen --help-bipartite').

positional arguments:
  N           number of new variables
  d           arity of majority (default: 3)
  <mapping>   a bipartite graph (see 'cnfgen --help-bipartite')

optional arguments:
  --help, -h          show this help message and exit
""".format(parser.prog)

        firstparser = CLIParser()
        firstparser.add_argument('N', type=positive_int, action='store')
        firstparser.add_argument('d',
                                 nargs='?',
                                 type=positive_int,
                                 action='store',
                                 default=3)
        secondparser = CLIParser()
        secondparser.add_argument('B', action=ObtainBipartiteGraph)

        action = compose_two_parsers(firstparser, secondparser)

        parser.add_argument('args',
                            metavar='<graph_description>',
                            action=action,
                            nargs='*',
                            help=argparse.SUPPRESS)

    @staticmethod
    def transform_cnf(F, args):
        if hasattr(args, 'N'):
            N = args.N
            d = args.d
            V = len(list(F.variables()))
            B = make_graph_from_spec('bipartite', ['glrd', V, N, d])
        elif hasattr(args, 'B'):
            B = args.B

        return VariableCompression(F, B, function='xor')


class MajCompressionCmd(TransformationHelper):
    name = 'majcomp'

    @staticmethod
    def setup_command_line(parser):

        parser.usage = """usage:
 {0} N
 {0} N d
 {0} <bipartite>""".format(parser.prog)

        parser.description =\
"""Variable compression: each variable in the original formula is
substituted with the majority of d members of a set of N new
variables. Alternatively you can use

 {0} <mapping>

to give an explicit mapping between each original variable and the
corresponding set of new variables. In this case <mapping> is
a bipartite graph (see 'cnfgen --help-bipartite').

positional arguments:
  N           number of new variables
  d           arity of majority (default: 3)
  <mapping>   a bipartite graph (see 'cnfgen --help-bipartite')

optional arguments:
  --help, -h          show this help message and exit
""".format(parser.prog)

        firstparser = CLIParser()
        firstparser.add_argument('N', type=positive_int, action='store')
        firstparser.add_argument('d',
                                 nargs='?',
                                 type=positive_int,
                                 action='store',
                                 default=3)
        secondparser = CLIParser()
        secondparser.add_argument('B', action=ObtainBipartiteGraph)

        action = compose_two_parsers(firstparser, secondparser)

        parser.add_argument('args',
                            metavar='<graph_description>',
                            action=action,
                            nargs='*',
                            help=argparse.SUPPRESS)

    @staticmethod
    def transform_cnf(F, args):
        if hasattr(args, 'N'):
            N = args.N
            d = args.d
            V = len(list(F.variables()))
            B = make_graph_from_spec('bipartite', ['glrd', V, N, d])
        elif hasattr(args, 'B'):
            B = args.B

        return VariableCompression(F, B, function='maj')
