#!/usr/bin/env python
# -*- coding:utf-8 -*-
"""Implementation of some Ordering principle helpers

Copyright (C) 2012, 2013, 2014, 2015, 2016, 2019, 2020, 2021, 2022 Massimo Lauria <massimo.lauria@uniroma1.it>
https://massimolauria.net/cnfgen/
"""

import argparse

from cnfgen.families.ordering import OrderingPrinciple
from cnfgen.families.ordering import GraphOrderingPrinciple

from cnfgen.clitools import ObtainSimpleGraph
from cnfgen.clitools import CLIParser, compose_two_parsers
from cnfgen.clitools import make_graph_from_spec, make_graph_doc

from .formula_helpers import FormulaHelper

help_usage = """usage:
 {0} [-h|--help] [--total] [--smart]
     [--knuth2] [--knuth3] [--plant] N

usage variants:
 {0} N         --- ordering principle on domain of size N
 {0} N d       --- graph ordering principle on
                   random d-regular graph with N vertices.
 {0} <graph>   --- graph ordering principle
                   on <graph> (see 'cnfgen --help-graph')
"""

help_description = """The ordering principle (OP) claims that a partially ordered set of
size N must have a minimal element. This formula translate this into
an unsatisfiable CNF. The graph ordering principle (GOP) is similar:
it claims that any partial order on the vertices of a graph induces
a vertex which is minimal with respect to its neighborhood.

There are variants in which for example we consider total assignment
(see '--total' flag), or where we optimize or reduce the formula in
various ways (see '--smart', --knuth2' and '--knuth3') while keeping
it unsatisfiable.

examples:
 {0} 50                    --- Ordering principle on 50 elements
 {0} 100 4                 --- GOP on 4-regular graph of size 100
 {0} gnm 20 60             --- GOP on random graph with 20 vertices and 60 edges
 {0} file.dot --plant      --- GOP on graph in 'file.dot', satisfiable variant

optional arguments:
 --total, -t               the order must be total (default: off)
 --smart, -s               encode 'x<y' and 'x>y' using a single variable.
                           Implies totality. (default: off)
 --knuth2                  Donald E. Knuth variant, include transitivity axioms
                           \"(i<j)(j<k)->(i,k)\" only for j>i,k (default: off)
 --knuth3                  Donald E. Knuth variant, include transitivity axioms
                           \"(i<j)(j<k)->(i,k)\" only for k>i,j (default: off)
 --plant, -p               allow one minimum element (default: off)
 --help, -h                show this help message and exit
"""


class OPCmdHelper(FormulaHelper):
    """Command line helper for Ordering principle formulas
    """
    name = 'op'

    @staticmethod
    def setup_command_line(parser):
        """Setup the command line options for Ordering principle formula

        Arguments:
        - `parser`: parser to load with options.
        """

        parser.usage = help_usage.format(parser.prog)
        parser.description = help_description.format(parser.prog,
                                                     " " * len(parser.prog))

        g = parser.add_mutually_exclusive_group()
        g.add_argument('--total',
                       '-t',
                       default=False,
                       action='store_true')
        g.add_argument(
            '--smart',
            '-s',
            default=False,
            action='store_true')
        g.add_argument(
            '--knuth2',
            action='store_const',
            dest='knuth',
            const=2)
        g.add_argument(
            '--knuth3',
            action='store_const',
            dest='knuth',
            const=3)
        parser.add_argument(
            '--plant',
            '-p',
            default=False,
            action='store_true',
            help="allow a minimum element (makes formula satisfiable)")

        gtparser = CLIParser()
        gtparser.add_argument('N', metavar='<N>', type=int, help="domain size")
        gtparser.add_argument('d',
                              metavar='<N>',
                              nargs='?',
                              type=int,
                              help="degree",
                              default=None)
        gopparser = CLIParser()
        gopparser.add_argument('G', action=ObtainSimpleGraph)
        opaction = compose_two_parsers(gtparser, gopparser)
        parser.add_argument('args',
                            action=opaction,
                            nargs='*',
                            help=argparse.SUPPRESS)

    @staticmethod
    def build_formula(args, formula_class):
        """Build an Ordering principle formula according to the arguments

        Arguments:
        - `args`: command line options
        """
        if hasattr(args, 'G'):
            return GraphOrderingPrinciple(args.G, args.total, args.smart,
                                          args.plant, args.knuth,
                                          formula_class=formula_class)
        elif hasattr(args, 'd') and args.d is not None:
            N = args.N
            d = args.d
            if N * d % 2 == 1:
                raise ValueError(
                    "There are no {}-regular graphs with {} vertices".format(
                        d, N))
            G = make_graph_from_spec('simple', ['gnd', N, d])
            return GraphOrderingPrinciple(G, args.total, args.smart,
                                          args.plant, args.knuth,
                                          formula_class=formula_class)
        else:
            return OrderingPrinciple(args.N, args.total, args.smart,
                                     args.plant, args.knuth,
                                     formula_class=formula_class)
