#!/usr/bin/env python
# -*- coding:utf-8 -*-
"""Formula Helper interface

Copyright (C) 2012, 2013, 2014, 2015, 2016, 2019, 2022 Massimo Lauria <massimo.lauria@uniroma1.it>
https://massimolauria.net/cnfgen/
"""


class FormulaHelper:
    """Command line helper for a formula family"""

    @staticmethod
    def setup_command_line(parser):
        """Setup the command line parser for this formula subcommand"""
        raise NotImplementedError("Formula family helper must be subclassed")

    @staticmethod
    def build_formula(args, formula_class):
        """Buil the CNF according to the parameters on the command line"""
        raise NotImplementedError("Formula family helper must be subclassed")
