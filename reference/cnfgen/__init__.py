#!/usr/bin/env python
# -*- coding:utf-8 -*-
"""Init code of the cnfgen package

Essentially it makes visible the names of the formulas and
transformations implemented, plus some IO functions.

"""

# Basic CNF object
from cnfgen.formula.cnf import CNF

# Graph IO functions
from cnfgen.graphs import readGraph, writeGraph
from cnfgen.graphs import supported_graph_formats
from cnfgen.graphs import Graph
from cnfgen.graphs import DirectedGraph
from cnfgen.graphs import BipartiteGraph

# SAT solvers
from cnfgen.utils.solver import supported_satsolvers
from cnfgen.utils.solver import some_solver_installed

# Formula families implemented
from cnfgen.families.cliquecoloring import CliqueColoring
from cnfgen.families.coloring import GraphColoringFormula
from cnfgen.families.coloring import EvenColoringFormula
from cnfgen.families.counting import CountingPrinciple
from cnfgen.families.counting import PerfectMatchingPrinciple
from cnfgen.families.dominatingset import DominatingSet
from cnfgen.families.dominatingset import Tiling
from cnfgen.families.graphisomorphism import GraphIsomorphism
from cnfgen.families.graphisomorphism import GraphAutomorphism
from cnfgen.families.ordering import OrderingPrinciple
from cnfgen.families.ordering import GraphOrderingPrinciple
from cnfgen.families.pebbling import PebblingFormula
from cnfgen.families.pebbling import StoneFormula
from cnfgen.families.pebbling import SparseStoneFormula
from cnfgen.families.pigeonhole import PigeonholePrinciple
from cnfgen.families.pigeonhole import GraphPigeonholePrinciple
from cnfgen.families.pigeonhole import BinaryPigeonholePrinciple
from cnfgen.families.pigeonhole import RelativizedPigeonholePrinciple
from cnfgen.families.ramsey import RamseyNumber
from cnfgen.families.ramsey import PythagoreanTriples
from cnfgen.families.ramsey import VanDerWaerden
from cnfgen.families.randomformulas import RandomKCNF
from cnfgen.families.randomkxor import RandomKXOR
from cnfgen.families.subgraph import SubgraphFormula
from cnfgen.families.subgraph import CliqueFormula
from cnfgen.families.subgraph import BinaryCliqueFormula
from cnfgen.families.subgraph import RamseyWitnessFormula
from cnfgen.families.subsetcardinality import SubsetCardinalityFormula
from cnfgen.families.tseitin import TseitinFormula
from cnfgen.families.pitfall import PitfallFormula
from cnfgen.families.cpls import CPLSFormula

# Formula transformation implemented
from cnfgen.transformations.substitutions import AllEqualSubstitution
from cnfgen.transformations.substitutions import ExactlyOneSubstitution
from cnfgen.transformations.substitutions import ExactlyKSubstitution
from cnfgen.transformations.substitutions import AnythingButKSubstitution
from cnfgen.transformations.substitutions import AtLeastKSubstitution
from cnfgen.transformations.substitutions import AtMostKSubstitution
from cnfgen.transformations.substitutions import FlipPolarity
from cnfgen.transformations.substitutions import FormulaLifting
from cnfgen.transformations.substitutions import IfThenElseSubstitution
from cnfgen.transformations.substitutions import MajoritySubstitution
from cnfgen.transformations.substitutions import NotAllEqualSubstitution
from cnfgen.transformations.substitutions import OrSubstitution
from cnfgen.transformations.substitutions import VariableCompression
from cnfgen.transformations.substitutions import XorSubstitution
from cnfgen.transformations.shuffle import Shuffle

# Main Command Line tool
from cnfgen.clitools import cnfgen
