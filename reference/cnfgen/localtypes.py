#!/usr/bin/env python
# -*- coding:utf-8 -*-
"""Functions to check the arguments types
"""

import numbers


def positive_int(value, name):
    """Check that `value` is a positive integer"""
    msg = "argument '{}' must be a positive integer".format(name)
    if not isinstance(value, numbers.Integral):
        raise TypeError(msg)
    if value < 1:
        raise ValueError(msg)

def positive_int_seq(value, name):
    """Check that `value` is a positive integer"""
    msg = "argument '{}' must be a sequence of positive integers".format(name)
    try:
        for v in value:
            if not isinstance(v, numbers.Integral):
                raise TypeError('non numeric element in the sequence')
    except TypeError as te:
        raise TypeError(msg) from te

    for v in value:
        if v < 1:
            raise ValueError(msg)

def non_negative_int_seq(value, name):
    """Check that `value` is a positive integer"""
    msg = "argument '{}' must be a sequence of non negative integers".format(name)
    try:
        for v in value:
            if not isinstance(v, numbers.Integral):
                raise TypeError('non numeric element in the sequence')
    except TypeError as te:
        raise TypeError(msg) from te

    for v in value:
        if v < 0:
            raise ValueError(msg)

def one_of_values(value, name, choices):
    '''Check if the value is in a specific set'''
    msg = "argument '{}' must be one of [{}]".format(name,
                                                     choices)
    if value not in choices:
        raise ValueError(msg)

def any_int(value, name):
    """Check that `value` is an integer"""
    msg = "argument '{}' must be have integer value".format(name)
    if not isinstance(value, numbers.Integral):
        raise TypeError(msg)

def non_negative_int(value, name):
    """Check that the `value` is a non negative"""
    msg = "argument '{}' must be a non negative integer".format(name)
    if not isinstance(value, numbers.Integral):
        raise TypeError(msg)
    if value < 0:
        raise ValueError(msg)


def probability_value(value, name):
    """Check that the `value` is a real between 0 and 1"""
    msg = "argument '{}' must be a real between 0 and 1".format(name)
    if not isinstance(value, numbers.Real):
        raise TypeError(msg)
    if value < 0 or value > 1:
        raise ValueError(msg)
