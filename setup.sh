#!/bin/sh
# Offline setup: the analyser is pure stdlib Python run by /venv/bin/python (falls back to python3).
# Nothing to build; verify the interpreter parses the analyser and the repository.
set -e
cd "$(dirname "$0")"
if [ -x /venv/bin/python ]; then PY=/venv/bin/python; else PY=python3; fi
mkdir -p evidence
"$PY" -W ignore -c "import sa.loader as l; p=l.Program(); print('setup ok:', p.stats())"
