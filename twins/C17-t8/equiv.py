#!/usr/bin/env python
"""Equivalence digest for the command line helpers of the transformations
'shuffle', 'xorcomp', 'majcomp' (cnfgen/clihelpers/transformation_helpers.py):
transform_cnf called directly, through `cnfgen ... -T ...` chains, through
kthlist2pebbling, and compared with the library calls."""
import os, sys, io, hashlib, random, itertools
from types import SimpleNamespace
sys.path.insert(0, os.getcwd())

from cnfgen.clihelpers.transformation_helpers import (ShuffleCmd, XorCompressionCmd,
                                                       MajCompressionCmd)
from cnfgen.clitools.cnfgen import cli as cnfgen_cli
from cnfgen.clitools.kthlist2pebbling import cli as kth_cli
from cnfgen.clitools.cmdline import redirect_stdin
from cnfgen.clitools.graph_args import make_graph_from_spec
from cnfgen.formula.cnf import CNF
from cnfgen.transformations.shuffle import Shuffle
from cnfgen.transformations.substitutions import VariableCompression
from cnfgen.families.pigeonhole import PigeonholePrinciple

out = []
def rec(*a):
    out.append(repr(a))

def fdescr(F):
    return [F.number_of_variables(), list(F.all_variable_labels()),
            [tuple(c) for c in F.clauses()],
            sorted((str(k), str(v)) for k, v in dict(F.header).items())]

def attempt(label, f, *args):
    try:
        r = f(*args)
        rec(label, 'OK', fdescr(r))
        return r
    except SystemExit as e:
        rec(label, 'EXIT', e.code)
    except BaseException as e:
        rec(label, 'EXC', type(e).__name__, str(e))

def sample_formulas():
    yield 'empty', CNF()
    yield 'emptyclause', CNF([[]])
    yield 'unit', CNF([[1]])
    yield 'small', CNF([[1, 2, -3], [-2, 4], [3], [-1, -4, 2]])
    yield 'php', PigeonholePrinciple(4, 3)

# ---- ShuffleCmd.transform_cnf directly, all 8 switch combinations + truthy values
for fname, _ in sample_formulas():
    for p, v, c in itertools.product([False, True], repeat=3):
        for seed in (0, 1, 42):
            F = dict(sample_formulas())[fname]
            random.seed(seed)
            ns = SimpleNamespace(no_polarity_flips=p, no_variables_permutation=v,
                                 no_clauses_permutation=c)
            G = attempt(('shuffle.direct', fname, p, v, c, seed), ShuffleCmd.transform_cnf, F, ns)
            rec('rng after', random.random())
            # the documented library call
            random.seed(seed)
            H = Shuffle(F, 'fixed' if p else 'shuffle', 'fixed' if v else 'shuffle',
                        'fixed' if c else 'shuffle')
            rec('same as library', G is not None and fdescr(G) == fdescr(H))
for vals in [(1, 0, ''), ('x', None, []), (None, None, None), ([0], 'fixed', 'shuffle')]:
    F = dict(sample_formulas())['small']
    random.seed(5)
    ns = SimpleNamespace(no_polarity_flips=vals[0], no_variables_permutation=vals[1],
                         no_clauses_permutation=vals[2])
    attempt(('shuffle.truthy', repr(vals)), ShuffleCmd.transform_cnf, F, ns)
# missing attributes
F = dict(sample_formulas())['small']
attempt(('shuffle.missing', 0), ShuffleCmd.transform_cnf, F, SimpleNamespace())
attempt(('shuffle.missing', 1), ShuffleCmd.transform_cnf, F, SimpleNamespace(no_polarity_flips=True))
attempt(('shuffle.missing', 2), ShuffleCmd.transform_cnf, F,
        SimpleNamespace(no_polarity_flips=True, no_variables_permutation=True))
attempt(('shuffle.missing', 3), ShuffleCmd.transform_cnf, F,
        SimpleNamespace(no_clauses_permutation=True, no_variables_permutation=True))

# ---- compression helpers directly
for cname, Cmd, fun in (('xor', XorCompressionCmd, 'xor'), ('maj', MajCompressionCmd, 'maj')):
    for fname, _ in sample_formulas():
        for N, d in [(1, 1), (2, 1), (3, 2), (4, 3), (5, 3), (3, 4), (6, 5), (12, 3), (0, 0), (3, 0), (-1, 2)]:
            F = dict(sample_formulas())[fname]
            random.seed(N * 31 + d)
            G = attempt((cname + 'comp.direct', fname, N, d), Cmd.transform_cnf, F, SimpleNamespace(N=N, d=d))
            rec('rng after', random.random())
            random.seed(N * 31 + d)
            try:
                B = make_graph_from_spec('bipartite', ['glrd', F.number_of_variables(), N, d])
                H = VariableCompression(F, B, function=fun)
                rec('same as library', G is not None and fdescr(G) == fdescr(H))
            except BaseException as e:
                rec('library EXC', type(e).__name__, str(e))
        # explicit graph
        F = dict(sample_formulas())[fname]
        n = F.number_of_variables()
        for spec in (['complete', n, 3], ['shift', n, 5, 0, 1, 2], ['empty', n, 2], ['complete', n + 1, 2]):
            try:
                B = make_graph_from_spec('bipartite', [str(x) for x in spec])
            except BaseException as e:
                rec(cname, fname, spec, 'graph EXC', type(e).__name__, str(e))
                continue
            attempt((cname + 'comp.B', fname, tuple(spec)), Cmd.transform_cnf, F, SimpleNamespace(B=B))
            # both N and B present: N wins
            random.seed(3)
            attempt((cname + 'comp.NB', fname, tuple(spec)), Cmd.transform_cnf, F, SimpleNamespace(B=B, N=4, d=2))
    F = dict(sample_formulas())['small']
    attempt((cname + 'comp.none',), Cmd.transform_cnf, F, SimpleNamespace())
    attempt((cname + 'comp.onlyN',), Cmd.transform_cnf, F, SimpleNamespace(N=3))
    attempt((cname + 'comp.onlyd',), Cmd.transform_cnf, F, SimpleNamespace(d=3))
    attempt((cname + 'comp.strN',), Cmd.transform_cnf, F, SimpleNamespace(N='5', d='2'))
    attempt((cname + 'comp.badN',), Cmd.transform_cnf, F, SimpleNamespace(N='x', d=2))
    attempt((cname + 'comp.noneN',), Cmd.transform_cnf, F, SimpleNamespace(N=None, d=2))

# ---- command lines
def cli(argv):
    lab = ('cli', tuple(argv))
    try:
        F = cnfgen_cli(['cnfgen'] + argv, mode='formula')
        rec(lab, 'OK', fdescr(F))
        rec(lab, 'rng after', random.random())
    except SystemExit as e:
        rec(lab, 'EXIT', e.code)
    except BaseException as e:
        rec(lab, 'EXC', type(e).__name__, str(e))

cmds = []
for flags in itertools.chain.from_iterable(itertools.combinations(['-p', '-v', '-c'], r) for r in range(4)):
    cmds.append(['-S', '17', 'php', '4', '3', '-T', 'shuffle'] + list(flags))
cmds += [
    ['-S', '3', 'php', '4', '3', '-T', 'shuffle', '--no-polarity-flips', '--no-clauses-permutation'],
    ['-S', '3', 'php', '4', '3', '-T', 'shuffle', '--no-variables-permutation'],
    ['-S', '3', 'op', '4', '-T', 'shuffle', '-T', 'shuffle', '-p'],
    ['-S', '3', 'op', '4', '-T', 'shuffle', '-pvc', '-T', 'xor', '2', '-T', 'shuffle', '-c'],
    ['-S', '3', 'op', '4', '-T', 'shuffle', '-x'],
    ['-S', '3', 'op', '4', '-T', 'shuffle', '3'],
    ['-S', '5', 'and', '3', '2', '-T', 'xorcomp', '4'],
    ['-S', '5', 'and', '3', '2', '-T', 'xorcomp', '4', '2'],
    ['-S', '5', 'and', '3', '2', '-T', 'majcomp', '6'],
    ['-S', '5', 'and', '3', '2', '-T', 'majcomp', '6', '5'],
    ['-S', '5', 'and', '3', '2', '-T', 'majcomp', '2', '5'],
    ['-S', '5', 'and', '3', '2', '-T', 'xorcomp', 'glrd', '5', '4', '2'],
    ['-S', '5', 'and', '3', '2', '-T', 'majcomp', 'shift', '5', '6', '0', '2', '3'],
    ['-S', '5', 'and', '3', '2', '-T', 'xorcomp', 'complete', '4', '2'],
    ['-S', '5', 'peb', 'pyramid', '2', '-T', 'xorcomp', '7', '2', '-T', 'shuffle', '-T', 'majcomp', '9', '3'],
    ['-S', '5', 'php', '3', '2', '-T', 'shuffle', '-v', '-T', 'xorcomp', '5', '-T', 'flip', '-T', 'majcomp', '8'],
    ['-S', '9', 'randkcnf', '3', '6', '8', '-T', 'majcomp', '5', '3', '-T', 'shuffle', '-p'],
    ['true', '-T', 'shuffle'], ['false', '-T', 'shuffle'], ['true', '-T', 'xorcomp', '3'],
    ['false', '-T', 'majcomp', '3', '2'],
]
for c in cmds:
    random.seed(1234)
    cli(c)

# ---- kthlist2pebbling uses the same helpers
kth = "c pyramid\n6\n1 : 0\n2 : 0\n3 : 0\n4 : 1 2 0\n5 : 2 3 0\n6 : 4 5 0\n"
for extra in ([], ['none'], ['shuffle'], ['shuffle', '-p'], ['shuffle', '-v', '-c'], ['shuffle', '-p', '-v', '-c'],
              ['xorcomp', '4'], ['xorcomp', '4', '2'], ['majcomp', '7', '3'], ['majcomp', 'complete', '6', '3'],
              ['majcomp'], ['shuffle', '-z']):
    for q in ([], ['-q']):
        lab = ('kth', tuple(q + extra))
        random.seed(77)
        try:
            with redirect_stdin(io.StringIO(kth)):
                s = kth_cli(['kthlist2pebbling'] + q + extra, mode='string')
            rec(lab, 'OK', s)
            rec(lab, 'rng after', random.random())
        except SystemExit as e:
            rec(lab, 'EXIT', e.code)
        except BaseException as e:
            rec(lab, 'EXC', type(e).__name__, str(e))

h = hashlib.sha256()
for line in out:
    h.update(line.encode('utf-8', 'backslashreplace'))
    h.update(b'\n')
if os.environ.get('EQUIV_DEBUG'):
    sys.stderr.write('\n'.join(out) + '\n')
print(h.hexdigest())
