#!/usr/bin/env python
"""Equivalence harness for cnfgen.utils.solver / CNF.solve / CNF.is_satisfiable.

Fake SAT solvers (tiny brute force scripts speaking the three I/O
conventions, with many output shapes selected through FAKE_MODE) are put in
private PATH directories.  Everything observable (results, exceptions,
stderr, what the solver received, leftover temporary files) is hashed.
"""
import sys, os
sys.path.insert(0, os.getcwd())
import re, io, hashlib, tempfile, shutil, contextlib, random, warnings
warnings.simplefilter("ignore")

import cnfgen
from cnfgen import CNF
import cnfgen.utils.solver as S

FOCUS = "t19: sat_solve solver command table"

FAKE = r'''#!/venv/bin/python -SE
import sys, os, itertools
args = sys.argv[1:]
if '--help' in args:
    sys.exit(0)
files = [a for a in args if not a.startswith('-')]
opts = [a for a in args if a.startswith('-')]
mode = os.environ.get('FAKE_MODE', 'normal')
name = os.path.basename(sys.argv[0])
if len(files) == 0:
    text = sys.stdin.read()
else:
    with open(files[0]) as f:
        text = f.read()
with open(os.environ['FAKE_LOG'], 'a') as log:
    log.write('RUN %s opts=%r nfiles=%d mode=%s\n' % (name, opts, len(files), mode))
    log.write(text)
    log.write('END\n')
n = 0
clauses = []
cur = []
for line in text.splitlines():
    if not line or line[0] == 'c':
        continue
    if line[0] == 'p':
        n = int(line.split()[2])
        continue
    for tok in line.split():
        v = int(tok)
        if v == 0:
            clauses.append(cur)
            cur = []
        else:
            cur.append(v)
models = []
for bits in itertools.product([False, True], repeat=n):
    if all(any((l > 0) == bits[abs(l) - 1] for l in c) for c in clauses):
        models.append(bits)
        if mode != 'last':
            break
model = None
if models:
    model = [(i + 1) if b else -(i + 1) for i, b in enumerate(models[-1])]
w = sys.stdout.write

def chunks(lits, k):
    return [lits[i:i + k] for i in range(0, len(lits), k)]

if len(files) == 2:
    # minisat convention
    w('fake minisat chatter\nsolving %d vars\n' % n)
    out = files[1]
    if mode in ('empty', 'noanswer', 'crash'):
        pass
    elif mode in ('unknown', 'bare_s', 'sat_then_unknown', 'lead_space'):
        with open(out, 'w') as f:
            f.write('INDET\n')
    elif mode == 'nofile':
        os.unlink(out)
    elif mode == 'nonascii':
        w('café')
        with open(out, 'w') as f:
            f.write('UNSAT\n' if model is None else 'SAT\n' + ' '.join(map(str, model)) + ' 0\n')
    elif mode == 'badv':
        with open(out, 'w') as f:
            f.write('SAT\n1 x 0\n')
    elif model is None:
        with open(out, 'w') as f:
            f.write('UNSAT\n')
            if mode == 'unsat_with_v':
                f.write('1 2 0\n')
    else:
        lits = list(model)
        if mode in ('reversed', 'v_before_s'):
            lits.reverse()
        with open(out, 'w') as f:
            if mode == 'no_v':
                f.write('SAT\n')
            elif mode in ('split', 'reversed', 'tabs'):
                f.write('SAT\n')
                for ch in chunks(lits, 2):
                    f.write('\t'.join(map(str, ch)) + '\n')
                f.write('0\n')
            else:
                f.write('SAT\n' + ' '.join(map(str, lits)) + ' 0\n')
    sys.exit(1 if mode in ('crash', 'exit1') else (20 if model is None else 10))

# dimacs output convention
ans = 's UNSATISFIABLE' if model is None else 's SATISFIABLE'
lits = list(model or [])
if mode in ('normal', 'last', 'exit1'):
    w('c fake solver\n%s\n' % ans)
    if model is not None:
        w('v ' + ' '.join(map(str, lits + [0])) + '\n')
    w('c done\n')
elif mode in ('split', 'reversed'):
    if mode == 'reversed':
        lits.reverse()
    w('c fake solver\n\nc more\n%s\nc interleaved\n' % ans)
    if model is not None:
        for ch in chunks(lits, 2):
            w('v ' + ' '.join(map(str, ch)) + '\n')
            w('c between\n\n')
        w('v 0\n')
    w('c done')
elif mode == 'noanswer':
    w('c fake solver\nc nothing to say\n')
elif mode == 'empty':
    pass
elif mode == 'crash':
    sys.exit(1)
elif mode == 'unknown':
    w('c x\ns UNKNOWN\n')
elif mode == 'bare_s':
    w('c x\ns\n')
elif mode == 'sat_then_unknown':
    w('%s\nv 1 0\ns UNKNOWN\n' % ans)
elif mode == 'unknown_then_answer':
    w('starting up\ns UNKNOWN\n%s\n' % ans)
    if model is not None:
        w('v ' + ' '.join(map(str, lits + [0])) + '\n')
elif mode == 'v_before_s':
    lits.reverse()
    if model is not None:
        for ch in chunks(lits, 3):
            w('v ' + ' '.join(map(str, ch)) + '\n')
        w('v 0\n')
    w(ans + ' extra words\n')
elif mode == 'no_v':
    w(ans + '\n')
elif mode == 'unsat_with_v':
    w(ans + '\nv 1 -2 0\n')
elif mode == 'tabs':
    w(ans.replace(' ', '\t') + '\n')
    if model is not None:
        w('v\t' + '\t'.join(map(str, lits + [0])) + '\n')
elif mode == 'lead_space':
    w(' ' + ans + '\n v 1 0\n')
elif mode == 'badv':
    w(ans + '\nversion 1.0\n')
elif mode == 'nonascii':
    sys.stdout.buffer.write(('c café\n' + ans + '\n').encode('utf-8'))
sys.exit(1 if mode == 'exit1' else 0)
'''

MODES = ['normal', 'last', 'split', 'reversed', 'noanswer', 'empty', 'crash',
         'unknown', 'bare_s', 'sat_then_unknown', 'unknown_then_answer',
         'v_before_s', 'no_v', 'unsat_with_v', 'tabs', 'lead_space', 'badv',
         'nonascii', 'exit1', 'nofile']

ROOT = tempfile.mkdtemp(prefix='c20equiv')
TMP = os.path.join(ROOT, 'tmpfiles')
os.mkdir(TMP)
LOG = os.path.join(ROOT, 'log.txt')
tempfile.tempdir = TMP
os.environ['FAKE_LOG'] = LOG
os.environ['TMPDIR'] = TMP

H = hashlib.sha256()
NREC = [0]


def norm(text):
    text = re.sub(re.escape(TMP) + r'/tmp[A-Za-z0-9_]+', '<TMPFILE>', text)
    text = text.replace(ROOT, '<ROOT>')
    return text


def record(*items):
    NREC[0] += 1
    H.update(norm(repr(items)).encode('utf-8'))
    H.update(b'\n')
    if os.environ.get('EQUIV_DEBUG'):
        print(norm(repr(items)))


def make_bin(tag, names, broken=()):
    d = os.path.join(ROOT, 'bin_' + tag)
    os.mkdir(d)
    for nm in names:
        p = os.path.join(d, nm)
        with open(p, 'w') as f:
            f.write(FAKE)
        os.chmod(p, 0o755)
    for nm in broken:
        p = os.path.join(d, nm)
        with open(p, 'w') as f:
            f.write(FAKE)
        os.chmod(p, 0o644)
    return d


def satisfies(F, assignment):
    if assignment is None:
        return None
    vals = set(assignment)
    ordered = [abs(x) for x in assignment] == sorted(abs(x) for x in assignment)
    good = all(any(l in vals for l in c) for c in F.clauses())
    return (good, ordered, len(assignment))


def formulas():
    out = []
    out.append(('empty', CNF()))
    F = CNF()
    F.add_clause([])
    out.append(('emptyclause', F))
    F = CNF([[1, -2], [3]])
    F.update_variable_number(6)
    out.append(('unused', F))
    F = CNF()
    F.update_variable_number(4)
    out.append(('novclauses', F))
    out.append(('php32', cnfgen.PigeonholePrinciple(3, 2)))
    out.append(('php23', cnfgen.PigeonholePrinciple(2, 3)))
    out.append(('contradiction', CNF([[1], [-1]])))
    out.append(('units', CNF([[-1], [2], [-3], [4], [-5], [6], [-7], [8], [-9], [10], [-11]])))
    rnd = random.Random(2011)
    for i in range(4):
        n = rnd.randint(1, 7)
        m = rnd.randint(0, 14)
        cls = []
        for _ in range(m):
            k = rnd.randint(1, min(3, n))
            vs = rnd.sample(range(1, n + 1), k)
            cls.append([v if rnd.random() < 0.5 else -v for v in vs])
        F = CNF(cls)
        F.update_variable_number(n)
        out.append(('rnd%d' % i, F))
    return out


def call(label, func, F=None):
    """Run func, record result/exception, stderr, solver log, leftovers."""
    if os.path.exists(LOG):
        os.unlink(LOG)
    err = io.StringIO()
    try:
        with contextlib.redirect_stderr(err):
            res = func()
        outcome = ('ok', res)
        if isinstance(res, tuple) and len(res) == 2 and F is not None:
            outcome += (satisfies(F, res[1]),)
    except Exception as e:
        outcome = ('exc', type(e).__name__, str(e))
    log = ''
    if os.path.exists(LOG):
        with open(LOG) as f:
            log = f.read()
    record(label, outcome, err.getvalue(), log, sorted(os.listdir(TMP)))
    for nm in os.listdir(TMP):
        os.unlink(os.path.join(TMP, nm))


def main():
    allnames = S.supported_satsolvers()
    record('supported', allnames, cnfgen.supported_satsolvers())
    configs = {
        'none': make_bin('none', []),
        'all': make_bin('all', allnames + ['mysolver', 'my-minisat', 'other']),
        'minisat_only': make_bin('minisat_only', ['minisat']),
        'sat4j_march': make_bin('sat4j_march', ['march', 'sat4j'], broken=['cadical', 'lingeling']),
        'glucose_last': make_bin('glucose_last', ['glucose', 'custom'], broken=['minisat']),
        'custom_only': make_bin('custom_only', ['mysolver']),
    }
    Fs = formulas()
    oldpath = os.environ.get('PATH', '')

    # 1. which solvers are seen as installed
    for cfg, d in sorted(configs.items()):
        os.environ['PATH'] = d
        call(('installed', cfg, None), lambda: S.some_solver_installed())
        call(('installed-pkg', cfg, None), lambda: cnfgen.some_solver_installed())
        for arg in ['minisat', 'sat4j', 'mysolver', 'nonexistent', '',
                    ['nonexistent', 'glucose'], ['cadical', 'lingeling'], [],
                    ('march',), [1, 2], ['minisat', 3], 5, {'kissat': 1}]:
            call(('installed', cfg, repr(arg)),
                 lambda: S.some_solver_installed(arg))
            call(('installed-kw', cfg, repr(arg)),
                 lambda: S.some_solver_installed(solvers=arg))

    # 2. default solver search, per configuration
    os.environ['FAKE_MODE'] = 'normal'
    for cfg, d in sorted(configs.items()):
        os.environ['PATH'] = d
        for fname, F in (Fs if cfg in ('all', 'none') else Fs[:6]):
            for verbose in (0, 2):
                call(('solve-default', cfg, fname, verbose),
                     lambda: F.solve(verbose=verbose), F)
            call(('issat-default', cfg, fname), lambda: F.is_satisfiable(), F)
            call(('solve-blank', cfg, fname), lambda: F.solve(cmd='   '), F)
            call(('satsolve-empty', cfg, fname),
                 lambda: S.sat_solve(F, cmd='', sameas='minisat', verbose=1), F)

    # 3. every supported solver name, every mode
    os.environ['PATH'] = configs['all']
    small = [x for x in Fs if x[0] in ('empty', 'emptyclause', 'unused', 'php32', 'rnd1')]
    for mode in MODES:
        os.environ['FAKE_MODE'] = mode
        for solver in allnames:
            reps = small[1:4] if solver in ('lingeling', 'minisat', 'sat4j') else small[3:4]
            for fname, F in reps:
                call(('solve', mode, solver, fname),
                     lambda: F.solve(cmd=solver + ' --opt -x', verbose=2), F)
                if fname == 'php32':
                    call(('issat', mode, solver, fname),
                         lambda: F.is_satisfiable(cmd=solver), F)

    # 4. sameas / unsupported / errors
    combos = [('mysolver', 'minisat'), ('mysolver', 'lingeling'),
              ('mysolver -q', 'sat4j'), ('my-minisat -no-pre', 'minisat'),
              ('other', 'march'), ('minisat', 'lingeling'), ('lingeling', 'minisat'),
              ('kissat', 'sat4j'), ('mysolver', None), ('mysolver', 'mysolver'),
              ('mysolver', ''), ('nonexistent', 'minisat'), ('nonexistent', None),
              (None, 'minisat'), (None, 'bogus'), ('minisat', 'bogus'),
              ('  glucose  -a   -b ', None), ('/nonexistent/dir/minisat', 'minisat'),
              ('cadical', 'cadical')]
    for mode in ('normal', 'split', 'noanswer', 'nofile'):
        os.environ['FAKE_MODE'] = mode
        for cfg in ('all', 'custom_only', 'glucose_last', 'none'):
            if cfg != 'all' and mode != 'normal':
                continue
            os.environ['PATH'] = configs[cfg]
            for cmd, sameas in combos:
                for fname, F in small[2:4]:
                    for verbose in ((1,) if mode == 'normal' else (2,)):
                        call(('solve-sameas', mode, cfg, cmd, sameas, fname, verbose),
                             lambda: F.solve(cmd=cmd, sameas=sameas, verbose=verbose), F)
                    if mode in ('normal', 'noanswer') and fname == 'unused':
                        call(('issat-sameas', mode, cfg, cmd, sameas, fname),
                             lambda: F.is_satisfiable(cmd=cmd, sameas=sameas), F)

    # 5. wrong argument types
    os.environ['PATH'] = configs['all']
    os.environ['FAKE_MODE'] = 'normal'
    for bad in (None, 3, 'p cnf 0 0', [[1, 2]], object):
        call(('badF', repr(bad)), lambda: S.sat_solve(bad))
        call(('badF-bogus', repr(bad)), lambda: S.sat_solve(bad, sameas='bogus'))
    F = Fs[2][1]
    call(('badcmd', 5), lambda: F.solve(cmd=5))
    call(('badcmd', 'list'), lambda: F.solve(cmd=['minisat']))

    # 6. low level interfaces called directly (missing executables too)
    for mode in ('normal', 'reversed', 'noanswer', 'badv', 'nofile'):
        os.environ['FAKE_MODE'] = mode
        for fn in ('_satsolve_filein_fileout', '_satsolve_stdin_stdout',
                   '_satsolve_filein_stdout'):
            func = getattr(S, fn)
            for fname, F in small[1:4]:
                for cmd in (None, 'mysolver -z', 'nonexistent-solver --flag'):
                    for verbose in ((-1, 3) if fname == 'unused' else (1,)):
                        if cmd is None:
                            call(('direct-default', mode, fn, fname, verbose),
                                 lambda: func(F, verbose=verbose), F)
                        else:
                            call(('direct', mode, fn, fname, cmd, verbose),
                                 lambda: func(F, cmd, verbose), F)
    for fn in ('_satsolve_filein_fileout', '_satsolve_stdin_stdout',
               '_satsolve_filein_stdout'):
        func = getattr(S, fn)
        record('sig', fn, func.__defaults__, func.__code__.co_varnames[:func.__code__.co_argcount])
    record('iface', [(k, v.__name__) for k, v in S._SATSOLVER_INTERFACE.items()])
    os.environ['PATH'] = oldpath


try:
    main()
finally:
    shutil.rmtree(ROOT, ignore_errors=True)
if os.environ.get('EQUIV_DEBUG'):
    print('records', NREC[0], file=sys.stderr)
print(H.hexdigest())
