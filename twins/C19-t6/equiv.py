#!/usr/bin/env python
"""Equivalence check for cnfgen.utils.opb.to_opb_file (export of the
formula header, with its 'transformation N' provenance entries, as OPB
comments)."""
import os
import sys
import io
import hashlib
import random
import contextlib
from collections import OrderedDict

sys.path.insert(0, os.getcwd())

import cnfgen
from cnfgen import CNF
from cnfgen.formula.opb import OPB
from cnfgen.utils.opb import to_opb_file
from cnfgen.transformations.substitutions import (
    XorSubstitution, OrSubstitution, FlipPolarity, FormulaLifting,
    IfThenElseSubstitution, AllEqualSubstitution, ExactlyOneSubstitution)
from cnfgen.transformations.shuffle import Shuffle
from cnfgen.clitools.cnfgen import cli as cnfgen_cli
from cnfgen.clitools.pbgen import cli as pbgen_cli

out = []


def record(*items):
    out.append(repr(items))


def snapshot(F):
    return (F.number_of_variables(), len(F), list(F.all_variable_labels()),
            [tuple(c) for c in F], list(F.header.items()))


def dump(tag, F):
    before = snapshot(F)
    for export_header in (True, False):
        for export_varnames in (True, False):
            buf = io.StringIO()
            try:
                to_opb_file(F, buf, export_header=export_header,
                            export_varnames=export_varnames)
                record(tag, export_header, export_varnames, buf.getvalue())
            except BaseException as e:
                record(tag, export_header, export_varnames, 'EXC',
                       type(e).__name__, str(e), buf.getvalue())
            buf = io.StringIO()
            try:
                F.to_file(buf, fileformat='opb', export_header=export_header,
                          export_varnames=export_varnames)
                record(tag, 'to_file', buf.getvalue())
            except BaseException as e:
                record(tag, 'to_file EXC', type(e).__name__, str(e), buf.getvalue())
    # default arguments, to stdout
    buf = io.StringIO()
    with contextlib.redirect_stdout(buf):
        to_opb_file(F)
    record(tag, 'stdout', buf.getvalue())
    record(tag, 'to_opb', F.to_opb())
    record(tag, 'untouched', snapshot(F) == before)


random.seed(2024)

base = CNF([[1, -2], [2, 3], [-1, -3], []], description='base formula')
dump('base', base)

chain = [
    lambda F: XorSubstitution(F, 2),
    lambda F: FlipPolarity(F),
    lambda F: OrSubstitution(F, 1),
    lambda F: Shuffle(F),
    lambda F: IfThenElseSubstitution(F),
    lambda F: AllEqualSubstitution(F, 2),
    lambda F: Shuffle(F, 'fixed', 'fixed', 'fixed'),
]
F = base
for i, t in enumerate(chain):
    prev = snapshot(F)
    F = t(F)
    record('input untouched', i, snapshot(base) == snapshot(base), prev[4])
    dump('chain{}'.format(i), F)

# long chain: more than 9 transformation entries
G = CNF([[1, 2]], description='long chain')
for i in range(12):
    G = FlipPolarity(G) if i % 2 else OrSubstitution(G, 1)
dump('long', G)

# peculiar headers
H = CNF([[1, -2]])
H.header['description'] = 'multi\nline\r\ndescription\n'
H.header['unicode'] = 'café ∧ ∨ \U0001F600'
H.header['empty'] = ''
H.header['only newline'] = '\n'
H.header[''] = 'empty key'
H.header['number'] = 42
H.header['none'] = None
H.header['list'] = [1, 'a', None]
H.header[7] = 'integer key'
H.header['transformation 3'] = 'out of order entry'
dump('weird', H)
H2 = ExactlyOneSubstitution(FormulaLifting(H, 2), 1)
dump('weird transformed', H2)

E = CNF()
E.header = OrderedDict()
dump('no header', E)
E.header = {}
dump('plain dict header', E)
E.header = {'b': 1, 'a': 2}
dump('plain dict header 2', FlipPolarity(E))

# variables with names spanning several lines
V = CNF()
V.new_variable('x\ny')
V.new_block(2, label='z_{}')
V.add_clause([1, -2, 3])
dump('names', XorSubstitution(V, 2))

# OPB formulas
P = OPB(description='a pb formula')
P.update_variable_number(4)
lits = [1, 2, 3]
P.cardinality_geq(lits, 2)
P.cardinality_eq([1, -2, 4], 1)
P.cardinality_leq([-1, -2, -3, -4], 3)
P.add_clause([1, -4])
P.add_loose_majority(lits)
record('lits untouched', lits)
P.header['transformation 1'] = 'hand written'
dump('opb', P)

# command line tools
CMDS = [
    (cnfgen_cli, ['cnfgen', '-of', 'opb', 'php', 3, 2, '-T', 'xor', 2, '-T', 'flip']),
    (cnfgen_cli, ['cnfgen', '-q', '-of', 'opb', 'php', 3, 2, '-T', 'or', 2]),
    (cnfgen_cli, ['cnfgen', '--varnames', '-of', 'opb', '--seed', 5, 'op', 3, '-T', 'shuffle']),
    (pbgen_cli, ['pbgen', 'php', 3, 2]),
    (pbgen_cli, ['pbgen', '--varnames', '--seed', 3, 'php', 3, 2]),
    (pbgen_cli, ['pbgen', '-q', 'php', 3, 2]),
    (pbgen_cli, ['pbgen', 'php', 3, 2, '-T', 'flip']),
]
for cli, cmd in CMDS:
    for mode in ('string', 'output'):
        stdout = io.StringIO()
        stderr = io.StringIO()
        random.seed(77)
        try:
            # '--output' defaults to '-', i.e. the real stdout: give a file object
            with contextlib.redirect_stdout(stdout), contextlib.redirect_stderr(stderr):
                res = cli(list(cmd), mode=mode)
            record('cli', cmd, mode, res, stdout.getvalue(), stderr.getvalue())
        except SystemExit as e:
            record('cli exit', cmd, mode, e.code, stdout.getvalue(), stderr.getvalue())
        except BaseException as e:
            record('cli exc', cmd, mode, type(e).__name__, str(e), stdout.getvalue())

print(hashlib.sha256("\n".join(out).encode('utf-8')).hexdigest())
