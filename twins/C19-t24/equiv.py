"""Equivalence script for t24: compression command line helpers (xorcomp / majcomp)."""
import sys, os, io, hashlib, contextlib, tempfile
sys.path.insert(0, os.getcwd())
from cnfgen.clitools.cnfgen import cli as cnfgen_cli
from cnfgen.clitools.kthlist2pebbling import cli as k2p_cli
from cnfgen.clitools.cmdline import get_transformation_helpers
from cnfgen.clihelpers import transformation_helpers as TH
import cnfgen

out = []
tmpdir = tempfile.mkdtemp()


def rec(*a):
    out.append(repr(a).replace(tmpdir, '<TMP>'))


def run(cli, argv):
    so, se = io.StringIO(), io.StringIO()
    res = None
    try:
        with contextlib.redirect_stdout(so), contextlib.redirect_stderr(se):
            res = cli(argv, mode='string')
        rec('OK', argv, res, so.getvalue(), se.getvalue())
    except SystemExit as e:
        rec('EXIT', argv, e.code, so.getvalue(), se.getvalue())
    except BaseException as e:
        rec('EXC', argv, type(e).__name__, str(e), so.getvalue(), se.getvalue())


# discovered helpers: names and order
helpers = get_transformation_helpers()
rec('helpers', [(h.__name__, h.name) for h in helpers])
for h in helpers:
    rec(h.__name__, [b.__name__ for b in h.__mro__ if b.__name__[0] != '_' ],
        isinstance(h.__dict__.get('setup_command_line'), staticmethod))

bip = os.path.join(tmpdir, 'b.matrix')
with open(bip, 'w') as f:
    f.write("5 4\n1 1 0 0\n0 1 1 0\n0 0 1 1\n1 0 0 1\n1 1 1 0\n")
bipbad = os.path.join(tmpdir, 'bad.matrix')
with open(bipbad, 'w') as f:
    f.write("3 4\n1 1 0 0\n0 1 1 0\n0 0 1 1\n")

for comp in ['xorcomp', 'majcomp']:
    for seed in [0, 7, 42]:
        for base in (['php', 3, 2], ['op', 3], ['and', 2, 3], ['peb', 'pyramid', 2]):
            for targs in ([4], [4, 2], [6, 3], [3, 1], [5, 5], [1], [1, 1]):
                run(cnfgen_cli, ['cnfgen', '-q', '--seed', seed] + base + ['-T', comp] + targs)
    # too large degree / bad numbers / missing args
    for targs in ([2, 5], [0], [-1, 2], ['x'], [], [3, 2, 1], [3, 0]):
        run(cnfgen_cli, ['cnfgen', '-q', '--seed', 5, 'php', 3, 2, '-T', comp] + targs)
    # explicit bipartite graph: 'and 2 3' has 5 variables
    run(cnfgen_cli, ['cnfgen', '-q', 'and', 2, 3, '-T', comp, bip])
    run(cnfgen_cli, ['cnfgen', '-q', 'and', 2, 3, '-T', comp, bipbad])
    run(cnfgen_cli, ['cnfgen', '-q', 'and', 2, 3, '-T', comp, 'glrd', 5, 4, 2])
    run(cnfgen_cli, ['cnfgen', '-q', '--seed', 3, 'and', 2, 3, '-T', comp, 'glrd', 5, 4, 2])
    run(cnfgen_cli, ['cnfgen', '-q', '--seed', 3, 'and', 2, 3, '-T', comp, 'glrd', 4, 4, 2])
    run(cnfgen_cli, ['cnfgen', '-q', '--seed', 3, 'and', 2, 3, '-T', comp, 'complete', 5, 3])
    run(cnfgen_cli, ['cnfgen', '-q', 'and', 2, 3, '-T', comp, os.path.join(tmpdir, 'nofile.matrix')])
    # chains
    run(cnfgen_cli, ['cnfgen', '-q', '--seed', 9, 'php', 3, 2, '-T', comp, 4, 2, '-T', 'shuffle', '-T', comp, 3, 2])
    run(cnfgen_cli, ['cnfgen', '-q', '--seed', 9, 'php', 3, 2, '-T', 'xor', 2, '-T', comp, 8, 2, '-T', 'flip'])
    run(cnfgen_cli, ['cnfgen', '-q', '--seed', 9, '-of', 'latex', 'php', 3, 2, '-T', comp, 4, 2])
    run(cnfgen_cli, ['cnfgen', '-q', 'php', 3, 2, '-T', comp, '-h'])

# direct use of the helper classes with hand made namespaces
import argparse, random
for cls, fn in [(TH.XorCompressionCmd, 'xor'), (TH.MajCompressionCmd, 'maj')]:
    for ns in [argparse.Namespace(N=4, d=2), argparse.Namespace(N=3, d=3),
               argparse.Namespace(B=cnfgen.BipartiteGraph(3, 2, name='tiny')),
               argparse.Namespace(), argparse.Namespace(N=2), argparse.Namespace(N=4, d=2, B=None)]:
        F = cnfgen.CNF([[1, -2], [2, 3], [-1, -3]], description='base formula')
        F.header['transformation 1'] = 'earlier'
        if hasattr(ns, 'B') and ns.B is not None:
            ns.B.add_edge(1, 1); ns.B.add_edge(2, 2); ns.B.add_edge(3, 1); ns.B.add_edge(3, 2)
        before = (list(F.clauses()), F.number_of_variables(), list(F.all_variable_labels()), dict(F.header))
        random.seed(11)
        try:
            G = cls.transform_cnf(F, ns)
            rec(cls.__name__, sorted(vars(ns)), list(G.clauses()), G.number_of_variables(),
                list(G.all_variable_labels()), list(G.header.items()), G is F)
        except BaseException as e:
            rec(cls.__name__, sorted(vars(ns)), 'EXC', type(e).__name__, str(e))
        after = (list(F.clauses()), F.number_of_variables(), list(F.all_variable_labels()), dict(F.header))
        rec('input untouched', before == after, after)

# kthlist2pebbling uses the same helpers
kth = os.path.join(tmpdir, 'g.kthlist')
with open(kth, 'w') as f:
    f.write("c test\n4\n1 : 0\n2 : 0\n3 : 1 2 0\n4 : 3 0\n")
for comp in ['xorcomp', 'majcomp']:
    for targs in ([3], [3, 2], [bip]):
        random.seed(1)
        run(k2p_cli, ['kthlist2pebbling', '-q', '-i', kth, comp] + targs)

print(hashlib.sha256("\n".join(out).encode()).hexdigest())
