"""Equivalence check for split_random_edges (cnfgen/graphs.py), the 'splitedges' option."""
import warnings
warnings.simplefilter("ignore")
import hashlib
import io
import os
import random
import sys
import contextlib

sys.path.insert(0, os.getcwd())

from cnfgen.graphs import Graph, BipartiteGraph, DirectedGraph, split_random_edges
from cnfgen.graphs import writeGraph
from cnfgen.clitools.graph_args import make_graph_from_spec
from cnfgen.clitools.cnfgen import cli

H = hashlib.sha256()
DEBUG = False


def emit(*items):
    for x in items:
        H.update(repr(x).encode('utf-8'))
        H.update(b'\n')
        if DEBUG:
            print(repr(x)[:150])


def dump(G):
    emit(type(G).__name__, G.name, G.number_of_vertices(), G.number_of_edges())
    emit(list(G.edges()))
    if isinstance(G, Graph):
        emit([list(G.neighbors(v)) for v in G.vertices()])
        emit([G.degree(v) for v in G.vertices()])
        emit(sorted(G.edgeset), len(G.adjlist))
        out = io.StringIO()
        writeGraph(G, out, 'simple', 'kthlist')
        emit(out.getvalue())


def base_graphs():
    yield 'null', Graph(0)
    yield 'single', Graph(1)
    yield 'empty4', Graph.empty_graph(4)
    yield 'edge', Graph.complete_graph(2)
    yield 'K3', Graph.complete_graph(3)
    yield 'K5', Graph.complete_graph(5)
    yield 'star4', Graph.star_graph(4)
    G = Graph(5)
    G.add_edges_from([(1, 4), (4, 5), (2, 4), (2, 3)])
    yield 'doc', G
    G = Graph(7, 'cycle')
    G.add_edges_from([(i, i % 7 + 1) for i in range(1, 8)])
    yield 'C7', G
    G = Graph(6, 'reversed pairs')
    G.add_edges_from([(6, 1), (5, 2), (4, 3), (3, 1)])
    yield 'rev', G


def attempt_split(label, G, k, **kwargs):
    emit('CASE', label, k, kwargs)
    try:
        res = split_random_edges(G, k, **kwargs)
    except BaseException as e:
        emit('EXC', type(e).__name__, str(e))
    else:
        emit(res)
    dump(G)
    emit(random.random())


names = [name for name, _ in base_graphs()]
for name in names:
    m = dict(base_graphs())[name].number_of_edges()
    for k in list(range(-1, m + 3)):
        for seed in (1, 2, 3):
            G = dict(base_graphs())[name]
            random.seed(100 + seed)
            attempt_split((name, 'seeded'), G, k, seed=seed)
            G = dict(base_graphs())[name]
            random.seed(seed)
            attempt_split((name, 'global'), G, k)

# repeated splits on the same graph
for seed in range(6):
    random.seed(seed)
    G = Graph.complete_graph(5)
    for k in (0, 1, 3, 2, 20, 4):
        attempt_split(('repeat', seed), G, k)

# bad arguments
for k in (1.0, '1', None, True, 2.5, [1]):
    random.seed(5)
    attempt_split('badk', Graph.complete_graph(4), k)
for other in (BipartiteGraph(2, 2), DirectedGraph(3), None, 'graph'):
    emit('CASE', 'badgraph', repr(type(other)))
    random.seed(5)
    try:
        emit(split_random_edges(other, 1))
    except BaseException as e:
        emit('EXC', type(e).__name__, str(e))
    emit(random.random())

# larger graph
for seed in range(4):
    random.seed(seed)
    G = Graph.complete_graph(12)
    attempt_split(('K12', seed), G, 30 + seed)

# through graph specifications
specs = [
    'complete 4 splitedges 0', 'complete 4 splitedges 1', 'complete 4 splitedges 6',
    'complete 4 splitedges 7', 'complete 4 splitedges -1', 'complete 4 splitedges',
    'complete 4 splitedges 1 2', 'complete 4 splitedges 1.5', 'complete 4 splitedges x',
    'gnm 8 10 splitedges 4', 'gnm 8 10 splitedges 10', 'gnm 8 10 splitedges 11',
    'gnm 8 0 splitedges 0', 'gnm 8 0 splitedges 1', 'empty 3 splitedges 1',
    'gnd 8 3 splitedges 5', 'gnp 7 0.5 splitedges 2', 'grid 3 3 splitedges 12',
    'torus 3 3 splitedges 3', 'gnm 6 5 plantclique 3 splitedges 2',
    'gnm 6 5 addedges 3 splitedges 8', 'gnm 6 5 addedges 3 splitedges 9',
    'gnm 6 5 splitedges 2 addedges 3', 'gnm 6 5 plantclique 4 addedges 2 splitedges 4',
    'complete 3 2 splitedges 5', 'gnm 6 5 splitedges 2 splitedges 1',
]
for spec in specs:
    for seed in (21, 22):
        emit('SPEC', spec, seed)
        random.seed(seed)
        try:
            G = make_graph_from_spec('simple', spec)
        except BaseException as e:
            emit('EXC', type(e).__name__, str(e))
        else:
            dump(G)
        emit(random.random())
for gt, spec in (('bipartite', 'glrm 3 3 4 splitedges 1'), ('dag', 'path 4 splitedges 1')):
    emit('SPEC', gt, spec)
    try:
        dump(make_graph_from_spec(gt, spec))
    except BaseException as e:
        emit('EXC', type(e).__name__, str(e))

cmdlines = [
    ['cnfgen', '-q', '--seed', '5', 'kcolor', '3', 'gnm', '6', '8', 'splitedges', '3'],
    ['cnfgen', '-q', '--seed', '5', 'kcolor', '3', 'complete', '4', 'splitedges', '6'],
    ['cnfgen', '-q', '--seed', '5', 'kcolor', '3', 'complete', '4', 'splitedges', '7'],
    ['cnfgen', '-q', '--seed', '6', 'tseitin', 'first', 'torus', '3', '3', 'splitedges', '4'],
    ['cnfgen', '-q', '--seed', '7', 'kclique', '3', 'gnp', '6', '0.6', 'plantclique', '3', 'splitedges', '2'],
    ['cnfgen', '-q', '--seed', '7', 'domset', '3', 'grid', '2', '3', 'splitedges', '-2'],
    ['cnfgen', '-q', '--seed', '7', 'php', 'glrd', '4', '3', '2', 'splitedges', '1'],
]
for argv in cmdlines:
    out, err = io.StringIO(), io.StringIO()
    emit('CLI', argv)
    try:
        with contextlib.redirect_stdout(out), contextlib.redirect_stderr(err):
            cli(argv)
    except SystemExit as e:
        emit('EXIT', e.code)
    except BaseException as e:
        emit('EXC', type(e).__name__, str(e))
    emit(out.getvalue(), err.getvalue())

print(H.hexdigest())
