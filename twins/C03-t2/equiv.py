"""Equivalence check for PebblingFormula / StoneFormula / SparseStoneFormula (C03, t2)."""
import sys, os, hashlib, random
sys.path.insert(0, os.getcwd())
import networkx
from cnfgen.families.pebbling import PebblingFormula, StoneFormula, SparseStoneFormula
from cnfgen.graphs import DirectedGraph, BipartiteGraph, CompleteBipartiteGraph
from cnfgen.graphs import dag_pyramid, dag_path, dag_complete_binary_tree

H = hashlib.sha256()
def emit(*a):
    H.update((" ".join(str(x) for x in a) + "\n").encode())

def dump(tag, fn):
    emit("CASE", tag)
    try:
        F = fn()
    except Exception as e:
        emit("EXC", type(e).__name__, str(e))
        return
    emit("HDR", sorted(F.header.items()) if hasattr(F.header, 'items') else F.header)
    emit("NV", F.number_of_variables(), "NC", len(F))
    emit("LABELS", list(F.all_variable_labels()))
    for c in F:
        emit("C", list(c))
    emit(F.to_dimacs())

def random_dag(n, p, rng):
    D = DirectedGraph(n, name='random dag {} {}'.format(n, p))
    for v in range(1, n + 1):
        for u in range(1, v):
            if rng.random() < p:
                D.add_edge(u, v)
    return D

def bipartite_random(L, R, p, rng):
    B = BipartiteGraph(L, R)
    for u in range(1, L + 1):
        for v in range(1, R + 1):
            if rng.random() < p:
                B.add_edge(u, v)
    return B

def bipartite_left_regular(L, R, d, rng):
    B = BipartiteGraph(L, R)
    for u in range(1, L + 1):
        for v in rng.sample(range(1, R + 1), d):
            B.add_edge(u, v)
    return B

rng = random.Random(2024)
dags = [("empty0", DirectedGraph(0)), ("single", DirectedGraph(1)), ("two", DirectedGraph(2))]
for h in range(0, 4):
    dags.append(("pyr%d" % h, dag_pyramid(h)))
for h in range(0, 3):
    dags.append(("tree%d" % h, dag_complete_binary_tree(h)))
for l in range(0, 5):
    dags.append(("path%d" % l, dag_path(l)))
for n in range(1, 7):
    for p in (0.2, 0.5, 0.9):
        dags.append(("rnd%d_%s" % (n, p), random_dag(n, p, rng)))
# a networkx DAG as input
nxD = networkx.DiGraph()
nxD.add_nodes_from(range(1, 6))
nxD.add_edges_from([(1, 3), (2, 3), (3, 5), (4, 5), (1, 4)])
dags.append(("nx", nxD))

for name, D in dags:
    dump(("peb", name), lambda: PebblingFormula(D))
    for s in (0, 1, 2, 3):
        dump(("stone", name, s), lambda: StoneFormula(D, s))
    n = D.number_of_nodes() if isinstance(D, networkx.DiGraph) else D.number_of_vertices()
    for s in (0, 1, 2, 4):
        for p in (0.0, 0.4, 0.8, 1.0):
            B = bipartite_random(n, s, p, rng)
            dump(("sparse", name, s, p), lambda: SparseStoneFormula(D, B))
    for s, d in ((3, 2), (4, 3), (2, 2)):
        B = bipartite_left_regular(n, s, d, rng)
        dump(("sparsereg", name, s, d), lambda: SparseStoneFormula(D, B))
    dump(("sparsecomplete", name), lambda: SparseStoneFormula(D, CompleteBipartiteGraph(n, 2)))

# error cases
cyc = DirectedGraph(3)
cyc.add_edge(1, 2); cyc.add_edge(2, 3); cyc.add_edge(3, 1)
dump(("cyc-peb",), lambda: PebblingFormula(cyc))
dump(("cyc-stone",), lambda: StoneFormula(cyc, 2))
dump(("cyc-sparse",), lambda: SparseStoneFormula(cyc, CompleteBipartiteGraph(3, 2)))
dump(("mismatch",), lambda: SparseStoneFormula(dag_pyramid(2), CompleteBipartiteGraph(3, 2)))
dump(("mismatch2",), lambda: SparseStoneFormula(dag_pyramid(1), CompleteBipartiteGraph(7, 2)))
for bad in (-1, 1.5, "2", None):
    dump(("badstones", bad), lambda: StoneFormula(dag_pyramid(2), bad))
for bad in (None, 3, networkx.Graph([(1, 2)])):
    dump(("badD", repr(type(bad))), lambda: StoneFormula(bad, 2))
    dump(("badDp", repr(type(bad))), lambda: PebblingFormula(bad))
    dump(("badB", repr(type(bad))), lambda: SparseStoneFormula(dag_pyramid(1), bad))
print(H.hexdigest())
