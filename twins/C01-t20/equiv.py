"""Equivalence check for the force_*_mapping methods of
cnfgen.formula.variables.VariablesManager, and the pigeonhole / clique
colouring families built on them."""
import hashlib
import sys
import warnings

warnings.simplefilter('ignore')
sys.path.insert(0, '.')

from cnfgen.formula.cnf import CNF
from cnfgen.formula.basecnf import BaseCNF
from cnfgen.formula.linear import CNFLinear
from cnfgen.formula.variables import VariablesManager
from cnfgen.graphs import BipartiteGraph
from cnfgen.families.pigeonhole import (PigeonholePrinciple,
                                        GraphPigeonholePrinciple,
                                        BinaryPigeonholePrinciple,
                                        RelativizedPigeonholePrinciple)
from cnfgen.families.cliquecoloring import CliqueColoring

H = hashlib.sha256()


def record(*items):
    for it in items:
        H.update(repr(it).encode('utf-8'))
        H.update(b'\x00')


def dump(F):
    return (F.number_of_variables(), F.number_of_clauses(),
            [list(c) for c in F.clauses()])


METHODS = ['force_complete_mapping', 'force_functional_mapping',
           'force_surjective_mapping', 'force_injective_mapping',
           'force_nondecreasing_mapping']


def bip(n, m, edges):
    B = BipartiteGraph(n, m)
    for u, v in edges:
        B.add_edge(u, v)
    return B


def makers():
    yield 'map', lambda F, n, m: F.new_mapping(n, m)
    yield 'bin', lambda F, n, m: F.new_binary_mapping(n, m)

    def sparse(F, n, m):
        edges = [(u, v) for u in range(1, n + 1) for v in range(1, m + 1)
                 if (u * 3 + v * 5) % 4 != 0]
        return F.new_sparse_mapping(bip(n, m, edges))
    yield 'sparse', sparse


def attempt(tag, thunk, F):
    try:
        res = thunk()
        record(tag, 'OK', res, dump(F))
    except BaseException as e:
        record(tag, 'EXC', type(e).__name__, str(e), dump(F))


# each method alone on each kind of mapping
for kind, mk in makers():
    for n in range(0, 5):
        for m in range(0, 6):
            for meth in METHODS:
                F = CNF()
                try:
                    f = mk(F, n, m)
                except BaseException as e:
                    record(kind, n, m, 'MKEXC', type(e).__name__, str(e))
                    continue
                attempt((kind, n, m, meth), lambda: getattr(F, meth)(f), F)
            # all of them in sequence on the same formula
            F = CNF()
            F.new_variable('pad')
            f = mk(F, n, m)
            for meth in METHODS:
                attempt((kind, n, m, 'seq', meth),
                        lambda: getattr(F, meth)(f), F)
            record(list(F.all_variable_labels()), F.to_dimacs())

# error paths: wrong object, mapping of another formula
for meth in METHODS:
    F = CNF()
    G = CNF()
    f = F.new_mapping(3, 2)
    g = G.new_mapping(3, 2)
    gb = G.new_binary_mapping(3, 2)
    blk = F.new_block(3, 2)
    comb = F.new_combinations(4, 2)
    B = bip(2, 2, [(1, 1), (2, 2), (1, 2)])
    edg = F.new_bipartite_edges(B)
    for name, obj in [('other-unary', g), ('other-binary', gb), ('block', blk),
                      ('comb', comb), ('bipedges', edg), ('none', None),
                      ('int', 3), ('list', [1, 2]), ('str', 'f')]:
        attempt((meth, name), lambda: getattr(F, meth)(obj), F)
    attempt((meth, 'own'), lambda: getattr(F, meth)(f), F)

# bare VariablesManager on base formulas (as in the doctests)
for cls in [BaseCNF, CNFLinear]:
    for meth in METHODS:
        C = cls()
        V = VariablesManager(C)
        W = VariablesManager(cls())
        f = V.new_mapping(4, 3)
        b = V.new_binary_mapping(3, 5)
        h = W.new_mapping(2, 2)
        for name, obj in [('f', f), ('b', b), ('foreign', h)]:
            attempt((cls.__name__, meth, name),
                    lambda: getattr(V, meth)(obj), C)


# the families
def family(tag, thunk):
    try:
        F = thunk()
        record(tag, 'OK', F.header.get('description'), dump(F),
               list(F.all_variable_labels()), F.to_dimacs())
    except BaseException as e:
        record(tag, 'EXC', type(e).__name__, str(e))


for p in range(0, 5):
    for h in range(0, 5):
        for fun in (False, True):
            for onto in (False, True):
                family(('php', p, h, fun, onto),
                       lambda: PigeonholePrinciple(p, h, functional=fun, onto=onto))
                edges = [(u, v) for u in range(1, p + 1)
                         for v in range(1, h + 1) if (u + 2 * v) % 3 != 0]
                family(('gphp', p, h, fun, onto),
                       lambda: GraphPigeonholePrinciple(bip(p, h, edges),
                                                        functional=fun,
                                                        onto=onto))
        family(('bphp', p, h), lambda: BinaryPigeonholePrinciple(p, h))
        for r in range(0, 4):
            family(('rphp', p, r, h),
                   lambda: RelativizedPigeonholePrinciple(p, r, h))
for n in range(0, 5):
    for k in range(0, 4):
        for c in range(0, 4):
            family(('cliquecol', n, k, c), lambda: CliqueColoring(n, k, c))
family('phpbad', lambda: PigeonholePrinciple(-1, 2))
family('phpbad2', lambda: PigeonholePrinciple(2, 'x'))
family('gphpbad', lambda: GraphPigeonholePrinciple('x'))

print(H.hexdigest())
