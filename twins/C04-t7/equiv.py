#!/usr/bin/env python
"""Equivalence script for t7: BipartiteEdgesVariables.indices (unary / sparse mappings)."""
import sys, os, hashlib, random
from itertools import product
sys.path.insert(0, os.getcwd())

from cnfgen import CNF
from cnfgen.formula.opb import OPB
from cnfgen.formula.basecnf import BaseCNF
from cnfgen.formula.variables import BipartiteEdgesVariables, UnaryMappingVariables
from cnfgen.graphs import BipartiteGraph, CompleteBipartiteGraph

H = hashlib.sha256()


def emit(*args):
    H.update((" ".join(repr(a) for a in args) + "\n").encode())


def norm(res):
    """Make results observable: consume iterators, remember their kind"""
    if isinstance(res, (int, str, tuple)) or res is None:
        return (type(res).__name__, res)
    kind = type(res).__name__
    return (kind, list(res))


def attempt(tag, fn):
    try:
        emit(tag, 'OK', norm(fn()))
    except Exception as e:  # noqa
        emit(tag, 'EXC', type(e).__name__, str(e))


def sat_set(clauses, nvars):
    res = []
    for bits in product([False, True], repeat=nvars):
        if all(any((bits[abs(l) - 1] == (l > 0)) for l in cl) for cl in clauses):
            res.append(''.join('1' if b else '0' for b in bits))
    return res


def graphs():
    yield 'K00', CompleteBipartiteGraph(0, 0)
    yield 'K03', CompleteBipartiteGraph(0, 3)
    yield 'K20', CompleteBipartiteGraph(2, 0)
    yield 'K11', CompleteBipartiteGraph(1, 1)
    yield 'K23', CompleteBipartiteGraph(2, 3)
    yield 'K32', CompleteBipartiteGraph(3, 2)
    B = BipartiteGraph(3, 4)
    yield 'E34', B
    B = BipartiteGraph(2, 3)
    for e in [(2, 1), (1, 3), (2, 2)]:
        B.add_edge(*e)
    yield 'S23', B
    B = BipartiteGraph(4, 3)
    for e in [(1, 2), (1, 3), (2, 1), (4, 3), (4, 1)]:
        B.add_edge(*e)
    yield 'S43', B      # left vertex 3 isolated
    rng = random.Random(7)
    for t in range(4):
        L, R = rng.randint(1, 4), rng.randint(1, 4)
        B = BipartiteGraph(L, R)
        for u in range(1, L + 1):
            for v in range(1, R + 1):
                if rng.random() < 0.5:
                    B.add_edge(u, v)
        yield 'R%d' % t, B


VALUES = [None, -1, 0, 1, 2, 3, 4, 5, 6]
ODD = [(), (1,), (None,), (1, 2, 3), (None, None, None), ('a', None), (None, 'a'), ('a', 1),
       (1, 'a'), (1.0, None), (None, 2.0), (1.0, 1.0), (1.5, 1), (True, None), (None, True),
       (True, True), ([1], None), (None, [1])]

# 1. the variable groups themselves
for offset in (0, 5):
    for name, G in graphs():
        for cls in (BipartiteEdgesVariables, UnaryMappingVariables):
            F = BaseCNF()
            F.update_variable_number(offset)
            e = cls(F, G, labelfmt='m({},{})')
            emit('grp', offset, name, cls.__name__, len(e), list(e), e.to_dict())
            pats = [(u, v) for u in VALUES for v in VALUES] + ODD
            for p in pats:
                attempt(('indices', offset, name, p), lambda: e.indices(*p))
                attempt(('call', offset, name, p), lambda: e(*p))
                attempt(('label', offset, name, p), lambda: e.label(*p))
            for lit in range(-len(e) - offset - 2, len(e) + offset + 3):
                attempt(('to_index', offset, name, lit), lambda: e.to_index(lit))
            if cls is UnaryMappingVariables:
                for x in VALUES[1:]:
                    attempt(('domain', name, x), lambda: e.domain(x))
                    attempt(('range', name, x), lambda: e.range(x))
                emit('dom/rng', list(e.domain()), list(e.range()))

# 2. mapping constraints on top of them, CNF and OPB
WHICH = ['complete', 'functional', 'surjective', 'injective', 'nondecreasing', 'all']
for cls in (CNF, OPB):
    for name, G in graphs():
        for which in WHICH:
            F = cls()
            F.new_variable('pad')
            f = F.new_sparse_mapping(G)

            def build():
                if which in ('complete', 'all'):
                    F.force_complete_mapping(f)
                if which in ('functional', 'all'):
                    F.force_functional_mapping(f)
                if which in ('surjective', 'all'):
                    F.force_surjective_mapping(f)
                if which in ('injective', 'all'):
                    F.force_injective_mapping(f)
                if which in ('nondecreasing', 'all'):
                    F.force_nondecreasing_mapping(f)
            attempt(('force', cls.__name__, name, which), build)
            emit('content', cls.__name__, name, which, F.number_of_variables(),
                 list(F), list(F.all_variable_labels()))
            if cls is CNF:
                emit('dimacs', F.to_dimacs())
                if F.number_of_variables() <= 10:
                    emit('models', sat_set(list(F), F.number_of_variables()))
            else:
                emit('opb', F.to_opb())
    for n in range(0, 4):
        for m in range(0, 4):
            F = cls()
            f = F.new_mapping(n, m)
            F.force_complete_mapping(f)
            F.force_functional_mapping(f)
            F.force_injective_mapping(f)
            F.force_surjective_mapping(f)
            F.force_nondecreasing_mapping(f)
            emit('dense', cls.__name__, n, m, list(F), list(F.all_variable_labels()))
    attempt(('neg', cls.__name__), lambda: cls().new_mapping(-1, 2))
    attempt(('foreign', cls.__name__),
            lambda: cls().force_complete_mapping(cls().new_mapping(2, 2)))
    attempt(('notmap', cls.__name__),
            lambda: cls().force_injective_mapping(cls().new_block(2, 2)))

# 3. formula families built on unary / sparse mappings
import cnfgen
for fam, args in [('PigeonholePrinciple', (3, 2)), ('PigeonholePrinciple', (2, 3)),
                  ('PigeonholePrinciple', (4, 3, True, True)),
                  ('GraphPigeonholePrinciple', (dict(graphs())['S43'],)),
                  ('GraphPigeonholePrinciple', (dict(graphs())['R2'], True, True)),
                  ('PerfectMatchingPrinciple', (cnfgen.graphs.Graph.complete_graph(4),))
                  if hasattr(cnfgen.graphs.Graph, 'complete_graph') else ('PigeonholePrinciple', (1, 1)),
                  ('GraphIsomorphism', (cnfgen.graphs.Graph.complete_graph(3), cnfgen.graphs.Graph.complete_graph(3)))
                  if hasattr(cnfgen.graphs.Graph, 'complete_graph') else ('PigeonholePrinciple', (1, 2)),
                  ('SubsetCardinalityFormula', (dict(graphs())['K32'],)),
                  ('SubsetCardinalityFormula', (dict(graphs())['R1'], True)),
                  ]:
    attempt(('family', fam, len(args)), lambda: getattr(cnfgen, fam)(*args).to_dimacs())

print(H.hexdigest())
