"""Equivalence harness for the refactoring of
cnfgen/formula/variables.py: WordOfIndicesVariables.__init__ (numbering
of the index tuples) and WordOfIndicesVariables.__call__ (lookup).

These variable groups (created with new_combinations) carry the
variables of CountingPrinciple and the edge variables of CliqueColoring.
"""
import sys, os, hashlib
sys.path.insert(0, os.getcwd())

from cnfgen.formula.cnf import CNF
from cnfgen.formula.basecnf import BaseCNF
from cnfgen.formula.variables import WordOfIndicesVariables
from cnfgen.families.counting import CountingPrinciple
from cnfgen.families.cliquecoloring import CliqueColoring

out = []


def record(*items):
    out.append(repr(items))


def attempt(tag, fn):
    try:
        res = fn()
        if hasattr(res, '__next__') or hasattr(res, '__iter__') and not isinstance(res, (str, tuple, list, dict)):
            res = ('ITER', type(res).__name__ in ('generator',), list(res))
        record(tag, 'OK', res)
    except BaseException as e:
        record(tag, 'EXC', type(e).__name__, str(e), repr(e.__context__), repr(e.__cause__))


def dump_formula(tag, F):
    record(tag, F.header.get('description'), F.number_of_variables(),
           [list(c) for c in F.clauses()], list(F.all_variable_labels()))
    record(tag, 'dimacs', F.to_dimacs())


wordtypes = ['combinations', 'combinations_with_replacement', 'permutations', 'words']

# the variable group on its own
for offset in [0, 3]:
    for wt in wordtypes:
        for n in range(0, 5):
            for k in range(0, 4):
                tag = ('VG', offset, wt, n, k)
                F = BaseCNF()
                F.update_variable_number(offset)
                try:
                    V = WordOfIndicesVariables(F, n, k, labelfmt='w[{}]', wordtype=wt)
                except BaseException as e:
                    record(tag, 'INIT-EXC', type(e).__name__, str(e))
                    continue
                record(tag, len(V), V.n, V.k, V.wordtype, V.offset,
                       list(V.vid2seq), sorted(V.seq2vid.items()),
                       F.number_of_variables())
                attempt(tag + ('call()',), lambda: V())
                attempt(tag + ('indices()',), lambda: V.indices())
                attempt(tag + ('label()',), lambda: V.label())
                attempt(tag + ('iter',), lambda: list(V))
                attempt(tag + ('to_dict',), lambda: sorted(V.to_dict().items()))
                for pat in [(), (1,), (1, 2), (2, 1), (1, 1), (1, 2, 3), (3, 2, 1),
                            (0,), (n,), (n + 1,), (1, n + 1), (-1, 1), (None,),
                            (1, None), (None, None), ('1', '2'), (1.0, 2.0),
                            (True, 2), ([1], 2), ((1, 2),)]:
                    attempt(tag + ('call', repr(pat)), lambda: V(*pat))
                    attempt(tag + ('indices', repr(pat)), lambda: V.indices(*pat))
                    attempt(tag + ('label', repr(pat)), lambda: V.label(*pat))
                for lit in [0, 1, -1, offset, offset + 1, -(offset + 1),
                            offset + len(V), offset + len(V) + 1]:
                    attempt(tag + ('to_index', lit), lambda: V.to_index(lit))
                    attempt(tag + ('contains', lit), lambda: lit in V)

# wrong constructor arguments
for args, kw in [((3, 2), dict(wordtype='nonsense')),
                 ((-1, 2), {}), ((3, -1), {}), ((3.0, 2), {}), ((3, '2'), {}),
                 ((3, 2), dict(labelfmt='p_{}_{}')), ((3, 2), dict(labelfmt='plain')),
                 ((3, 2), dict(labelfmt=None)), ((2, 3), {}), ((True, 1), {})]:
    F = BaseCNF()
    try:
        V = WordOfIndicesVariables(F, *args, **kw)
        record('CTOR', repr(args), repr(kw), len(V), list(V.label()), list(V()))
    except BaseException as e:
        record('CTOR-EXC', repr(args), repr(kw), type(e).__name__, str(e))

# through the variable manager, several groups in the same formula
F = CNF()
a = F.new_combinations(4, 2, label='a_{{{}}}')
x = F.new_variable('x')
b = F.new_permutations(3, 2, label='b_{{{}}}')
c = F.new_combinations_with_replacement(3, 2)
d = F.new_words(2, 3, label='d<{}>')
e = F.new_permutations(3)
z = F.new_combinations(0, 2)
for name, g in [('a', a), ('b', b), ('c', c), ('d', d), ('e', e), ('z', z)]:
    record('MGR', name, len(g), list(g()), list(g.indices()), list(g.label()))
record('MGR-labels', list(F.all_variable_labels()), F.number_of_variables())
attempt('MGR-a(2,3)', lambda: a(2, 3))
attempt('MGR-a(3,2)', lambda: a(3, 2))
attempt('MGR-b(3,2)', lambda: b(3, 2))
attempt('MGR-d(2,2,2)', lambda: d(2, 2, 2))
attempt('MGR-z()', lambda: z())
attempt('MGR-z(1,2)', lambda: z(1, 2))

# the two families that use these groups
for M in range(0, 8):
    for p in range(1, 5):
        try:
            dump_formula(('COUNT', M, p), CountingPrinciple(M, p))
        except BaseException as e_:
            record(('COUNT', M, p), 'EXC', type(e_).__name__, str(e_))
for bad in [(-1, 2), (3, 0), (3, -1), ('3', 2), (3, 2.0), (None, 1)]:
    try:
        dump_formula(('COUNT', bad), CountingPrinciple(*bad))
    except BaseException as e_:
        record(('COUNT', bad), 'EXC', type(e_).__name__, str(e_))
for n in range(0, 5):
    for k in range(0, 4):
        for cc in range(0, 4):
            try:
                dump_formula(('CC', n, k, cc), CliqueColoring(n, k, cc))
            except BaseException as e_:
                record(('CC', n, k, cc), 'EXC', type(e_).__name__, str(e_))
for bad in [(-1, 2, 2), (3, -1, 2), (3, 2, -1), (3.0, 2, 2), ('3', 2, 2)]:
    try:
        dump_formula(('CC', bad), CliqueColoring(*bad))
    except BaseException as e_:
        record(('CC', bad), 'EXC', type(e_).__name__, str(e_))

print(hashlib.sha256("\n".join(out).encode('utf-8')).hexdigest())
