"""Equivalence digest for CountingPrinciple (cnfgen/families/counting.py)."""
import hashlib
import sys
sys.path.insert(0, '.')

from cnfgen.families.counting import CountingPrinciple, PerfectMatchingPrinciple
from cnfgen.formula.cnf import CNF
from cnfgen.formula.opb import OPB
from cnfgen.graphs import Graph

H = hashlib.sha256()


def emit(*items):
    for it in items:
        H.update(repr(it).encode('utf-8'))
        H.update(b'\n')


def observe(tag, thunk):
    emit('CASE', tag)
    try:
        F = thunk()
    except Exception as exc:  # record type and message
        emit('EXC', type(exc).__name__, str(exc))
        return
    emit('TYPE', type(F).__name__)
    emit('HEADER', sorted(F.header.items()))
    emit('NVARS', F.number_of_variables(), 'LEN', len(F))
    emit('LABELS', list(F.all_variable_labels()))
    emit('BODY', [list(c) if not isinstance(c, list) else c for c in F])
    if isinstance(F, OPB):
        emit('OPB', F.to_opb())
    else:
        emit('DIMACS', F.to_dimacs())
        emit('LATEX', F.to_latex())


for M in range(0, 9):
    for p in range(1, 6):
        observe(('count', M, p), lambda: CountingPrinciple(M, p))
        observe(('count-opb', M, p), lambda: CountingPrinciple(M, p, formula_class=OPB))
observe(('count', 10, 2), lambda: CountingPrinciple(10, 2))
observe(('count', 9, 3), lambda: CountingPrinciple(9, 3))
observe(('count', 3, 7), lambda: CountingPrinciple(3, 7))

# invalid arguments
for M, p in [(-1, 2), (3, 0), (3, -1), ('a', 2), (3, 'b'), (2.0, 1), (4, 2.5),
             (None, 1), (True, 1), (5, None)]:
    observe(('count-bad', repr(M), repr(p)), lambda: CountingPrinciple(M, p))

# the sibling in the same module, for completeness
for n in range(0, 6):
    observe(('pm-complete', n), lambda: PerfectMatchingPrinciple(Graph.complete_graph(n)))
    observe(('pm-empty', n), lambda: PerfectMatchingPrinciple(Graph.empty_graph(n)))
    observe(('pm-star', n), lambda: PerfectMatchingPrinciple(Graph.star_graph(n)))
observe(('pm-bad',), lambda: PerfectMatchingPrinciple(42))

print(H.hexdigest())
