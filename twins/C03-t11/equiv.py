#!/usr/bin/env python
"""Equivalence script for refactoring t11 (OPCmdHelper.build_formula, the
`cnfgen op ...` command line helper).

Run as:  cd <checkout> && /venv/bin/python equiv.py
Prints one SHA256 digest of everything observable.
"""
import sys, os, io, re, hashlib, random, warnings, argparse
sys.path.insert(0, os.getcwd())
warnings.simplefilter('ignore')

from contextlib import redirect_stdout, redirect_stderr

from cnfgen.clitools import cnfgen as cnfgen_cli
from cnfgen.clitools import CLIError
from cnfgen.clihelpers.ordering_helpers import OPCmdHelper
from cnfgen.formula.cnf import CNF
from cnfgen.graphs import Graph

out = []


def rec(*items):
    out.append(repr(items))


def run_cli(argv, mode='string'):
    """Run the command line, record result / exception, output streams and
    the state of the random generator afterwards"""
    so, se = io.StringIO(), io.StringIO()
    random.seed(987654321)
    try:
        with redirect_stdout(so), redirect_stderr(se):
            res = cnfgen_cli(['cnfgen'] + argv, mode=mode)
        if mode == 'formula':
            res = (res.number_of_variables(), list(res.clauses()),
                   list(res.all_variable_labels()), dict(res.header))
        rec('cli', argv, mode, 'ok', res, so.getvalue(), se.getvalue())
    except SystemExit as e:
        rec('cli', argv, mode, 'exit', e.code, so.getvalue(), se.getvalue())
    except Exception as e:
        rec('cli', argv, mode, 'exc', type(e).__name__, str(e),
            type(e.__context__).__name__, so.getvalue(), se.getvalue())
    rec('rng', random.random())


flagsets = [[], ['--total'], ['-t'], ['--smart'], ['-s'], ['--knuth2'], ['--knuth3'],
            ['--plant'], ['-p'], ['--total', '--plant'], ['--smart', '-p'],
            ['--knuth2', '--plant'], ['--knuth3', '-p']]

# 1. plain ordering principle  `op N`
for N in (0, 1, 2, 3, 4, 5):
    for flags in flagsets:
        run_cli(['-q', 'op', str(N)] + flags)
run_cli(['-q', 'op'] + ['--plant', '4'])
run_cli(['-q', 'op', '-t', '3'], mode='formula')
run_cli(['-q', '-of', 'latex', 'op', '3'])
run_cli(['-q', '-of', 'opb', 'op', '3', '-s'])
run_cli(['-v', 'op', '3'], mode='output')
run_cli(['-q', 'op', '3', '--knuth3', '--plant'], mode='output')
run_cli(['-v', '--seed', '5', 'op', '4', '2', '-t'], mode='output')

# 2. graph ordering principle on a random regular graph `op N d`
for seed in (0, 1, 42):
    for (N, d) in [(4, 2), (5, 2), (6, 3), (7, 4), (4, 3), (3, 2), (1, 0), (2, 1),
                   (5, 0), (0, 0), (4, 0)]:
        for flags in ([], ['--total'], ['--smart'], ['--knuth2'], ['--knuth3'], ['--plant']):
            run_cli(['-q', '--seed', str(seed), 'op', str(N), str(d)] + flags)
# without explicit seed (generator seeded by run_cli)
run_cli(['-q', 'op', '8', '3'])
run_cli(['-q', 'op', '8', '3'], mode='formula')

# 3. error paths of the `N d` variant
for (N, d) in [(5, 3), (3, 1), (7, 5), (3, 3), (2, 5), (4, 4), (-4, 2), (4, -2), (-3, -1),
               (5, -3), (-5, 3)]:
    run_cli(['-q', '--seed', '7', 'op', str(N), str(d)])
    run_cli(['-q', '--seed', '7', 'op', str(N), str(d), '--plant', '-t'])
for argv in [['op'], ['op', '-t'], ['op', '3', '-t', '-s'], ['op', '3', '--knuth2', '--knuth3'],
             ['op', '-3'], ['op', '3.5'], ['op', '3', '2.5'], ['op', '3', '2', '1'],
             ['op', 'three'], ['op', '3', 'two'], ['op', '--', '-3'], ['op', '1e1'],
             ['op', '--bogus', '3'], ['op', '3', '--help'], ['op', '-h']]:
    run_cli(['-q'] + argv)

# 4. graph ordering principle on an explicit graph `op <graph>`
for spec in [['complete', '4'], ['gnp', '6', '.5'], ['gnm', '5', '6'], ['gnd', '6', '3'],
             ['grid', '2', '3'], ['torus', '3', '3'], ['empty', '3'], ['complete', '0'],
             ['gnd', '5', '3'], ['gnp', '4', '1.5'], ['nonsense', '3'], ['gnm', '3', '10']]:
    for flags in ([], ['--total'], ['--smart'], ['--knuth2'], ['--knuth3'], ['--plant']):
        run_cli(['-q', '--seed', '3', 'op'] + spec + flags)
run_cli(['-q', '--seed', '3', 'op', 'gnp', '5', '.4', 'plantclique', '3'])
run_cli(['-q', '--seed', '3', 'op', '--plant', 'gnp', '5', '.4'])

# 5. build_formula called directly with hand made namespaces
def direct(tag, **kw):
    random.seed(2024)
    ns = argparse.Namespace(**kw)
    try:
        F = OPCmdHelper.build_formula(ns, formula_class=CNF)
        rec('direct', tag, 'ok', type(F).__name__, F.number_of_variables(),
            list(F.clauses()), list(F.all_variable_labels()), dict(F.header))
    except Exception as e:
        rec('direct', tag, 'exc', type(e).__name__, str(e))
    rec('rng', random.random())


base = dict(total=False, smart=False, plant=False, knuth=None)
G = Graph.complete_graph(4)
G.remove_edge(1, 3)
direct('only-N', N=4, **base)
direct('N-d-none', N=4, d=None, **base)
direct('N-d', N=6, d=3, **base)
direct('N-d-zero', N=3, d=0, **base)
direct('N-d-odd', N=5, d=3, **base)
direct('N-d-big', N=3, d=4, **base)
direct('G-only', G=G, **base)
direct('G-and-N', G=G, N=7, d=None, **base)
direct('G-and-N-d', G=G, N=5, d=3, **base)
direct('G-none', G=None, N=5, **base)
direct('nothing', **base)
direct('d-only', d=2, **base)
direct('d-none-only', d=None, **base)
direct('N-str', N='4', **base)
direct('N-d-str', N='4', d='2', **base)
direct('N-float-d', N=4, d=2.0, **base)
direct('missing-flags-N', N=3)
direct('missing-flags-G', G=G)
direct('missing-flags-Nd', N=4, d=2)
direct('missing-flags-Nd-odd', N=5, d=3)
for variant in (dict(total=True), dict(smart=True), dict(plant=True), dict(knuth=2),
                dict(knuth=3), dict(knuth=5), dict(total=True, plant=True),
                dict(smart=True, plant=True)):
    kw = dict(base)
    kw.update(variant)
    direct(('var-N', sorted(variant.items())), N=4, **kw)
    direct(('var-Nd', sorted(variant.items())), N=6, d=3, **kw)
    direct(('var-G', sorted(variant.items())), G=G, **kw)

# the version string comes from `git describe`: make the digest independent of it
text = re.sub(r"CNFgen \([^)\n]*\)", "CNFgen (VERSION)", "\n".join(out))
print(hashlib.sha256(text.encode('utf-8')).hexdigest())
