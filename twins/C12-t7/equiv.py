#!/usr/bin/env python
"""Equivalence script for C12/t7: comment section (header and variable names)
of to_opb_file in cnfgen/utils/opb.py.

Run as:  cd <checkout> && /venv/bin/python equiv.py
Prints one SHA256 digest of everything observable (text written, the exact
sequence of write() calls, exceptions and partial output on failing streams).
"""
import hashlib
import io
import os
import random
import shutil
import sys
import tempfile
import warnings
from collections import OrderedDict
from contextlib import redirect_stdout, redirect_stderr

warnings.simplefilter("ignore")
sys.path.insert(0, os.getcwd())

from cnfgen.utils.opb import to_opb_file
from cnfgen.formula.cnf import CNF
from cnfgen.formula.opb import OPB
from cnfgen.formula.cnfio import CNFio
from cnfgen.formula.opbio import OPBio
from cnfgen.formula.basecnf import BaseCNF
from cnfgen.formula.baseopb import BaseOPB

H = hashlib.sha256()
tmpdir = tempfile.mkdtemp(prefix="c12t7_")


def rec(*items):
    for it in items:
        H.update(repr(it).replace(tmpdir, "<TMP>").encode("utf-8", errors="replace"))
        H.update(b"\x00")
    H.update(b"\n")


def attempt(label, fn, *args, **kwargs):
    try:
        res = fn(*args, **kwargs)
        rec(label, "OK", res)
        return res
    except BaseException as e:  # noqa
        rec(label, "EXC", type(e).__name__, str(e))
        return None


class Recorder:
    """File-like object logging each write call; may fail after some calls"""

    def __init__(self, fail_after=None, exc=OSError):
        self.calls = []
        self.fail_after = fail_after
        self.exc = exc

    def write(self, text):
        if self.fail_after is not None and len(self.calls) >= self.fail_after:
            raise self.exc("write number %d refused" % (len(self.calls) + 1))
        self.calls.append(text)
        return len(text)


class NoWrite:
    pass


HEADERS = [
    None,  # keep the default header
    OrderedDict(),
    OrderedDict([("description", "plain")]),
    OrderedDict([("description", "two\nlines"), ("other", "three\nmore\nlines\n")]),
    OrderedDict([("description", "café ∀x 中文"), ("über", "naïve")]),
    OrderedDict([("description", ""), ("", ""), ("empty", "\n"), ("nl", "\n\n")]),
    OrderedDict([("description", "crlf\r\nline\rcr\x0bvt\x0cff\x1cfs\x85nel ls")]),
    OrderedDict([("description", 12), (3, None), (("a", 1), [1, 2]), (None, 2.5)]),
    OrderedDict([("description", "* looks like a comment"), ("p", "+1 x1 >= 1"), ("q", "* #variable= 9 #constraint= 9")]),
    {"description": "plain dict", "z": "last", "a": "first"},
    OrderedDict([("description", "x" * 300), ("tab", "a\tb"), ("spaces", "  lead and trail  ")]),
]


def cnf_small():
    F = CNF([[1, -2], [], [3], [-1, -3, 2]])
    return F


def cnf_named():
    F = CNF()
    F.new_variable("A")
    F.update_variable_number(3)
    b = F.new_block(2, 2, label="p_{{{},{}}}")
    F.new_variable("multi\nline\r\nlabel")
    F.new_variable("café")
    F.new_variable("")
    F.add_clause([1, -b(1, 2), b(2, 2)])
    F.add_clause([-2, 8])
    F.update_variable_number(12)
    return F


def cnf_none_label():
    F = CNF()
    F.new_variable()
    F.new_variable(17)
    F.add_clause([1, -2])
    return F


def opb_small():
    F = OPB()
    F.add_constraint([(3, 1), (-2, 2), (1, -3), ">=", 2])
    F.add_constraint([(2, 1), (5, -4), "==", 4])
    F.add_constraint([">=", 0])
    F.add_constraint(["==", 3])
    F.add_constraint([(1, 2), (1, 3), "<", 2])
    F.add_constraint([(10 ** 20, 2), (1, -5), "<=", 10 ** 19])
    F.add_clause([])
    F.add_clause([1, -5])
    return F


def opb_named():
    F = OPB()
    x = F.new_variable("w^2")
    e = F.new_combinations(3, 2)
    F.update_variable_number(6)
    F.new_variable("line1\nline2")
    F.cardinality_leq([x, e(1, 2), -e(2, 3)], 1)
    F.cardinality_eq(list(e()), 2)
    F.add_constraint([(4, 5), (2, -6), (1, 7), ">", 3])
    return F


def cnf_empty():
    return CNF()


def opb_empty():
    return OPB()


def only_vars_cnf():
    F = CNFio()
    F.update_variable_number(5)
    return F


def only_vars_opb():
    F = OPBio()
    F.update_variable_number(2)
    return F


def base_cnf():
    return BaseCNF([[1, 2], [-2]])


def base_opb():
    return BaseOPB([[(2, 1), (1, -2), ">=", 2], [(1, 3), "==", 1]])


def random_cnf(seed):
    rng = random.Random(seed)
    F = CNFio(description="random cnf %d" % seed)
    n = rng.randint(1, 9)
    for _ in range(rng.randint(0, 12)):
        k = rng.randint(0, min(n, 4))
        F.add_clause([v * rng.choice([1, -1]) for v in rng.sample(range(1, n + 1), k)])
    F.update_variable_number(n)
    return F


def random_opb(seed):
    rng = random.Random(seed)
    F = OPBio(description="random opb %d" % seed)
    n = rng.randint(1, 9)
    for _ in range(rng.randint(0, 12)):
        k = rng.randint(0, min(n, 4))
        lits = [v * rng.choice([1, -1]) for v in rng.sample(range(1, n + 1), k)]
        F.add_constraint([(rng.randint(-4, 6), l) for l in lits]
                         + [rng.choice([">=", "<=", "==", ">", "<"]), rng.randint(-3, 5)])
    return F


MAKERS = [cnf_small, cnf_named, cnf_none_label, opb_small, opb_named, cnf_empty, opb_empty,
          only_vars_cnf, only_vars_opb, base_cnf, base_opb]
MAKERS += [(lambda s=s: random_cnf(s)) for s in range(6)]
MAKERS += [(lambda s=s: random_opb(s)) for s in range(6)]

# ------------------------------------------------------------------ main sweep
for mi, mk in enumerate(MAKERS):
    for hi, hd in enumerate(HEADERS):
        for eh in (True, False):
            for ev in (True, False):
                F = mk()
                if hd is not None:
                    F.header = hd
                label = ("sweep", mi, hi, eh, ev)
                r = Recorder()
                attempt(label, to_opb_file, F, r, export_header=eh, export_varnames=ev)
                rec(label, "calls", r.calls)
                text = "".join(r.calls)
                # everything but the constraints is a comment
                rec(label, "noncomment", [l for l in text.split("\n") if l and not l.startswith("*")])

# default arguments, to_opb strings, to_file
for mi, mk in enumerate(MAKERS):
    F = mk()
    buf = io.StringIO()
    attempt(("defaults", mi), to_opb_file, F, buf)
    rec(("defaults", mi), buf.getvalue())
    if hasattr(F, "to_opb"):
        attempt(("to_opb", mi), F.to_opb)
    if hasattr(F, "to_file"):
        for eh in (True, False):
            for ev in (True, False):
                buf = io.StringIO()
                attempt(("to_file", mi, eh, ev), F.to_file, buf, fileformat="opb",
                        export_header=eh, export_varnames=ev)
                rec(("to_file", mi, eh, ev), buf.getvalue())

# ----------------------------------------------------- failing output streams
for mi, mk in enumerate([cnf_named, opb_named, cnf_empty]):
    for hi in (0, 3, 5):
        for k in range(0, 30):
            for exc in (OSError, ValueError):
                F = mk()
                if HEADERS[hi] is not None:
                    F.header = HEADERS[hi]
                r = Recorder(fail_after=k, exc=exc)
                label = ("failing", mi, hi, k, exc.__name__)
                attempt(label, to_opb_file, F, r, export_header=True, export_varnames=True)
                rec(label, r.calls)

for mi, mk in enumerate([cnf_small, opb_small]):
    F = mk()
    attempt(("nowrite", mi), to_opb_file, F, NoWrite(), export_header=True, export_varnames=True)
    closed = io.StringIO()
    closed.close()
    attempt(("closed", mi), to_opb_file, F, closed, export_header=True, export_varnames=True)
    attempt(("int-target", mi), to_opb_file, F, 5)
    binary = io.BytesIO()
    attempt(("bytes-target", mi), to_opb_file, F, binary)
    rec(("bytes-target", mi), binary.getvalue())

# broken header objects
for mi, mk in enumerate([cnf_small, opb_small]):
    for hi, hd in enumerate([None, [("description", "list")], "description", 7]):
        F = mk()
        F.header = hd
        for eh in (True, False):
            r = Recorder()
            attempt(("badheader", mi, hi, eh), to_opb_file, F, r, export_header=eh, export_varnames=True)
            rec(("badheader", mi, hi, eh), r.calls)

# ----------------------------------------------------- file names and stdout
for mi, mk in enumerate(MAKERS[:9]):
    for eh in (True, False):
        for ev in (True, False):
            F = mk()
            F.header["unicode"] = "café\nsecond"
            path = os.path.join(tmpdir, "f_%d_%d_%d.opb" % (mi, eh, ev))
            attempt(("filename", mi, eh, ev), to_opb_file, F, path, export_header=eh, export_varnames=ev)
            with open(path, "rb") as fh:
                rec(("filename", mi, eh, ev), fh.read())
            out = io.StringIO()
            with redirect_stdout(out):
                attempt(("stdout", mi, eh, ev), to_opb_file, F, None, export_header=eh, export_varnames=ev)
            rec(("stdout", mi, eh, ev), out.getvalue())

attempt(("missing-dir",), to_opb_file, cnf_small(), os.path.join(tmpdir, "no", "such", "dir.opb"))
attempt(("is-a-dir",), to_opb_file, cnf_small(), tmpdir)
attempt(("empty-name",), to_opb_file, cnf_small(), "")

# ----------------------------------------------------------- command lines
from cnfgen.clitools.cnfgen import cli as cnfgen_cli
from cnfgen.clitools.pbgen import cli as pbgen_cli

for k, (cli, argv) in enumerate([
        (cnfgen_cli, ["cnfgen", "-of", "opb", "php", "3", "2"]),
        (cnfgen_cli, ["cnfgen", "-q", "-of", "opb", "op", "3"]),
        (cnfgen_cli, ["cnfgen", "--varnames", "-of", "opb", "--seed", "5", "randkcnf", "3", "5", "7"]),
        (cnfgen_cli, ["cnfgen", "--varnames", "-of", "opb", "peb", "pyramid", "2", "-T", "xor", "2"]),
        (pbgen_cli, ["pbgen", "php", "4", "3"]),
        (pbgen_cli, ["pbgen", "-q", "--varnames", "php", "3", "2"]),
        (pbgen_cli, ["pbgen", "--varnames", "php", "2", "2"])]):
    out, err = io.StringIO(), io.StringIO()
    with redirect_stdout(out), redirect_stderr(err):
        try:
            res = cli(argv, mode="output")
            rec(("cli", k), "OK", res)
        except BaseException as e:  # noqa
            rec(("cli", k), "EXC", type(e).__name__, str(e))
    rec(("cli", k), out.getvalue(), err.getvalue())

shutil.rmtree(tmpdir, ignore_errors=True)
print(H.hexdigest())
