#!/usr/bin/env python
"""Equivalence digest for the pigeonhole principle family (plain, functional,
onto, matching; complete and graph versions): formula names/descriptions,
clauses, variable labels, all output formats and error paths."""
import hashlib
import io
import os
import sys
import random
import itertools
import contextlib
sys.path.insert(0, os.getcwd())

import networkx as nx
from cnfgen.formula.cnf import CNF
from cnfgen.graphs import BipartiteGraph, CompleteBipartiteGraph, Graph
from cnfgen.graphs import bipartite_random_left_regular, bipartite_random_regular
from cnfgen.families.pigeonhole import (PigeonholePrinciple,
                                        GraphPigeonholePrinciple,
                                        BinaryPigeonholePrinciple,
                                        RelativizedPigeonholePrinciple)
import cnfgen
from cnfgen.clitools.cnfgen import cli

out = []


def rec(*items):
    out.append(repr(items))


def dump(F):
    return (sorted(F.header.items()), F.number_of_variables(),
            [list(c) for c in F.clauses()], list(F.all_variable_labels()),
            F.to_dimacs(), F.to_latex(), F.to_opb())


def attempt(tag, fn):
    try:
        rec(tag, 'ok', dump(fn()))
    except Exception as e:   # noqa
        rec(tag, 'exc', type(e).__name__, str(e))


class Flag:
    """Truth value with a record of how many times it was consulted"""
    def __init__(self, value):
        self.value = value
        self.asked = 0

    def __bool__(self):
        self.asked += 1
        return self.value


class Broken:
    def __bool__(self):
        raise RuntimeError("no truth value")


FLAGS = [False, True, 0, 1, 2, None, '', 'yes', [], [0], 0.0, 1.5, (), (False,)]

for p, h in itertools.product(range(0, 5), range(0, 5)):
    for fn, on in itertools.product([False, True], repeat=2):
        attempt(('php', p, h, fn, on),
                lambda: PigeonholePrinciple(p, h, functional=fn, onto=on))
        attempt(('php-api', p, h, fn, on),
                lambda: cnfgen.PigeonholePrinciple(p, h, fn, on))
for fn, on in itertools.product(FLAGS, repeat=2):
    attempt(('php-flags', repr(fn), repr(on)),
            lambda: PigeonholePrinciple(3, 2, functional=fn, onto=on))
    attempt(('gphp-flags', repr(fn), repr(on)),
            lambda: GraphPigeonholePrinciple(CompleteBipartiteGraph(2, 2),
                                             functional=fn, onto=on))
for a, b in itertools.product([False, True], repeat=2):
    fa, fb = Flag(a), Flag(b)
    attempt(('php-counted', a, b), lambda: PigeonholePrinciple(2, 2, fa, fb))
    rec('asked', fa.asked, fb.asked)
    fa, fb = Flag(a), Flag(b)
    attempt(('gphp-counted', a, b),
            lambda: GraphPigeonholePrinciple(CompleteBipartiteGraph(2, 1), fa, fb))
    rec('asked', fa.asked, fb.asked)
for fn, on in [(Broken(), False), (False, Broken()), (True, Broken()), (Broken(), Broken())]:
    attempt(('php-broken', type(fn).__name__, type(on).__name__),
            lambda: PigeonholePrinciple(2, 2, fn, on))
    attempt(('gphp-broken', type(fn).__name__, type(on).__name__),
            lambda: GraphPigeonholePrinciple(CompleteBipartiteGraph(2, 1), fn, on))

# error paths on the numeric parameters
for p, h in [(-1, 2), (2, -1), (-1, -1), (2.0, 2), (2, 2.5), ('2', 2), (2, '3'),
             (None, 1), (1, None), (True, 2), ([1], 2), (10**3, 0), (0, 10**3)]:
    for fn, on in itertools.product([False, True], repeat=2):
        attempt(('php-bad', repr(p), repr(h), fn, on),
                lambda: PigeonholePrinciple(p, h, functional=fn, onto=on))

# graph versions


def graphs():
    yield 'empty00', BipartiteGraph(0, 0)
    yield 'empty20', BipartiteGraph(2, 0)
    yield 'empty03', BipartiteGraph(0, 3)
    yield 'noedges', BipartiteGraph(3, 4)
    B = BipartiteGraph(3, 4, name='my graph')
    for e in [(1, 2), (1, 4), (2, 1), (2, 2), (3, 4), (3, 3), (3, 1)]:
        B.add_edge(*e)
    yield 'named', B
    B = BipartiteGraph(4, 3)
    for e in [(1, 1), (2, 1), (3, 1), (4, 1), (4, 3), (2, 2)]:
        B.add_edge(*e)
    yield 'star', B
    yield 'k33', CompleteBipartiteGraph(3, 3)
    yield 'k42', CompleteBipartiteGraph(4, 2)
    random.seed(42)
    yield 'glrd', bipartite_random_left_regular(5, 4, 2)
    yield 'reg', bipartite_random_regular(4, 6, 3)
    G = nx.Graph()
    G.add_nodes_from(['a', 'b', 'c'], bipartite=0)
    G.add_nodes_from([10, 11], bipartite=1)
    G.add_edges_from([('a', 10), ('b', 10), ('b', 11), ('c', 11)])
    yield 'nx', G
    G = nx.complete_bipartite_graph(2, 3)
    yield 'nxk23', G


for name, B in graphs():
    for fn, on in itertools.product([False, True], repeat=2):
        attempt(('gphp', name, fn, on),
                lambda: GraphPigeonholePrinciple(B, functional=fn, onto=on))
        attempt(('gphp-api', name, fn, on),
                lambda: cnfgen.GraphPigeonholePrinciple(B, fn, on))

bad = [None, 3, 'graph', [1, 2], Graph(3), nx.path_graph(3), nx.complete_graph(3),
       nx.DiGraph([(1, 2)])]
for idx, B in enumerate(bad):
    for fn, on in itertools.product([False, True], repeat=2):
        attempt(('gphp-bad', idx, fn, on),
                lambda: GraphPigeonholePrinciple(B, functional=fn, onto=on))

# different formula class
class MyCNF(CNF):
    pass


for fn, on in itertools.product([False, True], repeat=2):
    F = PigeonholePrinciple(3, 3, fn, on, formula_class=MyCNF)
    rec('cls', type(F).__name__, dump(F))
    F = GraphPigeonholePrinciple(CompleteBipartiteGraph(3, 2), fn, on, formula_class=MyCNF)
    rec('cls', type(F).__name__, dump(F))

# neighbours in the same module
for p, h in itertools.product(range(0, 4), repeat=2):
    attempt(('bphp', p, h), lambda: BinaryPigeonholePrinciple(p, h))
for p, r, h in itertools.product(range(0, 3), repeat=3):
    attempt(('rphp', p, r, h), lambda: RelativizedPigeonholePrinciple(p, r, h))


# command line, with headers
def run(argv):
    random.seed(99)
    so, se = io.StringIO(), io.StringIO()
    try:
        with contextlib.redirect_stdout(so), contextlib.redirect_stderr(se):
            res = cli(['cnfgen'] + argv, mode='string')
        rec(argv, 'ok', res, so.getvalue(), se.getvalue())
    except SystemExit as e:
        rec(argv, 'exit', e.code, so.getvalue(), se.getvalue())
    except Exception as e:  # noqa
        rec(argv, 'exc', type(e).__name__, str(e), so.getvalue(), se.getvalue())


for base in [['3'], ['3', '4'], ['4', '3', '2'], ['complete', '2', '3'],
             ['regular', '4', '2', '1'], ['0', '0'], ['glrd', '4', '3', '2']]:
    for flags in ([], ['--functional'], ['--onto'], ['--functional', '--onto']):
        for of in ('dimacs', 'latex', 'opb'):
            run(['--seed', '2', '-v', '-of', of, 'php'] + flags + base)

print(hashlib.sha256("\n".join(out).encode('utf8')).hexdigest())
