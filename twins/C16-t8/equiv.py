#!/usr/bin/env python
"""Equivalence digest for C16 / t8: BipartiteGraph.from_networkx.

Converts many networkx graphs (well formed, with the two sides
interleaved, with string colours, with missing or bad 'bipartite'
attributes, with edges inside a side, self loops, directed and multi
graphs), plus networkx exports of bipartite graphs built by random
sequences of insertions, and GML/dot files, and records the resulting
graph (all its views) or the exception raised.
"""
import sys
import os
import io
import random
import hashlib

sys.path.insert(0, os.getcwd())

import networkx  # noqa
from cnfgen.graphs import BipartiteGraph, Graph, readGraph, writeGraph  # noqa
from cnfgen.graphs import bipartite_random, has_dot_library  # noqa

OUT = []
PLAIN = (int, float, list, tuple, str, bool, type(None))


def rec(*args):
    OUT.append(repr(args))


def plain(x):
    return x if isinstance(x, PLAIN) else type(x).__name__


def attempt(label, fn, *args):
    shown = tuple(plain(a) for a in args)
    try:
        res = fn(*args)
        rec(label, shown, 'ok', plain(res))
        return res
    except Exception as e:  # record the type and the message
        rec(label, shown, 'EXC', type(e).__name__, str(e),
            type(e.__context__).__name__, type(e.__cause__).__name__)
        return None


def snapshot(B):
    L, R = B.left_order(), B.right_order()
    rec('class', type(B).__name__)
    rec('orders', L, R, B.number_of_vertices(), B.order(), len(B))
    E = B.edges()
    edges = list(E)
    rec('m', B.number_of_edges(), len(E))
    rec('edges', edges, edges == sorted(edges), len(set(edges)) == len(edges))
    rec('edgeset', sorted(B.edgeset))
    rec('ladj', [(k, list(x)) for k, x in B.ladj.items()])
    rec('radj', [(k, list(x)) for k, x in B.radj.items()])
    for u in range(1, L + 1):
        rec('right_neighbors', u, B.right_neighbors(u), B.right_degree(u))
    for v in range(1, R + 1):
        rec('left_neighbors', v, B.left_neighbors(v), B.left_degree(v))
    rec('member', [(u, v) for u in range(0, L + 2) for v in range(0, R + 2)
                   if B.has_edge(u, v)])
    rec('name', B.name)


def convert(label, X):
    rec('convert', label, type(X).__name__, list(X.nodes(data=True)),
        list(X.edges()))
    B = attempt('from_networkx', BipartiteGraph.from_networkx, X)
    if B is not None:
        snapshot(B)
        Y = B.to_networkx()
        rec('export', list(Y.nodes(data=True)), list(Y.edges()), Y.name)
        B2 = BipartiteGraph.from_networkx(Y)
        rec('roundtrip', B2.left_order(), B2.right_order(),
            list(B2.edges()) == list(B.edges()), B2.name)
    N = attempt('normalize', BipartiteGraph.normalize, X, 'X')
    if N is not None:
        rec('normalize', list(N.edges()), N.name)


def colored(kind, nodes, edges, name=None):
    X = kind()
    for node, color in nodes:
        if color == 'missing':
            X.add_node(node)
        else:
            X.add_node(node, bipartite=color)
    X.add_edges_from(edges)
    if name is not None:
        X.name = name
    return X


def random_colored(rng, kind, nl, nr, p, labels, colors, interleave,
                   swap):
    left = [labels(i) for i in range(nl)]
    right = [labels(nl + i) for i in range(nr)]
    nodes = [(x, colors[0]) for x in left] + [(x, colors[1]) for x in right]
    if interleave:
        rng.shuffle(nodes)
    edges = []
    for a in left:
        for b in right:
            if rng.random() < p:
                edges.append((b, a) if (swap and rng.random() < 0.5)
                             else (a, b))
    rng.shuffle(edges)
    return colored(kind, nodes, edges)


def fixed_cases():
    G = networkx.Graph
    D = networkx.DiGraph
    M = networkx.MultiGraph
    convert('doc', networkx.bipartite.complete_bipartite_graph(5, 7))
    for a in range(0, 4):
        for b in range(0, 4):
            convert('complete', networkx.bipartite.complete_bipartite_graph(a, b))
    convert('empty', G())
    convert('named', colored(G, [(1, 0), (2, 1)], [(1, 2)], name='tiny'))
    convert('right-first', colored(G, [('r', 1), ('l', 0)], [('r', 'l')]))
    convert('only-left', colored(G, [(1, 0), (2, 0), (3, 0)], []))
    convert('only-right', colored(G, [(1, 1), (2, 1)], []))
    convert('string-colours',
            colored(G, [('a', '0'), ('b', '1'), ('c', '0'), ('d', '1')],
                    [('a', 'b'), ('d', 'c'), ('c', 'b')]))
    convert('bool-float-colours',
            colored(G, [(1, False), (2, True), (3, 0.0), (4, 1.0)],
                    [(1, 2), (4, 3), (1, 4)]))
    # error paths
    convert('missing', colored(G, [(1, 0), (2, 'missing'), (3, 1)], [(1, 3)]))
    convert('missing-all', networkx.path_graph(3))
    for bad in (2, '2', -1, None, 'left', 0.5, (0,)):
        convert('bad-colour', colored(G, [(1, 0), (2, 1), ('x', bad)], [(1, 2)]))
    convert('inside-left', colored(G, [(1, 0), (2, 0), (3, 1)], [(1, 3), (1, 2)]))
    convert('inside-right', colored(G, [(1, 0), (2, 1), (3, 1)], [(1, 3), (3, 2)]))
    convert('inside-right-first', colored(G, [(1, 0), (2, 1), (3, 1)], [(2, 3), (1, 2)]))
    convert('loop-left', colored(G, [(1, 0), (2, 1)], [(1, 2), (1, 1)]))
    convert('loop-right', colored(G, [(1, 0), (2, 1)], [(2, 2), (1, 2)]))
    # other networkx classes
    convert('digraph-l2r', colored(D, [(1, 0), (2, 1), (3, 0)], [(1, 2), (3, 2)]))
    convert('digraph-r2l', colored(D, [(1, 0), (2, 1), (3, 0)], [(2, 1), (2, 3)]))
    convert('digraph-both', colored(D, [(1, 0), (2, 1)], [(2, 1), (1, 2)]))
    convert('multigraph', colored(M, [(1, 0), (2, 1), (3, 1)],
                                  [(1, 2), (1, 2), (3, 1), (1, 3)]))
    # not networkx at all
    for thing in (None, 3, 'graph', [(1, 2)], BipartiteGraph(1, 1), Graph(2)):
        attempt('from_networkx', BipartiteGraph.from_networkx, thing)
        attempt('normalize', BipartiteGraph.normalize, thing, 'thing')
        attempt('normalize', BipartiteGraph.normalize, thing)


def file_cases():
    gml = """graph [
  name "from gml"
  node [ id 7 bipartite 1 ]
  node [ id 3 bipartite 0 ]
  node [ id 5 bipartite 1 ]
  node [ id 1 bipartite 0 ]
  edge [ source 7 target 3 ]
  edge [ source 1 target 5 ]
  edge [ source 3 target 5 ]
]
"""
    bad_gml = gml.replace('node [ id 5 bipartite 1 ]', 'node [ id 5 ]')
    cross_gml = gml.replace('edge [ source 1 target 5 ]',
                            'edge [ source 1 target 3 ]')
    for label, text in (('gml', gml), ('bad', bad_gml), ('cross', cross_gml)):
        B = attempt('readGraph-' + label, readGraph, io.StringIO(text),
                    'bipartite', 'gml')
        if B is not None:
            snapshot(B)
        B = attempt('from_file-' + label, BipartiteGraph.from_file,
                    io.StringIO(text), 'gml')
        if B is not None:
            snapshot(B)
    if has_dot_library():
        dot = """graph G {
 a [bipartite=0]; b [bipartite=1]; c [bipartite=0]; d [bipartite=1];
 a -- b; d -- c; a -- d;
}
"""
        for label, text in (('dot', dot),
                            ('dot-bad', dot.replace('c [bipartite=0];', '')),
                            ('dot-cross', dot.replace('d -- c', 'b -- d'))):
            B = attempt('readGraph-' + label, readGraph, io.StringIO(text),
                        'bipartite', 'dot')
            if B is not None:
                snapshot(B)
    # write and read back
    B = bipartite_random(4, 5, 0.5, seed=8)
    for fmt in ('gml', 'dot', 'kthlist', 'matrix'):
        buf = io.StringIO()
        if attempt('writeGraph', writeGraph, B, buf, 'bipartite', fmt) is None:
            pass
        rec('written', fmt, buf.getvalue())
        C = attempt('readback', readGraph, io.StringIO(buf.getvalue()),
                    'bipartite', fmt)
        if C is not None:
            snapshot(C)


def sequence_cases(rng):
    # graphs built by sequences of insertions, exported and converted back
    for (L, R) in [(0, 0), (0, 2), (3, 0), (1, 1), (3, 4), (6, 2)]:
        for rep in range(3):
            B = BipartiteGraph(L, R)

            def pick(top):
                if top >= 1 and rng.random() < 0.9:
                    return rng.randint(1, top)
                return rng.randint(0, top + 1)

            for _ in range(12):
                if rng.random() < 0.3:
                    pairs = [(pick(L), pick(R)) for _ in range(3)]
                    attempt('add_edges_from', B.add_edges_from, pairs)
                else:
                    attempt('add_edge', B.add_edge, pick(L), pick(R))
                convert('sequence', B.to_networkx())


def main():
    fixed_cases()
    file_cases()
    rng = random.Random(160008)
    sequence_cases(rng)
    kinds = [networkx.Graph, networkx.DiGraph, networkx.MultiGraph]
    labelers = [lambda i: i, lambda i: 'v%d' % i, lambda i: (i % 3, i),
                lambda i: 100 - i]
    for nl in (0, 1, 3, 6):
        for nr in (0, 2, 5):
            for p in (0.0, 0.4, 1.0):
                for rep in range(3):
                    X = random_colored(rng, rng.choice(kinds), nl, nr, p,
                                       rng.choice(labelers),
                                       rng.choice([(0, 1), ('0', '1'),
                                                   (0, '1'), (False, True)]),
                                       rng.random() < 0.7,
                                       rng.random() < 0.7)
                    if rng.random() < 0.25 and X.number_of_nodes() >= 2:
                        # spoil it: an edge inside a side, a loop, a lost
                        # colour or a wrong colour
                        nodes = list(X.nodes())
                        how = rng.choice(['inside', 'loop', 'lost', 'wrong'])
                        a, b = rng.sample(nodes, 2)
                        if how == 'inside':
                            same = [x for x in nodes if x != a and
                                    int(X.nodes[x]['bipartite']) ==
                                    int(X.nodes[a]['bipartite'])]
                            if same:
                                X.add_edge(a, rng.choice(same))
                        elif how == 'loop':
                            X.add_edge(a, a)
                        elif how == 'lost':
                            del X.nodes[a]['bipartite']
                        else:
                            X.nodes[a]['bipartite'] = rng.choice([2, 'x', None])
                    convert('random', X)
    data = '\n'.join(OUT).encode('utf-8')
    print(hashlib.sha256(data).hexdigest())


if __name__ == '__main__':
    main()
