"""Equivalence harness for unique_neighborhoods (cnfgen/families/dominatingset.py)
and the two families built on it: DominatingSet (both encodings) and Tiling."""
import contextlib
import hashlib
import io
import itertools
import os
import random
import sys

sys.path.insert(0, os.getcwd())

import networkx as nx

from cnfgen.clitools.cnfgen import cli
from cnfgen.families.dominatingset import (unique_neighborhoods,
                                           DominatingSet, Tiling)
from cnfgen.formula.cnf import CNF
from cnfgen.graphs import Graph, DirectedGraph, BipartiteGraph
from cnfgen.info import info

# the version string comes from `git describe`: pin it, it is not under test
info['version'] = 'equiv'

H = hashlib.sha256()


def rec(*items):
    for it in items:
        H.update(repr(it).encode('utf8'))
        H.update(b'\x00')
    H.update(b'\n')


def chain(e):
    out = []
    while e is not None:
        out.append((type(e).__name__, str(e)))
        e = e.__cause__ or e.__context__
    return out


def graphs():
    # every labelled graph with at most 4 vertices
    for n in range(0, 5):
        pairs = list(itertools.combinations(range(1, n + 1), 2))
        for mask in range(2 ** len(pairs)):
            G = Graph(n, 'G{}_{}'.format(n, mask))
            for i, (u, v) in enumerate(pairs):
                if mask >> i & 1:
                    G.add_edge(u, v)
            yield ('all', n, mask), G
    rnd = random.Random(1702)
    for i in range(40):
        n = rnd.randint(5, 9)
        p = rnd.choice([0.1, 0.3, 0.5, 0.8, 1.0])
        G = Graph(n, 'R{}'.format(i))
        for u, v in itertools.combinations(range(1, n + 1), 2):
            if rnd.random() < p:
                G.add_edge(u, v)
        yield ('rnd', i), G
    # many twins: identical closed neighbourhoods
    yield 'k6', Graph.complete_graph(6)
    yield 'star5', Graph.star_graph(5)
    yield 'empty5', Graph.empty_graph(5)
    G = Graph(8, 'two cliques')
    for a, b in itertools.combinations((1, 3, 5, 7), 2):
        G.add_edge(a, b)
    for a, b in itertools.combinations((2, 4, 6, 8), 2):
        G.add_edge(b, a)
    yield 'twocliques', G
    G = Graph(7, 'clique plus pendant')
    for a, b in itertools.combinations(range(1, 7), 2):
        G.add_edge(a, b)
    G.add_edge(7, 3)
    yield 'pendant', G
    G = Graph(4)
    G.update_vertex_number(6)
    G.add_edge(6, 1)
    G.add_edge(1, 2)
    G.remove_edge(1, 2)
    yield 'grown', G


def dump(tag, fn, *args, **kw):
    try:
        F = fn(*args, **kw)
    except BaseException as e:
        rec(tag, 'EXC', chain(e))
        return
    rec(tag, F.header.get('description'), F.number_of_variables(),
        F.number_of_clauses(), list(F.clauses()))
    rec(tag, F.to_dimacs())


for tag, G in graphs():
    try:
        U = unique_neighborhoods(G)
        rec('un', tag, type(U).__name__, U, [type(x).__name__ for x in U])
        # the helper must not share state between calls nor touch the graph
        U2 = unique_neighborhoods(G)
        rec('un2', tag, U2, U == U2, U is U2,
            [list(G.neighbors(v)) for v in G.vertices()], list(G.edges()))
    except BaseException as e:
        rec('un', tag, 'EXC', chain(e))
    dump(('til', tag), Tiling, G)
    big = G.order() > 6
    for d in ((1, 2) if big else (1, 2, 3, 5)):
        for alt in (False, True):
            dump(('dom', tag, d, alt), DominatingSet, G, d, alt)

# networkx inputs and bad inputs
others = [
    ('nxnull', nx.Graph()),
    ('nxpath', nx.path_graph(5)),
    ('nxk4', nx.complete_graph(4)),
    ('nxstr', nx.Graph([('b', 'a'), ('c', 'a'), ('d', 'c')])),
    ('nxdi', nx.DiGraph([(1, 2), (3, 2)])),
    ('none', None),
    ('int', 4),
    ('directed', DirectedGraph(3)),
    ('bipartite', BipartiteGraph(2, 3)),
    ('list', [[1, 2], [2, 3]]),
]
for tag, G in others:
    try:
        rec('un', tag, unique_neighborhoods(G))
    except BaseException as e:
        rec('un', tag, 'EXC', chain(e))
    dump(('til', tag), Tiling, G)
    for d in (1, 2, 0, -1, 'x', 2.0, None):
        for alt in (False, True):
            dump(('dom', tag, d, alt), DominatingSet, G, d, alt)
for d in (0, -3, 1.5, '2', None, True):
    dump(('dombad', d), DominatingSet, Graph.complete_graph(3), d)


# command line
def run_cli(argv):
    out, err = io.StringIO(), io.StringIO()
    random.seed(123)
    try:
        with contextlib.redirect_stdout(out), contextlib.redirect_stderr(err):
            res = cli(argv, mode='string')
        rec('cli', argv, 'OK', res)
    except BaseException as e:
        rec('cli', argv, 'EXC', chain(e))
    rec('cli-io', out.getvalue(), err.getvalue())


specs = [['gnp', '0', '.5'], ['gnp', '1', '.5'], ['gnp', '7', '.4'],
         ['gnm', '6', '7'], ['grid', '3', '3'], ['complete', '5'],
         ['empty', '3'], ['torus', '3', '3'], ['gnd', '8', '3'],
         ['grid', '2', '3', 'plantclique', '4']]
for seed in ('1', '2'):
    for g in specs:
        run_cli(['cnfgen', '--seed', seed, 'tiling'] + g)
        for d in ('1', '2', '4'):
            run_cli(['cnfgen', '--seed', seed, 'domset', d] + g)
            run_cli(['cnfgen', '--seed', seed, 'domset', '-a', d] + g)
run_cli(['cnfgen', '--seed', '1', '-v', 'domset', '2', 'grid', '2', '2'])
run_cli(['cnfgen', '--seed', '1', '--output-format', 'opb', 'tiling',
         'grid', '2', '3'])
run_cli(['cnfgen', '--seed', '1', '--output-format', 'latex', 'tiling',
         'gnp', '4', '.5'])
for bad in (['domset'], ['domset', '0', 'gnp', '4', '.5'],
            ['domset', '-2', 'gnp', '4', '.5'], ['domset', 'x', 'gnp', '4', '.5'],
            ['domset', '2'], ['tiling'], ['tiling', 'nofile.gml'],
            ['tiling', 'gnp', '4'], ['domset', '2', 'dag', '3']):
    run_cli(['cnfgen', '--seed', '1'] + bad)

print(H.hexdigest())
