#!/usr/bin/env python
"""Equivalence script for C16/t21: vertex range checks of Graph / DirectedGraph
(neighbors, degree, predecessors, successors, in_degree, out_degree) under
random update sequences with valid and invalid arguments."""
import os
import sys
import random
import hashlib

sys.path.insert(0, os.getcwd())

from cnfgen.graphs import Graph, DirectedGraph, BipartiteGraph  # noqa: E402

OUT = []


def emit(*args):
    OUT.append(repr(args))


def attempt(label, fn, *args):
    try:
        res = fn(*args)
        if hasattr(res, '__next__') or isinstance(res, range):
            res = list(res)
        emit(label, args, 'ok', res)
    except Exception as e:  # noqa
        emit(label, args, 'exc', type(e).__name__, str(e))


WEIRD = [0, -1, -7, 1.0, 2.5, True, False, None, 'a', '2', (1, 2), 10**9]


def probe_vertices(n, rng):
    vals = list(range(-2, n + 4)) + WEIRD + [rng.randint(-5, n + 5) for _ in range(4)]
    return vals


def dump_simple(G, rng):
    emit('n', G.number_of_vertices(), G.order(), len(G), 'm', G.number_of_edges())
    emit('edges', list(G.edges()), len(G.edges()))
    for u in probe_vertices(G.number_of_vertices(), rng):
        attempt('neighbors', G.neighbors, u)
        attempt('degree', G.degree, u)
    # generator laziness: creation never raises, first next does
    g = G.neighbors(-3)
    emit('lazy', type(g).__name__)
    attempt('lazy-next', lambda: next(g))


def dump_directed(D, rng):
    emit('n', D.number_of_vertices(), D.order(), len(D), 'm', D.number_of_edges(),
         'dag', D.is_dag())
    emit('edges', list(D.edges()), list(D.edges_ordered_by_successors()))
    for u in probe_vertices(D.number_of_vertices(), rng):
        attempt('predecessors', D.predecessors, u)
        attempt('successors', D.successors, u)
        attempt('in_degree', D.in_degree, u)
        attempt('out_degree', D.out_degree, u)
    for name in ('predecessors', 'successors'):
        g = getattr(D, name)(0)
        emit('lazy', name, type(g).__name__)
        attempt('lazy-next', lambda: next(g))


def rand_arg(n, rng):
    r = rng.random()
    if r < 0.75:
        return rng.randint(1, max(n, 1))
    if r < 0.9:
        return rng.randint(-2, n + 3)
    return rng.choice(WEIRD)


def run_simple(seed):
    rng = random.Random(seed)
    n = rng.choice([0, 1, 2, 3, 5, 8, 13])
    G = Graph(n)
    emit('simple', seed, n, G.name)
    for step in range(rng.randint(0, 40)):
        op = rng.random()
        n = G.number_of_vertices()
        if op < 0.55:
            attempt('add_edge', G.add_edge, rand_arg(n, rng), rand_arg(n, rng))
        elif op < 0.75:
            attempt('remove_edge', G.remove_edge, rand_arg(n, rng), rand_arg(n, rng))
        elif op < 0.85:
            attempt('update_vertex_number', G.update_vertex_number,
                    rng.choice([n, n + 1, n + 3, n - 1, 0, -1, 2.0, 'x']))
        else:
            es = [(rand_arg(n, rng), rand_arg(n, rng)) for _ in range(rng.randint(0, 4))]
            attempt('add_edges_from', G.add_edges_from, es)
        if step % 7 == 0:
            dump_simple(G, rng)
    dump_simple(G, rng)
    H = Graph.from_networkx(G.to_networkx())
    dump_simple(H, rng)


def run_directed(seed):
    rng = random.Random(seed)
    n = rng.choice([0, 1, 2, 3, 5, 8, 13])
    D = DirectedGraph(n)
    emit('directed', seed, n, D.name)
    forward_only = rng.random() < 0.4
    for step in range(rng.randint(0, 40)):
        op = rng.random()
        if op < 0.8:
            u, v = rand_arg(n, rng), rand_arg(n, rng)
            if forward_only and isinstance(u, int) and isinstance(v, int) and u > v:
                u, v = v, u
            attempt('add_edge', D.add_edge, u, v)
        else:
            es = [(rand_arg(n, rng), rand_arg(n, rng)) for _ in range(rng.randint(0, 4))]
            attempt('add_edges_from', D.add_edges_from, es)
        if step % 7 == 0:
            dump_directed(D, rng)
    dump_directed(D, rng)
    H = DirectedGraph.from_networkx(D.to_networkx())
    dump_directed(H, rng)


def run_bipartite(seed):
    rng = random.Random(seed)
    L, R = rng.choice([0, 1, 3, 6]), rng.choice([0, 1, 4, 7])
    B = BipartiteGraph(L, R)
    emit('bipartite', seed, L, R, B.name)
    for step in range(rng.randint(0, 30)):
        attempt('add_edge', B.add_edge, rand_arg(L, rng), rand_arg(R, rng))
    emit(B.number_of_edges(), list(B.edges()))
    for u in range(-1, L + 3):
        attempt('right_neighbors', B.right_neighbors, u)
        attempt('right_degree', B.right_degree, u)
    for v in range(-1, R + 3):
        attempt('left_neighbors', B.left_neighbors, v)
        attempt('left_degree', B.left_degree, v)


for s in range(120):
    run_simple(s)
    run_directed(1000 + s)
for s in range(30):
    run_bipartite(2000 + s)

print(hashlib.sha256('\n'.join(OUT).encode('utf-8')).hexdigest())
