#!/usr/bin/env python
"""Equivalence check for the refactoring of cnfgen/clitools/msg.py
(interactive_msg / error_msg: the text layout code).

Calls the two functions directly with many texts, prefixes and fill
widths (including the boundary widths and illegal ones), with and
without an interactive stdin, and then drives cnfgen, pbgen and
cnfshuffle through command lines that end in error messages for each
output format.  Prints one SHA256 digest of everything observed.
"""
import os
import sys
import io
import hashlib
import random
import tempfile
import importlib

sys.path.insert(0, os.getcwd())
os.environ['COLUMNS'] = '80'

msg_mod = importlib.import_module('cnfgen.clitools.msg')
# the version string comes from `git describe`: pin it
importlib.import_module('cnfgen.info').info['version'] = 'VERSION'
cnfgen_cli = importlib.import_module('cnfgen.clitools.cnfgen')
pbgen_cli = importlib.import_module('cnfgen.clitools.pbgen')
shuffle_cli = importlib.import_module('cnfgen.clitools.cnfshuffle')
from cnfgen.clitools.msg import interactive_msg, error_msg, msg_prefix, InternalBug

LOG = []


def record(*items):
    for it in items:
        LOG.append(repr(it))


class Keep(io.StringIO):
    def close(self):
        pass


class TTY(io.StringIO):
    def isatty(self):
        return True


def capture(func, *args, tty=False, **kwargs):
    out, err = Keep(), Keep()
    saved = (sys.stdout, sys.stderr, sys.stdin)
    sys.stdout, sys.stderr = out, err
    sys.stdin = TTY('') if tty else io.StringIO('')
    try:
        try:
            res = ('ret', func(*args, **kwargs))
        except BaseException as e:
            res = ('EXC', type(e).__name__, str(e))
    finally:
        sys.stdout, sys.stderr, sys.stdin = saved
    record(func.__name__, args, sorted(kwargs.items()), tty, msg_mod._prefix,
           res, out.getvalue(), err.getvalue())


TEXTS = [
    '', '\n', 'short', 'one\ntwo\n', '   indented\n   twice\n     more',
    """
    The formula generation process you asked for needs a simple graph in
    input. Graph format was not specified on the command line and there no
    file name extension to guess that from, thus it is impossible
    to proceed.""",
    'word ' * 40, 'x' * 100, 'a\n\nb\n\n\nc', '\ttabbed\n\ttext here',
    'trailing spaces   \n  \nnext', 'unicode éè → text ' * 5,
    "ERROR: argument <formula>: 'foo' is an invalid choice.\n\nChoose from \n   'and'\n   'bphp'",
]
PREFIXES = ['', 'c ', '% ', '* ', 'c INPUT: ', 'c ' * 10, 'p' * 39, 'p' * 40, 'p' * 41]
FILLS = [None, -5, 0, 1, 2, 3, 9, 10, 29, 30, 31, 32, 33, 39, 40, 41, 42, 60,
         69, 70, 71, 72, 80, 200]

for prefix in PREFIXES:
    for text in TEXTS:
        for fill in FILLS:
            msg_mod._prefix = ''
            with msg_prefix(prefix):
                capture(error_msg, text, fill)
                capture(error_msg, text, filltext=fill)
                capture(interactive_msg, text, fill, tty=True)
                capture(interactive_msg, text, filltext=fill, tty=False)
        msg_mod._prefix = ''
        with msg_prefix(prefix):
            capture(error_msg, text)
            capture(interactive_msg, text, tty=True)
            capture(interactive_msg, text, tty=False)

# nested prefixes
msg_mod._prefix = ''
with msg_prefix('c '):
    with msg_prefix('INPUT: '):
        for fill in (None, 36, 37, 38, 39, 40, 70):
            capture(interactive_msg, TEXTS[5], fill, tty=True)
            capture(error_msg, TEXTS[5], fill)
    capture(error_msg, 'after inner', 70)
capture(error_msg, 'after all', 70)

# non string / odd arguments
msg_mod._prefix = ''
with msg_prefix('* '):
    for m in [None, 12, 3.5, ValueError('a value\n  error'), InternalBug('boom'),
              ['a', 'b'], b'bytes', KeyError('k')]:
        capture(error_msg, m)
        capture(error_msg, m, 40)
        capture(interactive_msg, m, tty=True)
        capture(interactive_msg, m, 40, tty=True)
        capture(interactive_msg, m, 40, tty=False)
    for f in ['70', 70.5, 31.0, 30.999, True, False, [], (70,)]:
        capture(error_msg, 'some words ' * 12, f)
        capture(interactive_msg, 'some words ' * 12, f, tty=True)
        capture(interactive_msg, 'some words ' * 12, f, tty=False)
record(str(InternalBug('x\ny')), InternalBug('z').args)


def run_main(mainfunc, argv, stdin_text='', tty=False):
    out, err = Keep(), Keep()
    saved = (sys.argv, sys.stdout, sys.stderr, sys.stdin)
    sys.argv, sys.stdout, sys.stderr = argv, out, err
    sys.stdin = TTY(stdin_text) if tty else io.StringIO(stdin_text)
    random.seed(12345)
    msg_mod._prefix = ''   # every command line starts in a fresh process
    try:
        try:
            mainfunc()
            res = 'return'
        except SystemExit as e:
            res = 'SystemExit(%r)' % (e.code,)
        except BaseException as e:  # unhandled internal exception
            res = 'EXC %s: %s' % (type(e).__name__, e)
    finally:
        sys.argv, sys.stdout, sys.stderr, sys.stdin = saved
    record(argv, tty, res, out.getvalue(), err.getvalue())


tmp = tempfile.mkdtemp(prefix='c18t10')
os.chdir(tmp)
with open('good.cnf', 'w') as f:
    f.write('c comment\np cnf 3 2\n1 -2 0\n2 3 0\n')
with open('bad.cnf', 'w') as f:
    f.write('p cnf 3 2\n1 -2 0\n2 7 0\n')
with open('bad2.cnf', 'w') as f:
    f.write('p cnf 3\n1 -2 0\n')
with open('g.gml', 'w') as f:
    f.write('graph [\n node [ id 1 ]\n node [ id 2 ]\n edge [ source 1 target 2 ]\n]\n')
with open('noext', 'w') as f:
    f.write('whatever')
with open('g.xyz', 'w') as f:
    f.write('whatever')
with open('broken.gml', 'w') as f:
    f.write('graph [ node [ id ')

GRAPH_TXT = 'c a graph\np edge 3 2\ne 1 2\ne 2 3\n'
CMDS = [
    (cnfgen_cli, ['cnfgen'], ''),
    (cnfgen_cli, ['cnfgen', 'php'], ''),
    (cnfgen_cli, ['cnfgen', 'php', '3'], ''),
    (cnfgen_cli, ['cnfgen', 'php', '3', '2', '1'], ''),
    (cnfgen_cli, ['cnfgen', 'php', '-3', '2'], ''),
    (cnfgen_cli, ['cnfgen', 'php', 'x', '2'], ''),
    (cnfgen_cli, ['cnfgen', 'foo', '3'], ''),
    (cnfgen_cli, ['cnfgen', '--nosuchoption', 'php', '3', '2'], ''),
    (cnfgen_cli, ['cnfgen', '-of', 'opb', 'php', '3'], ''),
    (cnfgen_cli, ['cnfgen', '-of', 'latex', 'php', '3'], ''),
    (cnfgen_cli, ['cnfgen', '-of', 'opb', 'randkcnf', '4', '3', '10'], ''),
    (cnfgen_cli, ['cnfgen', '-of', 'latex', 'randkcnf', '4', '3', '10'], ''),
    (cnfgen_cli, ['cnfgen', '-of', 'foo', 'php', '3', '2'], ''),
    (cnfgen_cli, ['cnfgen', '-o', 'x.opb', 'php', '3'], ''),
    (cnfgen_cli, ['cnfgen', '-o', 'x.tex', 'op', '0'], ''),
    (cnfgen_cli, ['cnfgen', '-o', '/nonexistent/dir/x.cnf', 'php', '3', '2'], ''),
    (cnfgen_cli, ['cnfgen', 'op', '3', '-T'], ''),
    (cnfgen_cli, ['cnfgen', 'op', '3', '-T', 'xor'], ''),
    (cnfgen_cli, ['cnfgen', 'op', '3', '-T', 'xor', '0'], ''),
    (cnfgen_cli, ['cnfgen', 'op', '3', '-T', 'nosuch', '2'], ''),
    (cnfgen_cli, ['cnfgen', '-of', 'opb', 'op', '3', '-T', 'xor', 'k'], ''),
    (cnfgen_cli, ['cnfgen', 'kcolor', '3', 'gnp', '5', '1.5'], ''),
    (cnfgen_cli, ['cnfgen', 'kcolor', '3', 'gnd', '5', '3'], ''),
    (cnfgen_cli, ['cnfgen', 'kcolor', '3', 'glrp', '5', '3', '.5'], ''),
    (cnfgen_cli, ['cnfgen', 'kcolor', '3', 'matrix', 'g.gml'], ''),
    (cnfgen_cli, ['cnfgen', 'kcolor', '3', 'nosuchfile.gml'], ''),
    (cnfgen_cli, ['cnfgen', '-of', 'opb', 'kcolor', '3', 'nosuchfile.gml'], ''),
    (cnfgen_cli, ['cnfgen', 'kcolor', '3', 'noext'], ''),
    (cnfgen_cli, ['cnfgen', '-of', 'latex', 'kcolor', '3', 'g.xyz'], ''),
    (cnfgen_cli, ['cnfgen', 'kcolor', '3', 'broken.gml'], ''),
    (cnfgen_cli, ['cnfgen', 'kcolor', '3', 'gnp', '5', '.5', 'foo'], ''),
    (cnfgen_cli, ['cnfgen', 'kcolor', '3', 'gnp', '5', '.5', 'addedges', '1', 'addedges', '1'], ''),
    (cnfgen_cli, ['cnfgen', 'kcolor', '3', 'gnp', '5', '.5', 'plantclique', '9'], ''),
    (cnfgen_cli, ['cnfgen', 'kcolor', '3', 'gnp', '5', '.5', 'save'], ''),
    (cnfgen_cli, ['cnfgen', '-q', 'kcolor', '3', 'dimacs', '-'], GRAPH_TXT),
    (cnfgen_cli, ['cnfgen', '-q', 'kcolor', '3', 'dimacs', '-'], 'p edge 3 2\ne 1 9\n'),
    (cnfgen_cli, ['cnfgen', '-q', 'kcolor', '3', 'dimacs', '-'], GRAPH_TXT, True),
    (cnfgen_cli, ['cnfgen', '-q', '-of', 'opb', 'kcolor', '3', 'kthlist', '-'], '3\n1: 2 3 0\n', True),
    (cnfgen_cli, ['cnfgen', '-q', 'peb', 'kthlist', '-'], 'garbage', True),
    (cnfgen_cli, ['cnfgen', 'dimacs', 'bad.cnf'], ''),
    (cnfgen_cli, ['cnfgen', 'dimacs', 'nosuch.cnf'], ''),
    (cnfgen_cli, ['cnfgen', '-q', 'dimacs'], 'p cnf 2 1\n1 2 0\n', True),
    (cnfgen_cli, ['cnfgen', '-q', 'dimacs'], 'p cnf 2 1\n1 5 0\n', True),
    (cnfgen_cli, ['cnfgen', 'peb', 'pyramid', '-1'], ''),
    (cnfgen_cli, ['cnfgen', 'stone', '3', 'tree', 'x'], ''),
    (cnfgen_cli, ['cnfgen', 'ram', '3', '3', '0'], ''),
    (cnfgen_cli, ['cnfgen', 'randkcnf', '5', '3', '2'], ''),
    (cnfgen_cli, ['cnfgen', 'tseitin', 'first', 'gnd', '4', '2', 'extra'], ''),
    (pbgen_cli, ['pbgen'], ''),
    (pbgen_cli, ['pbgen', 'php'], ''),
    (pbgen_cli, ['pbgen', 'php', '3', '-2'], ''),
    (pbgen_cli, ['pbgen', 'foo'], ''),
    (pbgen_cli, ['pbgen', '-of', 'dimacs', 'php', 'a', 'b'], ''),
    (pbgen_cli, ['pbgen', '-of', 'latex', 'php', 'a', 'b'], ''),
    (pbgen_cli, ['pbgen', '--bad'], ''),
    (pbgen_cli, ['pbgen', '-o', '/nonexistent/dir/x.opb', 'php', '3', '2'], ''),
    (pbgen_cli, ['pbgen', '-q', 'php', '3', '2'], ''),
    (shuffle_cli, ['cnfshuffle', '-S', '3', '-i', 'good.cnf'], ''),
    (shuffle_cli, ['cnfshuffle', '-S', '3', '-i', 'bad.cnf'], ''),
    (shuffle_cli, ['cnfshuffle', '-S', '3', '-i', 'bad2.cnf'], ''),
    (shuffle_cli, ['cnfshuffle', '-S', '3', '-i', 'nosuch.cnf'], ''),
    (shuffle_cli, ['cnfshuffle', '-S', '3', '--bogus'], ''),
    (shuffle_cli, ['cnfshuffle', '-S', '3', 'extra'], ''),
    (shuffle_cli, ['cnfshuffle', '-S', '3'], 'p cnf 2 2\n1 2 0\n-1 0\n', True),
    (shuffle_cli, ['cnfshuffle', '-S', '3'], 'p cnf 2 2\n1 2 0\n-1 0\n', False),
    (shuffle_cli, ['cnfshuffle', '-S', '3'], 'p cnf 2 2\n1 3 0\n', True),
    (shuffle_cli, ['cnfshuffle', '-S', '3'], '', True),
]
for item in CMDS:
    mod, argv, stdin_text = item[:3]
    run_main(mod.main, argv, stdin_text, *item[3:])

for fn in sorted(os.listdir(tmp)):
    with open(fn) as f:
        record('file', fn, f.read())

os.chdir(sys.path[0])
import shutil
shutil.rmtree(tmp, ignore_errors=True)

print(hashlib.sha256('\n'.join(LOG).encode('utf-8')).hexdigest())
if os.environ.get('EQUIV_DUMP'):
    with open(os.environ['EQUIV_DUMP'], 'w') as f:
        f.write('\n'.join(LOG))
