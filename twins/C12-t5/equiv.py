#!/usr/bin/env python
"""Equivalence script for C12/t5: guess_output_format (cnfgen/formula/cnfio.py)

Run as:  cd <checkout> && /venv/bin/python equiv.py
Prints one SHA256 digest of everything observable.
"""
import hashlib
import io
import os
import sys
import tempfile
import warnings
import pathlib
from contextlib import redirect_stdout, redirect_stderr

warnings.simplefilter("ignore")
sys.path.insert(0, os.getcwd())

from cnfgen.formula.cnfio import guess_output_format, CNFio
from cnfgen.formula.opbio import OPBio
from cnfgen.formula.cnf import CNF
from cnfgen.formula.opb import OPB

H = hashlib.sha256()
tmpdir = tempfile.mkdtemp(prefix="c12t5_")


def rec(*items):
    for it in items:
        H.update(repr(it).replace(tmpdir, "<TMP>").encode("utf-8", errors="replace"))
        H.update(b"\x00")
    H.update(b"\n")


def attempt(label, fn, *args, **kwargs):
    try:
        res = fn(*args, **kwargs)
        rec(label, "OK", res)
        return res
    except BaseException as e:  # noqa
        cause = e.__cause__
        rec(label, "EXC", type(e).__name__, str(e),
            type(cause).__name__ if cause is not None else None,
            str(cause) if cause is not None else None)
        return None


class Named:
    def __init__(self, name):
        self.name = name

    def write(self, text):
        pass


class NameRaises:
    def __init__(self, exc):
        self._exc = exc

    @property
    def name(self):
        raise self._exc


# ---------------------------------------------------------------- direct calls
names = [
    None, "", "a", "a.tex", "a.opb", "a.cnf", "a.dimacs", "a.latex", ".tex",
    ".opb", "tex", "opb", "a.TEX", "a.Opb", "x.tex.opb", "x.opb.tex", "a.tex.",
    "a.opb ", "dir.tex/file", "dir.opb/file.cnf", "dir/file.opb", "a..tex",
    "-", "a.texx", "a.op", "é.tex", "a.téx",
    io.StringIO(), io.BytesIO(), sys.stdout,
    Named("a.tex"), Named("a.opb"), Named("a.cnf"), Named(""), Named("<stdout>"),
    Named(None), Named(3), Named(b"a.tex"), Named(b"a.opb"), Named(b"a"),
    Named(pathlib.PurePosixPath("q/a.tex")), Named(pathlib.PurePosixPath("a.opb")),
    Named(["a.tex"]), Named(("a", "opb")),
    NameRaises(AttributeError("no name")), NameRaises(ValueError("closed")),
    NameRaises(IndexError("idx")), NameRaises(KeyError("k")),
    NameRaises(TypeError("t")), NameRaises(OSError("os")),
    3, 2.5, b"a.tex", ["a.tex"], ("a.opb",), pathlib.PurePosixPath("a.tex"),
]
requests = [
    None, "latex", "dimacs", "opb", "tex", "cnf", "LaTeX", "OPB", "", " opb",
    "foo", 0, 1, False, True, [], ["opb"], ("opb",), {"opb"}, b"opb", 2.0,
]

for i, nm in enumerate(names):
    for j, rq in enumerate(requests):
        attempt(("guess", i, j), guess_output_format, nm, rq)

# ------------------------------------------------------------ through to_file


def sample_cnf():
    F = CNF([[1, -2, 3], [], [-3], [2, 4, -5, 6]], description="t5 cnf\nsecond line é")
    F.new_variable("y_1")
    b = F.new_block(2, 2, label="z_{{{},{}}}")
    F.add_clause([b(1, 1), -b(2, 2), 7])
    F.update_variable_number(14)
    return F


def sample_opb():
    F = OPB(description="t5 opb")
    x = F.new_variable("w^2")
    F.add_constraint([(3, 1), (-2, 2), (1, -3), ">=", 2])
    F.add_constraint([(2, 1), (5, -4), "==", 4])
    F.add_constraint([">=", 0])
    F.add_constraint([(1, 2), (1, 3), "<", 2])
    F.add_constraint([(7, x), "<=", 3])
    F.add_clause([1, -5])
    return F


def many_cnf(m):
    F = CNFio(description="many_%d" % m)
    for i in range(m):
        F.add_clause([(-1) ** i * (1 + i % 5), 2 + i % 7, -(3 + i % 3)][: i % 4])
    return F


def many_opb(m):
    F = OPBio(description="many_opb_%d" % m)
    for i in range(m):
        F.add_constraint([(1 + i % 3, 1 + i % 5), (2, -(2 + i % 4)), [">=", "==", "<=", ">", "<"][i % 5], i % 6])
    return F


formulas = [("cnf", sample_cnf), ("opb", sample_opb),
            ("cnf0", lambda: CNFio()), ("opb0", lambda: OPBio()),
            ("cnf36", lambda: many_cnf(36)), ("opb71", lambda: many_opb(71))]
filenames = ["out.tex", "out.opb", "out.cnf", "out", "out.tex.opb", "out.opb.tex", ".tex", "o.TEX"]
formats = [None, "latex", "opb", "dimacs", "tex", "xyz", 7]

for fname, mk in formulas:
    for fn in filenames:
        for ff in formats:
            for eh in (True, False):
                for ev in (True, False):
                    F = mk()
                    path = os.path.join(tmpdir, fn)
                    if os.path.exists(path):
                        os.remove(path)
                    label = ("tofile", fname, fn, ff, eh, ev)
                    if fname.startswith("opb") and (ff == "dimacs" or (ff is None and not fn.endswith((".tex", ".opb")))):
                        # OPB formulas have no dimacs: whatever happens is recorded
                        pass
                    attempt(label, F.to_file, path, fileformat=ff, export_header=eh,
                            export_varnames=ev, extra_text="EXTRA %s\n" % fn)
                    if os.path.exists(path):
                        with open(path, "rb") as fh:
                            rec(label, "content", fh.read())
                    else:
                        rec(label, "nofile")

# file objects and stdout
for fname, mk in formulas:
    for target in ("stringio", "named_tex", "named_opb", "stdout"):
        for ff in (None, "latex", "opb", "dimacs", "bad"):
            F = mk()
            buf = io.StringIO()
            if target == "stringio":
                dest = buf
            elif target == "stdout":
                dest = None
            else:
                class NamedBuf(io.StringIO):
                    pass
                dest = NamedBuf()
                dest.name = "f.tex" if target == "named_tex" else "f.opb"
                buf = dest
            out = io.StringIO()
            with redirect_stdout(out):
                attempt(("fileobj", fname, target, ff), F.to_file, dest, fileformat=ff,
                        export_varnames=True)
            rec(("fileobj", fname, target, ff), buf.getvalue(), out.getvalue())

# ------------------------------------------------------------------ via the CLIs
from cnfgen.clitools.cnfgen import cli as cnfgen_cli
from cnfgen.clitools.pbgen import cli as pbgen_cli

cli_cases = [
    (cnfgen_cli, ["cnfgen", "php", "3", "2"]),
    (cnfgen_cli, ["cnfgen", "-of", "opb", "php", "3", "2"]),
    (cnfgen_cli, ["cnfgen", "-of", "latex", "php", "3", "2"]),
    (cnfgen_cli, ["cnfgen", "-l", "op", "3"]),
    (cnfgen_cli, ["cnfgen", "-of", "tex", "php", "3", "2"]),
    (cnfgen_cli, ["cnfgen", "-of", "opb", "--seed", "7", "randkcnf", "3", "6", "9"]),
    (pbgen_cli, ["pbgen", "php", "3", "2"]),
    (pbgen_cli, ["pbgen", "-of", "latex", "php", "3", "2"]),
    (pbgen_cli, ["pbgen", "-of", "dimacs", "php", "3", "2"]),
    (pbgen_cli, ["pbgen", "-l", "php", "4", "2"]),
]
for k, (cli, argv) in enumerate(cli_cases):
    err = io.StringIO()
    with redirect_stderr(err):
        attempt(("cli-string", k), cli, argv, mode="string")
    rec(("cli-string-err", k), err.getvalue())

for k, (cli, prog) in enumerate([(cnfgen_cli, "cnfgen"), (pbgen_cli, "pbgen")]):
    for fn in ["c.tex", "c.opb", "c.cnf", "c", "c.opb.tex"]:
        for of in [None, "latex", "opb", "dimacs"]:
            for flags in ([], ["-q"], ["--varnames"]):
                path = os.path.join(tmpdir, prog + "_" + fn)
                if os.path.exists(path):
                    os.remove(path)
                argv = [prog, "-o", path] + flags
                if of is not None:
                    argv += ["-of", of]
                argv += ["php", "3", "2"]
                out, err = io.StringIO(), io.StringIO()
                label = ("cli-out", prog, fn, of, tuple(flags))
                with redirect_stdout(out), redirect_stderr(err):
                    try:
                        res = cli(argv, mode="output")
                        rec(label, "OK", res)
                    except BaseException as e:  # noqa
                        rec(label, "EXC", type(e).__name__, str(e).replace(tmpdir, "<TMP>"))
                rec(label, out.getvalue().replace(tmpdir, "<TMP>"), err.getvalue().replace(tmpdir, "<TMP>"))
                if os.path.exists(path):
                    with open(path, "rb") as fh:
                        rec(label, fh.read().replace(tmpdir.encode(), b"<TMP>"))
                else:
                    rec(label, "nofile")

import shutil
shutil.rmtree(tmpdir, ignore_errors=True)
print(H.hexdigest())
