"""Equivalence script for refactoring of kthlist2pebbling.cli."""
import hashlib
import io
import os
import random
import re
import subprocess
import sys
import tempfile
sys.path.insert(0, os.getcwd())

from cnfgen.clitools import kthlist2pebbling, CLIError
from cnfgen.clitools import cnfgen as cnfgen_cli

out = []


def rec(*items):
    # the version string comes from 'git describe': normalise it
    out.append(re.sub(r'CNFgen \([^)]*\)', 'CNFgen (VERSION)', repr(items)))


def formula_repr(F):
    return (type(F).__name__, F.number_of_variables(),
            list(F.all_variable_labels()), list(F.clauses()),
            sorted((str(k), str(v)) for k, v in F.header.items()))


GRAPHS = {
    'single': "1\n1 : 0\n",
    'path3': "3\n1 : 0\n2 : 1 0\n3 : 2 0\n",
    'pyr2': "c pyramid\n6\n1 : 0\n2 : 0\n3 : 0\n4 : 1 2 0\n5 : 2 3 0\n6 : 4 5 0\n",
    'twosinks': "4\n1 : 0\n2 : 0\n3 : 1 2 0\n4 : 1 0\n",
    'wide': "5\n1 : 0\n2 : 0\n3 : 0\n4 : 0\n5 : 1 2 3 4 0\n",
    'empty': "",
    'bad': "3\n1 : 2 0\n2 : 3 0\n3 : 1 0\n",
    'noterm': "3\n1 :\n2 : 1\n3 : 2\n",
    'garbage': "hello world\n",
    'zero': "0\n",
}

TRANS = [
    [], ['none'], ['xor', '2'], ['or', '3'], ['flip'], ['ite'], ['eq', '2'],
    ['neq', '3'], ['maj', '3'], ['one', '2'], ['lift', '2'],
    ['atleast', '3', '2'], ['atmost', '3', '1'], ['exact', '3', '2'],
    ['anybut', '3', '1'], ['shuffle'], ['shuffle', '-p', '-c'],
    ['xorcomp', '4', '2'], ['majcomp', '5'], ['xor', '0'], ['nosuch'],
    ['xor'], ['xor', 'a'], ['-q'], ['-q', 'or', '2'], ['--quiet', 'flip'],
]


def run_cli(argv, text, mode):
    old = sys.stdin
    sys.stdin = io.StringIO(text)
    random.seed(99)
    try:
        res = kthlist2pebbling(argv, mode=mode)
        if mode == 'formula':
            rec('OK', argv, mode, formula_repr(res))
        else:
            rec('OK', argv, mode, res)
    except SystemExit as e:
        rec('EXIT', argv, mode, e.code)
    except BaseException as e:
        rec('EXC', argv, mode, type(e).__name__, str(e))
    finally:
        sys.stdin = old


for gname, text in GRAPHS.items():
    for t in TRANS:
        if gname not in ('path3', 'pyr2') and t not in ([], ['xor', '2'], ['-q']):
            continue
        for mode in ('formula', 'string'):
            run_cli(['kthlist2pebbling'] + t, text, mode)

# unknown mode value falls in the 'output' branch; non-string argv tokens
run_cli(['kthlist2pebbling', 'or', 2], GRAPHS['pyr2'], 'string')
run_cli(['kthlist2pebbling', 'or', 2], GRAPHS['pyr2'], 'formula')

# 'output' mode with -i / -o files, and comparison with 'cnfgen peb'
with tempfile.TemporaryDirectory() as tmp:
    for gname, text in GRAPHS.items():
        fin = os.path.join(tmp, gname + '.kthlist')
        with open(fin, 'w') as f:
            f.write(text)
    for gname in ['single', 'path3', 'pyr2', 'twosinks', 'wide', 'bad', 'empty']:
        fin = os.path.join(tmp, gname + '.kthlist')
        for t in [[], ['xor', '2'], ['-q', 'lift', '2'], ['shuffle']]:
            for mode in ('output', 'whatever', None):
                fout = os.path.join(tmp, 'out.cnf')
                if os.path.exists(fout):
                    os.unlink(fout)
                head = [x for x in t if x == '-q']
                tail = [x for x in t if x != '-q']
                argv = ['kthlist2pebbling', '-i', fin, '-o', fout] + head + tail
                shown = [a.replace(tmp, '<TMP>') for a in argv]
                random.seed(7)
                try:
                    res = kthlist2pebbling(argv, mode=mode)
                    rec('OUT', shown, mode, res)
                except SystemExit as e:
                    rec('OUTEXIT', shown, mode, e.code)
                except BaseException as e:
                    rec('OUTEXC', shown, mode, type(e).__name__,
                        str(e).replace(tmp, '<TMP>'))
                # flush any file left open by argparse
                import gc
                gc.collect()
                if os.path.exists(fout):
                    with open(fout) as f:
                        rec('FILE', shown, mode, f.read().replace(tmp, '<TMP>'))
                else:
                    rec('NOFILE', shown, mode)
            # same formula through cnfgen peb on the same file
            tt = [x for x in t if x != '-q']
            cmd = ['cnfgen', '-q', 'peb', fin] + (['-T'] + tt if tt else [])
            random.seed(7)
            try:
                rec('PEB', gname, t, cnfgen_cli(cmd, mode='string'))
            except BaseException as e:
                rec('PEBEXC', gname, t, type(e).__name__,
                    str(e).replace(tmp, '<TMP>'))

    # the launcher, as a process: exit codes, stdout and stderr
    env = dict(os.environ)
    env['PYTHONPATH'] = os.getcwd()
    env['PYTHONHASHSEED'] = '0'
    env['PYTHONWARNINGS'] = 'ignore'
    procs = [
        ([], GRAPHS['pyr2']),
        (['-q', 'xor', '2'], GRAPHS['pyr2']),
        (['or', '2'], GRAPHS['bad']),
        (['or', '0'], GRAPHS['pyr2']),
        (['nosuch'], GRAPHS['pyr2']),
        (['-i', os.path.join(tmp, 'missing.kthlist')], ''),
        (['-i', os.path.join(tmp, 'path3.kthlist'), 'flip'], ''),
        (['-h'], ''),
    ]
    for extra, text in procs:
        p = subprocess.run([sys.executable, '-m', 'cnfgen.clitools.kthlist2pebbling'] + extra,
                           input=text, capture_output=True, text=True, env=env,
                           cwd=os.getcwd())
        rec('PROC', [a.replace(tmp, '<TMP>') for a in extra], p.returncode,
            p.stdout.replace(tmp, '<TMP>'),
            [l for l in p.stderr.replace(tmp, '<TMP>').splitlines()
             if 'Warning' not in l and not l.startswith('  ')])

print(hashlib.sha256("\n".join(out).encode('utf-8')).hexdigest())
