"""Equivalence script for C07/t6: randkcnf / randkxor command line helpers.

Runs `cnfgen randkcnf|randkxor ...` and `pbgen randkcnf ...` in process on many
command lines / seeds (with and without --plant) and prints one SHA256 of everything observable: the full output
(header included), exceptions and their messages, and the state of the random
generator after every run.
"""
import sys
import os
sys.path.insert(0, os.getcwd())
import warnings
warnings.simplefilter('ignore')

import io
import re
import random
import hashlib
import contextlib
from types import SimpleNamespace

from cnfgen.clitools.cnfgen import cli as cnfgen_cli
from cnfgen.clitools.pbgen import cli as pbgen_cli
from cnfgen.clihelpers.simple_helpers import RandCmdHelper, RandXorHelper
from cnfgen.formula.opb import OPB
from cnfgen.formula.cnf import CNF

H = hashlib.sha256()
VERSION = re.compile(r'CNFgen \([^)]*\)')


def record(*items):
    for x in items:
        H.update(repr(x).encode('utf-8'))
        H.update(b'\x00')


def run(tool, argv):
    out, err = io.StringIO(), io.StringIO()
    cli = cnfgen_cli if tool == 'cnfgen' else pbgen_cli
    result = None
    try:
        with contextlib.redirect_stdout(out), contextlib.redirect_stderr(err):
            cli([tool] + [str(a) for a in argv], mode='output')
        result = 'ok'
    except SystemExit as e:
        result = ('SystemExit', e.code)
    except BaseException as e:
        result = (type(e).__name__, str(e))
    record(tool, argv, result,
           VERSION.sub('CNFgen (V)', out.getvalue()),
           VERSION.sub('CNFgen (V)', err.getvalue()),
           random.getstate())



PARAMS = [(1, 1, 0), (1, 1, 1), (1, 1, 2), (1, 1, 3), (2, 2, 4), (2, 2, 3),
          (3, 3, 8), (3, 3, 7), (3, 5, 0), (3, 5, 10), (3, 8, 20), (2, 6, 30),
          (2, 4, 24), (2, 4, 25), (4, 4, 1), (3, 10, 40), (5, 7, 12),
          (3, 2, 1), (4, 3, 0), (3, 6, 200), (1, 5, 5), (1, 5, 6), (1, 3, 6)]

for seed in [0, -8, 2 ** 40 + 1]:
    for k, n, m in PARAMS:
        for family in ['randkcnf', 'randkxor']:
            run('cnfgen', ['--seed', seed, family, k, n, m])
            run('cnfgen', ['--seed', seed, family, '-p', k, n, m])
            run('cnfgen', ['-S', seed, '-q', family, '--plant', k, n, m])
            run('cnfgen', ['--seed', seed, family, k, n, m, '--plant',
                           '-T', 'shuffle'])
        run('pbgen', ['--seed', seed, 'randkcnf', k, n, m])
        run('pbgen', ['--seed', seed, 'randkcnf', '-p', k, n, m])
        run('pbgen', ['--seed', seed, 'randkxor', '-p', k, n, m])

# malformed command lines
for spec in [[], [3], [3, 5], [0, 5, 3], [3, 0, 3], [3, 5, -1], ['a', 5, 3],
             [3, 5, 3, 4], ['-p'], ['-p', 3, 5], ['--planted', 3, 5, 2],
             ['-h']]:
    for family in ['randkcnf', 'randkxor']:
        run('cnfgen', ['--seed', 4, family] + spec)
    run('pbgen', ['--seed', 4, 'randkcnf'] + spec)

# no --seed, generator seeded from outside
for k, n, m in PARAMS[:12]:
    for family in ['randkcnf', 'randkxor']:
        random.seed(77)
        run('cnfgen', [family, '-p', k, n, m])
        random.seed(77)
        run('cnfgen', [family, k, n, m])


# direct calls of the helpers
def direct(helper, ns, fclass):
    try:
        F = helper.build_formula(ns, formula_class=fclass)
        b = io.StringIO()
        F.to_file(b, fileformat='opb' if fclass is OPB else 'dimacs',
                  export_header=True)
        res = VERSION.sub('CNFgen (V)', b.getvalue())
    except BaseException as e:
        res = (type(e).__name__, str(e))
    record(helper.name, res, random.getstate())


for k, n, m in PARAMS:
    for plant in [True, False, 1, 0, None, 'yes', '']:
        for helper in [RandCmdHelper, RandXorHelper]:
            for fclass in [CNF, OPB]:
                random.seed(k * 10000 + n * 100 + m)
                direct(helper, SimpleNamespace(k=k, n=n, m=m, plant=plant),
                       fclass)

print(H.hexdigest())
