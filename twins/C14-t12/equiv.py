#!/usr/bin/env python
"""Equivalence script for the refactoring of
cnfgen.graphs._read_graph_matrix_format (matrix reader for bipartite graphs).

Prints a single SHA256 digest of everything observed: parsed graphs
(sides, edges, name) or the exception type and message."""
import sys
import os
import random
import hashlib
import tempfile
from io import StringIO

sys.path.insert(0, os.getcwd())

from cnfgen.graphs import readGraph, writeGraph, BipartiteGraph
from cnfgen.graphs import _read_graph_matrix_format

H = hashlib.sha256()


def emit(*items):
    H.update(repr(items).encode('utf-8'))
    H.update(b'\n')


def describe(G):
    return ('G', type(G).__name__, G.left_order(), G.right_order(),
            G.number_of_vertices(), G.number_of_edges(),
            list(G.edges()), G.name,
            [G.right_neighbors(u) for u in range(1, G.left_order() + 1)],
            [G.left_neighbors(v) for v in range(1, G.right_order() + 1)])


def attempt(tag, fn):
    try:
        res = fn()
        emit(tag, describe(res))
    except Exception as e:  # record every observable failure
        emit(tag, 'EXC', type(e).__name__, str(e))


def parse_all(tag, text):
    attempt((tag, 'direct'), lambda: _read_graph_matrix_format(StringIO(text)))
    attempt((tag, 'readGraph'),
            lambda: readGraph(StringIO(text), 'bipartite', 'matrix'))
    attempt((tag, 'from_file'),
            lambda: BipartiteGraph.from_file(StringIO(text), 'matrix'))


HAND = [
    "",
    "\n",
    "\n\n\n",
    "0 0\n",
    "0 0",
    "0 0\n\n\n",
    "0 0\n# trailing comment\n",
    "0 0\n1\n",
    "0 0\n0\n",
    "0 0\nx\n",
    "0 3\n",
    "3 0\n",
    "3 0\n0\n",
    "0 3\n1 1 1\n",
    "1 1\n0\n",
    "1 1\n1\n",
    "1 1\n2\n",
    "1 1\n-1\n",
    "1 1\n1 1\n",
    "1 1\n1\n1\n",
    "1 1\n1\n\n\n# c\n\n",
    "1 1\n1\n\n\n# c\n0\n",
    "1 1\n1\n\n\n# c\nzzz\n",
    "1 1\n1\n#\n",
    "1 1\n1 #\n",
    "1 1\n1\n # indented comment\n",
    "1\n",
    "1",
    "2\n\n",
    "a b\n",
    "2 b\n1 0\n",
    "-1 2\n",
    "2 -1\n",
    "-1 -1\n",
    "2.0 2\n1 0\n0 1\n",
    "2 2\n1 0\n0 1\n",
    "2 2\n1 0\n0 1",
    "2 2 1 0 0 1\n",
    "2 2 1 0 0 1 0\n",
    "2 2 1 0 0 1 7\n",
    "2\n2\n1\n0\n0\n1\n",
    "2 2\n1 0 0\n1\n",
    "2 2\n1 0\n0\n",
    "2 2\n1 0\n",
    "2 2\n",
    "2 2\n1 0\n0 x\n",
    "2 2\n1 0\nx 0\n",
    "2 2\n1 0\n0 1\nx\n",
    "2 2\n1 0\n0 1\n0 0\n",
    "2 2\n1 0\n0 3\n",
    "2 2\n1 5\n0 3\n",
    "2 2\n1 0\n\n\n0 5\n",
    "# header\n2 2\n1 0\n0 1\n",
    "# header\n\n# more\n2 2\n# mid\n1 0\n\n0 1\n# end\n",
    "#2 2\n1 0\n0 1\n",
    "2 2 # comment\n1 0\n0 1\n",
    "2 2\n1 0 # comment\n0 1\n",
    "2 2\n1 0\n0 1 #\n",
    "\t2\t2\n\t1\t0\n 0   1 \n",
    "2 2\r\n1 0\r\n0 1\r\n",
    "2 3\n1 1 1\n1 1 1\n",
    "3 2\n1 1\n1 1\n1 1\n",
    "2 3\n0 0 0\n0 0 0\n",
    "2 3\n+1 0 0\n0 0 01\n",
    "2 3\n1 0 0\n0 0 1\n1\n",
    "2 3\n1 0 0\n0 0 1\n\n1 1 1\n",
    "2 3\n1 0 0\n0 0 1\n\n#x\n\n\n",
    "1 12\n1 0 1 0 1 0 1 0 1 0 1 1\n",
    "12 1\n1\n0\n1\n0\n1\n0\n1\n0\n1\n0\n1\n1\n",
    "9 15\n"
    "1 1 0 1 0 0 0 1 0 0 0 0 0 0 0\n"
    "0 1 1 0 1 0 0 0 1 0 0 0 0 0 0\n"
    "0 0 1 1 0 1 0 0 0 1 0 0 0 0 0\n"
    "0 0 0 1 1 0 1 0 0 0 1 0 0 0 0\n"
    "0 0 0 0 1 1 0 1 0 0 0 1 0 0 0\n"
    "0 0 0 0 0 1 1 0 1 0 0 0 1 0 0\n"
    "0 0 0 0 0 0 1 1 0 1 0 0 0 1 0\n"
    "0 0 0 0 0 0 0 1 1 0 1 0 0 0 1\n"
    "1 0 0 0 0 0 0 0 1 1 0 1 0 0 0\n",
    "c comment\n2 2\n1 0\n0 1\n",
    "p edge 2 1\ne 1 2\n",
    "3\n1 : 2 0\n",
    "é 2\n",
    "2 2\n1 0\n0 ١\n",
    "2 2\n1 0\n0 ²\n",
]

for idx, text in enumerate(HAND):
    parse_all(('hand', idx), text)

# --- round trips and corruptions of written files -------------------
rnd = random.Random(20141214)


def random_bipartite(L, R, p):
    B = BipartiteGraph(L, R, name='random {} {} {}'.format(L, R, p))
    for u in range(1, L + 1):
        for v in range(1, R + 1):
            if rnd.random() < p:
                B.add_edge(u, v)
    return B


SIZES = [(0, 0), (0, 1), (1, 0), (1, 1), (1, 2), (2, 1), (3, 3), (2, 11),
         (11, 2), (10, 10), (4, 13), (12, 12)]
case = 0
for (L, R) in SIZES:
    for p in (0.0, 0.3, 0.7, 1.0):
        B = random_bipartite(L, R, p)
        buf = StringIO()
        writeGraph(B, buf, 'bipartite', 'matrix')
        text = buf.getvalue()
        emit('written', case, text)
        parse_all(('rt', case), text)
        B2 = readGraph(StringIO(text), 'bipartite', 'matrix')
        emit('same', case,
             B2.left_order() == L, B2.right_order() == R,
             list(B2.edges()) == list(B.edges()))

        lines = text.split('\n')
        # truncations at every line boundary
        for k in range(len(lines)):
            parse_all(('trunc-lines', case, k), '\n'.join(lines[:k]))
        # truncation at some character positions
        for _ in range(6):
            cut = rnd.randrange(0, len(text) + 1)
            parse_all(('trunc-char', case, cut), text[:cut])
        # blank and comment lines inserted
        for _ in range(4):
            ls = list(lines)
            for _ in range(rnd.randrange(1, 4)):
                pos = rnd.randrange(0, len(ls) + 1)
                ls.insert(pos, rnd.choice(['', '   ', '# note', '#', '\t',
                                           '#1 1 1']))
            parse_all(('padded', case, _), '\n'.join(ls))
        # token corruptions
        toks = text.split()
        for _ in range(8):
            ts = list(toks)
            if ts:
                pos = rnd.randrange(0, len(ts))
                ts[pos] = rnd.choice(['2', '-1', 'x', '1.0', '10', '#', '0',
                                      '1', '', '3 3'])
            parse_all(('corrupt', case, _), ' '.join(ts) + '\n')
        # extra rows / entries appended
        for extra in ['0', '1', '0 0 0', 'x', '\n\n0', '# ok', '\n#\n\n', '2']:
            parse_all(('extra', case, extra), text + extra + '\n')
        # reflow of the tokens over lines
        for width in (1, 2, 5, 1000):
            chunks = [' '.join(toks[i:i + width])
                      for i in range(0, len(toks), width)]
            parse_all(('reflow', case, width), '\n'.join(chunks) + '\n')
        case += 1

# --- reading from real files with autodetected format ---------------
tmpdir = tempfile.mkdtemp(prefix='c14t12')
try:
    for idx, text in enumerate(HAND[:40]):
        fname = os.path.join(tmpdir, 'g{}.matrix'.format(idx))
        with open(fname, 'w', encoding='utf-8') as f:
            f.write(text)
        attempt(('file', idx), lambda: readGraph(fname, 'bipartite'))
        attempt(('file-from_file', idx), lambda: BipartiteGraph.from_file(fname))
finally:
    for name in os.listdir(tmpdir):
        os.remove(os.path.join(tmpdir, name))
    os.rmdir(tmpdir)

print(H.hexdigest())
