#!/usr/bin/env python
"""Equivalence digest for the t16 refactoring (RandCmdHelper.build_formula).

Drives the `randkcnf` command line helper through `cnfgen` and `pbgen`
(string / formula / output modes, with and without --plant, many seeds
and boundary k, n, m, wrong arguments) and directly through
build_formula with hand made argument namespaces and a recording
formula class.  Everything observed (formulas, text, error messages,
the state of the random stream afterwards) goes into one SHA256.
"""
import sys, os, io, hashlib, random, argparse, contextlib
sys.path.insert(0, os.getcwd())

from cnfgen.formula.cnf import CNF
from cnfgen.formula.opb import OPB
from cnfgen.clihelpers.simple_helpers import RandCmdHelper, RandXorHelper
from cnfgen.clitools.cnfgen import cli as cnfgen_cli
from cnfgen.clitools.pbgen import cli as pbgen_cli

H = hashlib.sha256()
def emit(*xs):
    H.update((" ".join(repr(x) for x in xs) + "\n").encode())

def run_cli(cli, argv, mode):
    out, err = io.StringIO(), io.StringIO()
    with contextlib.redirect_stdout(out), contextlib.redirect_stderr(err):
        try:
            r = cli(argv, mode=mode)
            if mode == 'formula':
                r = (r.number_of_variables(), len(r), list(r), sorted(r.header.items()))
            res = ('ok', r)
        except SystemExit as e:
            res = ('exit', e.code)
        except Exception as e:
            res = ('exc', type(e).__name__, str(e))
    emit('cli', argv, mode, res, out.getvalue(), err.getvalue(), random.random())

shapes = [(3, 10, 7), (1, 1, 1), (1, 1, 2), (1, 1, 3), (2, 4, 18), (2, 4, 24), (2, 4, 25),
          (3, 3, 7), (3, 3, 8), (3, 3, 9), (5, 4, 1), (4, 4, 0), (3, 6, 10), (6, 15, 4),
          (10, 1, 14), (0, 3, 1), (2, 0, 1), (2, 3, -1), (2, 7, 60), (3, 5, 70)]
for k, n, m in shapes:
    for plant in ([], ['-p'], ['--plant']):
        for seed in (0, 1, 42, 'xyz'):
            run_cli(cnfgen_cli, ['cnfgen', '-q', '--seed', seed, 'randkcnf', k, n, m] + plant, 'string')
            run_cli(cnfgen_cli, ['cnfgen', '--seed', seed, 'randkcnf'] + plant + [k, n, m], 'formula')
        run_cli(pbgen_cli, ['pbgen', '--seed', 5, 'randkcnf', k, n, m] + plant, 'string')
        run_cli(pbgen_cli, ['pbgen', '-q', '--seed', 6, 'randkcnf', k, n, m] + plant, 'formula')

run_cli(cnfgen_cli, ['cnfgen', '--seed', 9, 'randkcnf', 3, 6, 5, '-p'], 'output')
run_cli(cnfgen_cli, ['cnfgen', '--seed', 9, 'randkcnf', 3, 6, 5], 'output')
run_cli(pbgen_cli, ['pbgen', '--seed', 9, 'randkcnf', 3, 6, 5, '-p'], 'output')
run_cli(cnfgen_cli, ['cnfgen', '--seed', 9, '-of', 'latex', 'randkcnf', 2, 4, 3, '-p'], 'string')
run_cli(cnfgen_cli, ['cnfgen', '--seed', 9, 'randkcnf', 3, 6, 5, '-p', '-T', 'shuffle'], 'string')
run_cli(cnfgen_cli, ['cnfgen', 'randkcnf', 3, 6], 'string')
run_cli(cnfgen_cli, ['cnfgen', 'randkcnf', 3, 6, 'a'], 'string')
run_cli(cnfgen_cli, ['cnfgen', 'randkcnf', 3, 6, 2, '-p', '-p'], 'string')
run_cli(cnfgen_cli, ['cnfgen', 'randkcnf', '-h'], 'string')
# the sibling helper shares the code shape: keep an eye on it too
for plant in ([], ['-p']):
    run_cli(cnfgen_cli, ['cnfgen', '--seed', 3, 'randkxor', 3, 6, 5] + plant, 'string')

# direct calls of build_formula
class Recording(CNF):
    log = []
    def __init__(self, *a, **kw):
        Recording.log.append(('init', a, sorted(kw.items())))
        super().__init__(*a, **kw)

def direct(helper, ns, cls, seed):
    random.seed(seed)
    try:
        F = helper.build_formula(ns, cls)
        res = ('ok', type(F).__name__, F.number_of_variables(), len(F), list(F),
               sorted(F.header.items()))
    except Exception as e:
        res = ('exc', type(e).__name__, str(e))
    emit('direct', helper.__name__, sorted(vars(ns).items()), cls.__name__, seed, res,
         random.random())

for helper in (RandCmdHelper, RandXorHelper):
    for k, n, m in shapes + [(2, 3, 1.5), ('2', 3, 1), (2, 3.0, 1), (2, None, 1)]:
        for plant in (True, False, 0, 1, None, 'yes', []):
            for cls in (CNF, Recording) + ((OPB,) if helper is RandCmdHelper else ()):
                for seed in (11, 12):
                    direct(helper, argparse.Namespace(k=k, n=n, m=m, plant=plant), cls, seed)
emit('recording', Recording.log)
# missing attribute
for ns in (argparse.Namespace(k=2, n=3, m=1), argparse.Namespace(k=2, m=1, plant=True),
           argparse.Namespace(n=3, m=1, plant=False)):
    direct(RandCmdHelper, ns, CNF, 1)

print(H.hexdigest())
