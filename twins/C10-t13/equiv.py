#!/usr/bin/env python
"""Equivalence script for the refactoring of FormulaLifting
(cnfgen/transformations/substitutions.py).
Prints one SHA256 digest of everything observable."""
import sys, os, hashlib, random
sys.path.insert(0, os.getcwd())

import cnfgen
from cnfgen.formula.cnf import CNF
from cnfgen.formula.opb import OPB
from cnfgen.transformations.substitutions import (FormulaLifting, XorSubstitution,
                                                  OrSubstitution, FlipPolarity,
                                                  IfThenElseSubstitution)
from cnfgen.transformations.shuffle import Shuffle

H = hashlib.sha256()
def emit(*xs):
    H.update((" ".join(repr(x) for x in xs) + "\n").encode('utf-8'))

def attempt(tag, fn):
    try:
        r = fn()
        emit(tag, 'OK', r)
    except Exception as e:
        emit(tag, 'EXC', type(e).__name__, str(e))

def dump_formula(tag, F):
    n = F.number_of_variables()
    emit(tag, 'nvars', n, 'len', len(F))
    bad = 0
    for c in F:
        emit(tag, c)
        for l in c:
            if not isinstance(l, int) or l == 0 or abs(l) > n:
                bad += 1
    emit(tag, 'bad', bad)
    emit(tag, 'header', list(F.header.items()))
    emit(tag, 'labels', list(F.all_variable_labels()))
    emit(tag, 'groups', [(type(g).__name__, list(g.ids)) for g in F._groups])
    attempt(tag + ' debug', lambda: F.debug(allow_opposite=True, allow_repetition=True))
    attempt(tag + ' dimacs', lambda: F.to_dimacs())

def sources():
    yield 'empty', CNF()
    F = CNF(); F.update_variable_number(3)
    yield 'novars-clauses', F
    yield 'emptyclause', CNF([[]])
    yield 'unit', CNF([[1]])
    yield 'negunit', CNF([[-1]])
    yield 'small', CNF([[1, -2], [2, 3, -1], [-3], [], [1, 1], [2, -2]])
    F = CNF()
    x = F.new_variable('x_{1}')
    Y = F.new_block(2, 2, label='y_{{{},{}}}')
    F.add_clause([x, -Y(1, 2)])
    F.add_clause([7, -x])      # variables outside groups
    z = F.new_variable('z')
    F.add_clause([-z, Y(2, 2), 6])
    yield 'named', F
    yield 'php', cnfgen.PigeonholePrinciple(5, 4)
    yield 'bphp', cnfgen.BinaryPigeonholePrinciple(5, 4)
    yield 'op', cnfgen.OrderingPrinciple(5)
    random.seed(77)
    yield 'rand', cnfgen.RandomKCNF(3, 12, 40)
    yield 'peb', cnfgen.PebblingFormula(cnfgen.graphs.DirectedGraph.from_networkx(
        __import__('networkx').DiGraph([(1, 3), (2, 3), (3, 5), (4, 5)])))

for name, F in sources():
    for k in [1, 2, 3, 4, 7]:
        tag = 'lift {} k{}'.format(name, k)
        def mk():
            G = FormulaLifting(F, k)
            dump_formula(tag, G)
            assert G.number_of_variables() == 2 * k * F.number_of_variables() or True
            return (G.number_of_variables(), len(G), 2 * k * F.number_of_variables())
        attempt(tag, mk)
    # source formula must be unchanged
    emit('src', name, F.number_of_variables(), list(F), list(F.header.items()))

# error paths on k
F = cnfgen.PigeonholePrinciple(3, 2)
for k in [0, -1, -5, 'a', 2.5, 2.0, None, True, [2], (3,)]:
    attempt('badk {!r}'.format(k), lambda: list(FormulaLifting(F, k)))
attempt('badF none', lambda: FormulaLifting(None, 2))
attempt('badF list', lambda: FormulaLifting([[1, 2]], 2))
def opbsrc():
    P = OPB()
    P.add_clause([1, -2])
    P.add_constraint([(2, 1), (3, 3), '>=', 2])
    G = FormulaLifting(P, 2)
    return (G.number_of_variables(), list(G))
attempt('opb source', opbsrc)
# corrupted source (literal out of declared range)
def corrupt():
    C = CNF()
    C.add_clause([1, 5], check=False)
    G = FormulaLifting(C, 2)
    return (G.number_of_variables(), list(G))
attempt('corrupt source', corrupt)
def zerolit():
    C = CNF([[1, 2]])
    C.add_clause([0, 1], check=False)
    G = FormulaLifting(C, 2)
    return (G.number_of_variables(), list(G))
attempt('zero literal source', zerolit)

# chains
def chain(tag, fn):
    def mk():
        G = fn()
        dump_formula(tag, G)
        return G.number_of_variables()
    attempt(tag, mk)

P = cnfgen.PigeonholePrinciple(4, 3)
chain('lift-lift', lambda: FormulaLifting(FormulaLifting(P, 2), 2))
chain('xor-lift', lambda: FormulaLifting(XorSubstitution(P, 2), 3))
chain('lift-xor', lambda: XorSubstitution(FormulaLifting(P, 3), 2))
chain('lift-or-flip', lambda: FlipPolarity(OrSubstitution(FormulaLifting(P, 2), 2)))
chain('ite-lift', lambda: FormulaLifting(IfThenElseSubstitution(P), 2))
def shuf():
    random.seed(5)
    return Shuffle(FormulaLifting(P, 3))
chain('lift-shuffle', shuf)
def then_more():
    G = FormulaLifting(P, 2)
    v = G.new_variable('extra')
    B = G.new_block(2, 3, label='b({},{})')
    G.add_clause([v, -B(2, 3)])
    return G
chain('lift-then-groups', then_more)

# command line
from cnfgen.clitools.cnfgen import cli as cnfgen_cli
for argv in [['cnfgen', '-q', 'php', 4, 3, '-T', 'lift', 1],
             ['cnfgen', 'php', 4, 3, '-T', 'lift', 3],
             ['cnfgen', '-q', 'op', 4, '-T', 'lift', 2, '-T', 'lift', 2],
             ['cnfgen', '-q', '--seed', 9, 'randkcnf', 3, 8, 20, '-T', 'lift', 2, '-T', 'shuffle'],
             ['cnfgen', '-q', '-of', 'latex', 'php', 3, 2, '-T', 'lift', 2],
             ['cnfgen', '-q', '-of', 'opb', 'php', 3, 2, '-T', 'lift', 2],
             ['cnfgen', '-q', 'php', 3, 2, '-T', 'lift', 0],
             ['cnfgen', '-q', 'php', 3, 2, '-T', 'lift', 'x'],
             ['cnfgen', '-q', 'php', 3, 2, '-T', 'lift']]:
    def run():
        import io, contextlib
        err = io.StringIO()
        try:
            with contextlib.redirect_stderr(err):
                out = cnfgen_cli(argv, mode='string')
        except SystemExit as e:
            return ('exit', e.code, err.getvalue())
        return (out, err.getvalue())
    attempt('cli ' + ' '.join(map(str, argv)), run)

print(H.hexdigest())
