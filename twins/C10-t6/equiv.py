#!/usr/bin/env python
"""Equivalence script for the refactoring of cnfgen.transformations.shuffle.Shuffle
(index based loops over polarity flips / variable permutation replaced by
direct iteration).

Run as:  cd <checkout> && /venv/bin/python equiv.py
Prints one SHA256 digest of everything observed.
"""
import os
import io
import sys
import random
import hashlib
import contextlib

sys.path.insert(0, os.getcwd())

import cnfgen
from cnfgen.formula.cnf import CNF
from cnfgen.transformations.shuffle import Shuffle
from cnfgen.clitools import cnfshuffle as cnfshuffle_cli
from cnfgen.clitools import cnfgen as cnfgen_cli

H = hashlib.sha256()
from cnfgen.info import info as _info
GENERATOR = "{project} ({version})".format(**_info)


def rec(*items):
    line = ' '.join(repr(x) for x in items)
    # the header of a formula quotes `git describe` of the checkout: mask it
    line = line.replace(GENERATOR, 'CNFgen (<version>)')
    H.update(line.encode('utf-8'))
    H.update(b'\n')


def dump(tag, F):
    rec(tag, 'n', F.number_of_variables(), 'm', F.number_of_clauses())
    rec(tag, 'header', sorted((k, str(v)) for k, v in F.header.items()))
    rec(tag, 'labels', list(F.all_variable_labels()))
    clauses = [list(c) for c in F]
    rec(tag, 'clauses', clauses)
    n = F.number_of_variables()
    ok = all(isinstance(l, int) and l != 0 and 1 <= abs(l) <= n for c in clauses for l in c)
    rec(tag, 'literals in range', ok)
    rec(tag, 'dimacs', F.to_dimacs())


def attempt(tag, fn):
    try:
        res = fn()
    except BaseException as e:  # noqa (SystemExit from the command line included)
        rec(tag, 'EXC', type(e).__name__, str(e))
        return None
    if isinstance(res, CNF):
        dump(tag, res)
    else:
        rec(tag, 'OK', res)
    return res


def formulas():
    random.seed(4242)
    out = []
    out.append(('empty', CNF()))
    F = CNF()
    F.update_variable_number(5)
    out.append(('noclauses', F))
    F = CNF()
    F.add_clause([])
    out.append(('onlyempty', F))
    F = CNF([[1, -2, 3], [-1], [2, 2, -2], [], [4, -5, 6, -7]])
    F.update_variable_number(9)
    out.append(('handmade', F))
    out.append(('php', cnfgen.PigeonholePrinciple(7, 5)))
    out.append(('op', cnfgen.OrderingPrinciple(6)))
    out.append(('rand', cnfgen.RandomKCNF(3, 40, 150, seed=7)))
    out.append(('peb', cnfgen.PebblingFormula(cnfgen.graphs.dag_pyramid(5))))
    out.append(('php xor', cnfgen.XorSubstitution(cnfgen.PigeonholePrinciple(4, 3), 2)))
    return out


def main():
    forms = formulas()
    modes = ['fixed', 'shuffle']

    # 1. all combinations of the string modes, two seeds, random stream afterwards
    for name, F in forms:
        for seed in (0, 'abc'):
            for p in modes:
                for v in modes:
                    for c in modes:
                        tag = 'modes %s seed=%r %s/%s/%s' % (name, seed, p, v, c)
                        random.seed(seed)
                        attempt(tag, lambda: Shuffle(F, p, v, c))
                        rec(tag, 'rnd after', random.random())
        random.seed(1)
        attempt('default ' + name, lambda: Shuffle(F))
        rec('default ' + name, 'rnd after', random.random())
        # the original is not modified
        dump('orig ' + name, F)

    # 2. explicit sequences (lists, tuples, ranges) and chains of shuffles
    rng = random.Random(31337)
    for name, F in forms:
        N = F.number_of_variables()
        M = F.number_of_clauses()
        for rnd in range(4):
            flips = [rng.choice([-1, 1]) for _ in range(N)]
            vperm = list(range(1, N + 1))
            rng.shuffle(vperm)
            cperm = list(range(M))
            rng.shuffle(cperm)
            tag = 'explicit %s %d' % (name, rnd)
            random.seed(5)
            G = attempt(tag + ' lists', lambda: Shuffle(F, flips, vperm, cperm))
            attempt(tag + ' tuples', lambda: Shuffle(F, tuple(flips), tuple(vperm), tuple(cperm)))
            attempt(tag + ' mixed1', lambda: Shuffle(F, flips, 'fixed', 'shuffle'))
            attempt(tag + ' mixed2', lambda: Shuffle(F, 'shuffle', vperm, 'fixed'))
            attempt(tag + ' mixed3', lambda: Shuffle(F, 'fixed', 'shuffle', cperm))
            attempt(tag + ' ranges', lambda: Shuffle(F, [-1] * N, range(N, 0, -1), range(M - 1, -1, -1)))
            attempt(tag + ' floats', lambda: Shuffle(F, [1.0] * N, vperm, cperm))
            rec(tag, 'rnd after', random.random())
            if G is not None:
                attempt(tag + ' twice', lambda: Shuffle(Shuffle(G, flips, vperm, cperm)))

    # 3. error paths
    F = forms[3][1]
    N = F.number_of_variables()
    M = F.number_of_clauses()
    idv = list(range(1, N + 1))
    idc = list(range(M))
    bad = [
        ('flips short', ([1] * (N - 1), 'fixed', 'fixed')),
        ('flips long', ([1] * (N + 1), 'fixed', 'fixed')),
        ('flips zero', ([1] * (N - 1) + [0], 'fixed', 'fixed')),
        ('flips two first', ([2] + [1] * (N - 1), 'fixed', 'fixed')),
        ('flips two last', ([1] * (N - 1) + [-2], 'fixed', 'fixed')),
        ('flips str elems', (['1'] * N, 'fixed', 'fixed')),
        ('flips none elems', ([None] * N, 'fixed', 'fixed')),
        ('flips word', ('random', 'fixed', 'fixed')),
        ('flips word N', ('x' * N, 'fixed', 'fixed')),
        ('flips int', (3, 'fixed', 'fixed')),
        ('flips None', (None, 'fixed', 'fixed')),
        ('flips empty', ([], 'fixed', 'fixed')),
        ('vperm short', ('fixed', idv[:-1], 'fixed')),
        ('vperm dup', ('fixed', [1] + idv[:-1], 'fixed')),
        ('vperm zero based', ('fixed', list(range(N)), 'fixed')),
        ('vperm word', ('fixed', 'nope', 'fixed')),
        ('vperm None', ('fixed', None, 'fixed')),
        ('cperm short', ('fixed', 'fixed', idc[:-1])),
        ('cperm dup', ('fixed', 'fixed', [0] + idc[:-1])),
        ('cperm one based', ('fixed', 'fixed', [i + 1 for i in idc])),
        ('cperm word', ('fixed', 'fixed', 'nope')),
        ('both bad', ([1], [1], [1])),
        ('flips bad then shuffle', ([3] * N, 'shuffle', 'shuffle')),
    ]
    for name, (p, v, c) in bad:
        random.seed(77)
        attempt('bad ' + name, lambda: Shuffle(F, p, v, c))
        rec('bad ' + name, 'rnd after', random.random())
    E = CNF()
    attempt('empty with flips', lambda: Shuffle(E, [1], 'fixed', 'fixed'))
    attempt('empty with empty', lambda: Shuffle(E, [], [], []))

    # 4. command line tools
    def run_cnfgen(args):
        out, err = io.StringIO(), io.StringIO()
        with contextlib.redirect_stdout(out), contextlib.redirect_stderr(err):
            try:
                res = cnfgen_cli(['cnfgen'] + args, mode='string')
            except BaseException as e:  # noqa
                res = ('EXC', type(e).__name__, str(e))
        return res, out.getvalue(), err.getvalue()

    for args in [
        ['--seed', '3', 'php', '6', '4', '-T', 'shuffle'],
        ['--seed', '3', 'php', '6', '4', '-T', 'shuffle', '-p'],
        ['--seed', '3', 'php', '6', '4', '-T', 'shuffle', '-v', '-c'],
        ['--seed', '3', 'php', '6', '4', '-T', 'shuffle', '-p', '-v', '-c'],
        ['--seed', '9', 'op', '5', '-T', 'xor', '2', '-T', 'shuffle', '-T', 'shuffle', '-c'],
        ['--seed', '9', 'randkcnf', '3', '30', '100', '-T', 'shuffle', '-T', 'or', '2'],
        ['--seed', '9', '-of', 'opb', 'tseitin', 'randomodd', 'gnd', '8', '3', '-T', 'shuffle'],
        ['--seed', '1', 'and', '0', '0', '-T', 'shuffle'],
        ['--seed', '1', 'php', '3', '2', '-T', 'shuffle', '--bogus'],
    ]:
        rec('cnfgen', args, run_cnfgen(args))

    dimacs_inputs = [
        'p cnf 0 0\n',
        'p cnf 4 0\n',
        'p cnf 5 3\n1 -2 0\n3 4\n-5 0\n0\n',
        cnfgen.PigeonholePrinciple(6, 5).to_dimacs(),
        'p cnf 2 1\n1 3 0\n',
        'c nothing\n',
    ]
    for i, text in enumerate(dimacs_inputs):
        for opts in ([], ['-p'], ['-v'], ['-c'], ['-p', '-v', '-c'], ['-q']):
            out, err = io.StringIO(), io.StringIO()
            with contextlib.redirect_stdout(out), contextlib.redirect_stderr(err):
                old_stdin = sys.stdin
                sys.stdin = io.StringIO(text)
                try:
                    res = cnfshuffle_cli(['cnfshuffle', '--seed', '12'] + opts, mode='string')
                except BaseException as e:  # noqa
                    res = ('EXC', type(e).__name__, str(e))
                finally:
                    sys.stdin = old_stdin
            rec('cnfshuffle', i, opts, res, out.getvalue(), err.getvalue())

    print(H.hexdigest())


if __name__ == '__main__':
    main()
