#!/usr/bin/env python
"""Equivalence script for t20: cnfgen.transformations.shuffle.Shuffle
(library calls, `cnfshuffle` and `cnfgen ... -T shuffle`).

Prints a single SHA256 digest of formulas, headers, dimacs text, random
states, exceptions and their messages.
"""
import sys
import os
import io
import hashlib
import random
import warnings
import tempfile
from contextlib import redirect_stdout, redirect_stderr

warnings.simplefilter('ignore')
sys.path.insert(0, os.getcwd())

from cnfgen import CNF, Shuffle, RandomKCNF, PigeonholePrinciple
from cnfgen.clitools.cnfshuffle import cli as cnfshuffle_cli
from cnfgen.clitools.cnfgen import cli as cnfgen_cli
from cnfgen.clitools.cmdline import redirect_stdin

H = hashlib.sha256()


def record(*items):
    for x in items:
        H.update(repr(x).encode('utf-8'))
        H.update(b'\x00')


def summary(F):
    return (type(F).__name__, F.number_of_variables(), F.number_of_clauses(),
            [tuple(c) for c in F.clauses()], sorted(F.header.items()),
            F.to_dimacs())


def attempt(tag, F, *args, **kwargs):
    try:
        G = Shuffle(F, *args, **kwargs)
        record(tag, args, sorted(kwargs.items()), summary(G), summary(F),
               random.getstate()[1][:4], random.random())
    except BaseException as e:
        record(tag, 'EXC', args, sorted(kwargs.items()),
               type(e).__name__, str(e))


formulas = []
formulas.append(CNF())
formulas.append(CNF([[]]))
formulas.append(CNF([[1]]))
formulas.append(CNF([[1, -2], [2, -3], [-1, 3, 4], [-4], [1, 2, 3, 4]]))
F = CNF([[1, 2], [-1, -2]])
F.update_variable_number(5)
formulas.append(F)
F = CNF([[3, -1], [2]])
F.header['description'] = 'hand made'
F.header['transformation 1'] = 'something'
F.header['transformation 2'] = 'something else'
formulas.append(F)
formulas.append(RandomKCNF(3, 8, 20, seed=11))
formulas.append(PigeonholePrinciple(4, 3))

modes = ['fixed', 'shuffle']

for idx, F in enumerate(formulas):
    N = F.number_of_variables()
    M = F.number_of_clauses()
    for seed in [0, 1, -4, 31337]:
        for pf in modes:
            for vp in modes:
                for cp in modes:
                    random.seed(seed)
                    attempt(('MODES', idx), F, pf, vp, cp)
        random.seed(seed)
        attempt(('DEFAULT', idx), F)
        # explicit parameters of several sequence types
        rnd = random.Random(seed)
        flips = [rnd.choice([-1, 1]) for _ in range(N)]
        vperm = list(range(1, N + 1))
        rnd.shuffle(vperm)
        cperm = list(range(M))
        rnd.shuffle(cperm)
        random.seed(seed)
        attempt(('EXPL', idx), F, flips, vperm, cperm)
        attempt(('EXPL', idx), F, tuple(flips), tuple(vperm), tuple(cperm))
        attempt(('EXPL', idx), F, flips, 'shuffle', cperm)
        attempt(('EXPL', idx), F, 'shuffle', vperm, 'fixed')
        attempt(('EXPL', idx), F, polarity_flips=flips)
        attempt(('EXPL', idx), F, variables_permutation=vperm)
        attempt(('EXPL', idx), F, clauses_permutation=cperm)
        attempt(('EXPL', idx), F, [1] * N, range(1, N + 1), range(M))
        attempt(('EXPL', idx), F, [-1] * N, list(range(N, 0, -1)),
                list(range(M - 1, -1, -1)))
        attempt(('EXPL', idx), F, [float(x) for x in flips],
                vperm, cperm)
        # invalid parameters
        attempt(('BAD', idx), F, flips + [1], vperm, cperm)
        attempt(('BAD', idx), F, flips[:-1], vperm, cperm)
        attempt(('BAD', idx), F, [0] * N, vperm, cperm)
        attempt(('BAD', idx), F, [2] * N, vperm, cperm)
        attempt(('BAD', idx), F, flips, vperm + [N + 1], cperm)
        attempt(('BAD', idx), F, flips, [1] * N, cperm)
        attempt(('BAD', idx), F, flips, list(range(N)), cperm)
        attempt(('BAD', idx), F, flips, [x + 1 for x in vperm], cperm)
        attempt(('BAD', idx), F, flips, vperm, cperm + [M])
        attempt(('BAD', idx), F, flips, vperm, [0] * M)
        attempt(('BAD', idx), F, flips, vperm, list(range(1, M + 1)))
        attempt(('BAD', idx), F, 'random', vperm, cperm)
        attempt(('BAD', idx), F, flips, 'random', cperm)
        attempt(('BAD', idx), F, flips, vperm, 'random')
        attempt(('BAD', idx), F, None, vperm, cperm)
        attempt(('BAD', idx), F, flips, None, cperm)
        attempt(('BAD', idx), F, flips, vperm, None)
        attempt(('BAD', idx), F, 3, vperm, cperm)

# iterated shuffles on the same random stream (header numbering)
random.seed(5)
G = formulas[3]
for i in range(4):
    G = Shuffle(G)
    record('ITER', i, summary(G))


# command line tools
def run_cli(cli, argv, stdin=None):
    out = io.StringIO()
    err = io.StringIO()
    try:
        with redirect_stdout(out), redirect_stderr(err):
            if stdin is None:
                res = cli(argv, mode='output')
            else:
                with redirect_stdin(io.StringIO(stdin)):
                    res = cli(argv, mode='output')
        record('OK', argv, res, out.getvalue(), err.getvalue())
    except SystemExit as e:
        record('EXIT', argv, e.code, out.getvalue(), err.getvalue())
    except BaseException as e:
        record('EXC', argv, type(e).__name__, str(e), out.getvalue(),
               err.getvalue())


tmpdir = tempfile.mkdtemp()
os.chdir(tmpdir)
inputs = {
    'empty.cnf': 'p cnf 0 0\n',
    'emptyclause.cnf': 'p cnf 2 1\n0\n',
    'small.cnf': 'c a comment\np cnf 4 5\n1 -2 0\n2 -3 0\n-1 3 4 0\n-4 0\n1 2 3 4 0\n',
    'extra.cnf': 'p cnf 6 2\n1 2 0\n-1 -2 0\n',
    'php.cnf': PigeonholePrinciple(4, 3).to_dimacs(),
    'broken.cnf': 'p cnf 2 2\n1 3 0\n',
    'garbage.cnf': 'hello world\n',
}
for name, text in inputs.items():
    with open(name, 'w') as f:
        f.write(text)

optsets = [[], ['-p'], ['-v'], ['-c'], ['-p', '-v'], ['-p', '-c'],
           ['-v', '-c'], ['-p', '-v', '-c'], ['-q'], ['-q', '-c'],
           ['--no-polarity-flips', '--no-clauses-permutation']]
for seed in ['0', '1', '-9', '2718', 'hello']:
    for name in sorted(inputs):
        for opts in optsets:
            run_cli(cnfshuffle_cli,
                    ['cnfshuffle', '-S', seed, '-i', name] + opts)
    run_cli(cnfshuffle_cli, ['cnfshuffle', '--seed', seed],
            stdin=inputs['small.cnf'])
    run_cli(cnfshuffle_cli, ['cnfshuffle', '--seed', seed, '-o', 'out-%s.cnf' % seed,
                             '-i', 'php.cnf'])
run_cli(cnfshuffle_cli, ['cnfshuffle', '-S', '1', '-i', 'missing.cnf'])
run_cli(cnfshuffle_cli, ['cnfshuffle', '-S', '1', '-z'])

for seed in ['0', '3', '-2']:
    for opts in optsets[:8]:
        run_cli(cnfgen_cli, ['cnfgen', '-S', seed, 'php', '4', '3', '-T', 'shuffle'] + opts)
        run_cli(cnfgen_cli, ['cnfgen', '-S', seed, 'randkcnf', '3', '7', '12',
                             '-T', 'shuffle'] + opts + ['-T', 'xor', '2', '-T', 'shuffle'])
        run_cli(cnfgen_cli, ['cnfgen', '-S', seed, 'kclique', '3', 'gnp', '6', '.5',
                             '-T', 'shuffle'] + opts)
    run_cli(cnfgen_cli, ['cnfgen', '-q', '-S', seed, 'and', '0', '0', '-T', 'shuffle'])
    run_cli(cnfgen_cli, ['cnfgen', '-S', seed, 'or', '0', '0', '-T', 'shuffle'])
    run_cli(cnfgen_cli, ['cnfgen', '-S', seed, 'dimacs', 'small.cnf', '-T', 'shuffle'])
    run_cli(cnfgen_cli, ['cnfgen', '-S', seed, '-of', 'latex', 'op', '3', '-T', 'shuffle'])
    run_cli(cnfgen_cli, ['cnfgen', '-S', seed, '-of', 'opb', 'op', '3', '-T', 'shuffle'])

for name in sorted(os.listdir(tmpdir)):
    with open(name) as f:
        record('FILE', name, f.read())

os.chdir('/')
import shutil
shutil.rmtree(tmpdir, ignore_errors=True)

print(H.hexdigest())
