"""Equivalence digest for SubsetCardinalityFormula (cnfgen/families/subsetcardinality.py)."""
import hashlib
import itertools
import random
import sys
sys.path.insert(0, '.')

import networkx

from cnfgen.families.subsetcardinality import SubsetCardinalityFormula
from cnfgen.formula.opb import OPB
from cnfgen.graphs import (BipartiteGraph, Graph, bipartite_random,
                           bipartite_random_left_regular, bipartite_shift,
                           bipartite_random_regular)

H = hashlib.sha256()


def emit(*items):
    for it in items:
        H.update(repr(it).encode('utf-8'))
        H.update(b'\n')


def observe(tag, thunk):
    emit('CASE', tag)
    try:
        F = thunk()
    except Exception as exc:  # record type and message
        emit('EXC', type(exc).__name__, str(exc))
        return
    emit('TYPE', type(F).__name__)
    emit('HEADER', sorted(F.header.items()))
    emit('NVARS', F.number_of_variables(), 'LEN', len(F))
    emit('LABELS', list(F.all_variable_labels()))
    emit('BODY', [list(c) for c in F])
    if isinstance(F, OPB):
        emit('OPB', F.to_opb())
    else:
        emit('DIMACS', F.to_dimacs())
        emit('LATEX', F.to_latex())


def explicit(L, R, edges, name=None):
    B = BipartiteGraph(L, R, name=name)
    for u, v in edges:
        B.add_edge(u, v)
    return B


graphs = []
# boundary graphs
for L in range(0, 4):
    for R in range(0, 4):
        graphs.append((('empty', L, R), explicit(L, R, [])))
        graphs.append((('complete', L, R),
                       explicit(L, R, itertools.product(range(1, L + 1), range(1, R + 1)))))
# every bipartite graph with 2 left and 3 right vertices
cells = list(itertools.product(range(1, 3), range(1, 4)))
for mask in range(2 ** len(cells)):
    edges = [c for i, c in enumerate(cells) if (mask >> i) & 1]
    graphs.append((('all23', mask), explicit(2, 3, edges, name='mask{}'.format(mask))))
# odd and even degrees on both sides, generated with fixed seeds
for seed in range(6):
    graphs.append((('rnd', seed), bipartite_random(4, 5, 0.5, seed=seed)))
    graphs.append((('leftreg', seed), bipartite_random_left_regular(5, 6, 3, seed=seed)))
    graphs.append((('reg', seed), bipartite_random_regular(6, 4, 2, seed=seed)))
graphs.append((('shift',), bipartite_shift(7, 7, [1, 2, 4])))
graphs.append((('shift5',), bipartite_shift(5, 6, [1, 2, 3, 5, 6])))

for tag, B in graphs:
    for eq in (False, True):
        observe(tag + ('eq', eq), lambda: SubsetCardinalityFormula(B, equalities=eq))
    observe(tag + ('default',), lambda: SubsetCardinalityFormula(B))

# truthy / falsy non boolean flags and OPB output
B = bipartite_shift(5, 5, [1, 2, 3])
for flag in (0, 1, None, '', 'yes', [], [0]):
    observe(('flag', repr(flag)), lambda: SubsetCardinalityFormula(B, flag))
    observe(('flag-opb', repr(flag)),
            lambda: SubsetCardinalityFormula(B, flag, formula_class=OPB))

# networkx input and invalid input
G = networkx.Graph()
G.add_nodes_from([1, 2, 3], bipartite=0)
G.add_nodes_from([4, 5, 6, 7], bipartite=1)
G.add_edges_from([(1, 4), (1, 5), (1, 6), (2, 5), (2, 7), (3, 4), (3, 5), (3, 6), (3, 7)])
for eq in (False, True):
    observe(('nx', eq), lambda: SubsetCardinalityFormula(G, eq))
    observe(('nx-nobip', eq), lambda: SubsetCardinalityFormula(networkx.path_graph(4), eq))
    observe(('simple', eq), lambda: SubsetCardinalityFormula(Graph.complete_graph(3), eq))
    observe(('int', eq), lambda: SubsetCardinalityFormula(5, eq))
    observe(('none', eq), lambda: SubsetCardinalityFormula(None, eq))

print(H.hexdigest())
