import os, sys, io, hashlib, random, tempfile
sys.path.insert(0, os.getcwd())
import cnfgen
import importlib
cnfgen_tool = importlib.import_module('cnfgen.clitools.cnfgen')
pbgen_tool = importlib.import_module('cnfgen.clitools.pbgen')
shuffle_tool = importlib.import_module('cnfgen.clitools.cnfshuffle')
msgmod = importlib.import_module('cnfgen.clitools.msg')

H = hashlib.sha256()
def rec(*items):
    for it in items:
        H.update(repr(it).encode('utf-8'))
        H.update(b'\x00')

class Sink(io.StringIO):
    def close(self):
        pass

TOOLS = {'cnfgen': cnfgen_tool.main, 'pbgen': pbgen_tool.main, 'cnfshuffle': shuffle_tool.main}

def run(tool, args, stdin=''):
    """Run the real entry point main() in process, record everything observable"""
    old = sys.argv, sys.stdout, sys.stderr, sys.stdin
    out, err = Sink(), Sink()
    sys.argv = [tool] + [str(a) for a in args]
    sys.stdout, sys.stderr, sys.stdin = out, err, io.StringIO(stdin)
    msgmod._prefix = ''
    random.seed(12345)
    status = 'ok'
    try:
        try:
            TOOLS[tool]()
        except SystemExit as e:
            status = 'exit %r' % (e.code,)
        except BaseException as e:
            status = 'EXC %s: %s' % (type(e).__name__, e)
    finally:
        sys.argv, sys.stdout, sys.stderr, sys.stdin = old
    rec(tool, args, status, out.getvalue(), err.getvalue())
    return status, out.getvalue(), err.getvalue()

# ---- t25: comment marker that shields messages, per output format, in cnfgen and pbgen
from cnfgen.clitools.cmdline import CLIError
from cnfgen.clitools.msg import InternalBug, msg_prefix, error_msg, interactive_msg

workdir = tempfile.TemporaryDirectory()
os.chdir(workdir.name)

def call_cli(toolmod, name, args, mode):
    msgmod._prefix = ''
    random.seed(99)
    old = sys.stdout, sys.stderr, sys.stdin
    out, err = Sink(), Sink()
    sys.stdout, sys.stderr, sys.stdin = out, err, io.StringIO('')
    try:
        try:
            res = toolmod.cli([name] + args, mode=mode)
            if mode == 'formula':
                res = (type(res).__name__, res.number_of_variables(), len(res), sorted(res.header.items()))
            rec(name, args, mode, 'OK', res)
        except BaseException as e:
            rec(name, args, mode, 'EXC', type(e).__name__, str(e),
                type(e.__cause__).__name__, str(e.__cause__), type(e.__context__).__name__)
    finally:
        sys.stdout, sys.stderr, sys.stdin = old
    rec(out.getvalue(), err.getvalue(), msgmod._prefix)

formats = [[], ['-of', 'dimacs'], ['-of', 'latex'], ['-of', 'opb'], ['--latex'], ['-l', '-of', 'opb'], ['-of', 'tex'],
           ['-of', ''], ['-of'], ['-o', 'f.tex'], ['-o', 'f.opb'], ['-o', 'f.cnf'], ['-o', 'f'], ['-o', 'f.tex', '-of', 'dimacs'],
           ['-o', 'f.TEX'], ['-o', '.tex'], ['-o', 'a.b.opb'], ['-o', '/nonexistent_dir/x.opb'], ['-o', '.'], ['-o', '-'],
           ['-o', 'f.opb', '-of', 'latex'], ['-q', '-of', 'opb'], ['-v', '--varnames', '-of', 'latex'], ['-S', '5', '-of', 'opb']]
cnf_bodies = [['php', '3', '2'], ['php', '3'], ['php', '-1', '2'], ['php', 'x', '2'], ['php', '3', '2', '1', '4'], [], ['nosuch', '1'],
              ['op', '3', '-T'], ['op', '3', '-T', 'nosuch'], ['op', '3', '-T', 'xor', '2'], ['op', '3', '-T', 'xor', '-2'],
              ['op', '3', '-T', 'xor'], ['randkcnf', '3', '5', '4'], ['randkcnf', '9', '5', '4'], ['kcolor', '3', 'missing.gml'],
              ['kcolor', '3', 'gnp', '4'], ['peb', 'pyramid', '-3'], ['ram', '3', '3', '5'], ['ram', '3'], ['--bogus'],
              ['count', '4', '3'], ['parity', '0'], ['and', '1', '1'], ['or', '0', '0'], ['false'], ['-h'], ['php', '-h']]
pb_bodies = [['php', '3', '2'], ['php', '3'], ['php', '-1', '2'], [], ['nosuch'], ['vertexcover', '2', 'gnp', '4', '.5'],
             ['vertexcover', '2', 'missing.gml'], ['vertexcover', '-2', 'complete', '3'], ['--bogus'], ['-h'], ['php', '-h'],
             ['randlinear', '3', '4', '2'], ['randlinear', 'x'], ['subsetsum', '1', '2', '3'], ['subsetsum']]

for i, fmt in enumerate(formats):
    for body in (cnf_bodies if i % 3 == 0 else cnf_bodies[i % 3::3]):
        run('cnfgen', fmt + body)
    for body in (pb_bodies if i % 3 == 0 else pb_bodies[i % 3::3]):
        run('pbgen', fmt + body)
    for name in sorted(os.listdir('.')):
        with open(name) as f:
            rec('file', name, f.read())
        os.unlink(name)

for i, fmt in enumerate(formats):
    for mode in (['string', 'formula', 'output', 'weird'] if i % 2 == 0 else ['string']):
        for body in [['php', '3', '2'], ['php', '3'], [], ['and', '1', '1', '-T', 'flip']]:
            call_cli(cnfgen_tool, 'cnfgen', fmt + body, mode)
        for body in [['php', '3', '2'], ['php', '3'], []]:
            call_cli(pbgen_tool, 'pbgen', fmt + body, mode)
    for name in sorted(os.listdir('.')):
        with open(name) as f:
            rec('file', name, f.read())
        os.unlink(name)

# the message layer itself
err = Sink()
old = sys.stderr
sys.stderr = err
try:
    for p in ['c ', '% ', '* ', '']:
        with msg_prefix(p):
            error_msg('one\n  two\n\nthree')
            error_msg('a long line ' * 12, filltext=40)
            with msg_prefix('INPUT: '):
                error_msg(ValueError('boom'))
                interactive_msg('never shown', filltext=70)
        rec(msgmod._prefix)
finally:
    sys.stderr = old
rec(err.getvalue(), str(InternalBug('Unknown output format')), str(InternalBug(KeyError('x'))))

os.chdir('/')
workdir.cleanup()
print(H.hexdigest())
