#!/usr/bin/env python
"""Equivalence harness for the 'save' part of graph specifications.

Exercises cnfgen.clitools.graph_args.parse_graph_argument (and its
local helper consumesaveinfo) on many graph specifications, then builds
the graphs with make_graph_from_spec / the cnfgen command line and
records the parsed dictionaries, the saved files, the formulas and all
the error messages.  Prints one SHA256 digest.
"""
import hashlib
import itertools
import os
import random
import sys
import tempfile

sys.path.insert(0, os.getcwd())

from cnfgen.clitools.graph_args import parse_graph_argument
from cnfgen.clitools.graph_args import make_graph_from_spec
from cnfgen.clitools.graph_args import formats
from cnfgen.clitools.cnfgen import cli

LOG = []


def log(*items):
    LOG.append(" | ".join(str(x) for x in items))


def describe(G):
    return (type(G).__name__, G.name, G.number_of_vertices(),
            G.number_of_edges(), sorted(G.edges()))


BASES = {
    'simple': ['gnp 6 .5', 'gnm 5 4', 'complete 4', 'grid 2 3', 'empty 3',
               'torus 3 3', 'gnd 6 3'],
    'bipartite': ['glrp 3 4 .5', 'glrm 3 3 5', 'glrd 4 3 2', 'regular 4 2 1',
                  'shift 4 4 0 1', 'complete 2 3', 'empty 2 2'],
    'dag': ['path 4', 'tree 2', 'pyramid 3'],
    'digraph': ['path 2', 'tree 1', 'pyramid 0'],
}

OPTS = {
    'simple': ['plantclique 3', 'addedges 2', 'splitedges 1'],
    'bipartite': ['plantbiclique 2 2', 'addedges 1'],
    'dag': [],
    'digraph': [],
}


def save_tails(graphtype, tmp):
    """All shapes of what can follow the keyword 'save'"""
    fmts = formats[graphtype]
    tails = [[]]
    for f in fmts:
        tails.append([f])
        tails.append([f, os.path.join(tmp, 'out_' + f + '.txt')])
        tails.append([f, os.path.join(tmp, 'out.' + f)])
        tails.append([os.path.join(tmp, 'auto.' + f)])
        tails.append([f, f])
        tails.append([f, 'save'])
        tails.append([f, os.path.join(tmp, 'twice.' + f), 'save',
                      os.path.join(tmp, 'again.' + f)])
    tails.append([os.path.join(tmp, 'noextension')])
    tails.append([os.path.join(tmp, 'strange.xyz')])
    tails.append(['save'])
    tails.append(['addedges'])
    tails.append(['12'])
    tails.append(['12', '13'])
    tails.append(['gnp'])
    tails.append(['-q'])
    return tails


def scrub(text, tmp):
    return str(text).replace(tmp, '<TMP>')


def parse_only(tmp):
    for graphtype in ['simple', 'bipartite', 'dag', 'digraph']:
        for base in BASES[graphtype][:3]:
            prefixes = [[]] + [o.split() for o in OPTS[graphtype]]
            for prefix in prefixes:
                for tail in save_tails(graphtype, tmp):
                    suffixes = [[]] + [o.split() for o in OPTS[graphtype][:2]]
                    suffixes.append(['bogus'])
                    for suffix in suffixes:
                        spec = base.split() + prefix + ['save'] + tail + suffix
                        for form in (spec, " ".join(spec), tuple(spec)):
                            try:
                                res = parse_graph_argument(graphtype, form)
                                log('PARSE', graphtype, scrub(form, tmp),
                                    scrub(sorted(res.items(),
                                                 key=lambda kv: kv[0]), tmp))
                            except Exception as e:
                                log('PARSE-ERR', graphtype, scrub(form, tmp),
                                    type(e).__name__, scrub(e, tmp))
        # specs that read from file, or are just wrong
        for spec in [['save'], ['save', 'save'], ['kthlist'],
                     ['kthlist', 'f', 'save'], ['kthlist', 'f', 'save', 'g'],
                     ['kthlist', 'f', 'save', 'kthlist'],
                     ['kthlist', 'f', 'save', 'kthlist', 'g'],
                     ['f.gml', 'save', 'g.dot'], ['f.gml', 'save', 'dot'],
                     ['matrix', 'f', 'save', 'matrix', 'g'],
                     ['dimacs', 'f', 'save', 'matrix', 'g'],
                     [], ['gnp', '3', '.5', 'save', 'a', 'save', 'b']]:
            try:
                res = parse_graph_argument(graphtype, spec)
                log('PARSE2', graphtype, spec, sorted(res.items(),
                                                      key=lambda kv: kv[0]))
            except Exception as e:
                log('PARSE2-ERR', graphtype, spec, type(e).__name__, e)


def build_and_save(tmp):
    count = 0
    for graphtype in ['simple', 'bipartite', 'dag', 'digraph']:
        for base in BASES[graphtype]:
            for k in range(len(OPTS[graphtype]) + 1):
                for opts in itertools.combinations(OPTS[graphtype], k):
                    for fmt in formats[graphtype]:
                        for explicit in (True, False):
                            count += 1
                            fname = os.path.join(
                                tmp, 'g{}.{}'.format(count, fmt))
                            spec = base.split()
                            for o in opts:
                                spec += o.split()
                            spec.append('save')
                            if explicit:
                                spec.append(fmt)
                            spec.append(fname)
                            random.seed(count)
                            try:
                                G = make_graph_from_spec(graphtype, spec)
                                log('BUILD', graphtype, scrub(spec, tmp),
                                    describe(G), random.random())
                                with open(fname, encoding='utf-8') as f:
                                    log('FILE', f.read())
                            except Exception as e:
                                log('BUILD-ERR', graphtype, scrub(spec, tmp),
                                    type(e).__name__, scrub(e, tmp))


def command_lines(tmp):
    cmds = [
        ['kclique', '3', 'gnp', '6', '.5', 'save', tmp + '/c1.gml'],
        ['kclique', '3', 'gnp', '6', '.5', 'save', 'dimacs', tmp + '/c2'],
        ['kclique', '3', 'gnp', '6', '.5', 'save', 'dimacs'],
        ['kclique', '3', 'gnp', '6', '.5', 'save'],
        ['kclique', '3', 'gnp', '6', '.5', 'plantclique', '3', 'save',
         'kthlist', tmp + '/c3', 'addedges', '2'],
        ['tseitin', 'first', 'gnd', '6', '3', 'save', tmp + '/c4.kthlist'],
        ['tseitin', 'first', 'gnd', '6', '3', 'save', 'matrix', tmp + '/c5'],
        ['php', '5', '4'],
        ['php', 'glrd', '4', '4', '2', 'save', 'matrix', tmp + '/c6'],
        ['php', 'glrd', '4', '4', '2', 'save', tmp + '/c7.matrix'],
        ['php', 'glrd', '4', '4', '2', 'save', 'matrix'],
        ['matching', 'gnm', '6', '7', 'save', tmp + '/c13.dot', 'splitedges', '2'],
        ['subsetcard', 'regular', '4', '4', '2', 'save', 'gml', tmp + '/c14'],
        ['php', 'glrm', '3', '4', '7', 'save', tmp + '/c8.kthlist',
         'plantbiclique', '2', '2'],
        ['peb', 'pyramid', '3', 'save', tmp + '/c9.kthlist'],
        ['peb', 'pyramid', '3', 'save', 'dot', tmp + '/c10'],
        ['peb', 'tree', '2', 'save', 'gml'],
        ['peb', 'path', '3', 'save', 'matrix', tmp + '/c11'],
        ['peb', 'path', '3', 'save', tmp + '/nodir/c12.gml'],
    ]
    for n, cmd in enumerate(cmds):
        argv = ['cnfgen', '-q', '--seed', str(100 + n)] + cmd
        try:
            out = cli(argv, mode='string')
            log('CLI', scrub(argv, tmp), scrub(out, tmp))
        except SystemExit as e:
            log('CLI-EXIT', scrub(argv, tmp), e.code)
        except Exception as e:
            log('CLI-ERR', scrub(argv, tmp), type(e).__name__, scrub(e, tmp))
    for name in sorted(os.listdir(tmp)):
        if name.startswith('c'):
            with open(os.path.join(tmp, name), encoding='utf-8') as f:
                log('CLI-FILE', name, f.read())


def main():
    with tempfile.TemporaryDirectory() as tmp:
        cwd = os.getcwd()
        parse_only(tmp)
        build_and_save(tmp)
        # error messages go to stderr: keep them out of the way
        devnull = open(os.devnull, 'w')
        olderr = sys.stderr
        sys.stderr = devnull
        try:
            command_lines(tmp)
        finally:
            sys.stderr = olderr
            devnull.close()
            os.chdir(cwd)
    data = "\n".join(LOG).encode('utf-8')
    print(hashlib.sha256(data).hexdigest())


if __name__ == '__main__':
    main()
