#!/usr/bin/env python
"""Equivalence digest for CNFLinear.add_linear (cnfgen/formula/linear.py).

Every linear substitution (exactly / at-least / at-most / anything-but k,
exactly-one, majority, majority compression) and the selector constraint of
lifting are encoded through add_linear, whose operators are all reduced to
the final `>=` clause enumeration.  The script calls add_linear and its
cardinality_* / majority wrappers directly on many literal sequences
(lists, tuples, generators, ranges, sets, repeated / opposite literals,
empty, invalid), every operator, in-range, out-of-range and non-integer
constants, with and without checks; then goes through the substitution
functions and the command line.  Everything observable (clauses and their
order, variable counts, caller's sequence after the call, exceptions and
their messages) is hashed into one SHA256 digest.
"""
import sys
import os
import io
import hashlib
import random
from fractions import Fraction

sys.path.insert(0, os.getcwd())

from cnfgen import CNF
from cnfgen.formula.linear import CNFLinear
from cnfgen.transformations import substitutions as S
from cnfgen.clitools import cnfgen as cli, CLIError

H = hashlib.sha256()


def emit(*items):
    for it in items:
        H.update(repr(it).encode('utf-8'))
        H.update(b'\x00')


def attempt(tag, fn):
    try:
        res = fn()
        emit(tag, 'ok', res)
    except BaseException as e:
        emit(tag, 'exc', type(e).__name__, str(e))
        if os.environ.get('EQUIV_DEBUG'):
            print(tag, type(e).__name__, str(e)[:100].replace('\n', '|'), file=sys.stderr)


OPS = ['<=', '>=', '<', '>', '==', '!=']

LITS = [
    [], [1], [-1], [1, 2], [-1, 2], [1, 2, 3], [-1, 2, -3], [3, 1, 2], [4, -7, 2, 9],
    [1, 2, 3, 4, 5], [-5, 4, -3, 2, -1], [1, 1], [1, -1], [2, 2, -2, 3], [7, 7, 7],
    (1, 2, 3), (-2,), (), [10, 20, 30, 40, 50, 60],
]


def state(F):
    return F.number_of_variables(), len(F), list(F.clauses())


# --------------------------------------------------- direct calls, all operators
for lits in LITS:
    n = len(lits)
    for op in OPS:
        for c in range(-2, n + 3):
            for check in (True, False):
                def run(lits=lits, op=op, c=c, check=check):
                    F = CNFLinear()
                    before = repr(lits)
                    r = F.add_linear(lits, op, c, check=check)
                    return r, state(F), before == repr(lits), type(lits).__name__
                attempt('lin:%r %s %d %s' % (lits, op, c, check), run)

# the formula already has clauses and variables
for lits in ([2, -3, 5], [1, 2, 3, 4], [-9, 9, 1]):
    for c in range(-1, len(lits) + 2):
        def run2(lits=lits, c=c):
            F = CNF([[1, -2], []])
            F.new_block(3, label='q{}')
            F.add_linear(lits, '!=', c)
            F.add_linear(lits, '==', c, check=False)
            F.cardinality_neq(lits, c)
            F.cardinality_eq(lits, c)
            F.cardinality_leq(lits, c)
            F.cardinality_geq(lits, c)
            return state(F), F.to_dimacs(), list(F.all_variable_labels())
        attempt('pre:%r %d' % (lits, c), run2)

# iterables that are not lists
ITER = [
    ('gen', lambda: (x for x in [1, -2, 3])),
    ('gen-empty', lambda: (x for x in [])),
    ('range', lambda: range(1, 5)),
    ('range-empty', lambda: range(1, 1)),
    ('tuple', lambda: (5, -6, 7, 8)),
    ('map', lambda: map(int, ['1', '2', '3'])),
    ('iter', lambda: iter([1, 2, 3])),
    ('set', lambda: {3}),
    ('dictkeys', lambda: {1: 'a', 2: 'b', 4: 'c'}.keys()),
    ('str', lambda: 'abc'),
    ('bools', lambda: [True, True, False]),
    ('floats', lambda: [1.0, -2.0, 3.5]),
    ('fracs', lambda: [Fraction(1), Fraction(-2)]),
    ('strs', lambda: ['a', 'b']),
    ('mixed', lambda: [1, 'b', 3]),
    ('zero', lambda: [1, 0, 2]),
    ('none', lambda: None),
    ('int', lambda: 5),
    ('nested', lambda: [[1], [2]]),
]
for name, mk in ITER:
    for op in OPS:
        for c in (-1, 0, 1, 2, 3, 4, 5):
            for check in (True, False):
                def run3(mk=mk, op=op, c=c, check=check):
                    F = CNFLinear()
                    try:
                        r = F.add_linear(mk(), op, c, check=check)
                    except BaseException as e:
                        return 'exc', type(e).__name__, str(e), state(F)
                    return r, state(F)
                attempt('iter:%s %s %d %s' % (name, op, c, check), run3)

# odd constants and operators
CONSTS = [True, False, 1.0, 2.5, float('nan'), float('inf'), -float('inf'), None, '1',
          Fraction(1, 1), Fraction(3, 2), 10**30, -10**30, [1], 1 + 0j]
for cst in CONSTS:
    for op in OPS:
        for lits in ([1, 2, 3], [], [-4]):
            def run4(cst=cst, op=op, lits=lits):
                F = CNFLinear()
                try:
                    r = F.add_linear(lits, op, cst)
                except BaseException as e:
                    return 'exc', type(e).__name__, str(e), state(F), lits
                return r, state(F), lits
            attempt('const:%r %s %r' % (cst, op, lits), run4)

for badop in ['=', '=>', '=<', 'neq', '', None, 3, '!= ', ' !=', 'NE', ['!=']]:
    def run5(badop=badop):
        F = CNFLinear()
        try:
            F.add_linear([1, 2], badop, 1)
        except BaseException as e:
            return 'exc', type(e).__name__, str(e), state(F)
        return state(F)
    attempt('badop:%r' % (badop,), run5)

# wrappers
for lits in LITS[:12]:
    for check in (True, False):
        def run6(lits=lits, check=check):
            out = []
            for meth in ('add_loose_majority', 'add_loose_minority',
                         'add_strict_majority', 'add_strict_minority'):
                F = CNFLinear()
                getattr(F, meth)(lits, check=check)
                out.append(state(F))
            for meth in ('cardinality_geq', 'cardinality_leq', 'cardinality_eq', 'cardinality_neq'):
                for v in range(-1, len(lits) + 2):
                    F = CNFLinear()
                    getattr(F, meth)(lits, v, check=check)
                    out.append(state(F))
            return out
        attempt('wrap:%r %s' % (lits, check), run6)

# keyword / positional spelling of the call
def run7():
    F = CNFLinear()
    F.add_linear(lits=[1, 2, 3], op='!=', constant=2, check=False)
    F.add_linear([1, 2, 3], '!=', constant=1)
    F.add_linear(op='!=', constant=0, lits=(4, 5))
    return state(F)
attempt('kw', run7)

# larger instance: all the clauses and their order
def run8():
    F = CNFLinear()
    F.add_linear(list(range(1, 11)), '!=', 4)
    F.add_linear([-x for x in range(1, 9)], '!=', 3)
    F.add_linear(list(range(1, 10)), '==', 5)
    return state(F)
attempt('large', run8)


# -------------------------------------------------------- through substitutions
def formula_dump(F):
    buf = io.StringIO()
    F.to_file(buf, fileformat='dimacs', export_header=True, export_varnames=True)
    return (F.number_of_variables(), list(F.clauses()), dict(F.header), buf.getvalue())


def base_formulas():
    yield 'empty', CNF()
    yield 'emptyclause', CNF([[]])
    yield 'unit', CNF([[1]])
    yield 'nunit', CNF([[-1]])
    yield 'two', CNF([[1, -2], [-1, 2]])
    F = CNF([[1, -3], [2, 2, -2], [], [-1, -2, -3]])
    F.update_variable_number(4)
    yield 'odd', F
    rnd = random.Random(2024)
    for t in range(3):
        n = rnd.randint(1, 4)
        F = CNF()
        for i in range(n):
            F.new_variable('x_{{{}}}'.format(i))
        for j in range(rnd.randint(1, 4)):
            F.add_clause([rnd.choice([-1, 1]) * rnd.randint(1, n) for _ in range(rnd.randint(0, 3))])
        yield 'rnd%d' % t, F


for tag, F in base_formulas():
    for k in (1, 2, 3, 4):
        for c in range(-1, k + 2):
            attempt('%s:anybut %d %d' % (tag, k, c), lambda: formula_dump(S.AnythingButKSubstitution(F, k, c)))
            attempt('%s:exact %d %d' % (tag, k, c), lambda: formula_dump(S.ExactlyKSubstitution(F, k, c)))
            if k <= 3:
                attempt('%s:atleast %d %d' % (tag, k, c), lambda: formula_dump(S.AtLeastKSubstitution(F, k, c)))
                attempt('%s:atmost %d %d' % (tag, k, c), lambda: formula_dump(S.AtMostKSubstitution(F, k, c)))
            for op in ('<', '>'):
                if k <= 2:
                    attempt('%s:lin %d %s %d' % (tag, k, op, c), lambda: formula_dump(S.LinearSubstitution(F, k, op, c)))
        attempt('%s:one %d' % (tag, k), lambda: formula_dump(S.ExactlyOneSubstitution(F, k)))
        attempt('%s:maj %d' % (tag, k), lambda: formula_dump(S.MajoritySubstitution(F, k)))
        attempt('%s:lift %d' % (tag, k), lambda: formula_dump(S.FormulaLifting(F, k)))
    for bad in [(0, '!=', 1), (2, '<>', 1), (2, '!=', 1.0), ('2', '!=', 1), (2, '!=', None), (-1, '==', 0)]:
        attempt('%s:bad %r' % (tag, bad), lambda: formula_dump(S.LinearSubstitution(F, *bad)))

# ------------------------------------------------------------ command line
CMDS = [
    ['cnfgen', '-q', 'php', 2, 1, '-T', 'anybut', 3, 1],
    ['cnfgen', '-q', 'php', 2, 1, '-T', 'anybut', 3, 3],
    ['cnfgen', '-q', 'php', 2, 1, '-T', 'anybut', 2, 5],
    ['cnfgen', '-q', 'php', 2, 1, '-T', 'anybut', 2, 0],
    ['cnfgen', '-q', 'php', 2, 1, '-T', 'anybut', 2],
    ['cnfgen', '-q', 'and', 1, 2, '-T', 'exact', 3, 2],
    ['cnfgen', '-q', 'and', 1, 2, '-T', 'exact', 2, 2, '-T', 'anybut', 2, 1],
    ['cnfgen', '--varnames', 'or', 1, 1, '-T', 'one', 3],
    ['cnfgen', '--varnames', 'or', 1, 1, '-T', 'atleast', 3, 2, '-T', 'flip'],
    ['cnfgen', '-of', 'latex', 'or', 1, 1, '-T', 'anybut', 3, 2],
    ['cnfgen', '-of', 'opb', 'and', 1, 1, '-T', 'anybut', 2, 1],
    ['cnfgen', '--seed', 8, 'randkcnf', 2, 3, 3, '-T', 'anybut', 2, 1, '-T', 'lift', 2],
]
for argv in CMDS:
    def runcli(argv=argv):
        random.seed(31)
        return cli(argv, mode='string')
    attempt('cli:' + ' '.join(map(str, argv)), runcli)

print(H.hexdigest())
