"""Equivalence digest for the refactoring of
cnfgen.clitools.graph_build.obtain_bipartite_shift

Run as:  cd <checkout> && /venv/bin/python equiv.py
"""
import sys
import os
import io
import hashlib
import random
import warnings

warnings.simplefilter('ignore')
sys.path.insert(0, os.getcwd())

from cnfgen.clitools.graph_build import obtain_bipartite_shift
from cnfgen.clitools.graph_args import parse_graph_argument, obtain_graph
import importlib
import cnfgen.clitools.msg as msgmod

# (`cnfgen.clitools.cnfgen` the attribute is a function, not the module)
cnfgen_cli = importlib.import_module('cnfgen.clitools.cnfgen')
pbgen_cli = importlib.import_module('cnfgen.clitools.pbgen')
from cnfgen.info import info

# the version string comes from `git describe`: pin it
info['version'] = 'equiv'

H = hashlib.sha256()


def record(*items):
    for x in items:
        H.update(repr(x).encode('utf8'))
        H.update(b'\x00')


class KeepOpen(io.StringIO):
    def close(self):
        pass


def run_main(module, argv, stdin_text=''):
    """Run the `main` entry point of a command line tool in process"""
    old = sys.argv, sys.stdout, sys.stderr, sys.stdin
    out, err = KeepOpen(), KeepOpen()
    sys.argv, sys.stdout, sys.stderr = list(argv), out, err
    sys.stdin = io.StringIO(stdin_text)
    code = 0
    msgmod._prefix = ''   # a fresh process starts with no prefix
    random.seed(1234)
    try:
        try:
            module.main()
        except SystemExit as e:
            code = e.code
        except BaseException as e:  # unhandled internal exception
            code = ('UNHANDLED', type(e).__name__, str(e))
    finally:
        sys.argv, sys.stdout, sys.stderr, sys.stdin = old
    record(argv, code, out.getvalue(), err.getvalue())
    if os.environ.get("EQUIV_DEBUG"): print(argv, code, out.getvalue()[:300], err.getvalue()[:300], file=sys.__stderr__)


def describe(G):
    return (type(G).__name__, G.name, G.left_order(), G.right_order(),
            G.number_of_edges(), sorted(G.edges()))


def direct(args):
    parsed = {'graphtype': 'bipartite', 'construction': 'shift', 'args': args}
    random.seed(42)
    try:
        G = obtain_bipartite_shift(parsed)
        record('ok', args, describe(G))
    except BaseException as e:
        record('exc', args, type(e).__name__, str(e))
    record(random.random())


# 1. direct calls on the helper
argsets = [
    [], ['1'], ['1', '1'], ['3', '4'], ['3', '4', '0'], ['3', '4', '0', '1'],
    ['3', '4', '1', '0'], ['3', '4', '1', '1'], ['3', '4', '0', '1', '0'],
    ['3', '4', '4'], ['3', '4', '5'], ['3', '4', '-1'], ['3', '4', '0', '4'],
    ['3', '4', '3', '2', '1', '0'], ['3', '4', '0', '1', '2', '3', '4'],
    ['0', '4', '1'], ['3', '0', '1'], ['-3', '4', '1'], ['3', '-4', '1'],
    ['0', '0'], ['3', '4', '1.5'], ['3.0', '4', '1'], ['3', '4.0', '1'],
    ['1e2', '4', '1'], ['3', '4', 'x'], ['a', 'b'], ['3', '4', '2', '2', '3'],
    ['3', '4', '5', '5'], ['3', '4', '-1', '-1'], ['7', '7', '6', '0', '3'],
    ['10', '3', '0', '1', '2', '3'], ['1', '1', '0'], ['1', '1', '1'],
    ['1', '1', '0', '1'], ['2', '5', '5', '0'], ['3', '4', ' 1 '],
    ['3', '4', '+1'], ['3', '4', '1_0'], ['3', '40', '1_0', '10'],
    ['3', '4', 'nan'], ['3', '4', 'inf'], ['nan', '4'], ['3', 'inf'],
    None, 5, [3, 4, 1], [3, 4, 1, 1], [3, 4, None], ['3', '4', ''],
    [3.7, 4.2, 1.9], [3.7, 4.2, 1.9, 1.1],
]
for a in argsets:
    direct(a)

# exhaustive small patterns
for L in range(0, 4):
    for R in range(0, 4):
        for a in range(-1, R + 2):
            direct([str(L), str(R), str(a)])
            for b in range(-1, R + 2):
                direct([str(L), str(R), str(a), str(b)])

# 2. through the graph argument parser
specs = [
    'shift 3 4 0 1', 'shift 3 4 1 1', 'shift 3', 'shift', 'shift 3 4 5',
    'shift 5 5 0 2 addedges 3', 'shift 5 5 0 2 plantbiclique 2 2',
    'shift 5 5 2 0 2', 'shift 4 4 0 1 2 3 4', 'shift 4 4 0 1 2 3',
    'shift 4 4 0 1 save', 'shift 4 0', 'shift 0 4', 'shift 4 4 1e0',
]
for s in specs:
    random.seed(7)
    try:
        G = obtain_graph(parse_graph_argument('bipartite', s))
        record('ok', s, describe(G))
    except BaseException as e:
        record('exc', s, type(e).__name__, str(e))
    record(random.random())

# 3. through the command line tools
cmdlines = [
    ['cnfgen', 'php', 'shift', '5', '4', '0', '1'],
    ['cnfgen', '-q', 'php', 'shift', '5', '4', '1', '1'],
    ['cnfgen', '-q', 'php', 'shift', '5', '4', '5'],
    ['cnfgen', '-q', 'php', 'shift', '5', '4', '4'],
    ['cnfgen', '-q', 'php', 'shift', '5'],
    ['cnfgen', '-q', 'php', 'shift'],
    ['cnfgen', '-q', 'php', 'shift', '0', '4', '1'],
    ['cnfgen', '-q', 'php', 'shift', '5', '4', '-1'],
    ['cnfgen', '-q', 'php', 'shift', '5', '4', '1.5'],
    ['cnfgen', '-q', '--seed', '3', 'php', 'shift', '5', '4', '0', '2', 'addedges', '2'],
    ['cnfgen', '-q', '-of', 'opb', 'php', 'shift', '3', '3', '0', '1', '1'],
    ['cnfgen', '-q', '-of', 'latex', 'php', 'shift', '3', '3', '2', '2'],
    ['cnfgen', '-q', 'subsetcard', 'shift', '4', '4', '0', '1', '2'],
    ['cnfgen', '-q', 'subsetcard', 'shift', '4', '4', '0', '1', '1'],
    ['cnfgen', '-q', 'parity', 'shift', '4', '4', '0', '1'],
    ['pbgen', '-q', 'php', 'shift', '5', '4', '0', '1'],
    ['pbgen', '-q', 'php', 'shift', '5', '4', '1', '1'],
    ['pbgen', '-q', 'php', 'shift', '5', '4', '9'],
    ['pbgen', '-q', '-of', 'latex', 'php', 'shift', '5', '4', '9', '9'],
]
for argv in cmdlines:
    run_main(cnfgen_cli if argv[0] == 'cnfgen' else pbgen_cli, argv)

print(H.hexdigest())
