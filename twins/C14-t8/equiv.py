"""Equivalence harness for C14/t8: cnfgen.graphs.guess_fileformat,
BaseGraph.from_file (class-level graph file loading with format guessing) and
normalize_networkx_labels (vertex renumbering of gml/dot inputs)."""
import sys, os, io, hashlib, random, contextlib, tempfile, shutil
sys.path.insert(0, os.getcwd())
import networkx
import cnfgen.graphs as cg
from cnfgen.graphs import (Graph, DirectedGraph, BipartiteGraph, BaseGraph,
                           CompleteBipartiteGraph, writeGraph, readGraph,
                           guess_fileformat, normalize_networkx_labels)

OUT = []
TMP = tempfile.mkdtemp(prefix='c14t8')


def rec(*items):
    OUT.append(repr(items).replace(TMP, '<TMP>'))


def dump(G):
    d = [type(G).__name__, G.number_of_vertices(), G.name,
         [tuple(e) for e in G.edges()]]
    if G.is_bipartite():
        d.append((G.left_order(), G.right_order()))
    else:
        d.append(G.is_dag())
    return d


def attempt(tag, f, *a, **k):
    try:
        r = f(*a, **k)
        if isinstance(r, cg.BaseGraph):
            r = dump(r)
        elif isinstance(r, networkx.Graph):
            r = [type(r).__name__, list(r.nodes(data=True)),
                 list(r.edges(data=True)), dict(r.graph)]
        rec(tag, 'ok', r)
    except BaseException as e:
        rec(tag, 'exc', type(e).__name__, str(e),
            type(e.__cause__).__name__, type(e.__context__).__name__)


class Named(io.StringIO):
    pass


def named(name, text=''):
    s = Named(text)
    s.name = name
    return s


class WithName:
    def __init__(self, name):
        self.name = name

    def __repr__(self):
        return '<WithName {!r}>'.format(self.name)


rnd = random.Random(148)
CAPTURED = io.StringIO()
with contextlib.redirect_stdout(CAPTURED):
    # 1. guess_fileformat
    names = ['g.kthlist', 'g.gml', 'g.dot', 'g.dimacs', 'g.matrix', 'g', '',
             '.gml', 'a.b.c', 'dir.x/g', 'g.', 'G.GML', '-', 'a/b/c.d.kthlist']
    for nm in names:
        for ff in [None, 'gml', '', 'autodetect', 0]:
            attempt(('guess-str', nm, ff), guess_fileformat, nm, ff)
            attempt(('guess-named', nm, ff), guess_fileformat, named(nm), ff)
            attempt(('guess-obj', nm, ff), guess_fileformat, WithName(nm), ff)
    for obj in [io.StringIO(), io.BytesIO(), None, 5, 3.5, (1,), [], b'g.gml',
                WithName(None), WithName(5), WithName(b'x.gml'), WithName([])]:
        for ff in [None, 'dot']:
            attempt(('guess-odd', type(obj).__name__,
                     repr(getattr(obj, 'name', None)), ff),
                    guess_fileformat, obj, ff)
    attempt('guess-default', guess_fileformat, 'x.matrix')
    attempt('guess-kw', guess_fileformat, fileorname='x.matrix',
            fileformat=None)

    # 2. from_file on every class, every format, named/unnamed streams, paths
    def graphs():
        for n in [0, 1, 3, 10, 13]:
            S = Graph(n, 'S{}'.format(n))
            D = DirectedGraph(n, 'D{}'.format(n))
            A = DirectedGraph(n, 'A{}'.format(n))
            B = BipartiteGraph(n, (3 * n) % 11, 'B{}'.format(n))
            for u in range(1, n + 1):
                for v in range(1, n + 1):
                    if u < v and rnd.random() < 0.4:
                        S.add_edge(u, v)
                        A.add_edge(u, v)
                    if u != v and rnd.random() < 0.25:
                        D.add_edge(u, v)
                for v in range(1, (3 * n) % 11 + 1):
                    if rnd.random() < 0.4:
                        B.add_edge(u, v)
            yield n, 'simple', S
            yield n, 'digraph', D
            yield n, 'dag', A
            yield n, 'bipartite', B

    CLASSES = [Graph, DirectedGraph, BipartiteGraph, CompleteBipartiteGraph,
               BaseGraph]
    ALLFMT = ['kthlist', 'gml', 'dot', 'dimacs', 'matrix']
    for n, gt, G in graphs():
        for ff in ALLFMT:
            buf = io.StringIO()
            try:
                writeGraph(G, buf, gt, ff)
            except ValueError as e:
                rec(('write', n, gt, ff), 'exc', str(e))
                continue
            text = buf.getvalue()
            rec(('write', n, gt, ff), text)
            path = os.path.join(TMP, 'g{}_{}.{}'.format(n, gt, ff))
            path2 = os.path.join(TMP, 'g{}_{}_{}'.format(n, gt, ff))
            for p in (path, path2):
                with open(p, 'w') as fh:
                    fh.write(text)
            for cls in CLASSES:
                c = cls.__name__
                attempt(('ff-path', n, gt, ff, c), cls.from_file, path)
                attempt(('ff-path-noext', n, gt, ff, c), cls.from_file, path2)
                attempt(('ff-path-fmt', n, gt, ff, c), cls.from_file, path2, ff)
                attempt(('ff-path-kw', n, gt, ff, c), cls.from_file,
                        fileorname=path2, fileformat=ff)
                attempt(('ff-named', n, gt, ff, c), cls.from_file,
                        named('x.' + ff, text))
                attempt(('ff-anon', n, gt, ff, c), cls.from_file,
                        io.StringIO(text))
                attempt(('ff-anon-fmt', n, gt, ff, c), cls.from_file,
                        io.StringIO(text), ff)
                if n in (3, 10):
                    for ff2 in ALLFMT + ['txt', '', 'autodetect']:
                        attempt(('ff-cross', n, gt, ff, c, ff2), cls.from_file,
                                named('y.' + ff, text), ff2)
                with open(path) as fh:
                    attempt(('ff-handle', n, gt, ff, c), cls.from_file, fh)
    for cls in CLASSES:
        c = cls.__name__
        attempt(('ff-missing', c), cls.from_file, os.path.join(TMP, 'no.gml'))
        attempt(('ff-dir', c), cls.from_file, TMP)
        for obj in [None, 5, b'x.gml', WithName('x.gml'), WithName('x.zip')]:
            attempt(('ff-odd', c, type(obj).__name__), cls.from_file, obj)
            attempt(('ff-odd-fmt', c, type(obj).__name__), cls.from_file, obj,
                    'kthlist')

    # 3. label normalisation: gml / dot inputs with unusual vertex ids
    gmls = {
        'gap': 'graph [ node [ id 5 ] node [ id 2 ] node [ id 30 ] edge [ source 5 target 30 ] edge [ source 2 target 5 ] ]',
        'neg': 'graph [ node [ id -3 ] node [ id 0 ] node [ id 7 ] edge [ source -3 target 7 ] ]',
        'ten': 'graph [ ' + ' '.join('node [ id %d ]' % i for i in range(12, 0, -1)) + ' edge [ source 10 target 2 ] edge [ source 9 target 11 ] ]',
        'dir': 'graph [ directed 1 node [ id 3 ] node [ id 1 ] node [ id 2 ] edge [ source 1 target 3 ] edge [ source 3 target 2 ] ]',
        'bip': 'graph [ node [ id 4 bipartite 0 ] node [ id 1 bipartite 1 ] node [ id 3 bipartite 0 ] node [ id 2 bipartite 1 ] edge [ source 4 target 1 ] edge [ source 2 target 3 ] ]',
        'empty': 'graph [ ]',
        'dup': 'graph [ node [ id 1 ] node [ id 1 ] ]',
    }
    dots = {
        'str': 'graph G { 10 -- 2; 2 -- 1; b -- a; a -- 10; 3; }',
        'dig': 'digraph G { 1 -> 2; 2 -> 10; 10 -> 11; x -> 1; }',
        'dag': 'digraph G { 2 -> 10; 1 -> 2; }',
        'quoted': 'graph G { "10" -- "9"; "-1" -- "9"; "0x" -- "9"; }',
        'bip': 'graph G { 1 [bipartite=0]; 2 [bipartite=0]; 10 [bipartite=1]; 3 [bipartite=1]; 1 -- 10; 2 -- 3; }',
    }
    for key, text in gmls.items():
        for cls in CLASSES[:3]:
            attempt(('gml', key, cls.__name__), cls.from_file,
                    named('z.gml', text))
        for gt in ['simple', 'digraph', 'dag', 'bipartite']:
            attempt(('gml-read', key, gt), readGraph, io.StringIO(text), gt,
                    'gml')
    for key, text in dots.items():
        for cls in CLASSES[:3]:
            attempt(('dot', key, cls.__name__), cls.from_file,
                    named('z.dot', text))
        for gt in ['simple', 'digraph', 'dag', 'bipartite']:
            attempt(('dot-read', key, gt), readGraph, io.StringIO(text), gt,
                    'dot')

    # 4. normalize_networkx_labels / from_networkx on networkx graphs directly
    label_sets = [
        [], [1], [3, 1, 2], [10, 9, 8, 7, 6, 5, 4, 3, 2, 1, 11, 12],
        ['10', '2', '1'], ['b', 'a', 'c'], ['a', 2, '1', 10, '-5', -7],
        [(1, 2), (0, 1), (0, 0)], [(1, 2), 'a', 3], [2.5, 1.5, 1],
        ['1', 1], ['01', '1', 1], [True, 2, 0],
        [frozenset([1]), frozenset([2])], ['-', '--1', '-1', '1-'],
        ['', ' 1', '1 '], ['١', '2', '10'],
    ]
    for labels in label_sets:
        for ctor in [networkx.Graph, networkx.DiGraph]:
            H = ctor(name='H')
            H.add_nodes_from(labels)
            for i in range(len(labels) - 1):
                H.add_edge(labels[i], labels[i + 1])
            if len(labels) > 2:
                H.add_edge(labels[-1], labels[0])
            attempt(('norm', repr(labels), ctor.__name__),
                    normalize_networkx_labels, H)
            for cls in [Graph, DirectedGraph]:
                attempt(('from_nx', repr(labels), ctor.__name__, cls.__name__),
                        cls.from_networkx, H)
                attempt(('normalize', repr(labels), ctor.__name__,
                         cls.__name__), cls.normalize, H)

rec('stdout', CAPTURED.getvalue())
shutil.rmtree(TMP)
print(hashlib.sha256('\n'.join(OUT).encode('utf-8')).hexdigest())
