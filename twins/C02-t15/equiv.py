"""Equivalence harness for Graph.normalize (cnfgen/graphs.py) and the
graph-problem families that go through it."""
import hashlib
import itertools
import random
import sys
import os

sys.path.insert(0, os.getcwd())

import networkx as nx

from cnfgen.graphs import Graph, DirectedGraph, BipartiteGraph
from cnfgen.families.tseitin import TseitinFormula
from cnfgen.families.coloring import GraphColoringFormula, EvenColoringFormula
from cnfgen.families.dominatingset import DominatingSet, Tiling
from cnfgen.families.graphisomorphism import GraphIsomorphism, GraphAutomorphism
from cnfgen.families.subgraph import (SubgraphFormula, CliqueFormula,
                                      BinaryCliqueFormula,
                                      RamseyWitnessFormula)

H = hashlib.sha256()


def rec(*items):
    for it in items:
        H.update(repr(it).encode('utf8'))
        H.update(b'\x00')
    H.update(b'\n')


def chain(e):
    out = []
    while e is not None:
        out.append((type(e).__name__, str(e)))
        e = e.__cause__ or e.__context__
    return out


def attempt(tag, fn, *args, **kwargs):
    try:
        res = fn(*args, **kwargs)
    except Exception as e:  # record everything observable
        rec(tag, 'EXC', chain(e))
        return None
    return res


def describe(G):
    return (type(G).__name__, G.name, G.order(), G.number_of_edges(),
            list(G.edges()), [list(G.neighbors(v)) for v in G.vertices()])


class SubGraph(Graph):
    pass


class BrokenOrder(nx.Graph):
    def order(self):
        raise AttributeError('no order here')


class BrokenNodes(nx.Graph):
    def nodes(self):
        raise AttributeError('no nodes here')


class BrokenType(nx.Graph):
    def order(self):
        raise TypeError('order is of the wrong type')


def nx_inputs():
    rnd = random.Random(1502)
    yield 'null', nx.Graph()
    yield 'one', nx.empty_graph(1)
    yield 'path', nx.path_graph(5)
    yield 'cycle', nx.cycle_graph(6)
    yield 'complete', nx.complete_graph(4)
    yield 'star', nx.star_graph(3)
    G = nx.Graph()
    G.add_edges_from([('b', 'a'), ('c', 'a'), ('10', '9'), ('2', '10')])
    yield 'strings', G
    G = nx.Graph()
    G.add_edges_from([(3, 'x'), ('x', (1, 2)), ((1, 2), 3), (7, 3)])
    yield 'mixed', G
    G = nx.Graph()
    G.add_nodes_from([5, 9, 100])
    G.add_edge(100, 5)
    G.name = 'sparse labels'
    yield 'gaps', G
    yield 'digraph', nx.DiGraph([(1, 2), (2, 3), (3, 1)])
    yield 'multigraph', nx.MultiGraph([(1, 2), (1, 2), (2, 3)])
    G = nx.Graph([(1, 2), (2, 2), (2, 3)])
    yield 'selfloop', G
    for i in range(12):
        n = rnd.randint(0, 7)
        p = rnd.random()
        G = nx.gnp_random_graph(n, p, seed=rnd.randint(0, 10**6))
        if i % 3 == 0:
            G.name = 'random graph number {}'.format(i)
        yield 'gnp{}'.format(i), G
    yield 'brokenorder', BrokenOrder([(1, 2)])
    yield 'brokennodes', BrokenNodes([(1, 2)])
    yield 'brokentype', BrokenType([(1, 2)])


def native_inputs():
    yield 'g0', Graph(0)
    yield 'g3', Graph(3, 'named')
    G = Graph(4)
    G.add_edges_from([(1, 2), (4, 3), (2, 4)])
    yield 'g4', G
    yield 'complete', Graph.complete_graph(4)
    S = SubGraph(3)
    S.add_edge(1, 3)
    yield 'subclass', S


def bad_inputs():
    yield 'none', None
    yield 'int', 3
    yield 'str', 'a graph'
    yield 'list', [(1, 2)]
    yield 'dict', {1: [2]}
    yield 'directed', DirectedGraph(3)
    yield 'bipartite', BipartiteGraph(2, 2)
    yield 'class', Graph
    yield 'nxclass', nx.Graph


# 1. the classmethod itself
for cls in (Graph, SubGraph):
    for tag, G in nx_inputs():
        for varname in (None, 'G', 'H', 'my {} graph', ''):
            if varname is None:
                R = attempt(('nx', cls.__name__, tag), cls.normalize, G)
            else:
                R = attempt(('nx', cls.__name__, tag, varname),
                            cls.normalize, G, varname)
            if R is not None:
                rec('nx', cls.__name__, tag, varname, describe(R), R is G)
    for tag, G in native_inputs():
        for varname in (None, 'G', 'weird'):
            if varname is None:
                R = attempt(('nat', cls.__name__, tag), cls.normalize, G)
            else:
                R = attempt(('nat', cls.__name__, tag, varname),
                            cls.normalize, G, varname)
            if R is not None:
                rec('nat', cls.__name__, tag, varname, describe(R), R is G)
    for tag, G in bad_inputs():
        for varname in (None, 'G', 'G1', '{0}{1}'):
            if varname is None:
                R = attempt(('bad', cls.__name__, tag), cls.normalize, G)
            else:
                R = attempt(('bad', cls.__name__, tag, varname),
                            cls.normalize, G, varname)
            rec('bad', cls.__name__, tag, varname, R)
R = attempt('kw', Graph.normalize, G=nx.path_graph(3), varname='K')
rec('kw', describe(R))
R = attempt('kwbad', Graph.normalize, G=17, varname='K')
rec('kwbad', R)


# 2. the families, fed with every kind of input
def dump(tag, F):
    if F is None:
        return
    rec(tag, F.header.get('description'), F.number_of_variables(),
        F.number_of_clauses(), list(F.clauses()))
    rec(tag, F.to_dimacs())


def families(tag, G):
    dump((tag, 'tse'), attempt((tag, 'tse'), TseitinFormula, G))
    dump((tag, 'tse1'), attempt((tag, 'tse1'), TseitinFormula, G,
                                [1, 0, 1, 1, 0, 1, 1, 1, 0]))
    for k in (0, 1, 2, 3):
        dump((tag, 'col', k), attempt((tag, 'col', k),
                                      GraphColoringFormula, G, k))
    dump((tag, 'ec'), attempt((tag, 'ec'), EvenColoringFormula, G))
    for d in (1, 2):
        for alt in (False, True):
            dump((tag, 'dom', d, alt), attempt((tag, 'dom', d, alt),
                                               DominatingSet, G, d, alt))
    dump((tag, 'til'), attempt((tag, 'til'), Tiling, G))
    dump((tag, 'auto'), attempt((tag, 'auto'), GraphAutomorphism, G))
    for k in (0, 1, 2, 3):
        for sb in (False, True):
            dump((tag, 'kcl', k, sb), attempt((tag, 'kcl', k, sb),
                                              CliqueFormula, G, k, sb))
            dump((tag, 'bkcl', k, sb), attempt((tag, 'bkcl', k, sb),
                                               BinaryCliqueFormula, G, k, sb))
    for k, s in ((2, 2), (3, 2), (0, 1)):
        for sb in (False, True):
            dump((tag, 'ram', k, s, sb), attempt((tag, 'ram', k, s, sb),
                                                 RamseyWitnessFormula,
                                                 G, k, s, sb))


allinputs = list(nx_inputs()) + list(native_inputs()) + list(bad_inputs())
for tag, G in allinputs:
    families(tag, G)

small = [x for x in allinputs
         if x[0] in ('null', 'one', 'path', 'complete', 'mixed', 'digraph',
                     'gnp1', 'gnp4', 'g4', 'subclass', 'none', 'bipartite',
                     'brokenorder', 'brokentype')]
for (t1, G1), (t2, G2) in itertools.product(small, repeat=2):
    for nontrivial in (False, True):
        dump((t1, t2, 'iso', nontrivial),
             attempt((t1, t2, 'iso', nontrivial), GraphIsomorphism, G1, G2,
                     nontrivial))
    for induced, sb in itertools.product((False, True), repeat=2):
        dump((t1, t2, 'sub', induced, sb),
             attempt((t1, t2, 'sub', induced, sb), SubgraphFormula, G1, G2,
                     induced, sb))

print(H.hexdigest())
