#!/usr/bin/env python
"""Equivalence script for refactoring t16 (cnfio.guess_output_format).

Run as: cd <checkout> && /venv/bin/python equiv.py
Prints one SHA256 digest of everything observed.
"""
import contextlib
import hashlib
import io
import os
import random
import sys
import tempfile
import warnings

warnings.simplefilter('ignore')
sys.path.insert(0, os.getcwd())

from cnfgen.formula.cnf import CNF
from cnfgen.formula.cnfio import CNFio, guess_output_format
from cnfgen.clitools.cnfgen import cli

OUT = []


def rec(*items):
    OUT.append(repr(items))


def attempt(label, fn):
    try:
        rec(label, 'ok', fn())
    except SystemExit as e:
        rec(label, 'exit', e.code)
    except BaseException as e:  # noqa
        rec(label, 'exc', type(e).__name__, str(e))


class Named(io.StringIO):
    def __init__(self, name):
        io.StringIO.__init__(self)
        self.name = name


class NameRaises:
    def __init__(self, exc):
        self._exc = exc

    @property
    def name(self):
        raise self._exc

    def write(self, text):
        pass


class StrSub(str):
    pass


class EqAnything:
    """Compares equal to everything: `in [...]` succeeds"""
    def __eq__(self, other):
        return True

    def __hash__(self):
        return 1

    def __repr__(self):
        return 'EqAnything'


NAMES = [
    'f.cnf', 'f.tex', 'f.opb', 'f.dimacs', 'f.latex', 'f', '', '.tex', '.opb',
    'a.b.tex', 'a.tex.cnf', 'dir.tex/file', 'dir.opb/file.tex', 'f.TEX', 'f.Opb',
    'f.tex ', 'f.tex\n', 'tex', 'opb', 'f..tex', 'f.', '..', '.', 'f.tex.', '-',
    '<stdout>', 'f.opb.opb', 'ünï.tex', '/abs/path/x.opb', 'x.texx', 'x.op',
    StrSub('sub.tex'),
]

OBJECTS = [
    None, 0, 1, 3.5, [], {}, (), b'f.tex', b'f.opb', b'f', object,
    io.StringIO(), io.BytesIO(), sys.stdout, sys.stderr,
    Named('n.tex'), Named('n.opb'), Named('n.cnf'), Named(''), Named(None),
    Named(7), Named(b'n.tex'), Named(b'n.opb'), Named(['n.tex']), Named(('n', '.tex')),
    Named(StrSub('q.opb')),
    NameRaises(AttributeError('a')), NameRaises(ValueError('v')),
    NameRaises(IndexError('i')), NameRaises(KeyError('k')),
    NameRaises(TypeError('t')), NameRaises(OSError('o')),
    NameRaises(RuntimeError('r')), NameRaises(UnicodeError('u')),
]

REQUESTS = [None, 'latex', 'dimacs', 'opb', 'tex', 'cnf', '', 'LATEX', 'Dimacs',
            ' opb', 0, False, True, 1, [], ['latex'], ('opb',), b'latex', b'opb',
            StrSub('latex'), StrSub('opb'), StrSub('other'), EqAnything(), 3.0, {}]


def objlabel(o):
    if isinstance(o, Named):
        return ('Named', repr(o.name))
    if isinstance(o, NameRaises):
        return ('NameRaises', type(o._exc).__name__)
    if o in (sys.stdout, sys.stderr):
        return ('std', o.name)
    if isinstance(o, (io.StringIO, io.BytesIO)):
        return type(o).__name__
    return repr(o)


def main():
    # 1. the function itself on the whole grid
    for ri, req in enumerate(REQUESTS):
        for nm in NAMES:
            attempt(('guess-name', ri, repr(req), nm),
                    lambda: guess_output_format(nm, req))
        for oi, ob in enumerate(OBJECTS):
            attempt(('guess-obj', ri, repr(req), oi, objlabel(ob)),
                    lambda: guess_output_format(ob, req))
    # result identity: the request object itself must be handed back
    for req in (StrSub('latex'), StrSub('opb'), StrSub('dimacs'), EqAnything()):
        r = guess_output_format('x.tex', req)
        rec('identity', repr(req), r is req, type(r).__name__)
    # keyword calls and arity errors
    attempt('kw', lambda: guess_output_format(fileorname='a.opb', fileformat_request=None))
    attempt('kw2', lambda: guess_output_format(fileformat_request='latex', fileorname=None))
    attempt('arity0', lambda: guess_output_format())
    attempt('arity1', lambda: guess_output_format('a.tex'))

    # 2. to_file on real formulas: explicit formats, guessed formats, error path
    rnd = random.Random(606)
    formulas = []
    F = CNF()
    formulas.append(F)
    F = CNF([[]], description='empty clause\nsecond line ☃')
    formulas.append(F)
    F = CNF([[1, -2], [], [3]], description='hand made')
    F.update_variable_number(6)
    formulas.append(F)
    for t in range(6):
        n = rnd.randint(1, 9)
        F = CNF(description='random {}'.format(t))
        x = F.new_block(n, label='y_{{{}}}')
        for _ in range(rnd.randint(0, 12)):
            F.add_clause([rnd.choice([-1, 1]) * rnd.randint(1, n)
                          for _ in range(rnd.randint(0, 4))])
        formulas.append(F)
    for argv in (['cnfgen', '-q', 'php', '4', '3'],
                 ['cnfgen', 'op', '4'],
                 ['cnfgen', '-S', '5', 'randkcnf', '3', '7', '12', '-T', 'shuffle'],
                 ['cnfgen', 'parity', '5', '-T', 'xor', '2']):
        formulas.append(cli(argv, mode='formula'))

    olddir = os.getcwd()
    tmp = tempfile.mkdtemp(prefix='c06t16')
    try:
        os.chdir(tmp)
        for fi, F in enumerate(formulas):
            for fmt in (None, 'dimacs', 'latex', 'opb', 'tex', '', 5):
                for target in ('out.cnf', 'out.tex', 'out.opb', 'out', 'out.dimacs'):
                    for hdr in (True, False):
                        def tofile_name():
                            if os.path.exists(target):
                                os.unlink(target)
                            F.to_file(target, fileformat=fmt, export_header=hdr,
                                      export_varnames=hdr, extra_text='EXTRA')
                            with open(target, encoding='utf-8') as fh:
                                return fh.read()
                        attempt(('tofile-name', fi, repr(fmt), target, hdr), tofile_name)
                        rec('exists', os.path.exists(target))

                        def tofile_stream():
                            s = Named(target)
                            F.to_file(s, fileformat=fmt, export_header=hdr,
                                      export_varnames=not hdr)
                            return s.getvalue()
                        attempt(('tofile-stream', fi, repr(fmt), target, hdr), tofile_stream)

                        def tofile_handle():
                            with open(target, 'w', encoding='utf-8') as fh:
                                F.to_file(fh, fileformat=fmt, export_header=hdr)
                            with open(target, encoding='utf-8') as fh:
                                return fh.read()
                        attempt(('tofile-handle', fi, repr(fmt), target, hdr), tofile_handle)

                def tofile_nameless():
                    s = io.StringIO()
                    F.to_file(s, fileformat=fmt)
                    return s.getvalue()
                attempt(('tofile-nameless', fi, repr(fmt)), tofile_nameless)

                def tofile_stdout():
                    s = io.StringIO()
                    with contextlib.redirect_stdout(s):
                        F.to_file(fileformat=fmt, export_header=False)
                    return s.getvalue()
                attempt(('tofile-stdout', fi, repr(fmt)), tofile_stdout)

            # dimacs written by guess round trips
            F.to_file('rt.cnf')
            G = CNF.from_file('rt.cnf')
            rec('roundtrip', fi, G.number_of_variables() == F.number_of_variables(),
                list(G) == list(F), G.to_dimacs())

        # 3. command line: output format inferred from -o / -of / --latex
        for extra in ([], ['-of', 'dimacs'], ['-of', 'opb'], ['-of', 'latex'], ['--latex'],
                      ['-of', 'tex'], ['-of', 'latex', '--latex']):
            for outname in (None, 'c.cnf', 'c.tex', 'c.opb', 'c'):
                for mode in ('string', 'output'):
                    argv = ['cnfgen', '-q'] + extra
                    if outname is not None:
                        argv += ['-o', outname]
                    argv += ['php', '3', '2']

                    def run():
                        so, se = io.StringIO(), io.StringIO()
                        with contextlib.redirect_stdout(so), contextlib.redirect_stderr(se):
                            try:
                                r = cli(argv, mode=mode)
                            finally:
                                rec('cli-streams', so.getvalue(), se.getvalue())
                        content = None
                        if outname is not None and os.path.exists(outname):
                            with open(outname, encoding='utf-8') as fh:
                                content = fh.read()
                            os.unlink(outname)
                        return (r, content)
                    attempt(('cli', tuple(extra), outname, mode), run)
    finally:
        os.chdir(olddir)
        for fn in os.listdir(tmp):
            os.unlink(os.path.join(tmp, fn))
        os.rmdir(tmp)

    h = hashlib.sha256()
    for item in OUT:
        h.update(item.encode('utf-8', errors='backslashreplace'))
        h.update(b'\n')
    print(h.hexdigest())


if __name__ == '__main__':
    main()
