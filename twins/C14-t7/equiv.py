"""Equivalence harness for C14/t7: cnfgen.clitools.graph_fileinput
(open_input, read_graph_from_input: reading graph files named on the command
line, format autodetection from the extension, stdin, error messages)."""
import sys, os, io, hashlib, random, contextlib, tempfile, shutil, builtins
sys.path.insert(0, os.getcwd())
import cnfgen.graphs as cg
from cnfgen.graphs import Graph, DirectedGraph, BipartiteGraph, writeGraph
import cnfgen.clitools.graph_fileinput as gfi
from cnfgen.clitools.graph_fileinput import read_graph_from_input, open_input
from cnfgen.clitools.graph_args import parse_graph_argument, obtain_graph
from cnfgen.clitools import cnfgen as cnfgen_cli
from cnfgen.clitools.msg import msg_prefix

OUT = []
TMP = tempfile.mkdtemp(prefix='c14t7')


def rec(*items):
    OUT.append(repr(items).replace(TMP, '<TMP>'))


def dump(G):
    d = [type(G).__name__, G.number_of_vertices(), G.name,
         [tuple(e) for e in G.edges()]]
    if G.is_bipartite():
        d.append((G.left_order(), G.right_order()))
    else:
        d.append(G.is_dag())
    return d


# track every file opened by the module under test
OPENED = []


def tracking_open(*a, **k):
    fh = builtins.open(*a, **k)
    OPENED.append((a, tuple(sorted(k.items())), fh))
    return fh


gfi.open = tracking_open


def opened_state():
    st = [(a, k, fh.closed) for (a, k, fh) in OPENED]
    del OPENED[:]
    return st


class FakeStdin(io.StringIO):
    tty = False

    def isatty(self):
        return self.tty


def attempt(tag, f, *a, stdin_text='', tty=False):
    old_in, old_err, old_out = sys.stdin, sys.stderr, sys.stdout
    sys.stdin = FakeStdin(stdin_text)
    sys.stdin.tty = tty
    sys.stderr = io.StringIO()
    sys.stdout = io.StringIO()
    try:
        try:
            r = f(*a)
            if isinstance(r, cg.BaseGraph):
                r = dump(r)
            res = (tag, 'ok', r)
        except BaseException as e:
            res = (tag, 'exc', type(e).__name__, str(e),
                   type(e.__cause__).__name__, type(e.__context__).__name__)
        res += (sys.stdin.closed, sys.stderr.getvalue(), sys.stdout.getvalue(),
                opened_state())
    finally:
        sys.stdin, sys.stderr, sys.stdout = old_in, old_err, old_out
    rec(*res)


rnd = random.Random(147)


def graphs():
    for n in [0, 1, 4, 12]:
        S = Graph(n, 'S{}'.format(n))
        D = DirectedGraph(n, 'D{}'.format(n))
        A = DirectedGraph(n, 'A{}'.format(n))
        B = BipartiteGraph(n, n // 2 + 1, 'B{}'.format(n))
        for u in range(1, n + 1):
            for v in range(1, n + 1):
                if u < v and rnd.random() < 0.4:
                    S.add_edge(u, v)
                    A.add_edge(u, v)
                if u != v and rnd.random() < 0.25:
                    D.add_edge(u, v)
                if v <= n // 2 + 1 and rnd.random() < 0.4:
                    B.add_edge(u, v)
        yield n, 'simple', S
        yield n, 'digraph', D
        yield n, 'dag', A
        yield n, 'bipartite', B


ALLFMT = ['kthlist', 'gml', 'dot', 'dimacs', 'matrix']
TYPES = ['simple', 'digraph', 'dag', 'bipartite']
files = []
for n, gt, G in graphs():
    for ff in ALLFMT:
        buf = io.StringIO()
        try:
            writeGraph(G, buf, gt, ff)
        except ValueError:
            continue
        text = buf.getvalue()
        for fname in ['g{}_{}.{}'.format(n, gt, ff), 'g{}_{}_{}'.format(n, gt, ff),
                      'g{}_{}.{}.txt'.format(n, gt, ff)]:
            p = os.path.join(TMP, fname)
            with open(p, 'w') as fh:
                fh.write(text)
            files.append((n, gt, ff, p, text))

# bad contents
bad = {'empty.kthlist': '', 'junk.gml': 'graph [ node [ id 1 ',
       'junk.dimacs': 'p edge 2 1\ne 1 3\n', 'junk.matrix': '2 2\n1 0\n1\n',
       'junk.kthlist': '3\n1 : 2 0\n2 : 3\n', 'cyc.kthlist': '2\n1 : 2 0\n2 : 1 0\n',
       'junk.dot': 'digraph { 1 -> ', 'UPPER.GML': 'graph [ ]',
       'noext': '3\n1 : 0\n', '.kthlist': '1\n1 : 0\n'}
for nm, text in bad.items():
    p = os.path.join(TMP, nm)
    with open(p, 'w') as fh:
        fh.write(text)
    files.append((None, None, None, p, text))

with msg_prefix('c '):
    for (n, gt0, ff0, p, text) in files:
        for gt in TYPES:
            for ff in ['autodetect'] + ALLFMT + ['txt', '']:
                if gt0 is not None and ff not in ('autodetect', ff0, 'txt') \
                        and n not in (4,):
                    continue
                attempt(('file', os.path.basename(p), gt, ff),
                        read_graph_from_input, gt, p, ff)
        # same text from standard input
        for gt in TYPES:
            for ff in ['autodetect', ff0 or 'kthlist', 'gml', 'zzz']:
                for tty in [False, True]:
                    attempt(('stdin', os.path.basename(p), gt, ff, tty),
                            read_graph_from_input, gt, '-', ff,
                            stdin_text=text, tty=tty)

    # odd arguments and error paths
    for gt in TYPES + ['bogus', None]:
        for fname in [os.path.join(TMP, 'missing.gml'), TMP, '', '-', '-.gml',
                      None, 5, os.path.join(TMP, 'noext')]:
            for ff in ['autodetect', 'kthlist', None]:
                attempt(('odd', gt, fname, ff), read_graph_from_input, gt,
                        fname, ff, stdin_text='2\n1 : 0\n2 : 1 0\n')

    # the context manager alone
    def use_open_input(name, fail):
        with open_input(name) as fh:
            first = fh.read(5)
            if fail:
                raise KeyError('boom')
            return (first, fh is sys.stdin)

    for name in ['-', files[0][3], os.path.join(TMP, 'missing'), TMP, '']:
        for fail in [False, True]:
            attempt(('open_input', name, fail), use_open_input, name, fail,
                    stdin_text='hello world')

    # through the graph argument parser and the whole command line
    def via_args(gt, spec):
        return obtain_graph(parse_graph_argument(gt, spec))

    for (n, gt0, ff0, p, text) in files:
        if n not in (None, 4, 12):
            continue
        for gt in TYPES:
            for spec in [[p], [ff0 or 'gml', p], ['matrix', p], ['kthlist', '-']]:
                attempt(('args', gt, [os.path.basename(x) for x in spec]),
                        via_args, gt, spec, stdin_text=text)

    def cli(argv):
        return cnfgen_cli(argv, mode="string")

    for (n, gt0, ff0, p, text) in files:
        if n not in (None, 4):
            continue
        for argv in [['cnfgen', '-q', 'tseitin', 'first', p],
                     ['cnfgen', '-q', 'kclique', 2, p],
                     ['cnfgen', '-q', 'peb', p],
                     ['cnfgen', '-q', 'peb', 'kthlist', '-'],
                     ['cnfgen', '-q', 'subsetcard', p],
                     ['cnfgen', '-q', 'domset', 2, ff0 or 'gml', p]]:
            attempt(('cli', [os.path.basename(str(x)) for x in argv]), cli,
                    argv, stdin_text=text)

shutil.rmtree(TMP)
print(hashlib.sha256('\n'.join(OUT).encode('utf-8')).hexdigest())
