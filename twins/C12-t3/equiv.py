#!/usr/bin/env python
"""Equivalence digest for the OPB / LaTeX writers of cnfgen (property C12).

Run as:  cd <checkout> && /venv/bin/python equiv.py
Prints one SHA256 digest of everything observable: rendered text, the exact
sequence of write() calls, files written on disk, exceptions and messages.
"""
import hashlib
import io
import os
import random
import sys
import tempfile

sys.path.insert(0, os.getcwd())

from cnfgen.formula.cnf import CNF
from cnfgen.formula.opb import OPB
from cnfgen.formula.basecnf import BaseCNF
from cnfgen.formula.baseopb import BaseOPB
from cnfgen.formula.cnfio import CNFio, guess_output_format
from cnfgen.formula.opbio import OPBio
from cnfgen.utils.opb import to_opb_file
from cnfgen.utils.latexoutput import (to_latex_string, to_latex_document,
                                      _print_latex)

H = hashlib.sha256()
tmpdir = tempfile.mkdtemp(prefix='c12equiv')
NREC = [0]


def rec(*items):
    NREC[0] += 1
    for it in items:
        H.update(repr(it).encode('utf-8', errors='backslashreplace'))
        H.update(b'\x00')
    H.update(b'\x01')


class Recorder:
    """File like object remembering every single write call"""
    name = 'recorder.opb'

    def __init__(self):
        self.calls = []

    def write(self, text):
        self.calls.append(text)
        return len(text)


class NamedSink(io.StringIO):
    def __init__(self, name):
        io.StringIO.__init__(self)
        self.name = name


def attempt(tag, func, *args, **kwargs):
    try:
        res = func(*args, **kwargs)
        rec(tag, 'ok', res)
        if os.environ.get('C12_DEBUG'):
            sys.stderr.write(repr((tag, res))[:300] + '\n')
    except Exception as e:  # noqa
        rec(tag, 'exc', type(e).__name__, str(e).replace(tmpdir, '<TMP>'))


# ---------------------------------------------------------------- formulas
def cnf_formulas():
    rng = random.Random(12012)
    out = []
    out.append(('empty', CNF()))
    out.append(('emptyclause', CNF([[]])))
    out.append(('two-empty', CNF([[], []])))
    out.append(('unit', CNF([[1]])))
    out.append(('negunit', CNF([[-1]])))
    out.append(('doc', CNF([[-1, 2, -3], [-2, -4], [2, 3, -4]])))
    out.append(('mixed-empty', CNF([[1, -2], [], [3]], description='with_under_score')))
    F = CNF(description='named vars\nsecond line éè unicode')
    x = F.new_variable('x')
    y = F.new_variable('y^2')
    z = F.new_variable('z_1^3')
    w = F.new_variable('w^a_b')
    u = F.new_variable('_lead')
    v = F.new_variable('multi\nline name')
    F.add_clause([x, -y, z])
    F.add_clause([-w, -u, -v, -x])
    F.add_clause([])
    F.add_clause([u, v, w, -z, y])
    F.header['extra field'] = 12
    F.header['multi'] = 'a\nb\n\nc'
    F.header['emptyval'] = ''
    out.append(('named', F))
    F = CNF()
    b = F.new_block(2, 3, label='p_{{{},{}}}')
    q = F.new_block(3, label='q^{{{}}}')
    for i in range(1, 3):
        F.add_clause([b(i, j) for j in range(1, 4)])
    F.add_clause([-q(1), -q(2), q(3), -b(2, 2)])
    out.append(('blocks', F))
    F = CNF()
    F.update_variable_number(5)
    out.append(('vars-noclauses', F))
    # sizes around the page split (35 clauses per page)
    for m in [1, 2, 34, 35, 36, 69, 70, 71, 106]:
        n = rng.randint(1, 9)
        cls = []
        for _ in range(m):
            k = rng.randint(0, 4)
            cls.append([rng.choice([-1, 1]) * rng.randint(1, n) for _ in range(k)])
        out.append(('rnd%d' % m, CNF(cls, description='random %d' % m)))
    return out


def opb_formulas():
    rng = random.Random(21021)
    out = []
    out.append(('empty', OPB()))
    F = OPB()
    F.add_constraint([">=", 0])
    F.add_constraint(["==", 0])
    F.add_constraint([">=", -3])
    F.add_constraint(["<=", 3])
    out.append(('emptyconstraints', F))
    F = OPB()
    F.cardinality_geq([1, 3, -2, 4], 3)
    F.cardinality_eq([1, 3, -2, 4], 3)
    F.cardinality_leq([1, 4, 2], 2)
    F.add_constraint([(2, 3), (2, -1), (1, -2), ">=", 2])
    F.add_constraint([(-2, 3), (7, -1), (-1, -2), "<", 2])
    F.add_constraint([(-2, 3), (7, -1), (10 ** 20, 5), "==", -2])
    F.add_constraint([(0, 1), (1, 2), (0, -3), ">", 0])
    F.add_clause([1, -2, 5])
    F.add_clause([])
    out.append(('doc', F))
    F = OPB(description='named_pb ü header')
    x = F.new_variable('x')
    y = F.new_variable('y^2')
    z = F.new_variable('z_1^3')
    w = F.new_variable('w^a_b')
    u = F.new_variable('plain')
    b = F.new_block(2, 2, label='p_{{{},{}}}')
    F.add_constraint([(3, x), (1, -y), (2, z), ">=", 4])
    F.add_constraint([(1, -w), (5, -u), (1, b(1, 1)), (2, -b(2, 2)), "==", 3])
    F.add_constraint([(1, -z), "<=", 0])
    F.add_parity([x, y, z], 1)
    F.add_loose_majority([x, -y, z, w])
    F.add_strict_minority([x, -y, z, w, u])
    F.cardinality_neq([x, y], 1)
    F.header['multi'] = 'l1\nl2'
    out.append(('named', F))
    F = OPB()
    F.update_variable_number(4)
    out.append(('vars-noconstraints', F))
    for m in [1, 34, 35, 36, 70, 71]:
        n = rng.randint(1, 8)
        F = OPB(description='random pb %d' % m)
        for _ in range(m):
            k = rng.randint(0, 4)
            lin = [(rng.randint(-4, 6), rng.choice([-1, 1]) * rng.randint(1, n))
                   for _ in range(k)]
            op = rng.choice(['>=', '<=', '==', '<', '>'])
            F.add_constraint(lin + [op, rng.randint(-5, 9)])
        out.append(('rnd%d' % m, F))
    return out


def base_formulas():
    out = []
    out.append(('basecnf', BaseCNF([[1, -2], [], [3, 2, -1]])))
    out.append(('basecnf-empty', BaseCNF()))
    F = BaseOPB()
    F.add_constraint([(2, 1), (1, -2), '>=', 2])
    F.add_constraint([(1, 3), '==', 1])
    F.add_constraint(['>=', 1])
    out.append(('baseopb', F))
    out.append(('baseopb-empty', BaseOPB()))
    out.append(('cnfio', CNFio([[1, 2, -3], [-2, 4]])))
    G = OPBio()
    G.cardinality_geq([1, 2, 4, -3], 3)
    out.append(('opbio', G))
    return out


ALL = ([('cnf-' + t, F) for t, F in cnf_formulas()] +
       [('opb-' + t, F) for t, F in opb_formulas()] +
       [('base-' + t, F) for t, F in base_formulas()])

for tag, F in ALL:
    rec(tag, 'len', len(F), F.number_of_variables(), [list(c) for c in F])
    # ------------------------------------------------------------- OPB
    if hasattr(F, 'to_opb'):
        attempt(tag + '/to_opb', F.to_opb)
    for eh in (False, True):
        for ev in (False, True):
            r = Recorder()
            attempt(tag + '/opbfile', to_opb_file, F, r,
                    export_header=eh, export_varnames=ev)
            rec(tag, 'opbwrites', eh, ev, r.calls)
    # ----------------------------------------------------------- LaTeX
    attempt(tag + '/latexstring', to_latex_string, F)
    if hasattr(F, 'to_latex'):
        attempt(tag + '/to_latex', F.to_latex)
    for split in (-1, 0, 1, 2, 3, 35):
        for compact in (True, False):
            r = Recorder()
            attempt(tag + '/print', _print_latex, F, r,
                    split_every=split, compact=compact)
            rec(tag, 'printwrites', split, compact, r.calls)
    for eh in (False, True):
        for extra in ("", "Some extra text\n\n"):
            r = Recorder()
            attempt(tag + '/latexdoc', to_latex_document, F, r,
                    export_header=eh, extra_text=extra)
            rec(tag, 'docwrites', eh, extra, r.calls)
    # ------------------------------------------------- real files, to_file
    for ext, fmt in [('opb', None), ('tex', None), ('opb', 'opb'),
                     ('txt', 'latex'), ('txt', 'opb'), ('txt', None),
                     ('txt', 'bogus')]:
        fname = os.path.join(tmpdir, 'out.' + ext)
        if os.path.exists(fname):
            os.unlink(fname)
        if hasattr(F, 'to_file'):
            attempt(tag + '/to_file', F.to_file, fname, fileformat=fmt,
                    export_header=True, export_varnames=True,
                    extra_text='xx')
        else:
            attempt(tag + '/opbname', to_opb_file, F, fname,
                    export_header=True, export_varnames=True)
        if os.path.exists(fname):
            with open(fname, 'rb') as f:
                rec(tag, 'filebytes', ext, fmt, f.read())
            os.unlink(fname)
        else:
            rec(tag, 'nofile', ext, fmt)
    fname = os.path.join(tmpdir, 'direct.tex')
    attempt(tag + '/docname', to_latex_document, F, fname,
            export_header=False, extra_text='été')
    with open(fname, 'rb') as f:
        rec(tag, 'docbytes', f.read())
    os.unlink(fname)
    fname = os.path.join(tmpdir, 'direct.opb')
    attempt(tag + '/opbname2', to_opb_file, F, fname,
            export_header=True, export_varnames=False)
    with open(fname, 'rb') as f:
        rec(tag, 'opbbytes', f.read())
    os.unlink(fname)
    # ------------------------------------------------ file objects, stdout
    if hasattr(F, 'to_file'):
        for sinkname in ['a.opb', 'b.tex', 'c.cnf', 'noext', '.opb', 'x.y.tex']:
            s = NamedSink(sinkname)
            attempt(tag + '/sink', F.to_file, s)
            rec(tag, 'sink', sinkname, s.getvalue())
        s = io.StringIO()
        attempt(tag + '/plainsink', F.to_file, s, fileformat='opb')
        rec(tag, 'plainsink', s.getvalue())
    saved = sys.stdout
    try:
        sys.stdout = cap = io.StringIO()
        attempt(tag + '/stdout-opb', to_opb_file, F)
        attempt(tag + '/stdout-opb2', to_opb_file, F, None, False, True)
        attempt(tag + '/stdout-doc', to_latex_document, F, None)
        if hasattr(F, 'to_file'):
            attempt(tag + '/stdout-tofile', F.to_file, None, 'latex')
            attempt(tag + '/stdout-tofile2', F.to_file)
    finally:
        sys.stdout = saved
    rec(tag, 'stdout', cap.getvalue())

# ------------------------------------------------------- guess_output_format
for name in ['a.opb', 'a.tex', 'a.cnf', 'a', '', '.tex', 'dir.tex/a', 'a.OPB',
             'a.opb.tex', None, 5, NamedSink('z.tex'), NamedSink('z.opb'),
             NamedSink(7), io.StringIO()]:
    for req in [None, 'latex', 'dimacs', 'opb', 'tex', '', 0]:
        attempt('guess', guess_output_format, name, req)

# ------------------------------------------------------------ error paths
attempt('err/nodir', to_opb_file, CNF([[1]]), os.path.join(tmpdir, 'no', 'x.opb'))
attempt('err/nodir-tex', to_latex_document, CNF([[1]]),
        os.path.join(tmpdir, 'no', 'x.tex'))
attempt('err/notformula-opb', to_opb_file, [[1, 2]], io.StringIO())
attempt('err/notformula-tex', to_latex_string, [[1, 2]])
attempt('err/badsink', to_opb_file, CNF([[1]]), 42)
attempt('err/badsink-tex', to_latex_document, CNF([[1]]), 42)
G = CNF([[1, 2]])
del G.header['description']
attempt('err/nodescription', to_latex_document, G, io.StringIO())
r = Recorder()
attempt('err/nodescription-opb', to_opb_file, G, r)
rec('nodescription-opb', r.calls)

os.rmdir(tmpdir)
rec('records', NREC[0])
print(H.hexdigest())
