#!/usr/bin/env python3
"""Equivalence digest for cnfgen.families.dominatingset.unique_neighborhoods
and the formulas built on it (DominatingSet in both encodings, Tiling).

Run as:  cd <checkout> && /venv/bin/python equiv.py
"""
import sys, os, io, hashlib, random, contextlib, itertools
sys.path.insert(0, os.getcwd())

import networkx as nx
from cnfgen.clitools.cnfgen import cli
from cnfgen.families.dominatingset import unique_neighborhoods, DominatingSet, Tiling
from cnfgen.graphs import Graph
from cnfgen.formula.cnf import CNF

H = hashlib.sha256()


def record(*items):
    for it in items:
        H.update(repr(it).encode('utf-8'))
        H.update(b'\x00')


def attempt(tag, fn):
    try:
        res = fn()
        record('OK', tag, res)
    except BaseException as e:  # noqa
        record('EXC', tag, type(e).__name__, str(e))


def mkgraph(n, edges, name=None):
    G = Graph(n, name=name)
    for u, v in edges:
        G.add_edge(u, v)
    return G


def dump(F):
    return (dict(F.header), F.number_of_variables(), F.number_of_clauses(),
            list(F.clauses()), list(F.all_variable_labels()), F.to_dimacs())


rng = random.Random(20240213)
graphs = []
# every graph on up to 4 vertices
for n in range(0, 5):
    pairs = list(itertools.combinations(range(1, n + 1), 2))
    for mask in range(2 ** len(pairs)):
        graphs.append(mkgraph(n, [p for i, p in enumerate(pairs) if mask >> i & 1]))
# special shapes: twins / duplicated neighbourhoods, stars, complete, empty, disconnected
graphs += [Graph.complete_graph(n) for n in (5, 6)]
graphs += [Graph.empty_graph(n) for n in (5, 7)]
graphs += [Graph.star_graph(n) for n in (0, 1, 4, 6)]
graphs.append(mkgraph(6, [(1, 2), (3, 4), (5, 6)]))
graphs.append(mkgraph(7, [(1, 2), (2, 3), (3, 1), (4, 5), (5, 6), (6, 4)]))
graphs.append(mkgraph(8, [(i, i + 1) for i in range(1, 8)]))
graphs.append(mkgraph(8, [(i, i % 8 + 1) for i in range(1, 9)]))
for n in range(5, 10):
    for p in (0.15, 0.5, 0.85):
        pairs = itertools.combinations(range(1, n + 1), 2)
        graphs.append(mkgraph(n, [e for e in pairs if rng.random() < p]))

for i, G in enumerate(graphs):
    attempt(('un', i), lambda: unique_neighborhoods(G))
    attempt(('tiling', i), lambda: dump(Tiling(G)))
    for d in (1, 2, 3):
        if G.order() > 6 and d == 3:
            continue
        for alt in (False, True):
            attempt(('domset', i, d, alt), lambda: dump(DominatingSet(G, d, alternative=alt)))

# the input graph must not be modified
record([(G.order(), list(G.edges())) for G in graphs])

# networkx inputs (labels are normalised)
nxgraphs = [nx.Graph(), nx.path_graph(5), nx.cycle_graph(6), nx.complete_bipartite_graph(2, 3),
            nx.petersen_graph(), nx.Graph([('b', 'a'), ('c', 'a'), ('d', 'c')])]
for i, G in enumerate(nxgraphs):
    attempt(('nx-tiling', i), lambda: dump(Tiling(G)))
    attempt(('nx-domset', i), lambda: dump(DominatingSet(G, 2)))
    attempt(('nx-domset-alt', i), lambda: dump(DominatingSet(G, 2, alternative=True)))
    attempt(('nx-un', i), lambda: unique_neighborhoods(Graph.normalize(G)))

# error paths
G = mkgraph(3, [(1, 2)])
for bad_d in (0, -1, 1.5, '2', None):
    attempt(('bad d', bad_d), lambda: dump(DominatingSet(G, bad_d)))
for bad_G in (None, 3, 'graph', nx.DiGraph([(1, 2)]), [(1, 2)]):
    attempt(('bad G dom', repr(type(bad_G))), lambda: dump(DominatingSet(bad_G, 1)))
    attempt(('bad G til', repr(type(bad_G))), lambda: dump(Tiling(bad_G)))
    attempt(('bad G un', repr(type(bad_G))), lambda: unique_neighborhoods(bad_G))


# command line
def run_cli(argv):
    out, err = io.StringIO(), io.StringIO()
    try:
        with contextlib.redirect_stdout(out), contextlib.redirect_stderr(err):
            res = cli(argv, mode='string')
        record('OK', argv, res)
    except SystemExit as e:
        record('EXIT', argv, e.code)
    except BaseException as e:  # noqa
        record('EXC', argv, type(e).__name__, str(e))
    record(out.getvalue(), err.getvalue(), random.random())


specs = [['empty', 0], ['empty', 3], ['complete', 4], ['grid', 3, 3], ['torus', 3, 3],
         ['gnp', 8, '0.4'], ['gnm', 7, 9], ['gnd', 8, 3], ['complete', 2, 2],
         ['gnp', 6, '0.3', 'plantclique', 3]]
for seed in (1, 17):
    for g in specs:
        run_cli(['cnfgen', '--seed', seed, 'tiling'] + g)
        for d in (1, 3):
            run_cli(['cnfgen', '--seed', seed, 'domset', d] + g)
            run_cli(['cnfgen', '--seed', seed, 'domset', '-a', d] + g)
for fmt in ('latex', 'opb'):
    run_cli(['cnfgen', '-of', fmt, 'tiling', 'grid', 2, 3])
    run_cli(['cnfgen', '-of', fmt, 'domset', 2, 'grid', 2, 3])
run_cli(['cnfgen', 'domset', 0, 'grid', 2, 3])
run_cli(['cnfgen', 'domset', 'grid', 2, 3])
run_cli(['cnfgen', 'tiling'])

print(H.hexdigest())
