#!/usr/bin/env python
"""Equivalence script for C14/t15: BipartiteGraph.from_networkx.

Run as:  cd <checkout> && /venv/bin/python equiv.py
Prints one SHA256 digest of everything observed."""
import os
import sys
sys.path.insert(0, os.getcwd())
import hashlib
import io
import random

import networkx

from cnfgen.graphs import BipartiteGraph, Graph, DirectedGraph
from cnfgen.graphs import readGraph, writeGraph

LOG = []


def log(*items):
    LOG.append(repr(items))


def dump(G):
    if isinstance(G, BipartiteGraph):
        return ('B', G.left_order(), G.right_order(), G.number_of_vertices(),
                G.number_of_edges(), list(G.edges()),
                [G.right_neighbors(u) for u in range(1, G.left_order() + 1)],
                [G.left_neighbors(v) for v in range(1, G.right_order() + 1)],
                getattr(G, 'name', None))
    return (type(G).__name__, G.number_of_vertices(), G.number_of_edges(),
            list(G.edges()), getattr(G, 'name', None))


def attempt(tag, f, *args, **kwargs):
    try:
        res = f(*args, **kwargs)
        log(tag, 'OK', dump(res) if hasattr(res, 'number_of_vertices') else res)
        return res
    except Exception as e:  # record everything observable
        log(tag, 'EXC', type(e).__name__, str(e))
        return None


def nx_bip(nodes, edges, cls=networkx.Graph, name=None):
    """nodes: list of (label, colour or None)"""
    G = cls()
    for label, colour in nodes:
        if colour is None:
            G.add_node(label)
        else:
            G.add_node(label, bipartite=colour)
    G.add_edges_from(edges)
    if name is not None:
        G.name = name
    return G


# ---- direct calls on hand made networkx graphs
cases = []
cases.append(('empty', nx_bip([], [])))
cases.append(('left-only', nx_bip([(1, 0), (2, 0)], [])))
cases.append(('right-only', nx_bip([(1, 1), (2, 1), (3, 1)], [], name='rr')))
cases.append(('single-edge', nx_bip([('a', 0), ('b', 1)], [('a', 'b')])))
cases.append(('single-edge-rev', nx_bip([('a', 0), ('b', 1)], [('b', 'a')])))
cases.append(('str-colours', nx_bip([(1, '0'), (2, '1'), (3, '0'), (4, '1')],
                                    [(1, 2), (4, 3), (2, 3), (1, 4)], name='strcol')))
cases.append(('interleaved', nx_bip([(5, 1), (1, 0), (4, 1), (2, 0), (3, 0), (6, 1)],
                                    [(5, 1), (1, 4), (2, 5), (6, 3), (4, 3)])))
cases.append(('across-left', nx_bip([(1, 0), (2, 0), (3, 1)], [(1, 3), (1, 2)])))
cases.append(('across-right', nx_bip([(1, 0), (2, 1), (3, 1)], [(1, 3), (3, 2)])))
cases.append(('selfloop-left', nx_bip([(1, 0), (2, 1)], [(1, 1)])))
cases.append(('selfloop-right', nx_bip([(1, 0), (2, 1)], [(2, 2)])))
cases.append(('missing-colour', nx_bip([(1, 0), (2, None), (3, 1)], [(1, 3)])))
cases.append(('bad-colour-2', nx_bip([(1, 0), (2, 2)], [(1, 2)])))
cases.append(('bad-colour-str', nx_bip([(1, 0), (2, 'x')], [(1, 2)])))
cases.append(('bad-colour-none-str', nx_bip([(1, 'left'), (2, 1)], [])))
cases.append(('bool-colour', nx_bip([(1, False), (2, True)], [(1, 2)])))
cases.append(('float-colour', nx_bip([(1, 0.0), (2, 1.0)], [(2, 1)])))
cases.append(('implicit-node', nx_bip([(1, 0), (2, 1)], [(1, 2), (1, 7)])))
cases.append(('digraph', nx_bip([(1, 0), (2, 1), (3, 0), (4, 1)],
                                [(1, 2), (4, 3), (2, 3)], cls=networkx.DiGraph)))
cases.append(('multigraph', nx_bip([(1, 0), (2, 1), (3, 1)],
                                   [(1, 2), (1, 2), (3, 1), (1, 3)],
                                   cls=networkx.MultiGraph, name='multi')))
cases.append(('multidigraph', nx_bip([(1, 0), (2, 1)], [(1, 2), (2, 1), (2, 1)],
                                     cls=networkx.MultiDiGraph)))
cases.append(('complete', networkx.bipartite.complete_bipartite_graph(5, 7)))
cases.append(('complete-0-3', networkx.bipartite.complete_bipartite_graph(0, 3)))
cases.append(('complete-12-11', networkx.bipartite.complete_bipartite_graph(12, 11)))
cases.append(('plain-path', networkx.path_graph(4)))

for tag, G in cases:
    attempt(('from_networkx', tag), BipartiteGraph.from_networkx, G)
    attempt(('normalize', tag), BipartiteGraph.normalize, G)
    attempt(('normalize-var', tag), BipartiteGraph.normalize, G, 'B')

for tag, obj in [('none', None), ('int', 3), ('str', 'graph'), ('list', [(1, 2)]),
                 ('cnfgen-simple', Graph(3)), ('cnfgen-directed', DirectedGraph(2)),
                 ('cnfgen-bip', BipartiteGraph(2, 3))]:
    attempt(('from_networkx-bad', tag), BipartiteGraph.from_networkx, obj)
    attempt(('normalize-bad', tag), BipartiteGraph.normalize, obj)

# ---- random graphs: direct conversion and round trips through gml and dot
rnd = random.Random(20140)
shapes = [(0, 0), (0, 1), (1, 0), (1, 1), (2, 3), (3, 2), (5, 5), (9, 10),
          (10, 9), (12, 13), (1, 15), (15, 1), (7, 0), (0, 7)]
for L, R in shapes:
    for density in [0.0, 0.3, 0.8, 1.0]:
        B = BipartiteGraph(L, R, name='rnd {} {} {}'.format(L, R, density))
        for u in range(1, L + 1):
            for v in range(1, R + 1):
                if rnd.random() < density:
                    B.add_edge(u, v)
        N = B.to_networkx()
        back = attempt(('tonx-fromnx', L, R, density), BipartiteGraph.from_networkx, N)
        if back is not None:
            log('same', L, R, density, dump(back)[1:8] == dump(B)[1:8])
        # shuffled node insertion order and random edge orientation
        nodes = list(N.nodes(data=True))
        edges = [(u, v) if rnd.random() < 0.5 else (v, u) for u, v in N.edges()]
        rnd.shuffle(nodes)
        rnd.shuffle(edges)
        S = networkx.Graph()
        for label, data in nodes:
            S.add_node(label, **data)
        S.add_edges_from(edges)
        attempt(('shuffled', L, R, density), BipartiteGraph.from_networkx, S)
        D = networkx.DiGraph()
        for label, data in nodes:
            D.add_node('v{}'.format(label), bipartite=str(data['bipartite']))
        D.add_edges_from(('v{}'.format(u), 'v{}'.format(v)) for u, v in edges)
        attempt(('shuffled-di-str', L, R, density), BipartiteGraph.from_networkx, D)
        for fmt in ['gml', 'dot', 'kthlist', 'matrix']:
            buf = io.StringIO()
            try:
                writeGraph(B, buf, 'bipartite', fmt)
            except Exception as e:
                log('write', fmt, L, R, density, 'EXC', type(e).__name__, str(e))
                continue
            text = buf.getvalue()
            log('write', fmt, L, R, density, text)
            attempt(('read', fmt, L, R, density), readGraph,
                    io.StringIO(text), 'bipartite', fmt)

# ---- hand written gml / dot texts
GML = [
    'graph [\n node [ id 1 bipartite 0 ]\n node [ id 2 bipartite 1 ]\n edge [ source 1 target 2 ]\n]\n',
    'graph [\n node [ id 2 bipartite 1 ]\n node [ id 1 bipartite 0 ]\n edge [ source 2 target 1 ]\n]\n',
    'graph [\n node [ id 1 bipartite 0 ]\n node [ id 2 bipartite 0 ]\n edge [ source 1 target 2 ]\n]\n',
    'graph [\n node [ id 1 bipartite 1 ]\n node [ id 2 bipartite 1 ]\n edge [ source 1 target 2 ]\n]\n',
    'graph [\n node [ id 1 ]\n node [ id 2 bipartite 1 ]\n edge [ source 1 target 2 ]\n]\n',
    'graph [\n node [ id 1 bipartite 3 ]\n node [ id 2 bipartite 1 ]\n]\n',
    'graph [\n node [ id 1 bipartite "0" ]\n node [ id 2 bipartite "1" ]\n edge [ source 2 target 1 ]\n]\n',
    'graph [\n directed 1\n node [ id 1 bipartite 0 ]\n node [ id 2 bipartite 1 ]\n edge [ source 2 target 1 ]\n]\n',
    'graph [\n name "named"\n node [ id 10 bipartite 0 ]\n node [ id 9 bipartite 1 ]\n node [ id 11 bipartite 1 ]\n edge [ source 10 target 11 ]\n]\n',
    'graph [\n]\n',
    'graph [\n node [ id 1 bipartite 0 ]\n node [ id 2 bipartite 1 ]\n edge [ source 1 target 2 ]\n',
    '',
    'garbage',
]
for i, text in enumerate(GML):
    attempt(('gml-text', i), readGraph, io.StringIO(text), 'bipartite', 'gml')

DOT = [
    'graph G {\n 1 [bipartite=0];\n 2 [bipartite=1];\n 1 -- 2;\n}\n',
    'graph G {\n 2 [bipartite=1];\n 1 [bipartite=0];\n 2 -- 1;\n}\n',
    'graph G {\n 1 [bipartite=0];\n 2 [bipartite=0];\n 1 -- 2;\n}\n',
    'graph G {\n 1 [bipartite=1];\n 2 [bipartite=1];\n 1 -- 2;\n}\n',
    'graph G {\n 1;\n 2 [bipartite=1];\n 1 -- 2;\n}\n',
    'graph G {\n a [bipartite=0];\n b [bipartite=1];\n c [bipartite=1];\n c -- a;\n a -- b;\n}\n',
    'digraph G {\n a [bipartite=0];\n b [bipartite=1];\n b -> a;\n}\n',
    'graph G {\n 1 [bipartite=7];\n}\n',
    'graph G {\n}\n',
]
for i, text in enumerate(DOT):
    attempt(('dot-text', i), readGraph, io.StringIO(text), 'bipartite', 'dot')

print(hashlib.sha256("\n".join(LOG).encode('utf-8')).hexdigest())
