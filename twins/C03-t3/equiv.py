"""Equivalence check for VanDerWaerden and its progression generator (C03, t3)."""
import sys, os, hashlib, itertools, warnings
warnings.simplefilter("ignore")
sys.path.insert(0, os.getcwd())
from cnfgen.families import ramsey
from cnfgen.families.ramsey import VanDerWaerden, RamseyNumber, PythagoreanTriples

H = hashlib.sha256()
def emit(*a):
    H.update((" ".join(str(x) for x in a) + "\n").encode())

def dump(tag, fn):
    emit("CASE", tag)
    try:
        F = fn()
    except Exception as e:
        emit("EXC", type(e).__name__, str(e))
        return
    emit("HDR", sorted(F.header.items()) if hasattr(F.header, 'items') else F.header)
    emit("NV", F.number_of_variables(), "NC", len(F))
    emit("LABELS", list(F.all_variable_labels()))
    for c in F:
        emit("C", list(c))
    emit(F.to_dimacs())

# the progression generator itself
for N in range(0, 14):
    for k in range(1, 8):
        emit("AP", N, k, list(ramsey._vdw_ap_generator(N, k)))

# two colours
for N in range(0, 12):
    for k1, k2 in itertools.product(range(1, 6), repeat=2):
        dump(("vdw2", N, k1, k2), lambda: VanDerWaerden(N, k1, k2))
# three and four colours
for N in range(0, 10):
    for ks in itertools.product(range(1, 5), repeat=3):
        dump(("vdw3", N, ks), lambda: VanDerWaerden(N, *ks))
for N in (0, 1, 4, 7):
    for ks in itertools.product((1, 2, 3), repeat=4):
        dump(("vdw4", N, ks), lambda: VanDerWaerden(N, *ks))
dump(("vdw5",), lambda: VanDerWaerden(9, 3, 2, 4, 1, 3))
# progressions longer than the interval
dump(("long",), lambda: VanDerWaerden(3, 7, 9))
dump(("long3",), lambda: VanDerWaerden(3, 7, 9, 11))
# bad arguments
for args in ((-1, 2, 2), (5, 0, 2), (5, 2, 0), (5, 2, 2, 0), (5, 2, 2, -3), (5.0, 2, 2),
             (5, "2", 2), (5, 2, None), (5, 2, 2, 1.5), (None, 2, 2), (5, 2, 2, "a")):
    dump(("bad", args), lambda: VanDerWaerden(*args))
# neighbouring generators in the same module, for completeness
for N in range(0, 7):
    for s, k in itertools.product(range(1, 5), repeat=2):
        dump(("ram", s, k, N), lambda: RamseyNumber(s, k, N))
for N in (0, 1, 4, 5, 13, 30):
    dump(("ptn", N), lambda: PythagoreanTriples(N))
print(H.hexdigest())
