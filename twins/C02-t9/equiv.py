#!/usr/bin/env python
"""Equivalence script for refactoring t9 (BinaryMappingVariables flips/forbid).

Run as: cd <checkout> && /venv/bin/python equiv.py
Prints one SHA256 digest of everything observable.
"""
import sys, os, hashlib, random, itertools
sys.path.insert(0, os.getcwd())

import networkx as nx
from cnfgen.formula.basecnf import BaseCNF
from cnfgen.formula.cnf import CNF
from cnfgen.formula.variables import BinaryMappingVariables, VariablesManager
from cnfgen.graphs import Graph
from cnfgen.families.subgraph import BinaryCliqueFormula

out = []


def rec(*items):
    out.append(repr(items))


def attempt(tag, fn):
    try:
        res = fn()
        rec(tag, 'ok', res)
    except Exception as e:  # record type and message
        rec(tag, 'exc', type(e).__name__, str(e))


# 1. raw variable group: flips table and forbid on many sizes
for offset in (0, 3):
    for n in range(0, 6):
        for m in list(range(0, 10)) + [15, 16, 17, 31, 32, 33]:
            F = BaseCNF()
            if offset:
                F.update_variable_number(offset)
            f = BinaryMappingVariables(F, n, m, labelfmt='f({},{})')
            rec('grp', offset, n, m, len(f), f.bits(), f.bitlength,
                type(f.flips).__name__, [tuple(x) for x in f.flips],
                [type(x).__name__ for x in f.flips],
                list(f.domain()), list(f.range()), list(f.label()))
            for i in range(-1, n + 3):
                for j in range(-2, 2 ** f.bits() + 3):
                    attempt(('forbid', offset, n, m, i, j),
                            lambda: (lambda r: (type(r).__name__, r))(f.forbid(i, j)))

# 2. error path of the constructor
for n, m in [(-1, 3), (3, -1), (-1, -1), (0, 0)]:
    attempt(('ctor', n, m),
            lambda: len(BinaryMappingVariables(BaseCNF(), n, m)))

# 3. mapping constraints built from forbid
for n in range(0, 5):
    for m in range(0, 8):
        for which in ('complete', 'injective', 'nondecreasing', 'functional', 'surjective'):
            def build():
                C = CNF()
                g = C.new_binary_mapping(n, m)
                getattr(C, 'force_' + which + '_mapping')(g)
                return (C.number_of_variables(), list(C.clauses()) if hasattr(C, 'clauses') else [list(c) for c in C])
            attempt(('force', which, n, m), build)

# 4. Binary k-clique formulas on many graphs
rng = random.Random(20240502)
graphs = []
for n in range(0, 7):
    graphs.append(('empty', n, Graph.empty_graph(n)))
    graphs.append(('complete', n, Graph.complete_graph(n)))
for n in range(2, 8):
    for p in (0.3, 0.6):
        G = Graph(n, 'rnd {} {}'.format(n, p))
        for u, v in itertools.combinations(range(1, n + 1), 2):
            if rng.random() < p:
                G.add_edge(u, v)
        graphs.append(('rnd', (n, p), G))
graphs.append(('nxpath', 5, nx.path_graph(5)))
graphs.append(('nxcycle', 6, nx.cycle_graph(6)))

for name, par, G in graphs:
    for k in range(0, 5):
        for symbreak in (True, False):
            def build():
                F = BinaryCliqueFormula(G, k, symbreak=symbreak)
                return (F.number_of_variables(), len(F), F.to_dimacs(),
                        list(F.all_variable_labels()))
            attempt(('bclique', name, par, k, symbreak), build)

attempt(('bclique-badk',), lambda: BinaryCliqueFormula(Graph.complete_graph(3), -1))
attempt(('bclique-badG',), lambda: BinaryCliqueFormula("nograph", 2))

print(hashlib.sha256('\n'.join(out).encode('utf-8')).hexdigest())
