#!/usr/bin/env python
"""Equivalence script for the refactoring of the word-indexed variable
group constructors of cnfgen.formula.variables.VariablesManager
(new_combinations, new_combinations_with_replacement, new_permutations,
new_words).

Run as:  cd <checkout> && /venv/bin/python equiv.py
Prints one SHA256 digest of everything observable.
"""
import sys
import os
import random
import hashlib
import inspect

sys.path.insert(0, os.getcwd())

# the version string comes from `git describe`: pin it
from cnfgen.info import info
info['version'] = 'equiv'

import networkx
from cnfgen import CNF, Graph
from cnfgen import CliqueColoring, RamseyNumber, CountingPrinciple
from cnfgen import OrderingPrinciple, GraphOrderingPrinciple
from cnfgen import PerfectMatchingPrinciple, Shuffle, OrSubstitution
from cnfgen.formula.opb import OPB
from cnfgen.formula.basecnf import BaseCNF
from cnfgen.formula.variables import VariablesManager
from cnfgen.clitools.cnfgen import cli as cnfgen_cli
from cnfgen.clitools.pbgen import cli as pbgen_cli

H = hashlib.sha256()

METHODS = ['new_combinations', 'new_combinations_with_replacement',
           'new_permutations', 'new_words']


def emit(*things):
    H.update((" ".join(repr(t) for t in things) + "\n").encode('utf-8'))


def chain(e):
    out = []
    while e is not None:
        out.append((type(e).__name__, str(e)))
        e = e.__cause__ or e.__context__
    return out


def allvars(g):
    """All variables of a group (with k=0 the empty pattern is an index)"""
    v = g()
    return [v] if isinstance(v, int) else list(v)


def norm(x):
    """Iterators have no stable repr: list them"""
    if isinstance(x, (str, int, list, tuple)):
        return x
    return ('iter', list(x))


def describe_group(tag, g):
    emit(tag, type(g).__name__, len(g), g.n, g.k, g.wordtype, g.offset,
         g.labelfmt)
    emit(tag, 'vars', allvars(g))
    emit(tag, 'indices', list(g.indices()))
    emit(tag, 'labels', list(g.label()))
    emit(tag, 'dict', sorted(g.to_dict().items()))
    for idx in list(g.indices())[:3] + list(g.indices())[-2:]:
        emit(tag, 'call', idx, g(*idx), norm(g.label(*idx)), g.to_index(g(*idx)),
             g.to_index(-g(*idx)))
    for bad in ((0,), (1, 1), (2, 1), (99, 100), (1, 2, 3, 4, 5, 6, 7)):
        for fn in (g.__call__, g.label, g.indices):
            try:
                emit(tag, 'badidx', bad, norm(fn(*bad)))
            except Exception as e:
                emit(tag, 'badidx', bad, chain(e))
    for lit in (0, g.offset, g.offset + len(g) + 1, -(g.offset + len(g) + 1)):
        try:
            emit(tag, 'to_index', lit, g.to_index(lit))
        except Exception as e:
            emit(tag, 'to_index', lit, chain(e))


def describe_formula(tag, F):
    n = F.number_of_variables()
    emit(tag, 'N', n, 'M', len(F))
    emit(tag, 'labels', list(F.all_variable_labels()))
    emit(tag, 'content', list(F))
    if isinstance(F, BaseCNF):
        ok = all(isinstance(l, int) and l != 0 and 1 <= abs(l) <= n
                 for c in F for l in c)
        emit(tag, 'c10', ok)
        emit(tag, 'dimacs', F.to_dimacs())
    else:
        emit(tag, 'opb', F.to_opb())


def makers():
    yield 'CNF', CNF
    yield 'OPB', OPB

    def make():
        F = BaseCNF()
        V = VariablesManager(F)
        # expose the formula interface used below
        V.add_clause = F.add_clause
        V.number_of_variables = F.number_of_variables
        V._the_formula = F
        return V
    yield 'Manager', make


# signatures / defaults are part of the interface
for name in METHODS:
    emit(name, str(inspect.signature(getattr(VariablesManager, name))),
         getattr(VariablesManager, name).__doc__)

PARAMS = [(0, 0), (1, 0), (0, 1), (1, 1), (2, 1), (2, 2), (3, 2), (2, 3),
          (4, 2), (5, 3), (4, 4), (6, 2), (7, 3), (3, 5), (12, 2)]

for cname, make in makers():
    # 1. every constructor alone, with positional/keyword/default label
    for name in METHODS:
        for (n, k) in PARAMS:
            for labelmode in ('default', 'kw', 'pos'):
                F = make()
                try:
                    if labelmode == 'default':
                        g = getattr(F, name)(n, k)
                    elif labelmode == 'kw':
                        g = getattr(F, name)(n, k, label='w[{}]')
                    else:
                        g = getattr(F, name)(n, k, 'z_{{{}}}')
                except Exception as e:
                    emit(cname, name, n, k, labelmode, 'EXC', chain(e))
                    continue
                tag = (cname, name, n, k, labelmode)
                describe_group(tag, g)
                emit(tag, 'N', F.number_of_variables())
                emit(tag, 'groups', len(F._groups), F._groups[-1] is g)

    # 2. new_permutations with k omitted / None / keyword
    for n in (0, 1, 2, 3, 4, 5):
        for how in ('omitted', 'none', 'kw', 'kwnone', 'labelonly'):
            F = make()
            try:
                if how == 'omitted':
                    g = F.new_permutations(n)
                elif how == 'none':
                    g = F.new_permutations(n, None)
                elif how == 'kw':
                    g = F.new_permutations(n, k=min(n, 2), label='s({})')
                elif how == 'kwnone':
                    g = F.new_permutations(n=n, k=None)
                else:
                    g = F.new_permutations(n, label='t({})')
            except Exception as e:
                emit(cname, 'perm', n, how, 'EXC', chain(e))
                continue
            describe_group((cname, 'perm', n, how), g)
            emit(cname, 'perm', n, how, F.number_of_variables())

    # 3. error paths
    BAD = [(-1, 2), (2, -1), (-1, -1), (2.0, 1), (2, 1.0), ('2', 1), (2, '1'),
           (None, 1), (3, None), (True, True), ([3], 2)]
    for name in METHODS:
        for (n, k) in BAD:
            F = make()
            F.new_variable('first')
            try:
                g = getattr(F, name)(n, k)
                emit(cname, name, 'bad', n, k, 'OK', len(g), allvars(g))
            except Exception as e:
                emit(cname, name, 'bad', n, k, 'EXC', chain(e))
            emit(cname, name, 'bad', n, k, F.number_of_variables(),
                 len(F._groups))
        for label in ('nolabel', 'two {} {}', '{1}', '{a}', '{', None, 5, ''):
            F = make()
            try:
                g = getattr(F, name)(3, 2, label=label)
                emit(cname, name, 'label', label, 'OK', list(g.label()))
            except Exception as e:
                emit(cname, name, 'label', label, 'EXC', chain(e))
            emit(cname, name, 'label', label, F.number_of_variables(),
                 len(F._groups))
        for args, kwargs in (((), {}), ((3,), {}), ((3, 2, 'a{}', 'extra'), {}),
                             ((3, 2), {'labelfmt': 'a{}'}),
                             ((3, 2), {'wordtype': 'words'})):
            F = make()
            try:
                g = getattr(F, name)(*args, **kwargs)
                emit(cname, name, 'args', args, kwargs, 'OK', len(g))
            except Exception as e:
                emit(cname, name, 'args', args, kwargs, 'EXC', chain(e))

    # 4. interleavings of group creation and clause insertion
    rng = random.Random(31337)
    for trial in range(40):
        F = make()
        log = []
        for step in range(rng.randint(1, 8)):
            action = rng.choice(METHODS + ['clause', 'clause-beyond', 'var',
                                           'block'])
            try:
                if action in METHODS:
                    n = rng.randint(0, 5)
                    k = rng.randint(0, 3)
                    g = getattr(F, action)(n, k, label=action[4] + str(step) + '({})')
                    log.append((action, n, k, g.offset, len(g), allvars(g)))
                elif action == 'clause':
                    N = F.number_of_variables()
                    if N > 0:
                        cl = [rng.choice([-1, 1]) * rng.randint(1, N)
                              for _ in range(rng.randint(1, 4))]
                        F.add_clause(cl)
                        log.append((action, cl))
                elif action == 'clause-beyond':
                    N = F.number_of_variables()
                    cl = [N + rng.randint(1, 3), -(N + 1)]
                    F.add_clause(cl)
                    log.append((action, cl))
                elif action == 'var':
                    log.append((action, F.new_variable('y' + str(step))))
                else:
                    b = F.new_block(rng.randint(0, 2), rng.randint(1, 3),
                                    label='b' + str(step) + '({},{})')
                    log.append((action, list(b())))
            except Exception as e:
                log.append((action, 'EXC', chain(e)))
            log.append(F.number_of_variables())
        emit(cname, 'trial', trial, log)
        emit(cname, 'trial', trial, list(F.all_variable_labels()))
        # freshness: groups are disjoint increasing intervals
        spans = [(g[0], g[-1]) for g in F._groups if len(g) > 0]
        emit(cname, 'trial', trial, spans,
             all(a[1] < b[0] for a, b in zip(spans, spans[1:])))
        if cname != 'Manager':
            describe_formula((cname, 'trial', trial), F)

# 5. the families that use these constructors, at realistic sizes
random.seed(77)
G = networkx.gnp_random_graph(9, 0.5, seed=5)
families = [
    ('cliquecol', lambda: CliqueColoring(6, 3, 2)),
    ('cliquecol-big', lambda: CliqueColoring(9, 4, 3)),
    ('ramsey', lambda: RamseyNumber(3, 3, 6)),
    ('ramsey-big', lambda: RamseyNumber(4, 3, 9)),
    ('count', lambda: CountingPrinciple(7, 3)),
    ('count-small', lambda: CountingPrinciple(2, 2)),
    ('count-big', lambda: CountingPrinciple(10, 4)),
    ('matching', lambda: PerfectMatchingPrinciple(6)),
    ('op', lambda: OrderingPrinciple(7)),
    ('op-total', lambda: OrderingPrinciple(6, total=True)),
    ('op-smart', lambda: OrderingPrinciple(6, smart=True)),
    ('op-plant', lambda: OrderingPrinciple(5, plant=True, knuth=2)),
    ('gop', lambda: GraphOrderingPrinciple(Graph.from_networkx(G))),
    ('gop-total', lambda: GraphOrderingPrinciple(Graph.from_networkx(G), total=True)),
    ('op-chain', lambda: OrSubstitution(Shuffle(OrderingPrinciple(5, smart=True)), 2)),
]
for name, build in families:
    try:
        F = build()
    except Exception as e:
        emit(name, 'EXC', chain(e))
        continue
    emit(name, list(F.header.items()))
    describe_formula(name, F)

# 6. command line tools
for argv in (['cnfgen', '-q', 'op', 6],
             ['cnfgen', 'op', 5, '--total'],
             ['cnfgen', '-q', '-v', 'op', 5, '--smart'],
             ['cnfgen', '-q', '-v', 'ram', 3, 3, 5],
             ['cnfgen', '-q', '-v', 'count', 6, 3],
             ['cnfgen', '-q', '-v', 'cliquecoloring', 6, 3, 2],
             ['cnfgen', '-q', 'gop', 'gnp', 7, '.5'],
             ['cnfgen', '-q', 'op', 5, '-T', 'xor', 2, '-T', 'shuffle'],
             ['cnfgen', '-q', '-of', 'latex', 'op', 4],
             ['cnfgen', '-q', 'count', 5, 0],
             ['pbgen', '-q', 'op', 5],
             ['pbgen', '-q', 'count', 6, 2],
             ['pbgen', '-q', 'ram', 3, 3, 5]):
    tool = cnfgen_cli if argv[0] == 'cnfgen' else pbgen_cli
    try:
        emit(argv, tool(argv[:1] + ['--seed', 3] + argv[1:], mode='string'))
    except BaseException as e:
        emit(argv, 'EXC', chain(e))

print(H.hexdigest())
