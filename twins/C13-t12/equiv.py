#!/usr/bin/env python
"""Equivalence script for property C13 (random k-CNF / k-XOR).

Exercises parity_satisfied / sample_parities / all_good_parities /
RandomKXOR (library and command line) on many inputs, including
boundary ones and error paths, and prints one SHA256 digest of
everything observable.
"""
import contextlib
import hashlib
import io
import itertools
import random
import sys
import warnings

warnings.simplefilter('ignore')
sys.path.insert(0, '.')

from cnfgen.families import randomkxor as RX
from cnfgen.families.randomkxor import RandomKXOR
from cnfgen.formula.cnf import CNF
from cnfgen.clitools.cnfgen import cli

H = hashlib.sha256()
random.seed(20240613)


def emit(*items):
    H.update((" ".join(repr(x) for x in items) + "\n").encode('utf-8'))


def attempt(label, fn):
    try:
        res = fn()
        emit(label, 'OK', res)
    except BaseException as e:  # record type and message
        emit(label, 'EXC', type(e).__name__, str(e))
    emit(label, 'rnd', random.random())  # state of the random stream


def total_assignments(n, howmany, rng):
    return [[rng.choice([-1, 1]) * v for v in range(1, n + 1)]
            for _ in range(howmany)]


# ---- 1. parity_satisfied directly, including partial assignments (error path)
rng = random.Random(1234)
containers = [list, tuple, set, frozenset]
for n in range(0, 6):
    for trial in range(12):
        nass = rng.randint(0, 3)
        assignments = []
        for _ in range(nass):
            a = [rng.choice([-1, 1]) * v for v in range(1, n + 1)]
            if rng.random() < 0.4 and a:
                # partial assignment: drop some variables
                a = [l for l in a if rng.random() < 0.7]
            if rng.random() < 0.2 and a:
                # contradictory assignment (both polarities)
                a.append(-a[0])
            rng.shuffle(a)
            assignments.append(rng.choice(containers)(a))
        for k in range(0, n + 1):
            for X in itertools.combinations(range(1, n + 1), k):
                for b in (0, 1):
                    attempt(('ps', n, trial, X, b),
                            lambda: RX.parity_satisfied(X, b, assignments))
                    attempt(('psl', n, trial, X, b),
                            lambda: RX.parity_satisfied(list(X), b, assignments))

# ---- 2. all_good_parities and sample_parities
rng = random.Random(99)
for n in range(0, 7):
    for k in range(0, n + 2):
        for nass in range(0, 4):
            planted = total_assignments(n, nass, rng)
            attempt(('agp', n, k, nass),
                    lambda: list(RX.all_good_parities(k, n, planted)))
            try:
                maxm = len(list(RX.all_good_parities(k, n, planted)))
            except Exception:
                maxm = 3
            for m in sorted(set([0, 1, maxm // 2, maxm - 1, maxm, maxm + 1, 2 * maxm + 3])):
                if m < 0:
                    continue
                for seed in (0, 7):
                    def run():
                        random.seed(seed)
                        return RX.sample_parities(k, n, m, planted)
                    attempt(('sp', n, k, nass, m, seed), run)

# ---- 3. RandomKXOR
rng = random.Random(2024)


def describe(F):
    return (F.number_of_variables(), len(F), list(F), F.header.get('description')
            if hasattr(F.header, 'get') else None, F.to_dimacs())


for n in range(0, 7):
    for k in range(0, n + 2):
        for nass in (None, 0, 1, 2, 3):
            planted = None if nass is None else total_assignments(n, nass, rng)
            pl = planted or []
            try:
                maxm = len(list(RX.all_good_parities(k, n, pl)))
            except Exception:
                maxm = 2
            for m in sorted(set([0, 1, 2, maxm - 1, maxm, maxm + 1])):
                if m < 0:
                    continue
                for seed in (None, 3, 'abc'):
                    random.seed(n * 1000 + k * 100 + m)
                    attempt(('kxor', n, k, nass, m, seed),
                            lambda: describe(RandomKXOR(k, n, m, seed=seed,
                                                        planted_assignments=planted)))

# partial / bad planted assignments and bad arguments
for args, kw in [
    ((2, 4, 3), dict(seed=1, planted_assignments=[[1, -2]])),
    ((2, 4, 0), dict(seed=1, planted_assignments=[[1, -2]])),
    ((2, 4, 3), dict(seed=1, planted_assignments=[[1, -2, 3, 4], [1, 2]])),
    ((1, 3, 2), dict(seed=1, planted_assignments=[[1, -1, 2, 3]])),
    ((1, 3, 4), dict(seed=1, planted_assignments=[[1, -1, 2, 3]])),
    ((3, 3, 2), dict(seed=1, planted_assignments=[(1, 2, 3), {-1, -2, -3}])),
    ((-1, 3, 2), {}), ((1, -3, 2), {}), ((1, 3, -2), {}),
    ((1.5, 3, 2), {}), ((1, '3', 2), {}), ((1, 3, None), {}),
    ((4, 3, 0), {}), ((4, 3, 1), dict(planted_assignments=[[1, 2, 3]])),
    ((0, 0, 0), {}), ((0, 0, 1), {}), ((0, 0, 2), {}),
    ((0, 3, 1), dict(planted_assignments=[[1, 2, 3]])),
    ((0, 3, 2), dict(planted_assignments=[[1, 2, 3]])),
]:
    random.seed(17)
    attempt(('kxor-special', args, sorted(kw)),
            lambda: describe(RandomKXOR(*args, **kw)))

# ---- 4. command line
def run_cli(argv, mode):
    out, err = io.StringIO(), io.StringIO()
    with contextlib.redirect_stdout(out), contextlib.redirect_stderr(err):
        try:
            res = cli(argv, mode=mode)
            if mode == 'formula':
                res = (res.number_of_variables(), list(res), dict(res.header))
            status = ('OK', res)
        except SystemExit as e:
            status = ('EXIT', e.code)
        except Exception as e:
            status = ('EXC', type(e).__name__, str(e))
    return status, out.getvalue(), err.getvalue()


for fam in ('randkxor', 'randkcnf'):
    for k, n, m in [(1, 1, 0), (1, 1, 1), (1, 1, 2), (1, 1, 3), (2, 3, 3),
                    (2, 3, 6), (2, 3, 7), (3, 6, 10), (3, 6, 20), (3, 6, 21),
                    (3, 6, 40), (3, 6, 41), (3, 2, 1), (4, 4, 1), (4, 4, 2),
                    (4, 4, 3), (0, 3, 1), (2, 0, 1), (2, 5, -1), (2, 9, 30),
                    (5, 12, 50)]:
        for plant in ([], ['-p'], ['--plant']):
            for seed in ('1', '42'):
                for fmt in ([], ['-of', 'opb']):
                    argv = ['cnfgen', '-q', '--seed', seed] + fmt + \
                        [fam, k, n, m] + plant
                    emit(('cli', argv), run_cli(argv, 'string'))
                    emit(('cli-rnd', argv), random.random())
            argv = ['cnfgen', '--seed', '5', fam] + plant + [k, n, m]
            emit(('cli-f', argv), run_cli(argv, 'formula'))
            emit(('cli-f-rnd', argv), random.random())

print(H.hexdigest())
