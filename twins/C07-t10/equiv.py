#!/usr/bin/env python
"""Equivalence check for the `plantbiclique` bipartite graph option
(cnfgen/clitools/graph_build.py, modify_bipartite_graph_plantbiclique).

Prints one SHA256 digest of everything observable."""
import sys
import os
import io
import re
import hashlib
import random
import contextlib

sys.path.insert(0, os.getcwd())

from cnfgen.clitools.cnfgen import cli as cnfgen_cli
from cnfgen.clitools.pbgen import cli as pbgen_cli
from cnfgen.clitools.graph_args import make_graph_from_spec
from cnfgen.clitools.graph_build import modify_bipartite_graph_plantbiclique
from cnfgen.graphs import BipartiteGraph, CompleteBipartiteGraph

H = hashlib.sha256()


def record(*items):
    for it in items:
        # the version string comes from `git describe`: not under test
        it = re.sub(r'CNFgen \([^)]*\)', 'CNFgen (V)', repr(it))
        H.update(it.encode('utf-8'))
        H.update(b'\x00')


def describe(G):
    return (G.name, G.left_order(), G.right_order(), G.number_of_edges(),
            list(G.edges()),
            [list(G.right_neighbors(u))
             for u in range(1, G.left_order() + 1)],
            [list(G.left_neighbors(v))
             for v in range(1, G.right_order() + 1)])


def attempt(tag, fn):
    err = io.StringIO()
    out = io.StringIO()
    try:
        with contextlib.redirect_stderr(err), contextlib.redirect_stdout(out):
            res = fn()
        record('OK', tag, res, out.getvalue(), err.getvalue())
    except SystemExit as e:
        record('EXIT', tag, e.code, out.getvalue(), err.getvalue())
    except BaseException as e:  # noqa
        cause = e.__cause__
        record('EXC', tag, type(e).__name__, str(e),
               type(cause).__name__, str(cause), out.getvalue(),
               err.getvalue())
    # the state of the random stream after the call is observable too
    record(random.random())


bases = [
    ['empty', 1, 1],
    ['empty', 5, 7],
    ['empty', 7, 3],
    ['complete', 3, 4],
    ['glrp', 6, 6, 0.3],
    ['glrm', 5, 8, 10],
    ['glrd', 6, 7, 3],
    ['regular', 6, 6, 2],
    ['shift', 6, 5, 0, 2],
]
plants = [
    [0, 0], [1, 1], [0, 3], [3, 0], [2, 3], [3, 2], [5, 3], [1, 7], [5, 7],
    [7, 3], [6, 6], [8, 1], [1, 9], [100, 100],
    [-1, 2], [2, -1], [2], [], [1, 2, 3], ['1', '2'],
]

for seed in [0, 1, 42, -5, 2 ** 40 + 1]:
    for base in bases:
        for plant in plants:
            spec = base + ['plantbiclique'] + plant

            def build(spec=spec):
                random.seed(seed)
                return describe(make_graph_from_spec('bipartite', spec))

            attempt((seed, spec), build)
    # combined with other random components, in the order of the command line
    for spec in [
        ['glrp', 6, 6, 0.5, 'plantbiclique', 3, 3, 'addedges', 4],
        ['glrp', 6, 6, 0.5, 'addedges', 4, 'plantbiclique', 3, 3],
        ['glrd', 7, 5, 2, 'plantbiclique', 7, 5],
        ['glrm', 4, 4, 0, 'plantbiclique', 2, 2, 'addedges', 0],
        ['empty', 4, 4, 'plantbiclique', 2, 2, 'plantbiclique', 1, 1],
        ['empty', 4, 4, 'plantbiclique', 'x', 2],
        ['empty', 4, 4, 'plantbiclique', 1.5, 2],
    ]:

        def build(spec=spec):
            random.seed(seed)
            return describe(make_graph_from_spec('bipartite', spec))

        attempt((seed, spec), build)

    # direct calls of the modifier with hand made 'parsed' dictionaries
    for parsed in [
        {'plantbiclique': [2, 2]},
        {'plantbiclique': ['3', '1']},
        {'plantbiclique': [4, 5]},
        {'plantbiclique': [5, 4]},
        {'plantbiclique': [4, 4]},
        {'plantbiclique': [None, 1]},
        {'plantbiclique': 3},
        {'plantbiclique': 'ab'},
        {'plantbiclique': '23'},
        {},
    ]:

        def direct(parsed=parsed):
            random.seed(seed)
            G = BipartiteGraph(4, 4, name='B')
            G.add_edge(1, 1)
            G.add_edge(4, 2)
            G2 = modify_bipartite_graph_plantbiclique(parsed, G)
            return (G2 is G, describe(G2))

        attempt((seed, 'direct', sorted(parsed.items())), direct)

        def direct_complete(parsed=parsed):
            random.seed(seed)
            G = CompleteBipartiteGraph(4, 4)
            G.name = 'K'
            G2 = modify_bipartite_graph_plantbiclique(parsed, G)
            return (G2 is G, describe(G2))

        attempt((seed, 'directK', sorted(parsed.items())), direct_complete)

    # full command lines, header included
    for argv in [
        ['cnfgen', '--seed', seed, 'php', 'glrp', 6, 5, 0.3, 'plantbiclique',
         3, 2],
        ['cnfgen', '--seed', seed, 'php', 'empty', 5, 4, 'plantbiclique', 5,
         4],
        ['cnfgen', '--seed', seed, 'php', 'empty', 5, 4, 'plantbiclique', 6,
         4],
        ['cnfgen', '--seed', seed, 'php', 'empty', 5, 4, 'plantbiclique', 2],
        ['cnfgen', '--seed', seed, 'subsetcard', 'glrd', 6, 6, 2,
         'plantbiclique', 2, 3, 'addedges', 1],
        ['cnfgen', '--seed', seed, 'php', 'glrm', 5, 5, 6, 'plantbiclique', 2,
         2, '-T', 'shuffle'],
    ]:
        attempt(argv, lambda argv=argv: cnfgen_cli(argv, mode='output'))
    attempt('pbgen', lambda: pbgen_cli(
        ['pbgen', '--seed', seed, 'php', 'glrp', 5, 4, 0.5, 'plantbiclique',
         2, 2], mode='output'))

print(H.hexdigest())
