"""Equivalence check for the refactoring of cnfgen.graphs._write_graph_matrix_format
(the 'save ... matrix' path of bipartite graph specifications)."""
import hashlib
import io
import os
import random
import shutil
import sys
import tempfile

sys.path.insert(0, os.getcwd())

from cnfgen.graphs import (BipartiteGraph, CompleteBipartiteGraph, Graph,
                           writeGraph, readGraph, _write_graph_matrix_format)
from cnfgen.clitools.graph_args import make_graph_from_spec
from cnfgen.clitools.cnfgen import cli

H = hashlib.sha256()


def rec(*items):
    for x in items:
        H.update(repr(x).encode('utf-8'))
        H.update(b'\x00')


def attempt(label, fn):
    try:
        res = fn()
        rec(label, 'ok', res)
    except SystemExit as e:
        rec(label, 'exit', e.code)
    except BaseException as e:
        rec(label, 'exc', type(e).__name__, str(e))


def dump(G):
    buf = io.StringIO()
    writeGraph(G, buf, 'bipartite', 'matrix')
    return buf.getvalue()


def direct(G):
    buf = io.StringIO()
    _write_graph_matrix_format(G, buf)
    return buf.getvalue()


# 1. hand made graphs, boundary shapes
for L in range(0, 5):
    for R in range(0, 5):
        attempt(('empty', L, R), lambda: dump(BipartiteGraph(L, R)))
        if L > 0 and R > 0:
            attempt(('complete', L, R),
                    lambda: dump(CompleteBipartiteGraph(L, R)))
            attempt(('complete-direct', L, R),
                    lambda: direct(CompleteBipartiteGraph(L, R)))

rnd = random.Random(1234)
for trial in range(60):
    L = rnd.randint(1, 7)
    R = rnd.randint(1, 7)
    G = BipartiteGraph(L, R, name='trial {}'.format(trial))
    for u in range(1, L + 1):
        for v in range(1, R + 1):
            if rnd.random() < 0.4:
                G.add_edge(u, v)
    text = dump(G)
    rec('random', trial, text)
    # round trip
    G2 = readGraph(io.StringIO(text), 'bipartite', 'matrix')
    rec('roundtrip', trial, G2.left_order(), G2.right_order(),
        sorted(G2.edges()))

# wrong kind of graph
attempt('simple-direct', lambda: direct(Graph(3)))
attempt('simple-write', lambda: writeGraph(Graph(3), io.StringIO(), 'simple', 'matrix'))
attempt('simple-as-bip', lambda: writeGraph(Graph(3), io.StringIO(), 'bipartite', 'matrix'))

# 2. graph specifications with the save option
ROOT = os.getcwd()
tmp = tempfile.mkdtemp(prefix='equiv_tmp_', dir=ROOT)
os.chdir(tmp)
tmp = '.'
specs = [
    'glrd 4 5 2', 'glrd 3 3 0', 'glrd 3 3 3', 'glrm 3 4 0', 'glrm 3 4 12',
    'glrm 3 4 5', 'glrp 4 4 0.5', 'glrp 2 3 0', 'glrp 2 3 1',
    'regular 4 6 3', 'regular 6 4 2', 'shift 5 6 0 1 3', 'shift 1 1',
    'complete 3 2', 'empty 2 5', 'glrd 4 5 2 plantbiclique 2 3',
    'empty 3 3 plantbiclique 0 0', 'empty 3 3 plantbiclique 3 3',
    'glrm 4 4 3 addedges 5', 'empty 2 2 addedges 4',
    'glrd 4 4 1 plantbiclique 2 2 addedges 3',
]
counter = 0
for spec in specs:
    for how in ('explicit', 'auto'):
        counter += 1
        if how == 'explicit':
            fname = os.path.join(tmp, 'g{}.txt'.format(counter))
            full = spec + ' save matrix ' + fname
        else:
            fname = os.path.join(tmp, 'g{}.matrix'.format(counter))
            full = spec + ' save ' + fname

        def run():
            random.seed(counter)
            G = make_graph_from_spec('bipartite', full)
            with open(fname) as f:
                content = f.read()
            return (G.name, G.left_order(), G.right_order(),
                    sorted(G.edges()), content)
        attempt(('spec', spec, how), run)

# requests that must be refused
for bad in ['empty 2 2 addedges 5 save matrix ' + os.path.join(tmp, 'bad1.txt'),
            'glrm 2 2 5 save matrix ' + os.path.join(tmp, 'bad2.txt'),
            'empty 2 2 save matrix',
            'empty 2 2 save',
            'empty 2 2 save ' + os.path.join(tmp, 'bad3.unknown'),
            'empty 2 2 save matrix ' + os.path.join(tmp, 'nodir', 'x.txt')]:
    def run():
        random.seed(7)
        return make_graph_from_spec('bipartite', bad).name
    attempt(('bad', bad),
            lambda: run())
rec('leftovers', sorted(x for x in os.listdir(tmp) if x.startswith('bad')))

# 3. full command line
for i, argv in enumerate([
        ['php', 'glrd', 4, 3, 2],
        ['php', 'glrm', 3, 3, 4, 'addedges', 2],
        ['php', 'regular', 4, 4, 2, 'plantbiclique', 2, 2],
        ['php', 'shift', 4, 3, 0, 1],
        ['php', 'complete', 2, 3],
]):
    fname = os.path.join(tmp, 'cli{}.matrix'.format(i))

    def run():
        out = cli(['cnfgen', '-q', '--seed', 11 + i] + argv + ['save', fname],
                  mode='string')
        with open(fname) as f:
            return (out, f.read())
    attempt(('cli', i), run)

os.chdir(ROOT)
for d in os.listdir(ROOT):
    if d.startswith('equiv_tmp_'):
        shutil.rmtree(os.path.join(ROOT, d))
print(H.hexdigest())
