"""Equivalence script for the refactoring of
cnfgen.clitools.graph_build.obtain_bipartite_shift (the 'shift' bipartite
graph construction available on the command line)."""
import os, sys, hashlib, random, io, contextlib, itertools
sys.path.insert(0, os.getcwd())

from cnfgen.clitools.graph_build import obtain_bipartite_shift
from cnfgen.clitools.graph_args import make_graph_from_spec
from cnfgen.clitools.cnfgen import cli
from cnfgen.clitools.pbgen import cli as pbcli
from cnfgen.graphs import bipartite_shift
from cnfgen.families.pigeonhole import GraphPigeonholePrinciple

out = []
def rec(*xs):
    out.append(repr(xs))

def descr(G):
    return (G.name, G.left_order(), G.right_order(), G.number_of_edges(),
            sorted(G.edges()), [list(G.right_neighbors(u)) for u in range(1, G.left_order() + 1)])

def attempt(tag, f, *a, **k):
    try:
        r = f(*a, **k)
        rec(tag, 'ok', descr(r) if hasattr(r, 'left_order') else r)
    except SystemExit as e:
        rec(tag, 'exit', e.code)
    except BaseException as e:
        rec(tag, 'exc', type(e).__name__, str(e), type(e.__cause__).__name__)

# direct calls on the helper, with all kind of argument lists
argsets = [
    [], ['3'], ['3', '4'], ['3', '4', '0'], ['3', '4', '0', '1'], ['3', '4', '1', '0'],
    ['3', '4', '4'], ['3', '4', '5'], ['3', '4', '0', '4'], ['3', '4', '-1'], ['3', '4', '-0'],
    ['3', '4', '1', '1'], ['3', '4', '2', '1', '2'], ['3', '4', '0', '1', '2', '3', '4'],
    ['3', '4', '0', '1', '2', '3', '4', '4'], ['0', '4', '1'], ['3', '0', '1'], ['3', '0'], ['0', '0'],
    ['-1', '4', '1'], ['3', '-4', '1'], ['3', '-4'], ['1', '1'], ['1', '1', '0'], ['1', '1', '1'], ['1', '1', '0', '1'],
    ['1', '1', '2'], ['3', '4', '1.5'], ['3.0', '4', '1'], ['3', '4.0', '1'], ['a', '4'], ['3', 'b'],
    ['3', '4', 'c'], ['3', '4', '1e0'], ['3', '4', ' 2 '], ['3', '4', '+2'], ['3', '4', '2', '+2'],
    ['3', '4', '02', '2'], ['5', '3', '3', '0'], ['5', '3', '3', '3'], ['5', '3', '2', '3', '1', '0'],
    [3, 4, 1, 2], [3, 4, 2, 2], [3, 4, 1.0, 2], [3, 4, None], [None, 4], [3, 4, [1]], [3, 4, 1, -1],
    [7, 7, 0, 1, 3], ['7', '7', '3', '1', '0'], ['10', '4', '0', '2'], ['4', '10', '9', '10'], ['4', '10', '11'],
]
for a in argsets:
    attempt(('direct', a), obtain_bipartite_shift, {'graphtype': 'bipartite', 'construction': 'shift', 'args': a})
attempt(('direct', 'None'), obtain_bipartite_shift, {'args': None})
attempt(('direct', 'missing'), obtain_bipartite_shift, {})
attempt(('direct', 'tuple'), obtain_bipartite_shift, {'args': ('4', '5', '2', '0')})

# exhaustive small
for L in range(0, 4):
    for R in range(0, 4):
        for k in range(0, 4):
            for pat in itertools.product(range(-1, R + 2), repeat=k):
                attempt(('small', L, R, pat), obtain_bipartite_shift,
                        {'args': [str(L), str(R)] + [str(x) for x in pat]})

# random, compared against the library generator
rng = random.Random(160016)
for i in range(600):
    L = rng.randint(-1, 9)
    R = rng.randint(-1, 9)
    pat = [rng.randint(-1, R + 1) for _ in range(rng.randint(0, 5))]
    spec = ['shift', str(L), str(R)] + [str(x) for x in pat]
    attempt(('rnd', i, spec), make_graph_from_spec, 'bipartite', spec)
    try:
        rec('lib', i, descr(bipartite_shift(L, R, sorted(pat))))
    except BaseException as e:
        rec('lib', i, type(e).__name__, str(e))

# through the command line tools, with options after the construction
def run(tool, argv):
    random.seed(5)
    buf = io.StringIO()
    try:
        with contextlib.redirect_stderr(buf):
            s = tool(argv, mode='string')
        rec('cli', argv, s, buf.getvalue())
    except SystemExit as e:
        rec('cli', argv, 'exit', e.code, buf.getvalue())
    except BaseException as e:
        rec('cli', argv, type(e).__name__, str(e), buf.getvalue())

for tail in [['shift', '5', '4', '0', '1'], ['shift', '5', '4', '1', '0'], ['shift', '5', '4', '1', '1'],
             ['shift', '5', '4', '5'], ['shift', '5', '4', '4', '0'], ['shift', '5'], ['shift'], ['shift', '5', '4'],
             ['shift', '5', '4', '-1'], ['shift', '5', '4', '0', '2', 'addedges', '2'],
             ['shift', '4', '4', '0', '3', 'plantbiclique', '2', '2'], ['shift', '4', 'x'], ['shift', '4', '4', '.5']]:
    run(cli, ['cnfgen', '-q', '-S', '11', 'php'] + tail)
    run(cli, ['cnfgen', '-S', '11', 'php', '--functional', '--onto'] + tail)
    run(cli, ['cnfgen', '-q', '-S', '11', 'subsetcard'] + tail)
    run(cli, ['cnfgen', '-q', '-S', '11', 'subsetcard', '-e'] + tail + ['-T', 'or', '2'])
    run(cli, ['cnfgen', '-q', '-S', '11', 'php', '4', '3', '-T', 'xorcomp'] + tail)
    run(pbcli, ['pbgen', '-q', '-S', '11', 'php'] + tail)

for pat in [['0'], ['0', '1'], ['2', '0', '1'], ['1', '1'], ['4'], ['3', '0']]:
    run(cli, ['cnfgen', '-q', 'php', '2', '2', '-T', 'xorcomp', 'shift', '4', '3'] + pat)
    run(cli, ['cnfgen', '-q', 'php', '2', '2', '-T', 'majcomp', 'shift', '4', '3'] + pat + ['-T', 'xor', '2'])

B = make_graph_from_spec('bipartite', ['shift', '5', '4', '0', '1'])
rec('libphp', GraphPigeonholePrinciple(B).to_dimacs()
    == cli(['cnfgen', '-q', 'php', 'shift', '5', '4', '1', '0'], mode='string'))

print(hashlib.sha256("\n".join(out).encode('utf-8')).hexdigest())
