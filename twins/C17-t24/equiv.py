import sys, os, io, hashlib, argparse, random, tempfile, contextlib
sys.path.insert(0, os.getcwd())
from cnfgen.clitools import cnfgen as cnfgen_cli, kthlist2pebbling, CLIError
from cnfgen.clitools.cmdline import get_transformation_helpers
from cnfgen.clitools.pbgen import cli as pbgen_cli

H = hashlib.sha256()
def rec(*xs):
    for x in xs:
        H.update(repr(x).encode()); H.update(b'\n')

import signal
def _alarm(*a):
    raise TimeoutError('hang')
signal.signal(signal.SIGALRM, _alarm)
def run(fn, argv, **kw):
    err = io.StringIO()
    signal.alarm(30)
    try:
        with contextlib.redirect_stderr(err):
            out = fn(argv, mode='string', **kw)
        rec('OK', argv, out)
    except SystemExit as e:
        rec('EXIT', argv, e.code)
    except TimeoutError:
        print('HANG', argv, file=sys.stderr); raise
    except BaseException as e:
        rec('EXC', argv, type(e).__name__, str(e))
    signal.alarm(0)
    rec(err.getvalue())

tmp = os.path.join(tempfile.gettempdir(), 'equiv_c17_t24'); os.makedirs(tmp, exist_ok=True)
bip = os.path.join(tmp, 'b.matrix')
with open(bip, 'w') as f:
    f.write("3 4\n1 1 0 0\n0 1 1 0\n0 0 1 1\n")
kth = os.path.join(tmp, 'g.kthlist')
with open(kth, 'w') as f:
    f.write("c test\n4\n1 :\n2 :\n3 : 1 2\n4 : 3 2\n")

helpers = get_transformation_helpers()
rec([(h.__name__, h.name) for h in helpers])
for h in helpers:
    rec(h.__name__, callable(h.setup_command_line), callable(h.transform_cnf))

bases = [['php', 3, 2], ['op', 3], ['and', 2, 1], ['peb', 'pyramid', 2], ['tseitin', 'first', 'grid', 2, 2]]
tails = []
for t in ['xorcomp', 'majcomp']:
    tails += [[t, 5], [t, 5, 2], [t, 3, 3], [t, 2, 3], [t, 1], [t, 1, 1], [t, 0], [t, -1, 2], [t, 4, 0],
              [t, 'glrd', 3, 4, 2], [t, bip], [t], [t, 'foo'], [t, 4, 'x'], [t, 4, 2, 1],
              [t, 'bshift', 6, 4, 1, 2], [t, 'complete', 2, 2]]
for seed in (0, 7):
    for b in bases:
        for t in tails:
            run(cnfgen_cli, ['cnfgen', '-q', '--seed', seed] + b + ['-T'] + t)
# chains
for seed in (1, 2):
    run(cnfgen_cli, ['cnfgen', '--seed', seed, 'php', 4, 3, '-T', 'xorcomp', 6, 2, '-T', 'majcomp', 5, 3])
    run(cnfgen_cli, ['cnfgen', '--seed', seed, 'php', 4, 3, '-T', 'majcomp', 6, 2, '-T', 'xorcomp', 9, 2])
    run(cnfgen_cli, ['cnfgen', '--seed', seed, '-of', 'opb', 'op', 3, '-T', 'majcomp', 4, 2])
    run(cnfgen_cli, ['cnfgen', '--seed', seed, '-of', 'latex', 'op', 3, '-T', 'xorcomp', 4, 2])
# bipartite mapping for 3 variables
run(cnfgen_cli, ['cnfgen', '-q', 'and', 2, 1, '-T', 'xorcomp', bip])
run(cnfgen_cli, ['cnfgen', '-q', 'and', 2, 1, '-T', 'majcomp', bip])
run(cnfgen_cli, ['cnfgen', '-q', 'and', 1, 1, '-T', 'majcomp', bip])
# kthlist2pebbling
for t in tails:
    random.seed(5)
    run(kthlist2pebbling, ['kthlist2pebbling', '-q', '-i', kth] + t)
# direct calls
from cnfgen.clihelpers.transformation_helpers import XorCompressionCmd, MajCompressionCmd
from cnfgen import CNF
for cls in (XorCompressionCmd, MajCompressionCmd):
    F = CNF([[1, -2], [2, 3], [-1, -3]])
    for ns in (argparse.Namespace(), argparse.Namespace(N=4, d=2), argparse.Namespace(N=4), argparse.Namespace(N=4, d=2, B=None)):
        random.seed(11)
        try:
            G = cls.transform_cnf(F, ns)
            rec('OK', G.to_dimacs())
            G2 = cls().transform_cnf(F, ns)
        except BaseException as e:
            rec('EXC', type(e).__name__, str(e))
    for hlp in ('-h',):
        p = argparse.ArgumentParser(prog='x')
        cls.setup_command_line(p)
        rec(p.usage, p.description)
print(H.hexdigest())
