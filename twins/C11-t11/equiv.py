#!/usr/bin/env python
"""Equivalence script for refactoring t11 (property C11).

Target: cnfgen/formula/variables.py  GraphEdgesVariables.indices (the
wildcard patterns (u, None) / (None, v) on the edges of a simple graph), and
through it __call__, label, to_dict, to_index round trips, the variable names
of the formula, and the formula families that use edge variables of graphs.

Run as:  cd <checkout> && /venv/bin/python equiv.py
Prints a single SHA256 digest of everything observed.
"""
import sys
import os
import hashlib
import random
import types
import itertools

sys.path.insert(0, os.getcwd())

from cnfgen.formula.cnf import CNF
from cnfgen.formula.basecnf import BaseCNF
from cnfgen.formula.variables import GraphEdgesVariables
from cnfgen.graphs import Graph, BipartiteGraph, DirectedGraph

LOG = []


def emit(*items):
    LOG.append(" ".join(str(x) for x in items))


def materialise(value):
    if isinstance(value, (types.GeneratorType, itertools.product, range)) \
            or type(value).__name__.endswith('EdgeList'):
        return [type(value).__name__, [materialise(x) for x in value]]
    if isinstance(value, (list, tuple)):
        return type(value)(materialise(x) for x in value)
    return value


def record(tag, fn, *args, **kwargs):
    try:
        res = materialise(fn(*args, **kwargs))
        emit(tag, 'OK', repr(res))
        return res
    except Exception as e:  # noqa
        emit(tag, 'EXC', type(e).__name__, str(e))
        return None


def staged(tag, fn, *args):
    """Tell apart errors raised by the call from those raised on iteration"""
    try:
        obj = fn(*args)
    except Exception as e:  # noqa
        emit(tag, 'CALL-EXC', type(e).__name__, str(e))
        return
    emit(tag, 'CALL-OK', type(obj).__name__)
    if not hasattr(obj, '__next__'):
        try:
            emit(tag, 'VALUE', repr(materialise(obj)))
        except Exception as e:  # noqa
            emit(tag, 'VALUE-EXC', type(e).__name__, str(e))
        return
    got = []
    while True:
        try:
            got.append(next(obj))
        except StopIteration:
            emit(tag, 'ITER-END', repr(got))
            break
        except Exception as e:  # noqa
            emit(tag, 'ITER-EXC', repr(got), type(e).__name__, str(e))
            break
    # exhausted generators stay exhausted
    emit(tag, 'AFTER', repr(list(obj)))


def random_graph(rng, n, p):
    G = Graph(n)
    pairs = [(u, v) for u in range(1, n + 1) for v in range(1, n + 1) if u != v]
    rng.shuffle(pairs)
    for u, v in pairs:
        if rng.random() < p and not G.has_edge(u, v):
            G.add_edge(u, v)
    return G


def probe(tag, F, g, n):
    record(tag + ' len', len, g)
    record(tag + ' ids', lambda: (g.ids.start, g.ids.stop))
    record(tag + ' indices()', g.indices)
    record(tag + ' call()', g)
    record(tag + ' label()', g.label)
    record(tag + ' to_dict', lambda: sorted(g.to_dict().items()))
    ids = list(g)
    for i in ids:
        t = record(tag + ' to_index +%d' % i, g.to_index, i)
        record(tag + ' to_index -%d' % i, g.to_index, -i)
        if t is not None:
            emit(tag + ' back', i, g(*t), g(*t[::-1]), g.label(*t), g.label(*t[::-1]))
    for lit in [0, (ids[0] - 1) if ids else 0, (ids[-1] + 1) if ids else 1,
                -((ids[-1] + 1) if ids else 1)]:
        record(tag + ' to_index out %d' % lit, g.to_index, lit)
    seq = [(tuple(t), g(*t), g.label(*t)) for t in g.indices()]
    emit(tag + ' roundtrip', repr(seq))
    emit(tag + ' contiguous', [x[1] for x in seq] == ids)

    verts = list(range(-1, n + 3))
    for w in verts:
        for pat in [(w, None), (None, w)]:
            staged(tag + ' indices' + repr(pat), g.indices, *pat)
            staged(tag + ' call' + repr(pat), g, *pat)
            staged(tag + ' label' + repr(pat), g.label, *pat)
    for u in verts:
        for v in verts:
            staged(tag + ' indices(%d,%d)' % (u, v), g.indices, u, v)
            record(tag + ' call(%d,%d)' % (u, v), g, u, v)
            record(tag + ' label(%d,%d)' % (u, v), g.label, u, v)
    for pat in [(None, None), (1,), (None,), (1, 2, 3), (None, None, None)]:
        staged(tag + ' indices' + repr(pat), g.indices, *pat)
        record(tag + ' call' + repr(pat), g, *pat)
        record(tag + ' label' + repr(pat), g.label, *pat)
    # two wildcard generators consumed in lockstep
    if n >= 2:
        a, b = g.indices(1, None), g.indices(None, 2)
        emit(tag + ' lockstep', repr(list(itertools.zip_longest(a, b))))
    # star of each vertex: union over vertices counts every edge twice
    stars = []
    for w in range(1, n + 1):
        stars.extend(g(w, None))
    emit(tag + ' stars', repr(sorted(stars)), sorted(stars) == sorted(ids + ids))


def main():
    rng = random.Random(31337)

    cases = []
    for n in [0, 1, 2, 3, 4, 5, 7]:
        for p in (0.0, 0.35, 0.7, 1.0):
            cases.append(('G(%d,%.2f)' % (n, p), n, random_graph(rng, n, p)))
    cases.append(('star5', 6, Graph.star_graph(5)))
    cases.append(('K5', 5, Graph.complete_graph(5)))
    cases.append(('empty4', 4, Graph.empty_graph(4)))
    cases.append(('null', 0, Graph.null_graph()))
    path = Graph(6)
    for i in range(1, 6):
        path.add_edge(i + 1, i)
    cases.append(('path6', 6, path))

    for tag, n, G in cases:
        for pre in (0, 5):
            F = CNF()
            if pre:
                F.add_clause([-pre, 1])
            x = F.new_variable('x')
            g = F.new_graph_edges(G, label='e[{},{}]')
            F.update_variable_number(F.number_of_variables() + 1)
            h = F.new_graph_edges(G)
            y = F.new_variable('y')
            t = '%s pre=%d' % (tag, pre)
            emit(t, 'vars', x, y, F.number_of_variables())
            probe(t + ' g', F, g, n)
            probe(t + ' h', F, h, n)
            emit(t + ' labels', repr(list(F.all_variable_labels())))
            emit(t + ' labels z', repr(list(F.all_variable_labels('z({})'))))
            # use the wildcard patterns to write clauses
            for w in range(1, n + 1):
                F.add_clause(list(g(w, None)))
                F.add_clause([-lit for lit in h(None, w)])
            emit(t + ' dimacs', F.to_dimacs())

    # directly built groups and bad arguments
    B = BaseCNF()
    record('bad graph bip', GraphEdgesVariables, B, BipartiteGraph(2, 2))
    record('bad graph dir', GraphEdgesVariables, B, DirectedGraph(2))
    record('bad graph none', GraphEdgesVariables, B, None)
    record('bad label', GraphEdgesVariables, B, Graph(2), '{}{}{}')
    B.update_variable_number(9)
    G = Graph(4)
    for e in [(2, 1), (3, 2), (1, 3), (4, 2)]:
        G.add_edge(*e)
    V = GraphEdgesVariables(B, G, labelfmt='E[{},{}]')
    probe('direct', B, V, 4)
    # odd vertices in the wildcard patterns
    for w in ['a', 1.0, 2.5, (1,), True, False]:
        staged('odd (w,None) ' + repr(w), V.indices, w, None)
        staged('odd (None,w) ' + repr(w), V.indices, None, w)
        staged('odd call ' + repr(w), V, w, None)
        staged('odd label ' + repr(w), V.label, None, w)

    # formula families based on edge variables of simple graphs
    from cnfgen import TseitinFormula, GraphColoringFormula, PerfectMatchingPrinciple
    from cnfgen import EvenColoringFormula
    for tag, n, G in cases:
        if n == 0:
            continue
        for name, builder in [('pmatch', PerfectMatchingPrinciple),
                              ('tseitin', TseitinFormula),
                              ('evencol', EvenColoringFormula)]:
            try:
                F = builder(G)
                emit(name, tag, F.to_dimacs())
                emit(name, tag, repr(list(F.all_variable_labels())))
            except Exception as ex:  # noqa
                emit(name, tag, 'EXC', type(ex).__name__, str(ex))

    data = "\n".join(LOG).encode('utf-8')
    print(hashlib.sha256(data).hexdigest())


if __name__ == '__main__':
    main()
