#!/usr/bin/env python
"""Equivalence digest for the mapping constraints of VariablesManager
(force_complete/functional/surjective/injective/nondecreasing mapping)."""
import hashlib
import itertools
import sys
sys.path.insert(0, '.')

from cnfgen.formula.cnf import CNF
from cnfgen.formula.basecnf import BaseCNF
from cnfgen.formula.linear import CNFLinear
from cnfgen.formula.variables import VariablesManager
from cnfgen.graphs import BipartiteGraph, CompleteBipartiteGraph
from cnfgen.families.pigeonhole import (PigeonholePrinciple,
                                        GraphPigeonholePrinciple,
                                        BinaryPigeonholePrinciple,
                                        RelativizedPigeonholePrinciple)
from cnfgen.families.cliquecoloring import CliqueColoring

out = []


def rec(*items):
    out.append(repr(items))


def attempt(tag, fn):
    try:
        res = fn()
        rec(tag, 'ok', res)
    except Exception as e:   # noqa
        rec(tag, 'exc', type(e).__name__, str(e))


def dump(F):
    return (F.number_of_variables(), [list(c) for c in F.clauses()],
            list(F.all_variable_labels()))


METHODS = ['force_complete_mapping', 'force_functional_mapping',
           'force_surjective_mapping', 'force_injective_mapping',
           'force_nondecreasing_mapping']


def sparse_graphs():
    yield BipartiteGraph(0, 0)
    yield BipartiteGraph(2, 0)
    yield BipartiteGraph(0, 3)
    B = BipartiteGraph(3, 4)
    yield B
    B = BipartiteGraph(3, 4)
    for e in [(1, 2), (1, 4), (2, 1), (2, 2), (3, 4), (3, 3), (3, 1)]:
        B.add_edge(*e)
    yield B
    B = BipartiteGraph(4, 3)
    for e in [(1, 1), (2, 1), (3, 1), (4, 1), (4, 3), (2, 2)]:
        B.add_edge(*e)
    yield B
    yield CompleteBipartiteGraph(3, 3)


# each method on each kind of mapping, alone and in all ordered pairs
for meth in METHODS:
    for n, m in itertools.product(range(0, 5), range(0, 6)):
        F = CNF()
        f = F.new_mapping(n, m, label='f_{{{},{}}}')
        attempt(('unary', meth, n, m), lambda: getattr(F, meth)(f))
        rec(dump(F))
        F = CNF()
        g = F.new_binary_mapping(n, m)
        attempt(('binary', meth, n, m), lambda: getattr(F, meth)(g))
        rec(dump(F))
    for idx, B in enumerate(sparse_graphs()):
        F = CNF()
        F.new_variable('pad')
        h = F.new_sparse_mapping(B, label='h({})={}')
        attempt(('sparse', meth, idx), lambda: getattr(F, meth)(h))
        rec(dump(F))

for m1, m2 in itertools.permutations(METHODS, 2):
    F = CNF()
    f = F.new_mapping(3, 2)
    g = F.new_binary_mapping(3, 5)
    for meth in (m1, m2):
        attempt(('seq-u', meth), lambda: getattr(F, meth)(f))
        attempt(('seq-b', meth), lambda: getattr(F, meth)(g))
    rec(dump(F))

# error paths: wrong kind of variable group, wrong parent formula
for meth in METHODS:
    F = CNF()
    G = CNF()
    blk = F.new_block(2, 3)
    comb = F.new_combinations(4, 2)
    bip = F.new_bipartite_edges(CompleteBipartiteGraph(2, 2))
    fu = F.new_mapping(2, 3)
    fb = F.new_binary_mapping(2, 3)
    gu = G.new_mapping(2, 3)
    gb = G.new_binary_mapping(2, 3)
    for name, obj in [('block', blk), ('comb', comb), ('bip', bip),
                      ('none', None), ('int', 3), ('str', 'f'),
                      ('list', [1, 2])]:
        attempt(('badtype', meth, name), lambda: getattr(F, meth)(obj))
    attempt(('foreign-u', meth), lambda: getattr(F, meth)(gu))
    attempt(('foreign-b', meth), lambda: getattr(F, meth)(gb))
    attempt(('foreign-u2', meth), lambda: getattr(G, meth)(fu))
    attempt(('foreign-b2', meth), lambda: getattr(G, meth)(fb))
    rec(dump(F), dump(G))
    # detached VariablesManager over BaseCNF / CNFLinear
    for cls in (BaseCNF, CNFLinear):
        C = cls()
        V = VariablesManager(C)
        W = VariablesManager(cls())
        a = V.new_mapping(3, 2)
        b = V.new_binary_mapping(2, 3)
        attempt(('detached-u', cls.__name__, meth), lambda: getattr(V, meth)(a))
        attempt(('detached-b', cls.__name__, meth), lambda: getattr(V, meth)(b))
        attempt(('detached-foreign', cls.__name__, meth), lambda: getattr(W, meth)(a))
        rec(C.number_of_variables(), [list(c) for c in C.clauses()])

# the formula families built on top of these methods
for p, h in itertools.product(range(0, 5), range(0, 5)):
    for fn, on in itertools.product([False, True], repeat=2):
        F = PigeonholePrinciple(p, h, functional=fn, onto=on)
        rec('php', p, h, fn, on, F.to_dimacs())
    rec('bphp', p, h, BinaryPigeonholePrinciple(p, h).to_dimacs())
for idx, B in enumerate(sparse_graphs()):
    for fn, on in itertools.product([False, True], repeat=2):
        rec('gphp', idx, fn, on,
            GraphPigeonholePrinciple(B, functional=fn, onto=on).to_dimacs())
for p, r, h in itertools.product(range(0, 4), repeat=3):
    rec('rphp', p, r, h, RelativizedPigeonholePrinciple(p, r, h).to_dimacs())
for n, k, c in itertools.product(range(0, 4), repeat=3):
    rec('cc', n, k, c, CliqueColoring(n, k, c).to_dimacs())

print(hashlib.sha256("\n".join(out).encode('utf8')).hexdigest())
