#!/usr/bin/env python
"""Equivalence digest for the 'iso' sub-command
(cnfgen.clihelpers.graph_helpers.GIsoCmdHelper.build_formula):
one graph -> automorphism formula, '-e G2' -> isomorphism formula."""
import contextlib
import hashlib
import io
import os
import random
import sys
import tempfile
from types import SimpleNamespace

sys.path.insert(0, os.getcwd())

from cnfgen.clitools.cnfgen import cli
from cnfgen.clihelpers.graph_helpers import GIsoCmdHelper
from cnfgen.formula.cnf import CNF
from cnfgen.graphs import Graph

H = hashlib.sha256()
TMP = None


def record(*items):
    for it in items:
        text = repr(it)
        if TMP is not None:
            text = text.replace(TMP, '<TMP>')
        H.update(text.encode('utf-8'))
        H.update(b'\x00')


def dump_formula(F):
    return (type(F).__name__, F.number_of_variables(), F.number_of_clauses(),
            list(F.clauses()), list(F.all_variable_labels()),
            sorted((k, str(v)) for k, v in F.header.items()))


def run(argv, mode='string', stdin_text=''):
    random.seed(77)
    out, err = io.StringIO(), io.StringIO()
    old = sys.stdin
    sys.stdin = io.StringIO(stdin_text)
    try:
        with contextlib.redirect_stdout(out), contextlib.redirect_stderr(err):
            res = cli(argv, mode=mode)
        if mode == 'formula':
            res = dump_formula(res)
        record('OK', argv, mode, res, out.getvalue(), err.getvalue(),
               random.random())
    except SystemExit as e:
        record('EXIT', argv, mode, e.code, out.getvalue(), err.getvalue())
    except BaseException as e:
        record('EXC', argv, mode, type(e).__name__, str(e), out.getvalue(),
               err.getvalue())
    finally:
        sys.stdin = old


SPECS = [
    ['empty', '1'],
    ['empty', '3'],
    ['complete', '1'],
    ['complete', '4'],
    ['complete', '2', '2'],
    ['grid', '2', '3'],
    ['torus', '3', '3'],
    ['gnp', '5', '.5'],
    ['gnm', '5', '6'],
    ['gnd', '6', '3'],
    ['gnm', '6', '4', 'addedges', '2'],
    ['empty', '5', 'plantclique', '3'],
    ['grid', '2', '2', 'splitedges', '1'],
]

# 1. single graph and pairs of graphs, two output styles
for g in SPECS:
    for opts in (['-q'], ['-S', '5'], ['-S', '5', '--output-format', 'opb']):
        run(['cnfgen'] + opts + ['iso'] + g)
    run(['cnfgen', '-S', '9', 'iso'] + g, 'formula')
for i, g1 in enumerate(SPECS):
    for j, g2 in enumerate(SPECS):
        if (i + 2 * j) % 3 == 0 or i == j:
            run(['cnfgen', '-q', '-S', '11', 'iso'] + g1 + ['-e'] + g2)
            run(['cnfgen', '-S', '11', 'iso'] + g1 + ['-e'] + g2, 'formula')
for g in SPECS[:6]:
    run(['cnfgen', '-q', '-S', '4', 'iso', '-e'] + g + ['--'] + SPECS[3])
    run(['cnfgen', '-q', '-S', '4', 'iso'] + g + ['-T', 'xor', '2'])
    run(['cnfgen', '-q', '-S', '4', 'iso'] + g + ['-e'] + g + ['-T', 'flip'])

# 2. graphs from files (saved by the tool itself) and from stdin
with tempfile.TemporaryDirectory() as tmpdir:
    TMP = tmpdir
    a = os.path.join(tmpdir, 'a.gml')
    b = os.path.join(tmpdir, 'b.dot')
    c = os.path.join(tmpdir, 'c.dimacs')
    d = os.path.join(tmpdir, 'd.kthlist')
    run(['cnfgen', '-q', '-S', '1', 'iso', 'gnp', '5', '.6', 'save', a,
         '-e', 'gnm', '5', '4', 'save', b])
    run(['cnfgen', '-q', '-S', '2', 'iso', 'grid', '2', '3', 'save', c])
    run(['cnfgen', '-q', '-S', '3', 'iso', 'gnd', '6', '3', 'save', d,
         '-e', 'complete', '6'])
    for p in (a, b, c, d):
        try:
            with open(p) as f:
                record('SAVED', f.read())
        except OSError as e:
            record('NOTSAVED', type(e).__name__)
    for f1 in (a, b, c, d):
        run(['cnfgen', '-q', 'iso', f1])
        run(['cnfgen', 'iso', f1], 'formula')
        for f2 in (a, b, c, d):
            run(['cnfgen', '-q', 'iso', f1, '-e', f2])
    run(['cnfgen', '-q', 'iso', 'gml', a, '-e', 'dot', b], 'formula')
    run(['cnfgen', '-q', 'iso', a, '-e', os.path.join(tmpdir, 'missing.gml')])
    run(['cnfgen', '-q', 'iso', os.path.join(tmpdir, 'missing.gml')])
    with open(c) as f:
        text = f.read()
    run(['cnfgen', '-q', 'iso', 'dimacs', '-'], 'string', text)
    run(['cnfgen', '-q', 'iso', 'complete', '4', '-e', 'dimacs', '-'],
        'string', text)

# 3. broken command lines
run(['cnfgen', '-q', 'iso'])
run(['cnfgen', '-q', 'iso', '-e', 'complete', '3'])
run(['cnfgen', '-q', 'iso', 'complete', '3', '-e'])
run(['cnfgen', '-q', 'iso', 'complete', '3', '-e', 'nosuch', '3'])
run(['cnfgen', '-q', 'iso', 'complete', 'x'])
run(['cnfgen', '-q', 'iso', 'complete', '0'])
run(['cnfgen', '-q', 'iso', 'complete', '3', '-e', 'gnd', '5', '3'])
run(['cnfgen', '-q', 'iso', 'complete', '3', '-e', 'complete', '3', '-e',
     'complete', '4'])
run(['cnfgen', '-q', 'iso', '-h'])

# 4. the helper called directly, with library graphs
def direct(G, G2):
    random.seed(5)
    try:
        F = GIsoCmdHelper.build_formula(SimpleNamespace(G=G, G2=G2), CNF)
        record('DIRECT', dump_formula(F), F.to_dimacs())
    except BaseException as e:
        record('DIRECTEXC', type(e).__name__, str(e))


graphs = []
for n, edges in [(0, []), (1, []), (3, [(1, 2)]), (3, [(1, 2), (2, 3)]),
                 (4, [(1, 2), (2, 3), (3, 4), (4, 1)]), (4, [(1, 3), (2, 4)])]:
    g = Graph(n)
    for u, v in edges:
        g.add_edge(u, v)
    graphs.append(g)
for g1 in graphs:
    direct(g1, None)
    for g2 in graphs:
        direct(g1, g2)
direct(None, None)
direct(None, graphs[2])
direct(graphs[2], 0)
direct(graphs[2], False)
direct('nograph', None)
try:
    GIsoCmdHelper.build_formula(SimpleNamespace(G=graphs[2]), CNF)
    record('NOATTR', 'ok')
except BaseException as e:
    record('NOATTR', type(e).__name__, str(e))

print(H.hexdigest())
