#!/usr/bin/env python
"""Equivalence harness for the 'shift' bipartite construction of the
command line (cnfgen.clitools.graph_build.obtain_bipartite_shift).

Builds graphs from a large family of 'shift L R v1 v2 ...'
specifications (valid ones, patterns with repetitions, offsets below
0, equal to R, above R, non integer tokens, missing arguments,
combined with the other bipartite options) and records the graphs, the
saved files, the formulas and all the error messages.  Prints one
SHA256 digest.
"""
import hashlib
import itertools
import os
import random
import sys
import tempfile

sys.path.insert(0, os.getcwd())

from cnfgen.clitools.graph_args import parse_graph_argument, obtain_graph
from cnfgen.clitools.graph_args import make_graph_from_spec
from cnfgen.clitools.graph_build import obtain_bipartite_shift
from cnfgen.clitools.cnfgen import cli

LOG = []


def log(*items):
    LOG.append(" | ".join(str(x) for x in items))


def describe(G):
    L, R = G.parts()
    return (type(G).__name__, G.name, G.number_of_vertices(),
            G.number_of_edges(), len(L), len(R), sorted(G.edges()),
            [G.right_degree(u) for u in L], [G.left_degree(v) for v in R])


def scrub(text, tmp):
    return str(text).replace(tmp, '<TMP>')


def direct_calls():
    """Call the builder with hand made 'parsed' dictionaries"""
    cases = []
    tokens = ['-2', '-1', '0', '1', '2', '3', '4', '5', '6']
    for L, R in itertools.product(['-1', '0', '1', '2', '4'], repeat=2):
        cases.append([L, R])
        for k in (1, 2):
            for pat in itertools.product(tokens, repeat=k):
                cases.append([L, R] + list(pat))
    for L, R in [('3', '4'), ('4', '3'), ('5', '5'), ('1', '6')]:
        for k in (3, 4):
            for pat in itertools.combinations_with_replacement(
                    ['0', '1', '2', '3', '4', '5', '6', '7'], k):
                cases.append([L, R] + list(pat))
                cases.append([L, R] + list(reversed(pat)))
    cases += [[], ['3'], ['x'], ['3', 'x'], ['3', '3', 'x'], ['3.0', '3'],
              ['3', '3.5'], ['3', '3', '1.0'], ['3', '3', '1e0'],
              ['3', '3', '.5'], ['3', '3', ''], ['3', '3', ' 1 '],
              ['3', '3', '+1'], ['3', '3', '01', '1'], ['3', '3', '1', '+1'],
              ['3', '3', '-0', '0'], ['3', '3', '3', '0'], ['3', '3', '4'],
              [3, 3, 1, 2], [3, 3, 1, 1], [3, 3, None], [None, 3],
              [3, 3, 1.5, 1.2], [3, 3, [1]], ['1_0', '3', '2']]
    for args in cases:
        parsed = {'graphtype': 'bipartite', 'construction': 'shift',
                  'args': args}
        try:
            G = obtain_bipartite_shift(parsed)
            log('DIRECT', args, describe(G))
        except Exception as e:
            log('DIRECT-ERR', args, type(e).__name__, e)
    # malformed dictionaries
    for parsed in [{}, {'args': None}, {'args': 5}, {'args': '345'},
                   {'args': '3 4 5'}, {'args': ('3', '4', '1', '2')}]:
        try:
            G = obtain_bipartite_shift(parsed)
            log('DIRECT2', parsed, describe(G))
        except Exception as e:
            log('DIRECT2-ERR', parsed, type(e).__name__, e)


SPECS = [
    'shift', 'shift 4', 'shift 4 4', 'shift 4 4 0', 'shift 4 4 0 1',
    'shift 4 4 1 0', 'shift 4 4 0 0', 'shift 4 4 3 2 1 0', 'shift 4 4 4',
    'shift 4 4 0 4', 'shift 4 4 5', 'shift 4 4 -1', 'shift 4 4 1 2 1',
    'shift 0 4 1', 'shift 4 0 1', 'shift 4 0', 'shift -1 3', 'shift 3 7 1 2 4',
    'shift 7 3 1 2', 'shift 7 3 0 1 2 3', 'shift 1 1 0', 'shift 1 1 1',
    'shift 1 1 0 1', 'shift 5 5 1.0', 'shift 5 5 1e0', 'shift 5.0 5 1',
    'shift 5 5 .5', 'shift 3 3 0 1 2 plantbiclique 2 2',
    'shift 3 3 1 addedges 3', 'shift 3 3 0 1 2 addedges 1',
    'shift 3 3 0 1 2 3 addedges 0', 'shift 6 4 1 3 plantbiclique 2 2 addedges 4',
    'shift 6 4 1 3 plantbiclique 7 1', 'shift 3 3 1 splitedges 1',
    'shift 3 3 1 plantclique 2', 'shift 3 3 1 bogus', 'shift 3 3 1 shift 2',
    'shift 3 3 1 glrd 2', 'shift 10 10 0 1 3 7', 'shift 12 5 0 2 4',
]


def spec_calls(tmp):
    for n, spec in enumerate(SPECS):
        for save in (None, 'kthlist', 'matrix', 'gml', 'dot'):
            full = spec.split()
            fname = None
            if save is not None:
                fname = os.path.join(tmp, 's{}.{}'.format(n, save))
                full += ['save', fname]
            random.seed(500 + n)
            try:
                parsed = parse_graph_argument('bipartite', full)
                log('PARSED', scrub(sorted(parsed.items()), tmp))
                G = obtain_graph(parsed)
                log('SPEC', scrub(full, tmp), describe(G), random.random())
            except Exception as e:
                log('SPEC-ERR', scrub(full, tmp), type(e).__name__,
                    scrub(e, tmp))
            if fname is not None and os.path.exists(fname):
                with open(fname, encoding='utf-8') as f:
                    log('SPEC-FILE', repr(f.read()))
        # string form, and wrong graph types
        for gtype in ['bipartite', 'simple', 'dag', 'digraph']:
            random.seed(700 + n)
            try:
                G = make_graph_from_spec(gtype, spec)
                log('STR', gtype, spec, describe(G))
            except Exception as e:
                log('STR-ERR', gtype, spec, type(e).__name__, e)


def command_lines(tmp):
    cmds = []
    for n, spec in enumerate(SPECS):
        cmds.append(['php'] + spec.split())
        cmds.append(['php', '--functional', '--onto'] + spec.split() +
                    ['save', os.path.join(tmp, 'c{}.matrix'.format(n))])
        cmds.append(['subsetcard'] + spec.split())
    for n, cmd in enumerate(cmds):
        argv = ['cnfgen', '-q', '--seed', str(900 + n)] + cmd
        try:
            out = cli(argv, mode='string')
            log('CLI', scrub(argv, tmp), scrub(out, tmp))
        except SystemExit as e:
            log('CLI-EXIT', scrub(argv, tmp), e.code)
        except Exception as e:
            log('CLI-ERR', scrub(argv, tmp), type(e).__name__, scrub(e, tmp))
    for name in sorted(os.listdir(tmp)):
        if name.startswith('c'):
            with open(os.path.join(tmp, name), encoding='utf-8') as f:
                log('CLI-FILE', name, repr(f.read()))


def main():
    direct_calls()
    with tempfile.TemporaryDirectory() as tmp:
        spec_calls(tmp)
        devnull = open(os.devnull, 'w')
        olderr = sys.stderr
        sys.stderr = devnull
        try:
            command_lines(tmp)
        finally:
            sys.stderr = olderr
            devnull.close()
    data = "\n".join(LOG).encode('utf-8')
    print(hashlib.sha256(data).hexdigest())


if __name__ == '__main__':
    main()
