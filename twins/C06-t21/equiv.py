#!/usr/bin/env python
"""Equivalence script for t21: variable-count bookkeeping of BaseCNF

Exercises number_of_variables / all_variable_labels /
update_variable_number on BaseCNF, CNFio, CNFLinear, CNF (and BaseOPB,
OPB as neighbours), directly and through the DIMACS writer / reader.
Prints one SHA256 digest of everything observed.
"""
import hashlib
import io
import os
import random
import sys
import tempfile

sys.path.insert(0, os.getcwd())

from cnfgen.formula.basecnf import BaseCNF
from cnfgen.formula.baseopb import BaseOPB
from cnfgen.formula.cnfio import CNFio
from cnfgen.formula.linear import CNFLinear
from cnfgen.formula.cnf import CNF
from cnfgen.formula.opb import OPB
from cnfgen.utils.parsedimacs import to_dimacs_file, from_dimacs_file, parse_dimacs
import cnfgen

LOG = []


def rec(*items):
    LOG.append(repr(items))


def attempt(tag, fn, *args, **kwargs):
    try:
        res = fn(*args, **kwargs)
        rec(tag, 'ok', res if isinstance(res, (type(None), bool, int, str, list, tuple))
            else type(res).__name__)
        return res
    except BaseException as e:  # noqa
        rec(tag, 'exc', type(e).__name__, str(e),
            type(e.__cause__).__name__, str(e.__cause__))
        return None


def dimacs_text(F, header, varnames):
    out = io.StringIO()
    to_dimacs_file(F, out, export_header=header, export_varnames=varnames)
    return out.getvalue()


def observe(tag, F):
    rec(tag, 'str', str(F))
    rec(tag, 'n', F.number_of_variables(), 'm', len(F))
    rec(tag, 'labels', list(F.all_variable_labels()))
    attempt(tag + ':labels-fmt', lambda: list(F.all_variable_labels('y_{}')))
    attempt(tag + ':labels-kw',
            lambda: list(F.all_variable_labels(default_label_format='<{}>')))
    if hasattr(F, 'variables'):
        rec(tag, 'variables', list(F.variables()))
    if isinstance(F, BaseCNF):
        rec(tag, 'clauses', [list(c) for c in F])
        rec(tag, 'debug', F.debug())
        for h in (False, True):
            for v in (False, True):
                text = dimacs_text(F, h, v)
                rec(tag, 'dimacs', h, v, text)
                for cls in (BaseCNF, CNFio, CNF):
                    G = attempt(tag + ':reread', from_dimacs_file, cls,
                                io.StringIO(text))
                    if G is not None:
                        rec(tag, 'rt', cls.__name__, G.number_of_variables(),
                            [list(c) for c in G],
                            list(G.all_variable_labels()), str(G))


def bump(tag, F):
    values = [0, 1, 3, 3, 2, 10, 7, -1, -5, 2.0, 2.5, '4', None, True, False,
              [3], 12, 10**20, 12]
    for v in values:
        attempt('%s:update(%r)' % (tag, v), F.update_variable_number, v)
        rec(tag, 'after', repr(v), F.number_of_variables(), str(F))
        if F.number_of_variables() < 10**4:
            rec(tag, 'after-labels', list(F.all_variable_labels())[-3:])
    attempt(tag + ':update-kw', F.update_variable_number, new_value=4)
    # wrong arity: only the exception type is recorded (the message of
    # such a TypeError spells the __qualname__ of the method)
    for probe in (lambda: F.update_variable_number(),
                  lambda: F.number_of_variables(1)):
        try:
            probe()
            rec(tag, 'arity', 'ok')
        except Exception as e:
            rec(tag, 'arity', type(e).__name__)


def small_bump(tag, F):
    for v in [0, 2, 5, 5, 3, -2, 'x', 1.5, 9]:
        attempt('%s:update(%r)' % (tag, v), F.update_variable_number, v)
        rec(tag, 'after', F.number_of_variables())


def main():
    random.seed(20612)

    # ---- hand made formulas on every class of the hierarchy
    clause_sets = [
        None,
        [],
        [[]],
        [[], []],
        [[1]],
        [[-1]],
        [[1, 2, -3], [-2, 4]],
        [[5], [], [-5, 5], [2, 2]],
        [[-7, 3], [1], []],
        [(1, -2), (3,), ()],
        [range(1, 4), [-9]],
    ]
    for cls in (BaseCNF, CNFio, CNFLinear, CNF):
        for i, cs in enumerate(clause_sets):
            tag = '%s/%d' % (cls.__name__, i)
            F = attempt(tag + ':new', lambda: cls(cs, description='d %d' % i))
            if F is None:
                continue
            observe(tag, F)
            small_bump(tag, F)
            observe(tag + '+', F)
            F.add_clause([F.number_of_variables() + 2, -1])
            observe(tag + '++', F)

    # ---- invalid clauses and their effect on the variable count
    for cls in (BaseCNF, CNF):
        for bad in ([0], [1, 0], ['a'], [1.5], [None], [[1]], 7, [2, 'b']):
            F = cls([[1, -2]])
            attempt('%s:bad(%r)' % (cls.__name__, bad), F.add_clause, bad)
            rec('bad', F.number_of_variables(), len(F),
                list(F.all_variable_labels()))
            F2 = cls([[1, -2]])
            attempt('%s:bad-nocheck(%r)' % (cls.__name__, bad), F2.add_clause,
                    bad, check=False)
            rec('bad-nocheck', F2.number_of_variables(), len(F2))

    # ---- thorough update_variable_number
    for cls in (BaseCNF, CNFio, CNFLinear, CNF, BaseOPB, OPB):
        F = cls()
        bump(cls.__name__, F)

    # ---- named variables (VariablesManager overrides labels)
    F = CNF(description='named è vars\nsecond line')
    x = F.new_variable('x')
    b = F.new_block(2, 3, label='b_{{{},{}}}')
    observe('named0', F)
    F.add_clause([x, -b(1, 2), b(2, 3)])
    F.add_clause([])
    observe('named1', F)
    F.update_variable_number(9)
    observe('named2', F)
    F.add_clause([-11, 10])
    observe('named3', F)
    w = F.new_variable('odd name\nwith newline')
    observe('named4', F)
    small_bump('named', F)
    observe('named5', F)

    # ---- OPB side
    for cls in (BaseOPB, OPB):
        P = cls()
        rec(cls.__name__, P.number_of_variables(), list(P.all_variable_labels()))
        P.add_constraint([(1, 2), (3, -4), '>=', 2])
        rec(cls.__name__, P.number_of_variables(), list(P.all_variable_labels()),
            list(P.all_variable_labels('z{}')), str(P))
        small_bump(cls.__name__, P)
        rec(cls.__name__, P.number_of_variables(), list(P.all_variable_labels()),
            str(P), [list(c) for c in P])

    # ---- families and transformations
    fams = [
        ('php', lambda: cnfgen.PigeonholePrinciple(4, 3)),
        ('fphp', lambda: cnfgen.PigeonholePrinciple(3, 3, functional=True, onto=True)),
        ('bphp', lambda: cnfgen.BinaryPigeonholePrinciple(5, 4)),
        ('op', lambda: cnfgen.OrderingPrinciple(4)),
        ('count', lambda: cnfgen.CountingPrinciple(5, 2)),
        ('rk', lambda: cnfgen.RandomKCNF(3, 7, 11)),
        ('rk0', lambda: cnfgen.RandomKCNF(3, 6, 0)),
        ('ram', lambda: cnfgen.RamseyNumber(3, 3, 5)),
        ('vdw', lambda: cnfgen.VanDerWaerden(7, 3, 3)),
        ('pyt', lambda: cnfgen.PythagoreanTriples(15)),
    ]
    for name, mk in fams:
        F = attempt(name + ':build', mk)
        if F is None:
            continue
        observe(name, F)
        G = attempt(name + ':shuffle',
                    lambda: cnfgen.Shuffle(F))
        if G is not None:
            observe(name + '/shuffle', G)
        G = attempt(name + ':xor', lambda: cnfgen.XorSubstitution(F, 2))
        if G is not None:
            rec(name + '/xor', G.number_of_variables(), len(G),
                list(G.all_variable_labels())[:6], dimacs_text(G, False, True)[:3000])
        F.update_variable_number(F.number_of_variables() + 3)
        observe(name + '/grown', F)

    # ---- reading texts: declared count vs used variables
    texts = [
        "p cnf 0 0\n",
        "p cnf 5 0\n",
        "p cnf 5 1\n1 -2 0\n",
        "p cnf 3 2\n1 2 3 0\n0\n",
        "c hi\np cnf 4 2\n1 -4\n 0 2 0\n",
        "p cnf 2 1\n1 3 0\n",
        "p cnf 2 2\n1 2 0\n",
        "p cnf -1 0\n",
        "p cnf 2\n",
        "p cnf x 1\n",
        "1 2 0\n",
        "",
        "p cnf 3 1\n1 2",
        "p cnf 3 1\n1 2 0\np cnf 3 1\n",
        "p cnf 3 1\n1 a 0\n",
        "p cnf 20000 1\n-20000 0\n",
    ]
    for i, t in enumerate(texts):
        attempt('parse/%d' % i, lambda: list(parse_dimacs(io.StringIO(t))))
        for cls in (BaseCNF, CNFio, CNF):
            G = attempt('text/%d/%s' % (i, cls.__name__), from_dimacs_file, cls,
                        io.StringIO(t))
            if G is not None:
                rec('text', i, G.number_of_variables(), [list(c) for c in G],
                    list(G.all_variable_labels())[:5],
                    list(G.all_variable_labels())[-2:], str(G))
                if G.number_of_variables() < 100:
                    rec('text-out', i, dimacs_text(G, True, True))

    # ---- through real files
    cwd = os.getcwd()
    with tempfile.TemporaryDirectory() as tmp:
        os.chdir(tmp)
        try:
            F = CNF([[1, -2], [], [4]], description='file test')
            F.update_variable_number(6)
            for h in (False, True):
                for v in (False, True):
                    F.to_file('a.cnf', export_header=h, export_varnames=v)
                    with open('a.cnf') as f:
                        rec('file', h, v, f.read())
                    G = CNF.from_file('a.cnf')
                    observe('file-rt/%s%s' % (h, v), G)
        finally:
            os.chdir(cwd)

    blob = "\n".join(LOG).encode('utf-8', errors='backslashreplace')
    print(hashlib.sha256(blob).hexdigest())


if __name__ == '__main__':
    main()
