"""Equivalence script for the refactoring of BaseCNF.__init__ (cnfgen/formula/basecnf.py):
construction of the formula header that DIMACS output exports as comments."""
import sys, os, io, hashlib, random, copy, pickle
sys.path.insert(0, os.getcwd())

from cnfgen.formula.basecnf import BaseCNF
from cnfgen.formula.cnfio import CNFio
from cnfgen.formula.linear import CNFLinear
from cnfgen.formula.cnf import CNF
from cnfgen.families.pigeonhole import PigeonholePrinciple
from cnfgen.families.randomformulas import RandomKCNF
from cnfgen.transformations.shuffle import Shuffle
from cnfgen.transformations.substitutions import XorSubstitution

out = []
def rec(*a):
    out.append(repr(a))

class Odd:
    def __str__(self):
        return 'odd object'
    def __repr__(self):
        return '<Odd>'
    def __format__(self, spec):
        return 'odd formatted'

descriptions = [None, '', ' ', 'plain', 'two\nlines', 'trailing newline\n', '\n', 'c p cnf 3 4',
                'p cnf 1 1', 'ünïcode ∧ ∨ ¬', 'tab\there', 'cr\r\nlf', '{} {0} %s', 0, 1, False,
                True, 3.5, ('a', 'b'), ['l'], b'bytes', Odd()]
clause_sets = [None, [], [[]], [[], []], [[1, -2], [3]], ((1, 2), (-4,)), [[5]],
               iter([[1], [-1]]), (c for c in [[2, -3], []]), [range(1, 4)],
               [[0]], [[1, 0, 2]], [['a']], [[1.5]], [[None]], [1, 2], 'ab', 7, [[1], 5]]

def observe(tag, build):
    try:
        F = build()
    except BaseException as e:
        rec(tag, 'ctor-exc', type(e).__name__, str(e), repr(e.__cause__))
        return
    rec(tag, 'hdrtype', type(F.header).__name__, type(F.header).__mro__[1].__name__)
    rec(tag, 'hdr', [(k, v) for k, v in F.header.items()])
    rec(tag, 'keys', list(F.header), list(reversed(F.header)))
    rec(tag, 'state', F.number_of_variables(), F.number_of_clauses(), list(F), len(F))
    try:
        rec(tag, 'str', str(F))
    except BaseException as e:
        rec(tag, 'str-exc', type(e).__name__, str(e))
    if hasattr(F, 'to_file'):
        for ff in ('dimacs', 'opb', 'latex'):
            for hdr in (True, False):
                buf = io.StringIO()
                try:
                    F.to_file(buf, fileformat=ff, export_header=hdr, export_varnames=hdr)
                    text = buf.getvalue()
                    rec(tag, ff, hdr, text)
                    if ff == 'dimacs':
                        lines = text.splitlines()
                        rec(tag, 'noncomment', [l for l in lines if not l.startswith('c')][:1])
                        G = CNF.from_file(io.StringIO(text))
                        rec(tag, 'rt', G.number_of_variables(), list(G), list(G.header.items()))
                except BaseException as e:
                    rec(tag, ff + '-exc', hdr, type(e).__name__, str(e))
    # header is mutable and ordered: later fields go last
    F.header['extra'] = 'value'
    F.header['description'] = 'changed'
    F.header.move_to_end('generator')
    rec(tag, 'hdr2', list(F.header.items()))
    H = copy.copy(F.header)
    rec(tag, 'copy', type(H).__name__, list(H.items()), H == F.header)
    rec(tag, 'pickle', list(pickle.loads(pickle.dumps(F.header)).items()))

for cls in (BaseCNF, CNFio, CNFLinear, CNF):
    for di, d in enumerate(descriptions):
        observe((cls.__name__, 'd', di), lambda: cls(description=d))
        observe((cls.__name__, 'dc', di), lambda: cls([[1, -2], [], [3]], d))
    for ci, cs in enumerate(clause_sets):
        def build(cs=cs):
            if ci in (7, 8):
                # one-shot iterables: rebuild them
                data = iter([[1], [-1]]) if ci == 7 else (c for c in [[2, -3], []])
            else:
                data = cs
            return cls(data)
        observe((cls.__name__, 'c', ci), build)
        observe((cls.__name__, 'ck', ci), lambda: cls(clauses=clause_sets[ci] if ci not in (7, 8) else [[1]], description='kw'))
    observe((cls.__name__, 'noargs'), lambda: cls())
    # independent headers for independent formulas
    A = cls(); B = cls()
    A.header['description'] = 'only A'
    rec(cls.__name__, 'indep', list(B.header.items()), A.header is B.header)

# headers seen through families and transformations
random.seed(2024)
observe('php', lambda: PigeonholePrinciple(3, 2))
observe('rand', lambda: RandomKCNF(3, 6, 9))
observe('shuf', lambda: Shuffle(PigeonholePrinciple(3, 2)))
observe('xor', lambda: XorSubstitution(PigeonholePrinciple(2, 2), 2))
observe('fromfile', lambda: CNF.from_file(io.StringIO("c x\np cnf 3 2\n1 -3 0\n0\n")))

print(hashlib.sha256("\n".join(out).encode('utf-8', 'backslashreplace')).hexdigest())
