#!/usr/bin/env python
"""Equivalence script for refactoring t22 (description/label helpers of the
transformations moved to a shared module).

Run as:  cd <checkout> && /venv/bin/python equiv.py
Prints one SHA256 digest of everything observable.
"""
import os
import sys
import io
import hashlib
import random
from contextlib import redirect_stdout, redirect_stderr

sys.path.insert(0, os.getcwd())

import cnfgen
from cnfgen import CNF
from cnfgen.graphs import BipartiteGraph
from cnfgen.transformations import substitutions as S
from cnfgen.transformations.shuffle import Shuffle
from cnfgen.clitools import cnfgen as cnfgen_cli

OUT = []


def emit(*things):
    OUT.append(repr(things))


def observe(tag, F):
    emit(tag, 'nvars', F.number_of_variables())
    emit(tag, 'clauses', [list(c) for c in F.clauses()])
    emit(tag, 'header', [(str(k), str(v)) for k, v in F.header.items()])
    emit(tag, 'labels', list(F.all_variable_labels()))
    emit(tag, 'dimacs', F.to_dimacs())
    emit(tag, 'latex', F.to_latex())
    so = io.StringIO()
    F.to_file(so, fileformat='dimacs', export_header=True, export_varnames=True)
    emit(tag, 'file', so.getvalue())


def attempt(tag, fn, *args, **kwargs):
    try:
        F = fn(*args, **kwargs)
    except BaseException as e:   # noqa
        emit(tag, 'EXC', type(e).__name__, str(e))
        return None
    observe(tag, F)
    return F


def sample_cnfs():
    res = []
    res.append(('empty', CNF()))
    res.append(('emptyclause', CNF([[]])))
    F = CNF([[1, -2]])
    F.update_variable_number(3)
    res.append(('unused', F))
    F = CNF()
    F.update_variable_number(2)
    F.add_clause([1, 1, -2], check=False)
    F.add_clause([2, -2], check=False)
    res.append(('repeated-opposite', F))
    F = CNF()
    x = F.new_variable('x')
    y = F.new_variable('y_{1}')
    z = F.new_block(2, label='z_{{{}}}')
    w = F.new_variable('}w{{')
    F.add_clause([x, -y])
    F.add_clause([-x, z(1), w])
    F.add_clause([y, -z(2)])
    F.header['note'] = 'labelled {curly}'
    res.append(('labelled', F))
    # headers that already contain transformations, with gaps
    F = CNF([[1, 2], [-1], [-2, 1]], description='with history')
    F.header['transformation 1'] = 'first'
    F.header['transformation 2'] = 'second'
    res.append(('history12', F))
    F = CNF([[1, 2], [-1]])
    F.header['transformation 2'] = 'only second'
    F.header['transformation 1 '] = 'almost first'
    res.append(('history2', F))
    F = CNF([[1, -2], [2]])
    F.header['transformation 1'] = 'first'
    F.header['transformation 3'] = 'third'
    F.header['transformation {}'] = 'braces'
    res.append(('history13', F))
    return res


def bipartite(L, R, edges):
    B = BipartiteGraph(L, R)
    for u, v in edges:
        B.add_edge(u, v)
    return B


def all_transformations(name, F):
    n = F.number_of_variables()
    attempt('flip/' + name, S.FlipPolarity, F)
    attempt('ite/' + name, S.IfThenElseSubstitution, F)
    for k in (1, 2, 3):
        for fname in ('XorSubstitution', 'OrSubstitution', 'MajoritySubstitution',
                      'AllEqualSubstitution', 'NotAllEqualSubstitution',
                      'ExactlyOneSubstitution', 'FormulaLifting'):
            attempt('{}/{}/{}'.format(fname, k, name), getattr(S, fname), F, k)
        for fname in ('AtLeastKSubstitution', 'AtMostKSubstitution',
                      'ExactlyKSubstitution', 'AnythingButKSubstitution'):
            for c in (0, 1, k, k + 1):
                attempt('{}/{}/{}/{}'.format(fname, k, c, name),
                        getattr(S, fname), F, k, c)
    for op in ('==', '<', '>', '<=', '>=', '!=', '=', None):
        attempt('linear/{}/{}'.format(op, name), S.LinearSubstitution, F, 2, op, 1)
    for fname in ('XorSubstitution', 'OrSubstitution', 'MajoritySubstitution',
                  'AllEqualSubstitution', 'NotAllEqualSubstitution',
                  'ExactlyOneSubstitution', 'FormulaLifting'):
        for k in (0, -1, 1.5, '2', None):
            attempt('{}/bad{}/{}'.format(fname, k, name), getattr(S, fname), F, k)
    B = bipartite(n, 3, [(u, 1 + (u % 3)) for u in range(1, n + 1)]
                  + [(u, 1 + ((u + 1) % 3)) for u in range(1, n + 1)])
    for function in ('xor', 'maj', 'or'):
        attempt('comp/{}/{}'.format(function, name), S.VariableCompression, F, B, function)
    attempt('comp/wrong/' + name, S.VariableCompression, F, bipartite(n + 1, 2, []), 'xor')


def main():
    samples = sample_cnfs()
    for name, F in samples:
        all_transformations(name, F)

    # chains of transformations: the description numbering goes on
    for name, F in samples:
        G = S.XorSubstitution(F, 2)
        G = S.FlipPolarity(G)
        G = S.OrSubstitution(G, 1)
        random.seed(42)
        G = Shuffle(G)
        G = S.FormulaLifting(G, 2)
        observe('chain/' + name, G)
        emit('chain-rnd', random.random())

    # shuffling (shares the description bookkeeping)
    for name, F in samples:
        n = F.number_of_variables()
        m = F.number_of_clauses()
        for seed in (0, 1):
            random.seed(seed)
            attempt('shuffle/{}/{}'.format(seed, name), Shuffle, F)
            emit('shuffle-rnd', random.random())
        attempt('shuffle/fixed/' + name, Shuffle, F, 'fixed', 'fixed', 'fixed')
        attempt('shuffle/explicit/' + name, Shuffle, F,
                [-1] * n, list(range(n, 0, -1)), list(range(m - 1, -1, -1)))
        attempt('shuffle/badflip/' + name, Shuffle, F, [1] * (n + 1), 'fixed', 'fixed')
        attempt('shuffle/badperm/' + name, Shuffle, F, 'fixed', [1] * n + [7], 'fixed')
        attempt('shuffle/badclauses/' + name, Shuffle, F, 'fixed', 'fixed', [5] * (m + 1))
        random.seed(3)
        G = attempt('shuffle/twice/' + name, Shuffle, Shuffle(F))
        if G is not None:
            attempt('shuffle/then-xor/' + name, S.XorSubstitution, G, 2)

    # the helpers themselves, reached through the substitutions module
    for text in ('', 'x', '{', '}', '{}', 'x_{1}', '{{a}}', 'e_{{1,2}}', '}{'):
        emit('escape', text, S.escape_curly(text))
    F = CNF()
    for i in range(4):
        S.add_description(F, 'step {}'.format(i))
    F.header['transformation 7'] = 'seven'
    S.add_description(F, 'after gap')
    del F.header['transformation 2']
    S.add_description(F, 'refill {}')
    emit('add_description', list(F.header.items()))
    emit('public', sorted(n for n in dir(S) if not n.startswith('_')
                          and n in ('escape_curly', 'add_description', 'apply_substitution')))
    emit('toplevel', [hasattr(cnfgen, n) for n in
                      ('Shuffle', 'XorSubstitution', 'FlipPolarity', 'VariableCompression')])

    # command line, with all header and variable names in the output
    for T in (['xor', 2], ['or', 3], ['lift', 2], ['ite'], ['flip'], ['one', 2],
              ['atleast', 3, 2], ['anybut', 2, 1], ['eq', 2], ['neq', 3], ['maj', 3],
              ['shuffle'], ['shuffle', '-p', '-v'], ['xorcomp', 'complete', 6, 2]):
        for fmt in ('dimacs', 'latex'):
            argv = ['cnfgen', '--seed', 11, '-v', '--varnames', '-of', fmt,
                    'php', 3, 2, '-T'] + T + ['-T', 'flip', '-T', 'shuffle', '-c']
            so, se = io.StringIO(), io.StringIO()
            tag = 'cli/' + ' '.join(str(a) for a in argv)
            try:
                with redirect_stdout(so), redirect_stderr(se):
                    cnfgen_cli(argv, mode='output')
            except SystemExit as e:
                emit(tag, 'EXIT', e.code)
            except BaseException as e:  # noqa
                emit(tag, 'EXC', type(e).__name__, str(e))
            emit(tag, so.getvalue(), se.getvalue(), random.random())

    # the version string comes from `git describe`: it is not part of the behaviour
    from cnfgen.info import info
    text = '\n'.join(OUT).replace('CNFgen ({})'.format(info['version']), 'CNFgen (VERSION)')
    digest = hashlib.sha256(text.encode('utf-8')).hexdigest()
    print(digest)


if __name__ == '__main__':
    main()
