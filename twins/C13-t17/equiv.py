#!/usr/bin/env python
"""Equivalence digest for the t17 refactoring (cnfgen/families/randomkxor.py:
parity_satisfied, all_good_parities and the error path of sample_parities).

Calls the helpers directly (total / partial / odd shaped planted
assignments, all constants, boundary m around the exact number of good
parities, both error messages), then RandomKXOR on a grid of k, n, m,
seeds and planted sets, then the `randkxor` command line.  Prints one
SHA256 of everything observed, including the random stream afterwards.
"""
import sys, os, io, hashlib, random, itertools, contextlib
sys.path.insert(0, os.getcwd())

from cnfgen.formula.cnf import CNF
from cnfgen.formula.opb import OPB
from cnfgen.families.randomkxor import (RandomKXOR, sample_parities,
                                        all_good_parities, parity_satisfied)
from cnfgen.clitools.cnfgen import cli as cnfgen_cli

H = hashlib.sha256()
def emit(*xs):
    H.update((" ".join(repr(x) for x in xs) + "\n").encode())

def attempt(tag, f):
    try:
        emit(tag, 'ok', f())
    except SystemExit as e:
        emit(tag, 'exit', e.code)
    except Exception as e:
        emit(tag, 'exc', type(e).__name__, str(e))

def planted_for(n, seed, how_many):
    rng = random.Random(repr(seed))
    return [[rng.choice([-1, 1]) * v for v in range(1, n + 1)] for _ in range(how_many)]

# 1. parity_satisfied
assignment_sets = [
    [], [[]], [[1, 2, 3, 4]], [[-1, -2, -3, -4]], [[1, -2, 3, -4], [-1, 2, 3, 4]],
    [[1, -2]], [[1, -2, 3, -4], [1]], [[1], [1, -2, 3, -4]], [(1, -2, 3, -4)],
    [{1, -2, 3, -4}], [{1: True, -2: True, 3: True, -4: True}], [[1, -1, 2, -2, 3, 4]],
    [[1, 1, 2, 3, 4]], ([1, 2, -3, 4],), [[1, 2, 3, 4], [1, 2, 3, 4], [-1, 2, 3, 4]],
    [[0, 1, 2, 3, 4]], [[1.0, -2.0, 3, 4]], [5],
]
Xs = [(), (1,), (4,), (1, 2), (2, 3), (1, 2, 3), (1, 3, 4), (1, 2, 3, 4), [2, 4], (1, 1),
      (5,), (1, 5), (0,), (-1, 2)]
for A in assignment_sets:
    for X in Xs:
        for b in (0, 1, 2, -1, True, False, 1.0, None):
            attempt(('ps', X, b, A), lambda: parity_satisfied(X, b, A))
# assignments that are one-shot iterators
attempt('iter1', lambda: parity_satisfied((1, 2, 3), 0, [iter([1, -2, 3])]))
attempt('iter2', lambda: parity_satisfied((3, 1), 1, [iter([1, -2, 3])]))
attempt('iter3', lambda: parity_satisfied((1, 2), 1, iter([[1, -2], [-1, 2], [1, 2]])))

# 2. all_good_parities
for n in range(0, 6):
    for k in range(0, 7):
        for np_ in (0, 1, 2, 3):
            pl = planted_for(n, ('agp', n, k, np_), np_)
            attempt(('agp', k, n, np_), lambda: list(all_good_parities(k, n, pl)))
attempt('agp-partial', lambda: list(all_good_parities(2, 4, [[1, -2, 3]])))
attempt('agp-partial-ok', lambda: list(all_good_parities(2, 3, [[1, -2, 3, 7]])))
def lazy():
    g = all_good_parities(2, 4, [[1, -2, 3]])
    return [next(g), next(g), next(g)]
attempt('agp-lazy', lazy)

# 3. sample_parities, including both error messages
for n in range(0, 6):
    for k in range(0, n + 2):
        comb = len(list(itertools.combinations(range(n), k)))
        for np_ in (0, 1, 2):
            pl = planted_for(n, ('sp', n, k, np_), np_)
            good = len(list(all_good_parities(k, n, pl))) if k <= n else 0
            for m in sorted(set([0, 1, good - 1, good, good + 1, 2 * comb, 2 * comb + 1, 3 * comb + 2])):
                if m < 0:
                    continue
                for seed in (0, 7):
                    def run():
                        random.seed(seed)
                        r = sample_parities(k, n, m, pl)
                        return r, random.random()
                    attempt(('sp', k, n, m, np_, seed), run)
for pl in ((), [()], ([1, -2, 3, 4],), [[1, 2]], [[1, 2, 3, 4], [1, 2]]):
    for m in (0, 3, 12, 13, 24, 25):
        def run():
            random.seed(5)
            return sample_parities(2, 4, m, pl), random.random()
        attempt(('sp2', m, pl), run)
def gen_planted():
    random.seed(5)
    return sample_parities(2, 4, 30, (x for x in [[1, 2, 3, 4]]))
attempt('sp-gen', gen_planted)

# 4. RandomKXOR
for n in range(0, 7):
    for k in range(0, 8):
        full = 2 * len(list(itertools.combinations(range(n), k))) if k <= n else 0
        for m in sorted(set([0, 1, 2, full // 2, full - 1, full, full + 1, full + 5])):
            if m < 0:
                continue
            for seed in (0, 1, 'abc'):
                for np_ in (None, 0, 1, 2, 3):
                    pl = None if np_ is None else planted_for(n, (n, k, np_), np_)
                    def run():
                        F = RandomKXOR(k, n, m, seed=seed, planted_assignments=pl)
                        return (F.number_of_variables(), len(F), list(F), random.random())
                    attempt(('xor', k, n, m, seed, np_), run)
for args in [(-1, 3, 2), (2, -3, 1), (2, 3, -1), (2.0, 3, 1), ('2', 3, 1), (2, 3, None)]:
    attempt(('xorbad', args), lambda: list(RandomKXOR(*args, seed=5)))
attempt('partial', lambda: list(RandomKXOR(2, 4, 3, seed=3, planted_assignments=[[1, -2]])))
attempt('partial0', lambda: list(RandomKXOR(2, 4, 0, seed=3, planted_assignments=[[1, -2]])))
attempt('opb', lambda: list(RandomKXOR(3, 6, 5, seed=3, planted_assignments=planted_for(6, 'o', 2),
                                      formula_class=OPB)))
random.seed(77)
attempt('unseeded', lambda: (list(RandomKXOR(3, 9, 20)), random.random()))

# 5. command line
def run_cli(argv, mode):
    out, err = io.StringIO(), io.StringIO()
    with contextlib.redirect_stdout(out), contextlib.redirect_stderr(err):
        try:
            r = cnfgen_cli(argv, mode=mode)
            if mode == 'formula':
                r = (r.number_of_variables(), list(r))
            res = ('ok', r)
        except SystemExit as e:
            res = ('exit', e.code)
        except Exception as e:
            res = ('exc', type(e).__name__, str(e))
    emit('cli', argv, mode, res, out.getvalue(), err.getvalue())

for k, n, m in [(3, 10, 7), (1, 1, 2), (1, 1, 3), (2, 4, 12), (2, 4, 13), (5, 4, 1),
                (3, 5, 0), (4, 6, 9), (3, 5, 10), (3, 5, 11), (3, 5, 20), (3, 5, 21)]:
    for plant in ([], ['-p']):
        for seed in (1, 42):
            run_cli(['cnfgen', '-q', '--seed', seed, 'randkxor', k, n, m] + plant, 'string')
run_cli(['cnfgen', '--seed', 9, 'randkxor', 3, 6, 5, '-p'], 'output')

print(H.hexdigest())
