"""Equivalence harness for pseudo-Boolean constraint normalisation."""
import hashlib
import itertools
import random
import sys
import os

sys.path.insert(0, os.getcwd())

from cnfgen.formula.baseopb import BaseOPB, normalize_opb
from cnfgen.formula.opb import OPB

OUT = []


def rec(*items):
    OUT.append(repr(items))


def attempt(tag, fn):
    try:
        res = fn()
        rec(tag, 'ok', res)
    except Exception as e:  # noqa
        rec(tag, 'exc', type(e).__name__, str(e),
            type(e.__cause__).__name__ if e.__cause__ else None,
            str(e.__cause__) if e.__cause__ else None)


OPS = ['>=', '<=', '>', '<', '==', '!=', '=', None, 3]

# 1. direct normalisation, handcrafted
HAND = [
    [],
    ['>=', 0],
    ['<', 0],
    [(1, 1), '>=', 1],
    [(-1, 1), '>=', 1],
    [(0, 1), '>=', 0],
    [(0, -1), '<=', 0],
    [(1, 3), (-2, 2), (1, 4), '>', 3],
    [(1, 3), (2, 1), (3, -2), '>=', 3],
    [(1, 3), (2, 1), (-3, -2), '==', 3],
    [(2, -3), '<', 1],
    [(-5, 1), (-5, -1), '<=', -7],
    [(10**20, 1), (-10**20, 2), '<', -10**21],
    [(1, 1), (1, 1), (-1, 1), '>=', 1],
    [[1, 2], [-3, 4], '>=', 2],
    [[-1, 2], [-3, -4], '<=', 2],
    [(1.5, 2), (-2.5, 3), '<', 0.5],
    [(True, 2), (False, 3), '>', True],
    [(1, 2, 3), '>=', 1],
    [(1,), '>=', 1],
    [5, '>=', 1],
    [(-1, 'x'), '>=', 1],
    [(-1, None), '<=', 1],
    [('a', 1), '>=', 1],
    [(1, 1), '>=', 'v'],
    [(1, 1), '<', 'v'],
    [(-1, 1), '>=', 'v'],
    [(1, 1), '<=', None],
    [(-2, 0), '>=', 1],
]
for c in HAND:
    for wrap in (list, tuple):
        orig = wrap(c)
        keep = wrap(c)
        attempt(('hand', repr(c), wrap.__name__), lambda: normalize_opb(orig))
        rec('input-after', repr(orig), orig == keep)
for c in (None, 5, 'ab', 'a>=b', {1: 2}):
    attempt(('weird', repr(c)), lambda: normalize_opb(c))

# input must not be mutated; result must not alias the input's list
c = [(-1, 1), (2, -2), '<', 5]
r = normalize_opb(c)
rec('alias', c, r, r is c)
inner = [(-1, 1), (2, -2)]
c = inner + ['>=', 5]
r = normalize_opb(c)
rec('alias2', inner, c, r)

# 2. random constraints for every operator
rnd = random.Random(20240611)
for trial in range(1500):
    n = rnd.randint(0, 7)
    terms = [(rnd.randint(-6, 6), rnd.choice([-1, 1]) * rnd.randint(1, 8)) for _ in range(n)]
    op = rnd.choice(OPS[:5])
    val = rnd.randint(-15, 15)
    cons = terms + [op, val]
    attempt(('rnd', trial, cons), lambda: normalize_opb(list(cons)))

# 3. exhaustive semantic check: normalisation preserves the satisfying set
def evaluate(cons, a):
    lhs = 0
    for c, l in cons[:-2]:
        if a[abs(l) - 1] == (l > 0):
            lhs += c
    op, v = cons[-2], cons[-1]
    return {'>=': lhs >= v, '<=': lhs <= v, '>': lhs > v, '<': lhs < v, '==': lhs == v}[op]

for n in range(0, 4):
    for coeffs in itertools.product([-2, -1, 0, 1, 3], repeat=n):
        for pol in itertools.product([1, -1], repeat=n):
            terms = [(c, p * (i + 1)) for i, (c, p) in enumerate(zip(coeffs, pol))]
            for op in OPS[:5]:
                for val in range(-4, 6):
                    cons = terms + [op, val]
                    norm = normalize_opb(list(cons))
                    same = all(evaluate(cons, a) == evaluate(norm, a)
                               for a in itertools.product([False, True], repeat=n))
                    good = all(c >= 0 for c, _ in norm[:-2]) and norm[-2] in ('>=', '==')
                    rec('sem', cons, norm, same, good)

# 4. through the formula objects
for cls in (BaseOPB, OPB):
    for c in HAND:
        for check in (True, False):
            F = cls()
            attempt((cls.__name__, 'add', repr(c), check), lambda: F.add_constraint(list(c), check=check))
            rec('state', F.number_of_variables(), list(F))
        attempt((cls.__name__, 'init', repr(c)), lambda: list(cls([list(c)])))
    F = cls()
    rnd = random.Random(99)
    batch = []
    for trial in range(60):
        n = rnd.randint(0, 5)
        terms = [(rnd.randint(-4, 4), rnd.choice([-1, 1]) * rnd.randint(1, 9)) for _ in range(n)]
        batch.append(terms + [rnd.choice(OPS[:5]), rnd.randint(-6, 9)])
    attempt((cls.__name__, 'batch'), lambda: F.add_constraints_from(batch))
    rec('state', F.number_of_variables(), list(F), str(F), F.debug(), F.debug(True, True))
    if hasattr(F, 'to_opb'):
        attempt('to_opb', F.to_opb)
    if hasattr(F, 'to_latex'):
        attempt('to_latex', F.to_latex)

    # the cardinality / majority builders go through the normalisation
    for lits in ([], [1], [-1, 2], [1, -2, 3], (4, 5, -6, 7), range(1, 6), (x for x in [2, -3, 5, 7])):
        lits = list(lits)
        for k in (-2, -1, 0, 1, 2, 3, len(lits), len(lits) + 1, 9):
            for name in ('cardinality_geq', 'cardinality_leq', 'cardinality_eq', 'cardinality_neq'):
                for w in (list, tuple, iter):
                    F = cls()
                    attempt((cls.__name__, name, lits, k, w.__name__), lambda: getattr(F, name)(w(lits), k))
                    rec('state', F.number_of_variables(), list(F))
        for name in ('add_loose_majority', 'add_loose_minority', 'add_strict_majority', 'add_strict_minority'):
            for w in (list, tuple, iter):
                F = cls()
                attempt((cls.__name__, name, lits, w.__name__), lambda: getattr(F, name)(w(lits)))
                rec('state', F.number_of_variables(), list(F))

# 5. mappings on OPB
for n, m in [(0, 0), (1, 1), (3, 2), (2, 4), (4, 3)]:
    F = OPB()
    f = F.new_mapping(n, m)
    F.force_complete_mapping(f)
    F.force_functional_mapping(f)
    F.force_injective_mapping(f)
    F.force_surjective_mapping(f)
    F.force_nondecreasing_mapping(f)
    rec('mapping', n, m, F.to_opb())

# 6. pbgen command line
from cnfgen.clitools.pbgen import cli as pbgen_cli
import io
import contextlib
for argv in [['pbgen', '-q', 'php', '4', '3'],
             ['pbgen', '-q', 'subsetcard', 'complete', '3', '4'] ,
             ['pbgen', '-q', 'vertexcover', '2', 'complete', '4'],
             ['pbgen', '-q', '--seed', '4', 'randkcnf', '3', '6', '8'],
             ['pbgen', '-q', 'matching', 'grid', '2', '3']]:
    buf = io.StringIO()
    err = io.StringIO()
    try:
        with contextlib.redirect_stdout(buf), contextlib.redirect_stderr(err):
            pbgen_cli(argv)
        rec('cli', argv, buf.getvalue())
    except SystemExit as e:
        rec('cli-exit', argv, e.code, buf.getvalue(), err.getvalue()[-300:])
    except Exception as e:
        rec('cli-exc', argv, type(e).__name__, str(e))

h = hashlib.sha256()
for line in OUT:
    h.update(line.encode('utf-8'))
    h.update(b'\n')
print(h.hexdigest())
if os.environ.get('EQUIV_DEBUG'):
    print(len(OUT))
    for l in OUT:
        if l.startswith("('cli") or l.startswith("('mapping") or 'False, ' in l and l.startswith("('sem"):
            print(l[:220])
