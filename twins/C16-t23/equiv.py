#!/usr/bin/env python
"""Equivalence script for C16/t23: edge listings of simple and directed graphs
(GraphEdgeList / DirectedEdgeList iteration, in both orders) and
Graph.complete_graph, under random update sequences."""
import os
import sys
import random
import hashlib

sys.path.insert(0, os.getcwd())

from cnfgen.graphs import Graph, DirectedGraph, BipartiteGraph  # noqa: E402
from cnfgen.graphs import CompleteBipartiteGraph  # noqa: E402

OUT = []


def emit(*args):
    OUT.append(repr(args))


def attempt(label, fn, *args):
    try:
        emit(label, args, 'ok', fn(*args))
    except Exception as e:  # noqa
        emit(label, args, 'exc', type(e).__name__, str(e))


WEIRD = [0, -1, 1.0, 2.5, True, None, 'a', (1, 2), 10**9]


def rand_arg(n, rng):
    r = rng.random()
    if r < 0.8:
        return rng.randint(1, max(n, 1))
    if r < 0.93:
        return rng.randint(-2, n + 3)
    return rng.choice(WEIRD)


def listing(E, rng, n):
    """Everything observable about an edge list object"""
    it = iter(E)
    emit('itertype', type(it).__name__, iter(it) is it)
    first = list(it)
    emit('edges', first, len(E), list(E) == first, sorted(first) == first,
         len(set(first)) == len(first))
    # partial consumption and independent iterators
    a, b = iter(E), iter(E)
    got = []
    for _ in range(3):
        got.append((next(a, 'end'), next(b, 'end')))
    emit('partial', got, list(a), list(b))
    probes = [(rand_arg(n, rng), rand_arg(n, rng)) for _ in range(6)]
    probes += [(1,), (1, 2, 3), (), [1, 2], 'ab']
    for p in probes:
        attempt('contains', E.__contains__, p)
    attempt('contains int', E.__contains__, 5)


def dump_simple(G, rng):
    n = G.number_of_vertices()
    emit('n', n, 'm', G.number_of_edges())
    listing(G.edges(), rng, n)
    emit('adj', [list(G.neighbors(v)) for v in G.vertices()],
         [G.degree(v) for v in G.vertices()])
    N = G.to_networkx()
    emit('nx', sorted(N.nodes()), sorted(N.edges()))


def dump_directed(D, rng):
    n = D.number_of_vertices()
    emit('n', n, 'm', D.number_of_edges(), 'dag', D.is_dag())
    listing(D.edges(), rng, n)
    listing(D.edges_ordered_by_successors(), rng, n)
    emit('adj', [list(D.predecessors(v)) for v in D.vertices()],
         [list(D.successors(v)) for v in D.vertices()],
         [D.in_degree(v) for v in D.vertices()],
         [D.out_degree(v) for v in D.vertices()])
    N = D.to_networkx()
    emit('nx', sorted(N.nodes()), sorted(N.edges()))


def run_simple(seed):
    rng = random.Random(seed)
    n = rng.choice([0, 1, 2, 3, 5, 8, 13])
    G = Graph(n)
    emit('simple', seed, n)
    for step in range(rng.randint(0, 45)):
        op = rng.random()
        n = G.number_of_vertices()
        if op < 0.55:
            attempt('add_edge', G.add_edge, rand_arg(n, rng), rand_arg(n, rng))
        elif op < 0.75:
            attempt('remove_edge', G.remove_edge, rand_arg(n, rng), rand_arg(n, rng))
        elif op < 0.85:
            attempt('update_vertex_number', G.update_vertex_number,
                    rng.choice([n, n + 1, n + 3, n - 1, 0, -1, 2.0, 'x']))
        else:
            es = [(rand_arg(n, rng), rand_arg(n, rng)) for _ in range(rng.randint(0, 4))]
            attempt('add_edges_from', G.add_edges_from, es)
        if step % 6 == 0:
            dump_simple(G, rng)
    dump_simple(G, rng)
    # an iterator created before an update sees the vertex count of its first step
    it = iter(G.edges())
    G.update_vertex_number(G.number_of_vertices() + 2)
    k = G.number_of_vertices()
    G.add_edge(k - 1, k)
    emit('stale iterator', list(it), list(G.edges()))
    dump_simple(Graph.from_networkx(G.to_networkx()), rng)


def run_directed(seed):
    rng = random.Random(seed)
    n = rng.choice([0, 1, 2, 3, 5, 8, 13])
    D = DirectedGraph(n)
    emit('directed', seed, n)
    forward_only = rng.random() < 0.4
    for step in range(rng.randint(0, 45)):
        op = rng.random()
        if op < 0.8:
            u, v = rand_arg(n, rng), rand_arg(n, rng)
            if forward_only and isinstance(u, int) and isinstance(v, int) and u > v:
                u, v = v, u
            attempt('add_edge', D.add_edge, u, v)
        else:
            es = [(rand_arg(n, rng), rand_arg(n, rng)) for _ in range(rng.randint(0, 4))]
            attempt('add_edges_from', D.add_edges_from, es)
        if step % 6 == 0:
            dump_directed(D, rng)
    dump_directed(D, rng)
    dump_directed(DirectedGraph.from_networkx(D.to_networkx()), rng)


for s in range(100):
    run_simple(s)
    run_directed(5000 + s)

rng = random.Random(99)
for n in [0, 1, 2, 3, 4, 7, 12]:
    K = Graph.complete_graph(n)
    emit('complete', n, K.name)
    dump_simple(K, rng)
    S = Graph.star_graph(n)
    emit('star', n, S.name)
    dump_simple(S, rng)
for bad in [-1, 2.0, 'x', None]:
    attempt('complete bad', lambda b: Graph.complete_graph(b).number_of_edges(), bad)

# subclasses keep working with the inherited constructors and listings
class Traced(Graph):
    def add_edge(self, u, v):
        emit('traced add', u, v)
        Graph.add_edge(self, u, v)


T = Traced.complete_graph(4)
emit('traced', type(T).__name__, list(T.edges()))

for L, R in [(0, 0), (2, 3), (4, 1)]:
    B = BipartiteGraph(L, R)
    for u in range(1, L + 1):
        for v in range(R, 0, -1):
            if (u + v) % 2:
                B.add_edge(u, v)
    emit('bip', L, R, list(B.edges()), len(B.edges()))
    C = CompleteBipartiteGraph(L, R)
    emit('cbip', L, R, list(C.edges()), len(C.edges()))

print(hashlib.sha256('\n'.join(OUT).encode('utf-8')).hexdigest())
