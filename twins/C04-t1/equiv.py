#!/usr/bin/env python
"""Equivalence harness for CNFLinear.add_linear and its wrappers (property C04).

Run as:  cd <checkout> && /venv/bin/python equiv.py
Prints one SHA256 digest of everything observable.
"""
import sys
import os
import hashlib
import itertools
import random

sys.path.insert(0, os.getcwd())

from cnfgen.formula.linear import CNFLinear
from cnfgen.formula.cnf import CNF

H = hashlib.sha256()
NREC = 0


def rec(*items):
    global NREC
    NREC += 1
    H.update(repr(items).encode('utf-8'))
    H.update(b'\n')


def attempt(tag, fn):
    try:
        res = fn()
        rec(tag, 'ok', res)
    except Exception as e:  # noqa
        cause = e.__cause__
        rec(tag, 'exc', type(e).__name__, str(e),
            None if cause is None else (type(cause).__name__, str(cause)))


def snapshot(F):
    return (list(list(c) for c in F), F.number_of_variables(), len(F))


OPS = ['<=', '>=', '<', '>', '==', '!=']


def containers(lits):
    """the same literal sequence as list, tuple, generator (and range when possible)"""
    yield 'list', lambda: list(lits)
    yield 'tuple', lambda: tuple(lits)
    yield 'gen', lambda: (l for l in lits)
    yield 'iter', lambda: iter(list(lits))
    if len(lits) > 0 and list(lits) == list(range(lits[0], lits[0] + len(lits))):
        yield 'range', lambda: range(lits[0], lits[0] + len(lits))


def literal_lists():
    yield []
    for n in range(1, 6):
        base = list(range(1, n + 1))
        yield base
        yield [-l for l in base]
        yield [l if i % 2 else -l for i, l in enumerate(base)]
        yield [l + 7 for l in base]
    yield [3, -1, 9, -4]
    yield [5, 5, -5]          # repetitions and opposite literals
    yield [2, 4, 6, 8, 10, 12]
    yield [-12, 11, -10, 9, -8, 7, -6]


def run_linear(cls):
    for lits in literal_lists():
        n = len(lits)
        for op in OPS:
            for const in range(-2, n + 3):
                for cname, mk in containers(lits):
                    for check in (True, False):
                        def go():
                            F = cls()
                            orig = mk()
                            r = F.add_linear(orig, op, const, check=check)
                            # the input container must be left as it was
                            after = list(orig) if isinstance(orig, (list, tuple, range)) else None
                            return (r, snapshot(F), after)
                        attempt((cls.__name__, 'add_linear', lits, op, const, cname, check), go)


def run_wrappers(cls):
    names = ['cardinality_geq', 'cardinality_leq', 'cardinality_eq', 'cardinality_neq']
    for lits in literal_lists():
        n = len(lits)
        for name in names:
            for const in range(-2, n + 3):
                for cname, mk in containers(lits):
                    def go():
                        F = cls()
                        r = getattr(F, name)(mk(), const)
                        return (r, snapshot(F))
                    attempt((cls.__name__, name, lits, const, cname), go)
        for name in ['add_loose_majority', 'add_loose_minority',
                     'add_strict_majority', 'add_strict_minority']:
            for cname, mk in containers(lits):
                for check in (True, False):
                    def go():
                        F = cls()
                        r = getattr(F, name)(mk(), check=check)
                        return (r, snapshot(F))
                    attempt((cls.__name__, name, lits, cname, check), go)
        for const in (0, 1, 2, -1, True, False):
            for cname, mk in containers(lits):
                def go():
                    F = cls()
                    r = F.add_parity(mk(), const)
                    return (r, snapshot(F))
                attempt((cls.__name__, 'add_parity', lits, const, cname), go)


def run_bad_inputs(cls):
    bad_lits = [[0], [1, 0, 2], ['a', 'b'], [1, 'a'], [None], [1.5, 2], [1, None, 3],
                [[1], [2]], 'abc', 5, None, {1, 2}, {1: 2, 3: 4}, [True, False]]
    for lits in bad_lits:
        for op in OPS + ['=', '=<', '', None, 'foo']:
            for const in (-1, 0, 1, 2, 5):
                for check in (True, False):
                    def go():
                        F = cls()
                        r = F.add_linear(lits, op, const, check=check)
                        return (r, snapshot(F))
                    attempt((cls.__name__, 'bad', repr(lits), op, const, check), go)
    for const in (1.0, 1.5, '1', None, [1], True, 10**20, -10**20):
        for op in OPS:
            for check in (True, False):
                def go():
                    F = cls()
                    r = F.add_linear([1, -2, 3], op, const, check=check)
                    return (r, snapshot(F))
                attempt((cls.__name__, 'badconst', repr(const), op, check), go)


def run_accumulate(cls):
    """Many constraints on the same formula, random but seeded."""
    rng = random.Random(20404)
    F = cls()
    for step in range(400):
        n = rng.randint(0, 7)
        vs = rng.sample(range(1, 15), n)
        lits = [v if rng.random() < 0.5 else -v for v in vs]
        op = rng.choice(OPS)
        const = rng.randint(-2, n + 2)
        kind = rng.randint(0, 2)
        arg = lits if kind == 0 else (tuple(lits) if kind == 1 else (l for l in lits))
        attempt(('acc', step, lits, op, const, kind),
                lambda: F.add_linear(arg, op, const, check=rng.random() < 0.7))
        rec('acc-len', len(F), F.number_of_variables())
    rec('acc-final', snapshot(F))
    if hasattr(F, 'to_dimacs'):
        rec('acc-dimacs', F.to_dimacs())


def run_semantics():
    """Brute force: the clauses accept exactly the assignments satisfying the condition."""
    import operator
    pyop = {'<=': operator.le, '>=': operator.ge, '<': operator.lt,
            '>': operator.gt, '==': operator.eq, '!=': operator.ne}
    for n in range(0, 6):
        for pattern in itertools.product([1, -1], repeat=n):
            if n >= 4 and pattern not in [tuple([1] * n), tuple([-1] * n),
                                          tuple((-1) ** i for i in range(n))]:
                continue
            lits = [s * (i + 1) for i, s in enumerate(pattern)]
            for op in OPS:
                for const in range(-2, n + 3):
                    F = CNFLinear()
                    F.add_linear(lits, op, const)
                    models = []
                    for bits in itertools.product([False, True], repeat=n):
                        val = lambda l: bits[abs(l) - 1] == (l > 0)
                        ok = all(any(val(l) for l in c) for c in F)
                        models.append(ok)
                        s = sum(1 for l in lits if val(l))
                        assert ok == pyop[op](s, const), (lits, op, const, bits)
                    rec('sem', lits, op, const, models)


for klass in (CNFLinear, CNF):
    run_linear(klass)
    run_wrappers(klass)
    run_bad_inputs(klass)
    run_accumulate(klass)
run_semantics()

rec('count', NREC)
print(H.hexdigest())
