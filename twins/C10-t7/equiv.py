#!/usr/bin/env python
"""Equivalence script for the refactoring of cnfgen.utils.parsedimacs.from_dimacs_file
(the reader behind CNF.from_file and the `cnfshuffle` tool).

Run as:  cd <checkout> && /venv/bin/python equiv.py
Prints one SHA256 digest of everything observed.
"""
import os
import io
import sys
import random
import hashlib
import tempfile
import contextlib

sys.path.insert(0, os.getcwd())

import cnfgen
from cnfgen.formula.cnf import CNF
from cnfgen.formula.basecnf import BaseCNF
from cnfgen.formula.cnfio import CNFio
from cnfgen.utils.parsedimacs import from_dimacs_file, parse_dimacs, to_dimacs_file
from cnfgen.clitools import cnfshuffle as cnfshuffle_cli

H = hashlib.sha256()
from cnfgen.info import info as _info
GENERATOR = "{project} ({version})".format(**_info)


def rec(*items):
    line = ' '.join(repr(x) for x in items)
    # the header of a formula quotes `git describe` of the checkout: mask it
    line = line.replace(GENERATOR, 'CNFgen (<version>)')
    H.update(line.encode('utf-8'))
    H.update(b'\n')


def dump(tag, F):
    rec(tag, 'class', type(F).__name__)
    rec(tag, 'n', F.number_of_variables(), 'm', F.number_of_clauses())
    rec(tag, 'header', list((k, str(v)) for k, v in F.header.items()))
    rec(tag, 'labels', list(F.all_variable_labels()))
    clauses = [list(c) for c in F]
    rec(tag, 'clauses', clauses)
    n = F.number_of_variables()
    rec(tag, 'in range', all(isinstance(l, int) and l != 0 and 1 <= abs(l) <= n
                             for c in clauses for l in c))
    out = io.StringIO()
    to_dimacs_file(F, out, export_header=True, export_varnames=True)
    rec(tag, 'dimacs', out.getvalue())


def attempt(tag, fn):
    try:
        res = fn()
    except BaseException as e:  # noqa
        rec(tag, 'EXC', type(e).__name__, str(e))
        return None
    if isinstance(res, BaseCNF):
        dump(tag, res)
    else:
        rec(tag, 'OK', res)
    return res


class Named(io.StringIO):
    """file object with a name"""
    def __init__(self, text, name):
        io.StringIO.__init__(self, text)
        self.name = name


class NameRaises(io.StringIO):
    """file object whose name attribute lookup fails in a chosen way"""
    def __init__(self, text, exc):
        io.StringIO.__init__(self, text)
        self._exc = exc

    @property
    def name(self):
        raise self._exc


class OnlyReadlines:
    """minimal file-like object, no name at all"""
    def __init__(self, text):
        self._lines = text.splitlines(True)

    def readlines(self):
        return self._lines


class GetattrName:
    """name provided through __getattr__"""
    def __init__(self, text):
        self._lines = text.splitlines(True)

    def readlines(self):
        return self._lines

    def __getattr__(self, attr):
        if attr == 'name':
            return 'dynamic-name'
        raise AttributeError(attr)


def texts():
    random.seed(99)
    T = []
    T.append(('empty formula', 'p cnf 0 0\n'))
    T.append(('vars only', 'p cnf 7 0\n'))
    T.append(('simple', 'c comment\np cnf 4 3\n1 -2 0\n3 4 0\n-1 -4 0\n'))
    T.append(('empty clause', 'p cnf 3 2\n0\n1 2 3 0\n'))
    T.append(('multi line clause', 'p cnf 5 2\n1 2\n3\n 4 0 5\n0\n'))
    T.append(('two per line', 'p cnf 3 3\n1 0 2 0\n-3 0\n'))
    T.append(('blank lines comments', '\n\nc a\n\np cnf 2 1\nc inside\n\n1 -2 0\n\n'))
    T.append(('crlf', 'p cnf 2 2\r\n1 0\r\n-2 0\r\n'))
    T.append(('max var unused', 'p cnf 100 1\n1 -1 0\n'))
    T.append(('php', cnfgen.PigeonholePrinciple(8, 6).to_dimacs()))
    T.append(('rand', cnfgen.RandomKCNF(4, 60, 250, seed=3).to_dimacs()))
    out = io.StringIO()
    to_dimacs_file(cnfgen.OrderingPrinciple(7), out, export_header=True, export_varnames=True)
    T.append(('op with header', out.getvalue()))
    # broken ones
    T.append(('nothing', ''))
    T.append(('only comments', 'c a\nc b\n'))
    T.append(('no spec', '1 2 0\n'))
    T.append(('two specs', 'p cnf 2 1\np cnf 2 1\n1 0\n'))
    T.append(('bad spec words', 'p cnf two 1\n1 0\n'))
    T.append(('bad spec short', 'p cnf 2\n1 0\n'))
    T.append(('bad spec long', 'p cnf 2 1 7\n1 0\n'))
    T.append(('negative spec', 'p cnf -2 1\n1 0\n'))
    T.append(('lit too large', 'p cnf 3 2\n1 2 0\n2 4 0\n'))
    T.append(('lit too negative', 'p cnf 3 2\n1 2 0\n2 -4 0\n'))
    T.append(('lit not int', 'p cnf 3 2\n1 2 0\n2 x 0\n'))
    T.append(('lit float', 'p cnf 3 1\n1 2.0 0\n'))
    T.append(('good then bad same line', 'p cnf 3 2\n1 0 9 0\n'))
    T.append(('incomplete last', 'p cnf 3 2\n1 2 0\n2 3\n'))
    T.append(('too few clauses', 'p cnf 3 3\n1 2 0\n2 3 0\n'))
    T.append(('too many clauses', 'p cnf 3 1\n1 2 0\n2 3 0\n'))
    T.append(('zero vars with literal', 'p cnf 0 1\n1 0\n'))
    T.append(('percent trailer', 'p cnf 2 1\n1 2 0\n%\n0\n'))
    return T


def main():
    T = texts()

    for name, text in T:
        for cls in (CNF, CNFio, BaseCNF):
            tag = '%s %s' % (cls.__name__, name)
            attempt(tag + ' stringio', lambda: from_dimacs_file(cls, io.StringIO(text)))
            attempt(tag + ' named', lambda: from_dimacs_file(cls, Named(text, 'some/path/f.cnf')))
        attempt(name + ' named empty', lambda: from_dimacs_file(CNF, Named(text, '')))
        attempt(name + ' named int', lambda: from_dimacs_file(CNF, Named(text, 42)))
        attempt(name + ' named None', lambda: from_dimacs_file(CNF, Named(text, None)))
        attempt(name + ' name attrerr', lambda: from_dimacs_file(CNF, NameRaises(text, AttributeError('nope'))))
        attempt(name + ' name valerr', lambda: from_dimacs_file(CNF, NameRaises(text, ValueError('bad name'))))
        attempt(name + ' name keyerr', lambda: from_dimacs_file(CNF, NameRaises(text, KeyError('k'))))
        attempt(name + ' minimal', lambda: from_dimacs_file(CNF, OnlyReadlines(text)))
        attempt(name + ' getattr', lambda: from_dimacs_file(CNF, GetattrName(text)))
        attempt(name + ' classmethod', lambda: CNF.from_file(io.StringIO(text)))
        attempt(name + ' bytes', lambda: from_dimacs_file(CNF, io.BytesIO(text.encode('ascii'))))

        # standard input, both with the default and with an explicit None
        old_stdin = sys.stdin
        try:
            sys.stdin = io.StringIO(text)
            attempt(name + ' stdin default', lambda: from_dimacs_file(CNF))
            sys.stdin = io.StringIO(text)
            attempt(name + ' stdin None', lambda: CNF.from_file(None))
            sys.stdin = Named(text, 'fake-stdin-name')
            attempt(name + ' stdin named', lambda: from_dimacs_file(CNF, None))
        finally:
            sys.stdin = old_stdin

        # the parser alone
        def consume():
            seen = []
            try:
                for x in parse_dimacs(io.StringIO(text)):
                    seen.append(x)
            except ValueError as e:
                seen.append(('ValueError', str(e)))
            return seen
        attempt(name + ' parse', consume)

        # the command line tool
        old_stdin = sys.stdin
        out, err = io.StringIO(), io.StringIO()
        try:
            sys.stdin = io.StringIO(text)
            with contextlib.redirect_stdout(out), contextlib.redirect_stderr(err):
                attempt(name + ' cnfshuffle', lambda: cnfshuffle_cli(
                    ['cnfshuffle', '--seed', '5'], mode='string'))
                sys.stdin = io.StringIO(text)
                attempt(name + ' cnfshuffle formula', lambda: cnfshuffle_cli(
                    ['cnfshuffle', '--seed', '5', '-p', '-v', '-c'], mode='formula'))
        finally:
            sys.stdin = old_stdin
        rec(name, 'cli streams', out.getvalue(), err.getvalue())

    # other kinds of argument
    attempt('arg int', lambda: from_dimacs_file(CNF, 17))
    attempt('arg list', lambda: from_dimacs_file(CNF, ['p cnf 1 1\n', '1 0\n']))
    attempt('arg bytes name', lambda: from_dimacs_file(CNF, b'file.cnf'))
    attempt('arg missing file', lambda: from_dimacs_file(CNF, 'this/file/does/not/exist.cnf'))
    attempt('arg directory', lambda: from_dimacs_file(CNF, '.'))
    attempt('arg empty name', lambda: from_dimacs_file(CNF, ''))
    attempt('class not formula', lambda: from_dimacs_file(dict, io.StringIO('p cnf 1 1\n1 0\n')))

    # file names: work inside a scratch directory with fixed relative names
    here = os.getcwd()
    with tempfile.TemporaryDirectory() as tmp:
        os.chdir(tmp)
        try:
            for i, (name, text) in enumerate(T):
                fname = 'input%d.cnf' % i
                with open(fname, 'w', encoding='utf-8') as f:
                    f.write(text)
                attempt(name + ' filename', lambda: from_dimacs_file(CNF, fname))
                attempt(name + ' filename classmethod', lambda: CNFio.from_file(fname))
                with open(fname, 'r', encoding='utf-8') as f:
                    attempt(name + ' real file object', lambda: from_dimacs_file(CNF, f))
                out, err = io.StringIO(), io.StringIO()
                with contextlib.redirect_stdout(out), contextlib.redirect_stderr(err):
                    attempt(name + ' cnfshuffle -i', lambda: cnfshuffle_cli(
                        ['cnfshuffle', '--seed', '8', '-i', fname], mode='string'))
                rec(name, 'cli -i streams', out.getvalue(), err.getvalue())
                # round trip
                F = attempt(name + ' roundtrip read', lambda: CNF.from_file(fname))
                if F is not None:
                    F.to_file('copy%d.cnf' % i)
                    attempt(name + ' roundtrip again', lambda: CNF.from_file('copy%d.cnf' % i))
        finally:
            os.chdir(here)

    print(H.hexdigest())


if __name__ == '__main__':
    main()
