#!/usr/bin/env python
"""Equivalence script for refactoring t22 (property C10).

Exercises Shuffle and all the substitutions (in particular the header
bookkeeping 'transformation <i>' that both share), alone, chained, via
`cnfgen -T ...` and via `cnfshuffle`.  Prints one SHA256 digest.
"""
import sys
import os
import io
import random
import hashlib
import contextlib
from collections import OrderedDict

sys.path.insert(0, os.getcwd())

import networkx
import cnfgen
from cnfgen.formula.cnf import CNF
from cnfgen.transformations import shuffle as shuffle_mod
from cnfgen.transformations import substitutions as subst_mod
from cnfgen.transformations.shuffle import Shuffle
from cnfgen.transformations.substitutions import add_description
from cnfgen.clitools.cnfgen import cli as cnfgen_cli
from cnfgen.clitools.cnfshuffle import cli as cnfshuffle_cli
from cnfgen.clitools.cmdline import redirect_stdin

LOG = []


def rec(*items):
    LOG.append(repr(items))


def attempt(tag, fn, *args, **kwargs):
    try:
        res = fn(*args, **kwargs)
        rec(tag, 'ok', res)
        return res
    except SystemExit as e:
        rec(tag, 'exit', e.code)
    except BaseException as e:
        chain = []
        c = e
        while c is not None:
            chain.append((type(c).__name__, str(c)))
            c = c.__cause__
        rec(tag, 'exc', chain)
    return None


def dump(tag, F):
    n = F.number_of_variables()
    owned = all(isinstance(l, int) and 0 < abs(l) <= n for cls in F for l in cls)
    rec(tag, n, len(F), owned, list(F.header.items()), type(F.header).__name__)
    rec(tag, hashlib.sha256(F.to_dimacs().encode()).hexdigest())
    rec(tag, hashlib.sha256("\n".join(F.all_variable_labels()).encode()).hexdigest())


def formulas():
    yield 'empty', CNF()
    yield 'novars', CNF([[]])
    yield 'unit', CNF([[1]])
    yield 'small', CNF([[1, -2], [2, 3, -4], [], [-1]], description='small one')
    F = CNF([[1, 2], [-3]])
    F.update_variable_number(6)
    yield 'spare', F
    yield 'php', cnfgen.PigeonholePrinciple(6, 4)
    yield 'op', cnfgen.OrderingPrinciple(6)
    yield 'rand', cnfgen.RandomKCNF(3, 40, 150, seed=9)
    G = cnfgen.Graph.from_networkx(networkx.random_regular_graph(3, 12, seed=3))
    yield 'tseitin', cnfgen.TseitinFormula(G)


# 1. the helper itself
for hdr in [[], [('transformation 1', 'a')], [('transformation 2', 'b')],
            [('transformation 1', 'a'), ('transformation 2', 'b'), ('transformation 4', 'd')],
            [('description', 'x'), ('transformation 1', 'a')]]:
    F = CNF()
    F.header = OrderedDict(hdr)
    add_description(F, 'first')
    add_description(F, 'second')
    rec('helper', list(F.header.items()))
    F.header = dict(hdr)
    add_description(F, 'third')
    rec('helper-dict', list(F.header.items()))
attempt('helper-bad', add_description, object(), 'x')
rec('same-object', subst_mod.add_description.__name__,
    getattr(shuffle_mod, 'Shuffle').__name__)

# 2. Shuffle, every mode, random stream checked after each call
for name, F in formulas():
    N = F.number_of_variables()
    M = len(F)
    rng = random.Random(name)
    perm = list(range(1, N + 1))
    rng.shuffle(perm)
    cperm = list(range(M))
    rng.shuffle(cperm)
    flips = [rng.choice([-1, 1]) for _ in range(N)]
    specs = [
        ('shuffle', 'shuffle', 'shuffle'),
        ('fixed', 'fixed', 'fixed'),
        ('fixed', 'shuffle', 'fixed'),
        ('shuffle', 'fixed', 'fixed'),
        ('fixed', 'fixed', 'shuffle'),
        (flips, perm, cperm),
        (flips, 'fixed', cperm),
        (tuple(flips), tuple(perm), tuple(cperm)),
        (flips + [1], perm, cperm),
        (flips, perm + [N + 1], cperm),
        (flips, perm, cperm + [M]),
        ([2] * N, perm, cperm),
        ([0] * N, 'fixed', 'fixed'),
        (flips, [1] * N, cperm),
        (flips, list(range(N)), cperm),
        (flips, perm, [0] * M),
        (flips, perm, list(range(1, M + 1))),
        ('other', 'fixed', 'fixed'),
        ('fixed', 'other', 'fixed'),
        ('fixed', 'fixed', 'other'),
        (None, 'fixed', 'fixed'),
    ]
    for i, (p, v, c) in enumerate(specs):
        random.seed(1000 + i)
        G = attempt((name, i, 'shuffle'), lambda: str(Shuffle(F, p, v, c)))
        rec(name, i, 'stream', random.random())
        random.seed(1000 + i)
        try:
            G = Shuffle(F, p, v, c)
        except BaseException:
            continue
        dump((name, i), G)
        rec(name, i, 'orig header untouched', list(F.header.items()))
    # defaults + repeated shuffles number the transformations 1, 2, 3
    random.seed(5)
    G = Shuffle(Shuffle(Shuffle(F)))
    dump((name, 'triple'), G)
    # formula with no description, and with a gap in the numbering
    H = CNF(list(F))
    H.update_variable_number(N)
    H.header = OrderedDict([('transformation 2', 'gap'), ('url', 'u')])
    random.seed(6)
    dump((name, 'gap'), Shuffle(H))
    H.header = OrderedDict()
    random.seed(7)
    dump((name, 'nohdr'), Shuffle(H))
    H.header = {'transformation 1': 'plain dict', 'description': 'd'}
    random.seed(8)
    dump((name, 'dicthdr'), Shuffle(H, 'fixed', 'shuffle', 'shuffle'))

# 3. every substitution, alone and chained with shuffle (header numbering)
B = cnfgen.BipartiteGraph(12, 7)
rb = random.Random(31)
for u in range(1, 13):
    for v in rb.sample(range(1, 8), 3):
        B.add_edge(u, v)
transformations = [
    ('flip', lambda F: cnfgen.FlipPolarity(F)),
    ('xor3', lambda F: cnfgen.XorSubstitution(F, 3)),
    ('or2', lambda F: cnfgen.OrSubstitution(F, 2)),
    ('one3', lambda F: cnfgen.ExactlyOneSubstitution(F, 3)),
    ('maj3', lambda F: cnfgen.MajoritySubstitution(F, 3)),
    ('eq3', lambda F: cnfgen.AllEqualSubstitution(F, 3)),
    ('neq3', lambda F: cnfgen.NotAllEqualSubstitution(F, 3)),
    ('ite', lambda F: cnfgen.IfThenElseSubstitution(F)),
    ('lift3', lambda F: cnfgen.FormulaLifting(F, 3)),
    ('atleast', lambda F: cnfgen.AtLeastKSubstitution(F, 3, 2)),
    ('atmost', lambda F: cnfgen.AtMostKSubstitution(F, 3, 1)),
    ('exactly', lambda F: cnfgen.ExactlyKSubstitution(F, 4, 2)),
    ('anybut', lambda F: cnfgen.AnythingButKSubstitution(F, 3, 1)),
    ('xorcomp', lambda F: cnfgen.VariableCompression(F, B, 'xor')),
    ('majcomp', lambda F: cnfgen.VariableCompression(F, B, 'maj')),
    ('xor0', lambda F: cnfgen.XorSubstitution(F, 0)),
    ('badcomp', lambda F: cnfgen.VariableCompression(F, B, 'and')),
]
base = cnfgen.PigeonholePrinciple(4, 3)
rec('base', base.number_of_variables())
for tname, t in transformations:
    random.seed(12)
    attempt((tname, 'alone'), lambda: str(t(base)))
    try:
        F1 = t(base)
    except BaseException:
        continue
    dump((tname, 'alone'), F1)
    F2 = Shuffle(F1)
    dump((tname, 'then shuffle'), F2)
    F3 = t(Shuffle(base))
    dump((tname, 'after shuffle'), F3)
    F4 = Shuffle(cnfgen.FlipPolarity(Shuffle(F1, 'fixed', 'fixed', 'shuffle')))
    dump((tname, 'four'), F4)

# 4. command line
cmdlines = [
    ['cnfgen', '--seed', 4, 'php', 6, 4, '-T', 'shuffle'],
    ['cnfgen', '--seed', 4, 'php', 6, 4, '-T', 'shuffle', '-p', '-T', 'shuffle', '-v', '-c'],
    ['cnfgen', '--seed', 5, 'op', 5, '-T', 'xor', 2, '-T', 'shuffle', '-T', 'flip', '-T', 'shuffle', '-c'],
    ['cnfgen', '-q', '--seed', 6, 'randkcnf', 3, 20, 50, '-T', 'shuffle', '-T', 'lift', 2],
    ['cnfgen', 'php', 3, 2, '-T', 'shuffle', '-x'],
]
for argv in cmdlines:
    err = io.StringIO()
    with contextlib.redirect_stderr(err):
        attempt(('cli', tuple(argv)), cnfgen_cli, list(argv), mode='string')
        try:
            F = cnfgen_cli(list(argv), mode='formula')
            dump(('cliF', tuple(argv)), F)
        except BaseException as e:
            rec('cliF-exc', type(e).__name__)
    rec('stderr', err.getvalue())

dimacs_inputs = [
    "p cnf 5 3\n1 -2 0\n3 4 -5 0\n-1 0\n",
    "c a comment\np cnf 0 0\n",
    "p cnf 4 2\n1 2 0\n0\n",
    cnfgen.PigeonholePrinciple(5, 3).to_dimacs(),
    "p cnf 2 1\n1 3 0\n",
    "garbage\n",
]
for i, text in enumerate(dimacs_inputs):
    for opts in [[], ['-p'], ['-v', '-c'], ['-p', '-v', '-c'], ['-q']]:
        argv = ['cnfshuffle', '--seed', 42] + opts
        err = io.StringIO()
        with contextlib.redirect_stderr(err), redirect_stdin(io.StringIO(text)):
            attempt(('cnfshuffle', i, tuple(opts)), cnfshuffle_cli, argv, mode='string')
        rec('stderr', err.getvalue())
        with contextlib.redirect_stderr(err), redirect_stdin(io.StringIO(text)):
            try:
                F = cnfshuffle_cli(argv, mode='formula')
                dump(('cnfshuffleF', i, tuple(opts)), F)
            except BaseException as e:
                rec('cnfshuffleF-exc', type(e).__name__, str(e))

print(hashlib.sha256("\n".join(LOG).encode('utf-8')).hexdigest())
