"""Equivalence harness for add_parity of CNFLinear and BaseOPB (and its users)."""
import hashlib
import itertools
import random
import sys
import os

sys.path.insert(0, os.getcwd())

from cnfgen.formula.cnf import CNF
from cnfgen.formula.opb import OPB
from cnfgen.formula.linear import CNFLinear
from cnfgen.formula.baseopb import BaseOPB
from cnfgen.families.tseitin import TseitinFormula
from cnfgen.families.randomkxor import RandomKXOR
from cnfgen.transformations.substitutions import XorSubstitution
from cnfgen.graphs import Graph

OUT = []


def emit(*items):
    OUT.append(repr(items))


def attempt(tag, fn):
    try:
        emit(tag, 'ok', fn())
    except Exception as e:
        chain = []
        while e is not None:
            chain.append((type(e).__name__, str(e)))
            e = e.__cause__
        emit(tag, 'exc', chain)


def dump(F):
    return (F.number_of_variables(), len(F), [list(c) for c in F])


CLASSES = [CNF, OPB, CNFLinear, BaseOPB]

rnd = random.Random(4242)

lit_lists = [[], [1], [-1], [5], [1, 2], [-1, 2], [2, -1], [1, 2, 3], [-3, -2, -1],
             [4, -7, 2, 9], [1, -2, 3, -4, 5], [6, 5, 4, 3, 2, 1],
             [1, 1], [1, -1], [2, 2, -2], [10, -20, 30, -40, 50, -60, 70]]
for n in range(1, 9):
    vs = rnd.sample(range(1, 15), n)
    lit_lists.append([v * rnd.choice([1, -1]) for v in vs])

constants = [0, 1, 2, 3, -1, True, False, 1.0, 0.0, None, '1']

SHAPES = {
    'list': lambda L: list(L),
    'tuple': lambda L: tuple(L),
    'gen': lambda L: (x for x in L),
    'iter': lambda L: iter(L),
    'map': lambda L: map(int, L),
}


def shapes_for(L):
    yield from SHAPES.items()
    if L and all(b - a == 1 for a, b in zip(L, L[1:])) and L[0] > 0:
        yield 'range', (lambda L: range(L[0], L[-1] + 1))


for cls in CLASSES:
    for L in lit_lists:
        for const in constants:
            for check in (True, False):
                for sname, mk in shapes_for(L):
                    def go():
                        F = cls()
                        F.update_variable_number(2)
                        arg = mk(L)
                        try:
                            r = F.add_parity(arg, const, check=check)
                        finally:
                            emit('state', dump(F))
                        # a second one on the same formula
                        r2 = F.add_parity(mk(L[:3]), 1)
                        return r, r2, dump(F)
                    attempt((cls.__name__, L, const, check, sname), go)

# default arguments / keyword arguments
for cls in CLASSES:
    def go():
        F = cls()
        F.add_parity([1, -2, 3], 1)
        F.add_parity(lits=[4, 5], constant=0)
        F.add_parity(range(1, 5), constant=1, check=False)
        return dump(F)
    attempt((cls.__name__, 'kw'), go)

# invalid literals
bad_lists = [[0], [1, 0, 2], ['a'], [1, 'b'], [None], [1.5, 2], [[1], 2], [True, 2], 5, None, 'abc', {1, 2}, {1: 2, 3: 4}]
for cls in CLASSES:
    for L in bad_lists:
        for const in (0, 1):
            for check in (True, False):
                def go():
                    F = cls()
                    try:
                        r = F.add_parity(L, const, check=check)
                    finally:
                        emit('state', dump(F))
                    return r, dump(F)
                attempt((cls.__name__, 'bad', repr(L), const, check), go)

# bigger instances: number of clauses and full content
for cls in CLASSES:
    for n in (9, 10, 11):
        F = cls()
        F.add_parity(range(1, n + 1), n % 2)
        emit(cls.__name__, 'big', n, dump(F))

# users of add_parity
G = Graph(5)
for e in [(1, 2), (2, 3), (3, 4), (4, 5), (5, 1), (1, 3)]:
    G.add_edge(*e)
for charges in (None, [1, 0, 0, 0, 0], [1, 1, 1, 0, 0], [0, 0, 0, 0, 0], [1, 1]):
    for cls in (CNF, OPB):
        def go():
            T = TseitinFormula(G, charges, formula_class=cls) if cls is not CNF else TseitinFormula(G, charges)
            return dump(T), (T.to_dimacs() if cls is CNF else T.to_opb())
        attempt(('tseitin', charges, cls.__name__), go)

for (k, n, m, seed) in [(3, 6, 5, 1), (2, 5, 4, 7), (1, 3, 3, 2), (0, 3, 1, 2), (4, 4, 2, 9), (3, 5, 100, 3), (5, 4, 1, 1)]:
    def go():
        F = RandomKXOR(k, n, m, seed=seed)
        return dump(F), F.to_dimacs()
    attempt(('kxor', k, n, m, seed), go)

base = CNF([[1, -2], [2, 3], [-1, -3, 2], []])
for k in (1, 2, 3):
    def go():
        X = XorSubstitution(base, k)
        return dump(X), X.to_dimacs()
    attempt(('xorsub', k), go)

print(hashlib.sha256("\n".join(OUT).encode('utf-8')).hexdigest())
