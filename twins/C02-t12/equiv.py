#!/usr/bin/env python3
"""Equivalence digest for TseitinCmdHelper.build_formula (command line helper).

Run as:  cd <checkout> && /venv/bin/python equiv.py
"""
import sys, os, io, hashlib, random, contextlib
from argparse import Namespace
sys.path.insert(0, os.getcwd())

from cnfgen.clitools.cnfgen import cli
from cnfgen.clihelpers.counting_helpers import TseitinCmdHelper
from cnfgen.formula.cnf import CNF
from cnfgen.graphs import Graph

H = hashlib.sha256()


def record(*items):
    for it in items:
        H.update(repr(it).encode('utf-8'))
        H.update(b'\x00')


def run_cli(argv):
    """Run the command line, record output / errors / exit codes."""
    out, err = io.StringIO(), io.StringIO()
    res = None
    try:
        with contextlib.redirect_stdout(out), contextlib.redirect_stderr(err):
            res = cli(argv, mode='string')
        record('OK', argv, res)
    except SystemExit as e:
        record('EXIT', argv, e.code)
    except BaseException as e:  # noqa
        record('EXC', argv, type(e).__name__, str(e))
    record(out.getvalue(), err.getvalue())
    # state of the random stream after the run
    record(random.random())


charges = ['first', 'random', 'randomodd', 'randomeven', 'zero', 'one']
graphs = [
    ['empty', 0], ['empty', 1], ['empty', 4],
    ['complete', 1], ['complete', 2], ['complete', 5], ['complete', 2, 3],
    ['grid', 1], ['grid', 6], ['grid', 2, 3], ['torus', 3, 3], ['torus', 7],
    ['gnp', 7, '0.5'], ['gnp', 3, '0.5', 2], ['gnm', 6, 7], ['gnm', 5, 0],
    ['gnd', 8, 3], ['gnd', 5, 3], ['empty', 6, 'plantclique', 3],
    ['gnp', 6, '0.3', 'addedges', 2], ['grid', 2, 2, 'splitedges', 2],
    ['cycle', 3], ['complete', 0],
]
for seed in (0, 42):
    for c in charges:
        for g in graphs:
            run_cli(['cnfgen', '--seed', seed, 'tseitin', c] + g)

# shortcut form  "tseitin N [d]", including every error path
for seed in (7, 123):
    for N in range(1, 11):
        run_cli(['cnfgen', '--seed', seed, 'tseitin', N])
        for d in range(1, 7):
            run_cli(['cnfgen', '--seed', seed, 'tseitin', N, d])

# other output formats / verbose header
for fmt in ('dimacs', 'latex', 'opb'):
    run_cli(['cnfgen', '--seed', 5, '-of', fmt, 'tseitin', 'randomodd', 'grid', 3, 3])
    run_cli(['cnfgen', '--seed', 5, '-of', fmt, 'tseitin', 6, 3])
    run_cli(['cnfgen', '--seed', 5, '-of', fmt, 'tseitin', 'first', 'empty', 0])

# malformed command lines
for bad in (['tseitin'], ['tseitin', 'foo', 'grid', 2, 2], ['tseitin', 0],
            ['tseitin', 5, 0], ['tseitin', -3, 2], ['tseitin', 'first'],
            ['tseitin', 'first', 'nosuchgraph', 3], ['tseitin', 4, 3, 2],
            ['tseitin', 'random', 'gnd', 5, 3]):
    run_cli(['cnfgen', '--seed', 9] + bad)


# direct calls of the helper with hand made namespaces
def direct(ns):
    random.seed(2024)
    try:
        F = TseitinCmdHelper.build_formula(ns, CNF)
        record('OK', 'direct',
               F.header.get('description'), F.number_of_variables(),
               list(F.clauses()), F.to_dimacs())
    except BaseException as e:  # noqa
        record('EXC', type(e).__name__, str(e))
    record(random.random())


def mkgraph(n, edges):
    G = Graph(n, name='G{}'.format(n))
    for u, v in edges:
        G.add_edge(u, v)
    return G


rng = random.Random(99)
test_graphs = [mkgraph(0, []), mkgraph(1, []), mkgraph(2, []), mkgraph(2, [(1, 2)]),
               mkgraph(5, [(1, 2), (2, 3), (4, 5)])]
for n in range(3, 8):
    edges = [(u, v) for u in range(1, n + 1) for v in range(u + 1, n + 1)
             if rng.random() < 0.5]
    test_graphs.append(mkgraph(n, edges))

for G in test_graphs:
    for c in charges + ['bogus', None]:
        direct(Namespace(G=G, charge=c))
for N in range(0, 9):
    for d in range(0, 6):
        direct(Namespace(N=N, d=d))
        direct(Namespace(N=N, d=d, charge='one'))

print(H.hexdigest())
