#!/usr/bin/env python
"""Equivalence script for refactoring t10 (TseitinCmdHelper.build_formula).

Run as: cd <checkout> && /venv/bin/python equiv.py
Prints one SHA256 digest of everything observable.
"""
import sys, os, io, hashlib, random, argparse, contextlib
sys.path.insert(0, os.getcwd())

import networkx as nx
from cnfgen.clitools.cnfgen import cli
from cnfgen.clihelpers.counting_helpers import TseitinCmdHelper
from cnfgen.formula.cnf import CNF
from cnfgen.graphs import Graph

out = []


def rec(*items):
    out.append(repr(items))


def run_cli(argv):
    """Run the command line in 'string' mode, recording output, stderr, exit code
    and the state of the global random generator afterwards."""
    err = io.StringIO()
    so = io.StringIO()
    random.seed(12345)
    try:
        with contextlib.redirect_stderr(err), contextlib.redirect_stdout(so):
            res = cli(argv, mode='string')
        rec('cli', argv, 'ok', res, so.getvalue(), err.getvalue())
    except SystemExit as e:
        rec('cli', argv, 'exit', e.code, so.getvalue(), err.getvalue())
    except Exception as e:
        rec('cli', argv, 'exc', type(e).__name__, str(e), so.getvalue(), err.getvalue())
    rec('rnd-after', argv, random.random())


charges = ['first', 'random', 'randomodd', 'randomeven', 'zero', 'one']
graphspecs = [
    ['empty', 0], ['empty', 1], ['empty', 4], ['complete', 1], ['complete', 2],
    ['complete', 5], ['grid', 3, 3], ['torus', 3, 3], ['gnd', 8, 3], ['gnm', 7, 9],
    ['gnp', 7, 0.5], ['complete', 3, 'plantclique', 2], ['grid', 2, 2, 'addedges', 1],
]
for seed in (0, 7, 424242):
    for ch in charges:
        for gs in graphspecs:
            run_cli(['cnfgen', '--seed', seed, 'tseitin', ch] + gs)

# shortcut form: N [d], including the two error paths
for seed in (1, 99):
    for nd in [[1], [2], [3], [4], [5], [6], [9], [10], [1, 1], [2, 1], [3, 1], [3, 2], [4, 2],
               [4, 3], [5, 3], [6, 3], [7, 3], [7, 4], [7, 6], [7, 7], [7, 8], [8, 5], [9, 5],
               [10, 4], [12, 5], [0], [0, 0], [5, 0], [-1], [3, 3]]:
        run_cli(['cnfgen', '--seed', seed, 'tseitin'] + nd)
        run_cli(['cnfgen', '-q', '--seed', seed, 'tseitin'] + nd)

# malformed command lines
for bad in [['tseitin'], ['tseitin', 'foo', 'grid', 2, 2], ['tseitin', 'first'],
            ['tseitin', 'first', 'nosuchgraph', 3], ['tseitin', 3, 2, 1],
            ['tseitin', 'random', 'gnd', 5, 3], ['tseitin', '-h']]:
    run_cli(['cnfgen', '--seed', 5] + bad)

# other output formats through the same helper
run_cli(['cnfgen', '--seed', 3, '-of', 'latex', 'tseitin', 'randomodd', 'grid', 2, 3])
run_cli(['cnfgen', '--seed', 3, '-of', 'opb', 'tseitin', 6, 3])
run_cli(['cnfgen', '--seed', 3, 'tseitin', 'random', 'gnd', 6, 3, '-T', 'shuffle'])


# direct calls of build_formula with hand made namespaces (reaches branches
# that the argument parser cannot produce)
def direct(tag, **kw):
    random.seed(777)
    ns = argparse.Namespace(**kw)
    try:
        F = TseitinCmdHelper.build_formula(ns, CNF)
        rec('direct', tag, 'ok', F.header.get('description'), F.number_of_variables(),
            [list(c) for c in F.clauses()])
    except Exception as e:
        rec('direct', tag, 'exc', type(e).__name__, str(e))
    rec('direct-rnd', tag, random.random())


def grid(r, c):
    return nx.grid_2d_graph(r, c)


for n in (0, 1, 2, 5):
    for ch in charges + ['bogus', None, 'FIRST', '']:
        direct(('cplt', n, ch), G=Graph.complete_graph(n), charge=ch)
    direct(('cplt-nocharge', n), G=Graph.complete_graph(n))
direct(('nx', 'randomodd'), G=grid(2, 3), charge='randomodd')
direct(('nx', 'bogus'), G=grid(2, 3), charge='bogus')
for N, d in [(1, 1), (2, 1), (3, 2), (3, 3), (5, 3), (6, 3), (7, 4), (4, 5), (9, 9), (10, 3)]:
    direct(('Nd', N, d), N=N, d=d)
    direct(('Nd+charge', N, d), N=N, d=d, charge='zero')
    direct(('Nd+charge', N, d, 'randomeven'), N=N, d=d, charge='randomeven')
direct(('G+N',), G=Graph.complete_graph(4), N=3, d=3, charge='one')
direct(('nothing',))
direct(('N only',), N=4)

print(hashlib.sha256('\n'.join(out).encode('utf-8')).hexdigest())
