import hashlib, io, os, sys, contextlib, warnings, tempfile, argparse
sys.path.insert(0, os.getcwd())
warnings.simplefilter("ignore")
H = hashlib.sha256()
tmp = tempfile.mkdtemp()
def rec(*xs):
    for x in xs:
        H.update(repr(x).encode()); H.update(b"\n")
def attempt(label, f):
    try:
        rec(label, "ok", f())
    except SystemExit as e:
        rec(label, "exit", e.code)
    except BaseException as e:
        rec(label, "exc", type(e).__name__, str(e).replace(tmp, "<TMP>"))

import importlib
pbgen = importlib.import_module("cnfgen.clitools.pbgen")
cnfgentool = importlib.import_module("cnfgen.clitools.cnfgen")
from cnfgen.clitools.cmdline import get_formula_helpers

gfile = os.path.join(tmp, "g.gml")
import networkx as nx
G = nx.cycle_graph(5)
nx.write_gml(G, gfile)
kth = os.path.join(tmp, "d.kthlist")
with open(kth, "w") as f:
    f.write("c dag\n3\n1 : 0\n2 : 1 0\n3 : 1 2 0\n")

# direct calls of the helper, with hand made namespaces
class Gen: pass
class GenDoc:
    docstring = "Some doc\nwith two lines"
helpers = get_formula_helpers()
NS = []
for gen in [Gen(), GenDoc()] + list(helpers):
    NS.append(argparse.Namespace(generator=gen))
    NS.append(argparse.Namespace(generator=gen, n=3, _hidden=io.StringIO("h"), f=io.StringIO("abc"), s="txt"))
fh = open(gfile)
NS.append(argparse.Namespace(generator=GenDoc(), graph=fh, other=open(kth), _x=fh))
for ns in NS:
    attempt(("pb direct", type(ns.generator).__name__), lambda: pbgen.build_latex_cmdline_description(["pbgen", "a", 1], ns))
    attempt(("cnf direct", type(ns.generator).__name__), lambda: cnfgentool.build_latex_cmdline_description(["cnfgen"], ns, []))
    attempt(("cnf direct2", type(ns.generator).__name__), lambda: cnfgentool.build_latex_cmdline_description(["cnfgen"], ns, [ns, argparse.Namespace(q=io.StringIO("z"))]))
attempt("nogen", lambda: pbgen.build_latex_cmdline_description([], argparse.Namespace()))
attempt("badargs", lambda: pbgen.build_latex_cmdline_description([], None))
attempt("arity", lambda: pbgen.build_latex_cmdline_description([], NS[0], []))
rec(pbgen.build_latex_cmdline_description.__name__, pbgen.build_latex_cmdline_description.__module__,
    pbgen.build_latex_cmdline_description.__doc__)

CMDS = [
    ["php", 4, 3], ["php", 0, 0], ["op", 3, "--total"], ["parity", 4], ["count", 4, 2],
    ["kcolor", 3, "gml", gfile], ["tseitin", "first", gfile], ["tseitin", "first", "gml", "-i", gfile],
    ["domset", 2, "gml", gfile], ["peb", "kthlist", kth], ["stone", 2, kth],
    ["ec", "gml", gfile], ["kcolor", 2, "gml", os.path.join(tmp, "missing.gml")], ["subsetcard", "glrd", 4, 4, 3], ["randkcnf", 3, 5, 6],
    ["vdw", 5, 3, 3], ["true"], ["false"], ["and", 1, 2], ["nosuchformula"], [],
    ["php", 3], ["-T", "shuffle"], ["php", 3, 2, "-T", "shuffle"],
]
n = 0
for cmd in CMDS:
    for tool, mod in (("pbgen", pbgen), ("cnfgen", cnfgentool)):
        for pre in (["-of", "latex"], ["-q", "-of", "latex"], ["-of", "opb", "--varnames"], ["-of", "dimacs"], []):
            for tofile in (False, True):
                n += 1
                ext = {"latex": ".tex", "opb": ".opb"}.get(pre[-1] if pre and pre[-1] in ("latex", "opb") else "", ".out")
                if not pre:
                    ext = ".tex" if n % 2 else ".opb"
                target = os.path.join(tmp, "o%d%s" % (n, ext))
                argv = [tool, "--seed", 11] + pre + (["-o", target] if tofile else []) + cmd
                def run():
                    err = io.StringIO(); out = io.StringIO()
                    with contextlib.redirect_stderr(err), contextlib.redirect_stdout(out):
                        try:
                            return mod.cli(argv, mode='output')
                        finally:
                            rec(out.getvalue().replace(tmp, "<TMP>"), err.getvalue().replace(tmp, "<TMP>"))
                            if tofile and os.path.exists(target):
                                rec(open(target).read().replace(tmp, "<TMP>"))
                attempt([str(a).replace(tmp, "<TMP>") for a in argv], run)
    def s():
        with contextlib.redirect_stderr(io.StringIO()):
            return pbgen.cli(["pbgen", "-of", "latex"] + cmd, mode='string').replace(tmp, "<TMP>")
    attempt(("string", [str(a).replace(tmp, "<TMP>") for a in cmd]), s)
import shutil
shutil.rmtree(tmp, ignore_errors=True)
print(H.hexdigest())
