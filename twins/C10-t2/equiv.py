#!/usr/bin/env python
"""Equivalence script for the refactoring of BaseCNF.add_clause and
BaseCNF._check_and_update.

Run as:  cd <checkout> && /venv/bin/python equiv.py
Prints one SHA256 digest of everything observed.
"""
import os
import sys
import io
import random
import hashlib
from contextlib import redirect_stdout, redirect_stderr

sys.path.insert(0, os.getcwd())

import networkx as nx

import cnfgen
from cnfgen.formula.basecnf import BaseCNF
from cnfgen.formula.cnf import CNF
from cnfgen.clitools import cnfgen as cnfgen_cli   # the cli() function

H = hashlib.sha256()
LOG = []


def rec(*items):
    line = ' '.join(repr(x) for x in items)
    LOG.append(line)
    H.update(line.encode('utf-8'))
    H.update(b'\n')


def attempt(tag, fn):
    try:
        res = fn()
        rec(tag, 'OK', res)
    except Exception as e:  # noqa
        cause = e.__cause__
        rec(tag, 'EXC', type(e).__name__, str(e),
            type(cause).__name__, str(cause))


def state(tag, F):
    rec(tag, 'numvar', F.number_of_variables(), 'len', len(F),
        'clauses', list(F), 'str', str(F))
    try:
        rec(tag, 'debug', F.debug(), F.debug(True, True))
    except Exception as e:  # noqa
        rec(tag, 'debugEXC', type(e).__name__, str(e))


def gen(items):
    for x in items:
        yield x


CLAUSES = [
    ('empty_list', lambda: []),
    ('empty_tuple', lambda: ()),
    ('empty_gen', lambda: gen([])),
    ('empty_range', lambda: range(0)),
    ('unit', lambda: [1]),
    ('negunit', lambda: [-1]),
    ('list', lambda: [1, -2, 3]),
    ('tuple', lambda: (4, -7)),
    ('gen', lambda: gen([-9, 2])),
    ('range', lambda: range(3, 6)),
    ('range_with_zero', lambda: range(-2, 3)),
    ('frozenset', lambda: frozenset([12, -13])),
    ('big', lambda: [10 ** 6, -3]),
    ('bigneg', lambda: [-(10 ** 6) - 5]),
    ('repeat', lambda: [2, 2, -2]),
    ('zero_first', lambda: [0, 50]),
    ('zero_last', lambda: [60, 0]),
    ('zero_only', lambda: [0]),
    ('zero_float', lambda: [0.0, 70]),
    ('false', lambda: [False, 80]),
    ('true', lambda: [True, 2]),
    ('float', lambda: [2.5, -90.5]),
    ('string', lambda: ['a']),
    ('strings', lambda: ['a', 'b']),
    ('mixed', lambda: [1, 'a']),
    ('mixed2', lambda: ['a', 100]),
    ('none', lambda: [None]),
    ('none2', lambda: [3, None]),
    ('nested', lambda: [[1, 2]]),
    ('nested2', lambda: [[1], [2]]),
    ('pairs', lambda: [(True, 1), (False, 2)]),
    ('str_clause', lambda: 'xy'),
    ('digits', lambda: '12'),
    ('dictkeys', lambda: {5: 1, -6: 2}),
]

NOT_ITERABLE = [('int', 5), ('none', None), ('float', 1.5)]


def direct(cls):
    name = cls.__name__
    # every clause on a fresh formula, and cumulatively on a shared one
    for check in (True, False):
        shared = cls()
        for tag, mk in CLAUSES:
            F = cls()
            t = '{}:{}:check={}'.format(name, tag, check)
            attempt(t + ':fresh', lambda: F.add_clause(mk(), check=check))
            state(t + ':fresh', F)
            attempt(t + ':shared', lambda: shared.add_clause(mk(), check=check))
            rec(t + ':shared', shared.number_of_variables(), len(shared))
        state('{}:shared:check={}'.format(name, check), shared)
        for tag, obj in NOT_ITERABLE:
            F = cls()
            t = '{}:notiter:{}:check={}'.format(name, tag, check)
            attempt(t, lambda: F.add_clause(obj, check=check))
            state(t, F)
    # default value of check, positional check
    F = cls()
    attempt(name + ':default', lambda: F.add_clause([3, -8]))
    attempt(name + ':default0', lambda: F.add_clause([3, 0]))
    attempt(name + ':positional', lambda: F.add_clause([30, 1], False))
    attempt(name + ':empty', lambda: F.add_clause([]))
    attempt(name + ':emptynocheck', lambda: F.add_clause((), False))
    state(name + ':default', F)
    # the stored clause is a copy, and empty clauses are distinct objects
    orig = [1, 2]
    F = cls()
    F.add_clause(orig)
    orig.append(3)
    F.add_clause([])
    F.add_clause([])
    rec(name + ':copy', list(F), F._clauses[1] is F._clauses[2],
        F._clauses[0] is orig)
    F._clauses[1].append(77)
    rec(name + ':copy2', list(F))
    # direct calls of the checker
    for tag, mk in CLAUSES:
        F = cls()
        F.update_variable_number(4)
        data = mk()
        if not hasattr(data, '__len__'):
            data = list(data)
        attempt('{}:checker:{}'.format(name, tag),
                lambda: F._check_and_update(data))
        rec('{}:checker:{}'.format(name, tag), F.number_of_variables(), len(F))
    # constructor and add_clauses_from
    attempt(name + ':ctor', lambda: list(cls([[1, -2], [], (3, 9), gen([4])])))
    attempt(name + ':ctor0', lambda: list(cls([[1, -2], [0, 1]])))
    attempt(name + ':ctorstr', lambda: list(cls([[1, -2], ['x']])))
    F = cls()
    attempt(name + ':from', lambda: F.add_clauses_from(
        [[1, 2], [], [-5], [0], [9]]))
    state(name + ':from', F)
    F = cls()
    attempt(name + ':fromnocheck', lambda: F.add_clauses_from(
        [[1, 2], [], [-5], [0], [9]], check=False))
    state(name + ':fromnocheck', F)
    attempt(name + ':fromdefault', lambda: F.add_clauses_from(gen([[4], ()])))
    state(name + ':fromdefault', F)


def random_streams():
    for seed in range(10):
        rng = random.Random(seed)
        F = CNF()
        for step in range(80):
            r = rng.random()
            if r < 0.1:
                F.add_clause([])
            elif r < 0.2:
                F.new_block(rng.randint(0, 3), rng.randint(1, 3))
            else:
                top = F.number_of_variables() + rng.choice([0, 0, 2])
                top = max(top, 1)
                k = rng.randint(1, min(5, top))
                lits = [v * rng.choice([1, -1])
                        for v in rng.sample(range(1, top + 1), k)]
                chk = rng.random() < 0.8
                F.add_clause(tuple(lits) if rng.random() < 0.5 else lits,
                             check=chk)
            rec('rnd', seed, step, F.number_of_variables(), len(F))
        state('rnd{}'.format(seed), F)
        rec('rnd-dimacs', seed, F.to_dimacs())


def linear():
    for lits in ([1, 2, 3, 4], (5, -6, 7), [], [0, 1], ['a', 2], gen([8, -9]),
                 range(1, 4)):
        for op in ('<=', '>=', '<', '>', '==', '!='):
            for const in (-1, 0, 1, 2, 4, 5):
                F = CNF()
                ls = list(lits) if not isinstance(lits, (list, tuple)) else lits
                attempt('lin', lambda: F.add_linear(ls, op, const))
                rec('lin', op, const, F.number_of_variables(), list(F))
        for const in (0, 1):
            F = CNF()
            ls = list(lits) if not isinstance(lits, (list, tuple)) else lits
            attempt('par', lambda: F.add_parity(ls, const))
            rec('par', const, F.number_of_variables(), list(F))
    F = CNF()
    for m in ('add_loose_majority', 'add_loose_minority',
              'add_strict_majority', 'add_strict_minority'):
        attempt(m, lambda: getattr(F, m)([1, -2, 3, 14, 5]))
        attempt(m + '0', lambda: getattr(F, m)([1, 0]))
        attempt(m + 'empty', lambda: getattr(F, m)([]))
        rec(m, F.number_of_variables(), len(F))
    state('maj', F)


def families():
    def dump(tag, F):
        maxv = max([abs(l) for c in F for l in c] or [0])
        rec(tag, F.number_of_variables(), len(F), maxv,
            maxv <= F.number_of_variables(), F.debug(True, True))
        rec(tag, hashlib.sha256(F.to_dimacs().encode('utf-8')).hexdigest())
        rec(tag, hashlib.sha256(F.to_latex().encode('utf-8')).hexdigest())

    dump('php', cnfgen.PigeonholePrinciple(8, 6))
    dump('bphp', cnfgen.BinaryPigeonholePrinciple(10, 6))
    dump('op', cnfgen.OrderingPrinciple(8, total=True))
    dump('tseitin', cnfgen.TseitinFormula(nx.grid_2d_graph(3, 4)))
    dump('peb', cnfgen.PebblingFormula(
        nx.DiGraph([(1, 3), (2, 3), (3, 5), (4, 5), (2, 4)])))
    dump('ramsey', cnfgen.RamseyNumber(3, 4, 7))
    dump('count', cnfgen.CountingPrinciple(9, 3))
    dump('rand', cnfgen.RandomKCNF(3, 30, 90, seed=11))
    dump('subsetcard', cnfgen.SubsetCardinalityFormula(
        nx.complete_bipartite_graph(4, 4)))
    dump('xor', cnfgen.XorSubstitution(cnfgen.PigeonholePrinciple(4, 3), 3))
    dump('maj', cnfgen.MajoritySubstitution(cnfgen.OrderingPrinciple(4), 3))
    dump('shuffle', cnfgen.Shuffle(cnfgen.PigeonholePrinciple(5, 4),
                                   polarity_flips=[1] * 20))
    dump('empty', cnfgen.CNF([[]]))
    dump('and0', cnfgen.CNF())


def cli():
    for argv in (['cnfgen', '-q', 'php', '5', '4'],
                 ['cnfgen', '-q', 'and', '0', '0'],
                 ['cnfgen', '-q', 'or', '0', '0'],
                 ['cnfgen', '-q', 'op', '5', '-T', 'xor', '2'],
                 ['cnfgen', '-q', '--seed', '7', 'randkcnf', '3', '12', '40'],
                 ['cnfgen', '-q', '--output-format', 'latex', 'parity', '4'],
                 ['cnfgen', '-q', 'php', '3', '2', '-T', 'lift', '2',
                  '-T', 'or', '2']):
        out, err = io.StringIO(), io.StringIO()
        code = None
        try:
            with redirect_stdout(out), redirect_stderr(err):
                cnfgen_cli(argv)
        except SystemExit as e:
            code = e.code
        except Exception as e:  # noqa
            code = (type(e).__name__, str(e))
        rec('cli', argv, code, out.getvalue(), err.getvalue())


direct(BaseCNF)
direct(CNF)
random_streams()
linear()
families()
cli()

if '-v' in sys.argv:
    print('\n'.join(LOG))
print(H.hexdigest())
