#!/usr/bin/env python
"""Equivalence probe for property C06 (DIMACS writer / reader round trip).

Run as:  cd <checkout> && /venv/bin/python equiv.py
Prints one SHA256 digest of everything observable: text written (and the
individual write() calls), formulas read back, items yielded by the parser,
exceptions and their messages.
"""
import sys, os, io, hashlib, random, tempfile, contextlib, warnings
warnings.simplefilter('ignore')
sys.path.insert(0, os.getcwd())

import cnfgen.info
cnfgen.info.info['version'] = 'VERSION'   # do not depend on `git describe`

import cnfgen
from cnfgen import CNF
from cnfgen.formula.cnfio import CNFio, guess_output_format
from cnfgen.formula.basecnf import BaseCNF
from cnfgen.utils.parsedimacs import to_dimacs_file, parse_dimacs, from_dimacs_file

H = hashlib.sha256()
NREC = [0]


def rec(*items):
    NREC[0] += 1
    H.update((repr(items) + "\n").encode('utf-8', errors='backslashreplace'))


def attempt(tag, fn):
    """Run fn, record its result or the exception"""
    try:
        res = fn()
        rec(tag, 'ok', res)
        return res
    except BaseException as e:      # noqa
        rec(tag, 'exc', type(e).__name__, str(e))
        return None


class Recorder:
    """file-like object remembering every write call"""
    def __init__(self):
        self.calls = []

    def write(self, s):
        self.calls.append(s)
        return len(s)


def state(F):
    return (type(F).__name__, F.number_of_variables(), F.number_of_clauses(),
            [list(c) for c in F], list(F.header.items()))


# ----------------------------------------------------------------------
# formulas
# ----------------------------------------------------------------------
def make_formulas():
    fs = []
    fs.append(('empty-io', CNFio()))
    fs.append(('empty-cnf', CNF()))
    fs.append(('empty-clauses', CNFio([[], [], [1], []])))
    F = CNFio([[1, -2], [3]])
    F.update_variable_number(10)
    fs.append(('unused-vars', F))
    F = CNF()
    F.update_variable_number(4)
    fs.append(('only-vars', F))
    fs.append(('desc-unicode', CNFio([[1, 2, -3]], description='förmula ∀x ∃y')))
    fs.append(('desc-multiline', CNFio([[-1]], description='line one\nline two\r\nline three\n')))
    fs.append(('desc-empty', CNFio([[2]], description='')))
    fs.append(('desc-p-line', CNFio([[2, 1]], description='x\np cnf 7 7\n1 2 0')))
    F = CNF([[1, -2], [2, -1]], description='odd header')
    F.header['empty'] = ''
    F.header['number'] = 42
    F.header['multi'] = 'a\n\nb\x0bc\x1cd e'
    F.header['kéy\nnl'] = None
    F.header[7] = ('t', 1)
    fs.append(('odd-header', F))
    F = CNF()
    F.header.clear()
    F.add_clause([1, 2])
    fs.append(('no-header', F))
    F = CNF()
    F.new_variable(label='a\nb c')
    F.new_block(2, 2, label='ü_{{{},{}}}')
    F.new_variable(label='')
    F.new_variable(label='p cnf 1 1')
    F.update_variable_number(9)
    F.new_variable(label='last\r\none')
    F.add_clause([1, -5, 10])
    F.add_clause([])
    fs.append(('odd-names', F))
    F = BaseCNF([[1, 2], [-2]])
    fs.append(('basecnf', F))
    F = CNFio()
    F.add_clauses_from([[5, -7], [0], [3]], check=False)   # unchecked
    fs.append(('unchecked', F))
    F = CNFio()
    F.add_clause(['a', 'b'], check=False)
    F.add_clause([1.5, True], check=False)
    fs.append(('unchecked-nonint', F))
    # families and transformation chains
    fs.append(('php', cnfgen.PigeonholePrinciple(4, 3)))
    fs.append(('fphp', cnfgen.PigeonholePrinciple(3, 3, functional=True, onto=True)))
    fs.append(('op', cnfgen.OrderingPrinciple(4)))
    fs.append(('count', cnfgen.CountingPrinciple(5, 2)))
    fs.append(('bphp', cnfgen.BinaryPigeonholePrinciple(5, 4)))
    random.seed(20061)
    fs.append(('rand3', cnfgen.RandomKCNF(3, 8, 15)))
    fs.append(('randxor', cnfgen.RandomKXOR(3, 6, 4)))
    fs.append(('xor-php', cnfgen.XorSubstitution(cnfgen.PigeonholePrinciple(3, 2), 2)))
    fs.append(('or-op', cnfgen.OrSubstitution(cnfgen.OrderingPrinciple(3), 2)))
    fs.append(('lift', cnfgen.FormulaLifting(cnfgen.PigeonholePrinciple(2, 2), 3)))
    fs.append(('shuffle', cnfgen.Shuffle(cnfgen.XorSubstitution(cnfgen.OrderingPrinciple(3), 2))))
    fs.append(('flip', cnfgen.FlipPolarity(cnfgen.RandomKCNF(2, 5, 6))))
    fs.append(('maj-shuf', cnfgen.Shuffle(cnfgen.MajoritySubstitution(cnfgen.RandomKCNF(2, 4, 3), 3))))
    return fs


FORMULAS = make_formulas()
FLAGS = [(h, v) for h in (False, True) for v in (False, True)]

workdir = tempfile.mkdtemp(prefix='c06equiv')
oldcwd = os.getcwd()
os.chdir(workdir)


class Named(io.StringIO):
    name = 'namedé file.cnf'


class NameRaisesAttr(io.StringIO):
    @property
    def name(self):
        raise AttributeError('no name here')


class NameRaisesOther(io.StringIO):
    @property
    def name(self):
        raise RuntimeError('name is broken')


class NameNotString(io.StringIO):
    name = 12


def read_variants(tag, text):
    """Read `text` through all the entry points of the reader"""
    for cls in (CNFio, CNF, BaseCNF):
        F = attempt((tag, 'read', cls.__name__),
                    lambda: state(from_dimacs_file(cls, io.StringIO(text))))
    attempt((tag, 'from_file'), lambda: state(CNF.from_file(io.StringIO(text))))
    for wrapper in (Named, NameRaisesAttr, NameRaisesOther, NameNotString):
        attempt((tag, 'read', wrapper.__name__),
                lambda: state(from_dimacs_file(CNFio, wrapper(text))))
    # stdin
    old = sys.stdin
    sys.stdin = io.StringIO(text)
    try:
        attempt((tag, 'read-stdin'), lambda: state(from_dimacs_file(CNF)))
        sys.stdin = io.StringIO(text)
        attempt((tag, 'read-stdin-None'), lambda: state(CNFio.from_file(None)))
    finally:
        sys.stdin = old
    # file name
    with open('in.cnf', 'w', encoding='utf-8') as f:
        f.write(text)
    attempt((tag, 'read-filename'), lambda: state(from_dimacs_file(CNF, 'in.cnf')))
    attempt((tag, 'read-filename2'), lambda: state(CNFio.from_file('in.cnf')))


def parse_trace(tag, text):
    """Step through the parser, record every yielded item and the end"""
    items = []
    try:
        for x in parse_dimacs(io.StringIO(text)):
            items.append(x)
        rec(tag, 'parse-ok', items)
    except BaseException as e:   # noqa
        rec(tag, 'parse-exc', items, type(e).__name__, str(e))


# ----------------------------------------------------------------------
# 1. writer, all flags and destinations, and round trip
# ----------------------------------------------------------------------
TEXTS = []
for name, F in FORMULAS:
    for h, v in FLAGS:
        tag = (name, h, v)
        R = Recorder()
        attempt(tag + ('recorder',),
                lambda: to_dimacs_file(F, R, export_header=h, export_varnames=v))
        rec(tag, 'calls', R.calls)
        text = ''.join(R.calls)
        # StringIO
        S = io.StringIO()
        attempt(tag + ('stringio',),
                lambda: to_dimacs_file(F, S, export_header=h, export_varnames=v))
        rec(tag, 'same', S.getvalue() == text)
        # stdout
        out = io.StringIO()
        with contextlib.redirect_stdout(out):
            attempt(tag + ('stdout',),
                    lambda: to_dimacs_file(F, None, export_header=h, export_varnames=v))
        rec(tag, 'stdout', out.getvalue())
        out = io.StringIO()
        with contextlib.redirect_stdout(out):
            attempt(tag + ('stdout-default',),
                    lambda: to_dimacs_file(F, export_header=h, export_varnames=v))
        rec(tag, 'stdout-default', out.getvalue())
        # file name
        attempt(tag + ('filename',),
                lambda: to_dimacs_file(F, 'out.cnf', export_header=h, export_varnames=v))
        try:
            with open('out.cnf', 'rb') as f:
                rec(tag, 'filebytes', f.read())
            os.unlink('out.cnf')
        except OSError as e:
            rec(tag, 'nofile', type(e).__name__)
        # methods of CNFio
        if hasattr(F, 'to_file'):
            S = io.StringIO()
            attempt(tag + ('to_file',),
                    lambda: F.to_file(S, export_header=h, export_varnames=v))
            rec(tag, 'to_file', S.getvalue())
            S = io.StringIO()
            attempt(tag + ('to_file-dimacs',),
                    lambda: F.to_file(S, fileformat='dimacs', export_header=h, export_varnames=v))
            rec(tag, 'to_file-dimacs', S.getvalue())
            attempt(tag + ('to_file-name',),
                    lambda: F.to_file('m.cnf', export_header=h, export_varnames=v))
            try:
                with open('m.cnf', 'rb') as f:
                    rec(tag, 'm-bytes', f.read())
                os.unlink('m.cnf')
            except OSError as e:
                rec(tag, 'nofile', type(e).__name__)
        TEXTS.append((tag, text))
        # round trip
        read_variants(tag, text)
        parse_trace(tag, text)
    if hasattr(F, 'to_dimacs'):
        attempt((name, 'to_dimacs'), F.to_dimacs)
    if hasattr(F, 'to_file'):
        out = io.StringIO()
        with contextlib.redirect_stdout(out):
            attempt((name, 'to_file-stdout'), F.to_file)
        rec(name, 'to_file-stdout', out.getvalue())

# writer failures
attempt('write-baddir', lambda: to_dimacs_file(CNFio([[1]]), 'no/such/dir/x.cnf'))
attempt('write-badobj', lambda: to_dimacs_file(CNFio([[1]]), 42))
attempt('write-badformula', lambda: to_dimacs_file([[1, 2]], io.StringIO()))
attempt('write-closed', lambda: to_dimacs_file(CNFio([[1]]), open('closed.txt', 'w').close() or open('closed.txt').close() or io.StringIO()))
closed = io.StringIO()
closed.close()
attempt('write-closed2', lambda: to_dimacs_file(CNFio([[1]]), closed))
attempt('write-bytesio', lambda: to_dimacs_file(CNFio([[1]]), io.BytesIO()))


class FailingWriter:
    def __init__(self, k):
        self.k = k
        self.calls = []

    def write(self, s):
        if len(self.calls) >= self.k:
            raise OSError('disk full after {}'.format(self.k))
        self.calls.append(s)


for k in range(0, 14):
    W = FailingWriter(k)
    attempt(('failing-writer', k),
            lambda: to_dimacs_file(FORMULAS[12][1], W, export_header=True, export_varnames=True))
    rec('failing-writer', k, W.calls)

for fmt in (None, 'dimacs', 'latex', 'opb', 'tex', 'DIMACS', 3):
    for dest in (None, 'a.cnf', 'a.tex', 'a.opb', 'a', '.tex', 'x.y.opb', io.StringIO(), Named(), NameNotString(), 5):
        attempt(('guess', fmt, repr(dest)[:12]), lambda: guess_output_format(dest, fmt))

# ----------------------------------------------------------------------
# 2. reader on hand written, truncated and corrupted texts
# ----------------------------------------------------------------------
HAND = [
    '', '\n', '\n\n\n', 'c only a comment\n', 'c\nc\n', 'p cnf 0 0', 'p cnf 0 0\n', 'p cnf 0 1\n0\n',
    'p cnf 0 1\n', 'p cnf 3 2\n1 2 0\n-3 0\n', 'p cnf 3 2\n1 2 0 -3 0\n', 'p cnf 3 2\n1 2\n0 -3\n0\n',
    'p cnf 3 2\n1 2 0\n-3\n', 'p cnf 3 2\n1 2 0\n', 'p cnf 3 2\n1 2 0\n-3 0\n1 0\n',
    'p cnf 3 1\n1 2 4 0\n', 'p cnf 3 1\n1 2 -4 0\n', 'p cnf 3 1\n1 0 x\n', 'p cnf 3 2\n1 0 2 0 x 0\n',
    'p cnf 3 1\n1 2.0 0\n', 'p cnf 3 1\n+1 -2 0\n', 'p cnf 3 1\n1 -0\n', 'p cnf 3 1\n1 00\n',
    'p cnf 3 1\n1 1_0 0\n', 'p cnf 30 1\n1 1_0 0\n', 'p cnf 3 1\n١ 0\n', 'p cnf 3 1\n1 2 0 %\n',
    'p cnf 3 1\n%\n0\n', '1 2 0\n', '1 2 0\np cnf 2 1\n', '0\n', 'x\n', 'p\n', 'p cnf\n', 'p cnf 3\n',
    'p cnf 3 2 1\n', 'p cnf a b\n', 'p cnf -1 0\n', 'p cnf 0 -1\n', 'p cnf 1.0 1\n', 'p dnf 2 1\n1 2 0\n',
    'p  cnf   2    1  \n1 2 0\n', 'pcnf 2 1\n', 'p cnf 2 1\np cnf 2 1\n1 2 0\n',
    'p cnf 2 1\n1 2 0\np cnf 2 1\n', 'p cnf 2 1\n1 2 0\np\n', 'P CNF 2 1\n1 2 0\n',
    '  p cnf 2 1\n   1 2 0  \n', '\tp cnf 2 1\n\t1\t2\t0\n', 'p cnf 2 1\r\n1 2 0\r\n',
    'p cnf 2 1\rc x\r1 2 0\r', 'c a\n\nc b\np cnf 2 2\nc mid\n1 0\n\nc mid\n2 0\nc end\n',
    'p cnf 2 1\ncomment 1 2 0\n1 2 0\n', 'p cnf 2 1\nc1 2 0\n1 2 0\n', 'p cnf 2 2\n1 2 0\nc 1 0\n',
    'p cnf 2 1\n1 2 0 c trailing\n', 'p cnf 2 1\n1 c 2 0\n', 'p cnf 5 3\n0 0 0\n', 'p cnf 5 3\n0 0\n',
    'p cnf 5 3\n0 0 0 0\n', 'p cnf 2 1\n1 2 0\n\x00\n', 'p cnf 2 1\n1\x0c2 0\n', 'p cnf 2 1\n1\xa02 0\n',
    'p cnf 2 1\n1 2 0\n\x1a', 'p cnf 99999999999999999999 1\n99999999999999999999 0\n',
    'p cnf 2 1\n' + '1 ' * 500 + '0\n', 'p cnf 1 1\n' + '9' * 5000 + ' 0\n', '﻿p cnf 1 1\n1 0\n',
    'p cnf 2 1 \n -2 -1 0', 'p cnf 2 1\n-2 - 1 0\n', 'p cnf 2 1\n--2 1 0\n', 'p\tcnf\t2\t1\n1 2 0\n',
    'p cnf 2 1\n1 2 0\n\n\n\n', 'p cnf 2 01\n1 2 0\n', 'p cnf +2 +1\n1 2 0\n', 'p cnf 2 1_0\n',
    'p cnf 1 1\nc\n1\nc\n0\nc', 'c p cnf 3 3\np cnf 1 1\n1 0\n',
]
for i, text in enumerate(HAND):
    read_variants(('hand', i), text)
    parse_trace(('hand', i), text)

# every truncation of some written texts
rng = random.Random(6006)
picked = [TEXTS[i] for i in (2, 3, 14, 15, 19, 43, 47, 51)]
for tag, text in picked:
    rec('picked', tag, text)
    for cut in range(0, min(len(text), 400) + 1):
        t = text[:cut]
        parse_trace(('trunc', tag, cut), t)
        attempt(('trunc-read', tag, cut), lambda: state(from_dimacs_file(CNFio, io.StringIO(t))))

# random corruptions
ALPHABET = '0123456789 -\n\tcp+x%.\r'
for tag, text in TEXTS:
    if len(text) > 3000:
        continue
    for j in range(12):
        chars = list(text)
        for _ in range(rng.randint(1, 3)):
            op = rng.randrange(4)
            pos = rng.randrange(len(chars) + 1)
            if op == 0 and pos < len(chars):
                chars[pos] = rng.choice(ALPHABET)
            elif op == 1:
                chars.insert(pos, rng.choice(ALPHABET))
            elif op == 2 and pos < len(chars):
                del chars[pos]
            elif op == 3 and chars:
                # drop or duplicate a whole line
                lines = ''.join(chars).split('\n')
                k = rng.randrange(len(lines))
                if rng.random() < 0.5:
                    del lines[k]
                else:
                    lines.insert(k, lines[k])
                chars = list('\n'.join(lines))
        t = ''.join(chars)
        parse_trace(('corrupt', tag, j), t)
        attempt(('corrupt-read', tag, j), lambda: state(from_dimacs_file(CNF, io.StringIO(t))))

# random token soups
for j in range(400):
    n = rng.randint(0, 4)
    m = rng.randint(0, 4)
    toks = ['p cnf {} {}\n'.format(n, m)] if rng.random() < 0.85 else []
    for _ in range(rng.randint(0, 12)):
        toks.append(rng.choice(['0', '1', '-1', '2', '-2', '3', '-4', '5', '\n', '\n', 'c x\n', ' ', '0\n', 'x', '']))
        toks.append(rng.choice([' ', ' ', '\n', '  ']))
    t = ''.join(toks)
    parse_trace(('soup', j), t)
    attempt(('soup-read', j), lambda: state(from_dimacs_file(CNFio, io.StringIO(t))))

# reader failures other than content
attempt('read-nofile', lambda: from_dimacs_file(CNF, 'does-not-exist.cnf'))
attempt('read-dir', lambda: from_dimacs_file(CNF, '.'))
attempt('read-int', lambda: from_dimacs_file(CNF, 42))
attempt('read-list', lambda: from_dimacs_file(CNF, ['p cnf 1 1', '1 0']))
attempt('read-bytes', lambda: state(from_dimacs_file(CNF, io.BytesIO(b'p cnf 1 1\n1 0\n'))))
attempt('read-badclass', lambda: from_dimacs_file(dict, io.StringIO('p cnf 1 1\n1 0\n')))
attempt('read-noclass', lambda: from_dimacs_file(None, io.StringIO('p cnf 1 1\n1 0\n')))
with open('latin.cnf', 'wb') as f:
    f.write(b'c caf\xe9\np cnf 1 1\n1 0\n')
attempt('read-latin1', lambda: state(from_dimacs_file(CNF, 'latin.cnf')))
with open('utf8.cnf', 'wb') as f:
    f.write('c café\np cnf 1 1\n1 0\n'.encode('utf-8'))
attempt('read-utf8', lambda: state(from_dimacs_file(CNF, 'utf8.cnf')))
with open('utf8.cnf', 'r', encoding='utf-8') as f:
    attempt('read-handle', lambda: state(from_dimacs_file(CNF, f)))
    attempt('read-handle-again', lambda: state(from_dimacs_file(CNF, f)))
attempt('read-closed-handle', lambda: state(from_dimacs_file(CNF, f)))

# the parser is a generator: nothing happens before the first next()
g = attempt('gen-create', lambda: type(parse_dimacs(None)).__name__)
attempt('gen-none', lambda: list(parse_dimacs(None)))


class Lines:
    def __init__(self, lines):
        self.lines = lines
        self.asked = 0

    def readlines(self):
        self.asked += 1
        return self.lines


L = Lines(['p cnf 2 2', '1 0', b'2 0'])
attempt('lines-obj', lambda: list(parse_dimacs(L)))
rec('lines-asked', L.asked)
L = Lines(iter(['p cnf 2 2\n', '1 0\n', '2 0\n']))
attempt('lines-iter', lambda: list(parse_dimacs(L)))
L = Lines(['p cnf 2 2\n', None])
attempt('lines-none', lambda: list(parse_dimacs(L)))

# ----------------------------------------------------------------------
# 3. add_clause / update_variable_number as used by the reader
# ----------------------------------------------------------------------
def gen(seq):
    for x in seq:
        yield x


CLAUSES = [
    lambda: [], lambda: (), lambda: gen([]), lambda: '', lambda: set(), lambda: {}, lambda: range(0),
    lambda: [1, 2, -3], lambda: (4, -9), lambda: gen([2, -11]), lambda: range(1, 4), lambda: range(0, 3),
    lambda: [0], lambda: [1, 0, 2], lambda: ['a'], lambda: 'abc', lambda: '12', lambda: [1.5], lambda: [2.0],
    lambda: [None], lambda: [True, False], lambda: [True], lambda: [[1, 2]], lambda: [(1,), (2,)],
    lambda: [1, 'a'], lambda: None, lambda: 5, lambda: {3: 1, -20: 2}, lambda: [float('nan')],
    lambda: [10 ** 30], lambda: [-10 ** 30], lambda: [1, 1, -1], lambda: b'\x01\x02', lambda: b'\x00',
    lambda: [0.0], lambda: [-0.0, 1], lambda: [complex(1, 1)], lambda: [1, complex(0, 0)],
]
for cls in (BaseCNF, CNFio, CNF):
    for check in (True, False, None, 0, 'yes'):
        F = cls()
        for i, mk in enumerate(CLAUSES):
            attempt(('add', cls.__name__, check, i), lambda: F.add_clause(mk(), check=check))
            rec('after', F.number_of_variables(), len(F), repr(F._clauses[-3:]))
        attempt(('add-default', cls.__name__), lambda: F.add_clause([77, -78]))
        attempt(('add-default-empty', cls.__name__), lambda: F.add_clause(()))
        rec('final', cls.__name__, check, F.number_of_variables(), len(F), repr(list(F)), str(F))
        # the empty clause stored must be a fresh object
        F = cls()
        e = []
        F.add_clause(e, check=check)
        F.add_clause(e, check=check)
        e.append(5)
        rec('alias', [list(c) for c in F], F._clauses[0] is F._clauses[1], F._clauses[0] is e)
        d = [1, 2]
        F.add_clause(d, check=check)
        d.append(9)
        rec('alias2', [list(c) for c in F], F.number_of_variables())
        attempt(('debug', cls.__name__, check), F.debug)
    for i, mk in enumerate(CLAUSES):
        attempt(('ctor', cls.__name__, i), lambda: state(cls([[1], mk(), [2]])))
    attempt(('ctor-from', cls.__name__),
            lambda: state(cls(gen([[1, -2], [], (3,), gen([-4])]), description='d')))
    F = cls()
    attempt(('add-from', cls.__name__), lambda: F.add_clauses_from(gen([[], [1], [], [0], [5]])))
    rec('add-from-state', state(F))
    F = cls()
    for v in (0, 3, 2, 3, 10 ** 20, -1, 1.0, 2.5, '4', None, True, [1]):
        attempt(('uvn', cls.__name__, repr(v)), lambda: F.update_variable_number(v))
        rec('uvn-after', F.number_of_variables())

os.chdir(oldcwd)
import shutil
shutil.rmtree(workdir, ignore_errors=True)
rec('records', NREC[0])
print(H.hexdigest())
