#!/usr/bin/env python
"""Equivalence check for cnfgen.utils.parsedimacs.from_dimacs_file (the DIMACS
reader entry point: file name / file object / stdin handling, the description
given to the formula, and all the error paths).  Prints one SHA256 digest."""
import os
import sys
import io
import random
import hashlib
import tempfile

sys.path.insert(0, os.getcwd())

# the version string comes from `git describe`: make it independent of the checkout
from cnfgen.info import info as _info
REAL_VERSION = str(_info['version'])
_info['version'] = 'VERSION'

from cnfgen.utils.parsedimacs import from_dimacs_file, parse_dimacs
from cnfgen.formula.cnf import CNF
from cnfgen.formula.cnfio import CNFio
from cnfgen.formula.basecnf import BaseCNF
from cnfgen.families.pigeonhole import PigeonholePrinciple
from cnfgen.families.randomformulas import RandomKCNF
from cnfgen.clitools.cnfgen import cli

LOG = []


def log(*items):
    LOG.append(" | ".join(repr(x) for x in items))


def show(tag, thunk):
    try:
        F = thunk()
        log(tag, 'OK', type(F).__name__, F.number_of_variables(),
            F.number_of_clauses(), [list(c) for c in F],
            list(F.header.items()), str(F))
    except BaseException as e:
        log(tag, 'EXC', type(e).__name__, str(e))


class Stream(io.StringIO):
    """StringIO with a settable name"""


class PropName(io.StringIO):
    exc = None

    @property
    def name(self):
        raise self.exc


class OnlyReadlines:
    def __init__(self, text):
        self.text = text

    def readlines(self):
        return self.text.splitlines(True)


class SlotNamed:
    __slots__ = ('text', 'name')

    def __init__(self, text):
        self.text = text

    def readlines(self):
        return self.text.splitlines(True)


texts = [
    "",
    "\n\n",
    "c only a comment\n",
    "p cnf 0 0\n",
    "p cnf 0 0",
    "p cnf 3 0\n",
    "p cnf 0 1\n0\n",
    "p cnf 2 2\n1 -2 0\n0\n",
    "p cnf 2 2\n1 -2 0\n",
    "p cnf 2 1\n1 -2 0\n2 0\n",
    "p cnf 2 1\n1 -2\n",
    "p cnf 2 1\n1 -3 0\n",
    "p cnf 2 1\n1 x 0\n",
    "p cnf 2 1\n1 2.0 0\n",
    "p cnf 2 1\n+1 -2 0\n",
    "p cnf 2 1\n1_0 0\n",
    "p cnf -2 1\n",
    "p cnf 2\n",
    "p cnf 2 1 5\n",
    "p dnf 2 1\n1 0\n",
    "p cnf a b\n",
    "1 2 0\np cnf 2 1\n",
    "p cnf 2 1\np cnf 2 1\n1 0\n",
    "c hello\nc varname 1 x\np cnf 3 2\n1 2\n3 0 -1\n0\n",
    "   p cnf 3 1\n   1 2 3 0   \n",
    "p cnf 3 3\n1 0 2 0 3 0\n",
    "p cnf 3 1\n1 0 2",
    "p cnf 1 1\n1 0\nc trailing comment\n\n",
    "p cnf 1 1\n1 0\ncomment without space is still a c line\n",
    "P CNF 1 1\n1 0\n",
    "p cnf 1 1\r\n1 0\r\n",
    "p cnf 2 1\n١ 0\n",
    "p cnf 5 2\n5 -5 0\n-1 0\n",
    "%\n0\n",
    "p cnf 2 1\n1 2 0\n%\n0\n",
]

rng = random.Random(1306)
base = PigeonholePrinciple(3, 2).to_dimacs()
for _ in range(60):
    t = list(base)
    for _ in range(rng.randint(1, 3)):
        op = rng.choice(['del', 'ins', 'trunc', 'swap'])
        pos = rng.randrange(len(t)) if t else 0
        if op == 'del' and t:
            del t[pos]
        elif op == 'ins':
            t.insert(pos, rng.choice("0123456789- \npcx"))
        elif op == 'trunc':
            t = t[:pos]
        elif t:
            t[pos] = rng.choice("0123456789- \np")
    texts.append("".join(t))

random.seed(77)
for k, n, m in [(3, 5, 7), (2, 4, 0), (0, 3, 1), (4, 8, 20)]:
    F = RandomKCNF(k, n, m)
    for hdr in (True, False):
        for vn in (True, False):
            buf = io.StringIO()
            F.to_file(buf, fileformat='dimacs', export_header=hdr, export_varnames=vn)
            texts.append(buf.getvalue())

classes = [CNF, CNFio, BaseCNF]

for ti, text in enumerate(texts):
    for cls in classes:
        # anonymous stream
        show(('sio', ti, cls.__name__), lambda: from_dimacs_file(cls, io.StringIO(text)))
    # streams with various kinds of name
    for nm in ['x.cnf', '', '<stdin>', 'café {} {0}.cnf', 0, None, 3.5, ('a', 'b'), b'bytes.cnf']:
        s = Stream(text)
        s.name = nm
        show(('named', ti, nm), lambda: from_dimacs_file(CNF, s))
    # name attribute lookups that fail
    for exc in [AttributeError('no name'), AttributeError(), ValueError('bad name'),
                KeyError('k'), RuntimeError('boom'), TypeError('t')]:
        s = PropName(text)
        s.exc = exc
        show(('propname', ti, type(exc).__name__, str(exc)), lambda: from_dimacs_file(CNF, s))
    show(('duck', ti), lambda: from_dimacs_file(CNF, OnlyReadlines(text)))
    show(('slot-unset', ti), lambda: from_dimacs_file(CNF, SlotNamed(text)))
    sn = SlotNamed(text)
    sn.name = 'slot.cnf'
    show(('slot-set', ti), lambda: from_dimacs_file(CNF, sn))
    # classmethod front end
    show(('from_file', ti), lambda: CNF.from_file(io.StringIO(text)))
    # standard input
    old_stdin = sys.stdin
    try:
        sys.stdin = io.StringIO(text)
        show(('stdin-default', ti), lambda: from_dimacs_file(CNF))
        sys.stdin = io.StringIO(text)
        show(('stdin-none', ti), lambda: from_dimacs_file(CNFio, None))
        sys.stdin = Stream(text)
        sys.stdin.name = 'fake-stdin-name'
        show(('stdin-named', ti), lambda: CNF.from_file(None))
    finally:
        sys.stdin = old_stdin
    # raw parser, for reference
    try:
        log('parse', ti, list(parse_dimacs(io.StringIO(text))))
    except BaseException as e:
        log('parse', ti, 'EXC', type(e).__name__, str(e))

# bad arguments
for bad in [0, 1, 3.5, b'bytes-name.cnf', [], {}, object, ('a',)]:
    show(('badarg', repr(bad)), lambda: from_dimacs_file(CNF, bad))
for badcls in [None, int, list, 'CNF']:
    show(('badcls', repr(badcls)), lambda: from_dimacs_file(badcls, io.StringIO("p cnf 1 1\n1 0\n")))

# real files, by name and by handle
with tempfile.TemporaryDirectory() as tmp:
    old = os.getcwd()
    os.chdir(tmp)
    try:
        for ti, text in enumerate(texts):
            fname = 'in%03d.cnf' % ti
            with open(fname, 'w', encoding='utf-8') as f:
                f.write(text)
            for cls in classes:
                show(('byname', ti, cls.__name__), lambda: from_dimacs_file(cls, fname))
            with open(fname, encoding='utf-8') as fh:
                show(('byhandle', ti), lambda: from_dimacs_file(CNF, fh))
            with open(fname, encoding='utf-8') as fh:
                fh.read()
                show(('byhandle-consumed', ti), lambda: from_dimacs_file(CNF, fh))
            fh = open(fname, encoding='utf-8')
            fh.close()
            show(('byhandle-closed', ti), lambda: from_dimacs_file(CNF, fh))
            with open(fname, 'rb') as fh:
                show(('byhandle-binary', ti), lambda: from_dimacs_file(CNF, fh))
            # the command line helper 'dimacs' goes through the same reader
            for extra in ([], ['-T', 'shuffle'], ['-T', 'xor', '2'])[:3 if ti % 5 == 0 else 1]:
                try:
                    log('cli', ti, extra,
                        cli(['cnfgen', '-q', '--seed', '5', 'dimacs', fname] + extra, mode='string'))
                except BaseException as e:
                    log('cli', ti, extra, 'EXC', type(e).__name__, str(e))
            try:
                G = cli(['cnfgen', 'dimacs', fname], mode='formula')
                log('cli-formula', ti, list(G.header.items()), G.number_of_variables(), list(G))
            except BaseException as e:
                log('cli-formula', ti, 'EXC', type(e).__name__, str(e))
        with open('latin1.cnf', 'wb') as f:
            f.write(b"c caf\xe9\np cnf 1 1\n1 0\n")
        show(('latin1',), lambda: from_dimacs_file(CNF, 'latin1.cnf'))
        show(('missing',), lambda: from_dimacs_file(CNF, 'does-not-exist.cnf'))
        show(('emptyname',), lambda: from_dimacs_file(CNF, ''))
        os.mkdir('adir')
        show(('directory',), lambda: from_dimacs_file(CNF, 'adir'))
        # write / read round trip through files
        random.seed(4)
        for i, F in enumerate([CNF(), CNF([[]]), CNF([[1, -2], [], [3]]),
                               PigeonholePrinciple(4, 3), RandomKCNF(3, 6, 10)]):
            F.update_variable_number(F.number_of_variables() + i % 2)
            for hdr in (True, False):
                for vn in (True, False):
                    F.to_file('rt.cnf', export_header=hdr, export_varnames=vn)
                    G = CNF.from_file('rt.cnf')
                    log('roundtrip', i, hdr, vn,
                        G.number_of_variables() == F.number_of_variables(),
                        list(G) == list(F), list(G.header.items()))
    finally:
        os.chdir(old)

data = "\n".join(LOG).encode('utf-8', errors='backslashreplace')
print(hashlib.sha256(data).hexdigest())
