#!/usr/bin/env python3
"""Equivalence script for t15: Graph.update_vertex_number (simple graphs).

Drives simple graphs through random sequences of add_edge / remove_edge /
update_vertex_number / add_edges_from with valid and invalid arguments,
records every observable view after each step, and prints one SHA256.
"""
import os
import sys
sys.path.insert(0, os.getcwd())

import hashlib
import random

import networkx

from cnfgen.graphs import Graph, split_random_edges

OUT = []


def rec(*items):
    OUT.append(repr(items))


def attempt(label, fn, *args):
    try:
        res = fn(*args)
        rec(label, 'ok', repr(res))
        return res
    except Exception as e:  # noqa
        rec(label, 'exc', type(e).__name__, str(e))
        return None


def dump(G):
    n = G.number_of_vertices()
    rec('n', n, G.order(), len(G), list(G.vertices()), type(G.n).__name__, G.n)
    rec('m', G.number_of_edges(), len(G.edges()))
    rec('edges', list(G.edges()))
    rec('adjlen', len(G.adjlist), [list(a) for a in G.adjlist])
    rec('edgeset', sorted(G.edgeset))
    for u in range(0, n + 2):
        attempt(('nb', u), lambda u=u: list(G.neighbors(u)))
        attempt(('deg', u), G.degree, u)
    rec('has', [(u, v) for u in range(0, n + 2) for v in range(0, n + 2)
                if G.has_edge(u, v)])
    rec('in', [(u, v) in G.edges() for u in range(1, n + 1) for v in range(1, n + 1)])
    rec('name', G.name, G.is_dag(), G.is_directed(), G.is_bipartite(), G.is_multigraph())
    X = G.to_networkx()
    rec('nx', sorted(X.nodes()), sorted(tuple(sorted(e)) for e in X.edges()))
    H = Graph.from_networkx(X)
    rec('back', H.number_of_vertices(), list(H.edges()))


def random_ops(rng, n0, steps):
    G = Graph(n0)
    dump(G)
    for step in range(steps):
        n = G.number_of_vertices()
        op = rng.choice(['add', 'add', 'add', 'rem', 'upd', 'upd', 'many', 'bad'])
        if op == 'add':
            u = rng.randint(-1, n + 2)
            v = rng.randint(-1, n + 2)
            attempt(('add', u, v), G.add_edge, u, v)
        elif op == 'rem':
            u = rng.randint(-1, n + 2)
            v = rng.randint(-1, n + 2)
            attempt(('rem', u, v), G.remove_edge, u, v)
        elif op == 'upd':
            k = rng.choice([0, 1, n - 3, n - 1, n, n + 1, n + 2, n + 5, rng.randint(0, n + 4)])
            attempt(('upd', k), G.update_vertex_number, k)
        elif op == 'many':
            es = [(rng.randint(0, n + 1), rng.randint(0, n + 1))
                  for _ in range(rng.randint(0, 5))]
            attempt(('many', es), G.add_edges_from, es)
        else:
            bad = rng.choice([-1, -7, 2.0, 2.5, '3', None, [4], (5,), True, False,
                              30, float('nan')])
            attempt(('updbad', repr(bad)), G.update_vertex_number, bad)
        dump(G)
    return G


def main():
    rng = random.Random(160015)
    for n0 in [0, 1, 2, 3, 5, 8]:
        for rep in range(4):
            rec('SEQ', n0, rep)
            random_ops(rng, n0, 25)

    # boundary cases for update_vertex_number
    for n0 in range(0, 5):
        for k in range(0, 8):
            G = Graph(n0)
            if n0 >= 2:
                G.add_edge(1, n0)
            attempt(('upd', n0, k), G.update_vertex_number, k)
            dump(G)
            # new vertices must be usable, old range must be intact
            for u in range(1, max(n0, k) + 2):
                for v in range(1, max(n0, k) + 2):
                    attempt(('add', u, v), G.add_edge, u, v)
            dump(G)
            # growing twice, shrinking requests ignored
            attempt('upd-again', G.update_vertex_number, k + 2)
            attempt('upd-less', G.update_vertex_number, max(k - 1, 0))
            dump(G)

    # Integral-like but odd arguments
    for val in [True, False, -1, 1.0, '2', None, 3 + 0j]:
        for n0 in [0, 1, 3]:
            G = Graph.complete_graph(n0)
            attempt(('updodd', n0, repr(val)), G.update_vertex_number, val)
            dump(G)

    # the only in-package user of update_vertex_number
    for seed in range(6):
        for n0 in [3, 4, 6]:
            G = Graph.complete_graph(n0)
            for k in [0, 1, 2, n0, G.number_of_edges(), G.number_of_edges() + 1]:
                H = Graph(n0)
                H.add_edges_from(G.edges())
                attempt(('split', seed, n0, k), split_random_edges, H, k, seed)
                dump(H)
                rec('rnd', random.random())

    # star graphs and growth afterwards
    for n in range(0, 4):
        S = Graph.star_graph(n)
        attempt('grow', S.update_vertex_number, n + 3)
        attempt('addnew', S.add_edge, 1, n + 3)
        dump(S)

    h = hashlib.sha256()
    for line in OUT:
        h.update(line.encode('utf-8'))
        h.update(b'\n')
    print(h.hexdigest())


if __name__ == '__main__':
    main()
