import hashlib
import random
import sys
sys.path.insert(0, '.')
import networkx
from cnfgen.graphs import (Graph, DirectedGraph, BipartiteGraph,
                           CompleteBipartiteGraph, normalize_networkx_labels)
import cnfgen.graphs as gmod

H = hashlib.sha256()


def emit(*args):
    H.update((' '.join(repr(a) for a in args) + '\n').encode('utf-8'))


def shown(args):
    return tuple(a if isinstance(a, (int, str, float, list, tuple))
                 else type(a).__name__ for a in args)


def attempt(label, f, *args):
    try:
        r = f(*args)
        if r is not None and not isinstance(r, (int, bool, str)):
            r = list(r)
        emit(label, shown(args), 'ok', r)
    except Exception as e:
        emit(label, shown(args), type(e).__name__, str(e))


def dump_simple(G):
    n = G.number_of_vertices()
    emit('S', n, G.order(), len(G), G.number_of_edges(), len(G.edges()),
         list(G.vertices()), G.is_dag(), G.is_directed(), G.is_bipartite(),
         G.is_multigraph(), G.name)
    emit('S-edges', list(G.edges()), sorted(G.edgeset), G.adjlist)
    for u in range(-1, n + 3):
        attempt('S-neigh', G.neighbors, u)
        attempt('S-deg', G.degree, u)
        for v in range(-1, n + 3):
            emit(G.has_edge(u, v), (u, v) in G.edges())
    N = G.to_networkx()
    emit('S-nx', sorted(N.nodes()), sorted(map(tuple, map(sorted, N.edges()))))
    G2 = Graph.from_networkx(N)
    emit('S-rt', G2.number_of_vertices(), list(G2.edges()), G2.name)


def dump_directed(D):
    n = D.number_of_vertices()
    emit('D', n, D.order(), len(D), D.number_of_edges(), len(D.edges()),
         list(D.vertices()), D.is_dag(), D.is_directed(), D.is_bipartite(),
         D.name)
    emit('D-edges', list(D.edges()), list(D.edges_ordered_by_successors()),
         sorted(D.edgeset), D.pred, D.succ)
    for u in range(-1, n + 3):
        attempt('D-pred', D.predecessors, u)
        attempt('D-succ', D.successors, u)
        attempt('D-in', D.in_degree, u)
        attempt('D-out', D.out_degree, u)
        for v in range(-1, n + 3):
            emit(D.has_edge(u, v), (u, v) in D.edges(),
                 (u, v) in D.edges_ordered_by_successors())
    N = D.to_networkx()
    emit('D-nx', sorted(N.nodes()), sorted(N.edges()))
    D2 = DirectedGraph.from_networkx(N)
    emit('D-rt', D2.number_of_vertices(), list(D2.edges()), D2.is_dag(),
         D2.name)


def dump_bip(B):
    L, R = B.left_order(), B.right_order()
    emit('B', L, R, B.number_of_vertices(), B.order(), len(B),
         B.number_of_edges(), len(B.edges()), B.parts(), B.is_bipartite(),
         B.name)
    emit('B-edges', list(B.edges()))
    for u in range(-1, L + 3):
        attempt('B-rn', B.right_neighbors, u)
        attempt('B-rd', B.right_degree, u)
        for v in range(-1, R + 3):
            emit(B.has_edge(u, v), (u, v) in B.edges())
    for v in range(-1, R + 3):
        attempt('B-ln', B.left_neighbors, v)
        attempt('B-ld', B.left_degree, v)
    N = B.to_networkx()
    emit('B-nx', sorted(N.nodes(data=True)),
         sorted(map(tuple, map(sorted, N.edges()))), N.name)
    B2 = BipartiteGraph.from_networkx(N)
    emit('B-rt', B2.left_order(), B2.right_order(), list(B2.edges()), B2.name)


def run_ops(kind, seed):
    rng = random.Random(seed)
    n0 = rng.choice([0, 0, 1, 2, 3, 5, 8])
    if kind == 'S':
        attempt('ctor', Graph, -1)
        attempt('ctor', Graph, 'x')
        G = Graph(n0) if rng.random() < .5 else Graph(n0, 'named %d' % seed)
        dump = dump_simple
    elif kind == 'D':
        attempt('ctor', DirectedGraph, -1)
        G = DirectedGraph(n0) if rng.random() < .5 else DirectedGraph(n0, None)
        dump = dump_directed
    else:
        attempt('ctor', BipartiteGraph, -1, 2)
        attempt('ctor', BipartiteGraph, 2, 1.5)
        G = BipartiteGraph(n0, rng.choice([0, 1, 3, 6]))
        dump = dump_bip
    dump(G)
    for step in range(rng.randrange(5, 40)):
        hi = G.number_of_vertices() + 2
        u, v = rng.randrange(-1, hi + 1), rng.randrange(-1, hi + 1)
        op = rng.random()
        if op < .6:
            attempt('add', G.add_edge, u, v)
        elif op < .72 and hasattr(G, 'remove_edge'):
            attempt('rem', G.remove_edge, u, v)
        elif op < .8 and hasattr(G, 'update_vertex_number'):
            attempt('upd', G.update_vertex_number, rng.choice([-1, 0, 2, hi, hi + 2]))
        elif op < .9:
            es = [(rng.randrange(0, hi), rng.randrange(0, hi))
                  for _ in range(rng.randrange(0, 5))]
            attempt('addmany', G.add_edges_from, es)
        else:
            attempt('addbad', G.add_edges_from, [(1, 2, 3)])
        if step % 7 == 0:
            dump(G)
    dump(G)


for seed in range(60):
    for kind in 'SDB':
        run_ops(kind, seed)

# factories
for n in range(0, 6):
    dump_simple(Graph.complete_graph(n))
    dump_simple(Graph.star_graph(n))
    dump_simple(Graph.empty_graph(n))
dump_simple(Graph.null_graph())
C = CompleteBipartiteGraph(2, 3)
emit(list(C.edges()), C.number_of_edges(), C.has_edge(2, 3), C.has_edge(3, 3),
     C.name)

# edge listing while the graph changes
G = Graph(6)
G.add_edges_from([(1, 2), (1, 3), (2, 5)])
seen = []
for e in G.edges():
    seen.append(e)
    if e == (1, 2):
        G.add_edge(1, 6)
        G.add_edge(4, 5)
    if e == (1, 3):
        G.remove_edge(2, 5)
emit('live', seen, list(G.edges()))
D = DirectedGraph(5)
D.add_edges_from([(1, 2), (3, 1)])
for order in (D.edges, D.edges_ordered_by_successors):
    seen = []
    it = iter(order())
    D.add_edge(2, 4)
    for e in it:
        seen.append(e)
        if len(seen) == 1:
            D.add_edge(5, 5)
            D.add_edge(4, 5)
    emit('liveD', seen, list(order()), D.is_dag())

# label normalisation and conversion from networkx
labelsets = [
    [3, 1, 2], ['10', '2', '1'], ['b', 'a', 'c'], ['-3', 4, 'x', '7', 'aa'],
    [(1, 2), (0, 5), 'z'], [2.5, 1, 'q'], [], ['٣', '2', 10], ['--1', '-1', 0],
    [b'x', 1, 'a'], [frozenset([1]), frozenset([2]), 1],
]
rng = random.Random(99)
for labels in labelsets:
    for cls, nxcls in ((Graph, networkx.Graph), (DirectedGraph, networkx.DiGraph)):
        N = nxcls()
        N.add_nodes_from(labels)
        for _ in range(len(labels)):
            if len(labels) >= 2:
                a, b = rng.sample(labels, 2)
                N.add_edge(a, b)
        N.name = 'lab'
        try:
            M = normalize_networkx_labels(N)
            emit('norm', sorted(M.nodes()), sorted(M.edges()))
        except Exception as e:
            emit('norm', type(e).__name__, str(e))
        for f in (cls.from_networkx, cls.normalize):
            try:
                X = f(N)
                emit('conv', X.number_of_vertices(), list(X.edges()), X.name,
                     X.is_dag())
            except Exception as e:
                emit('conv', type(e).__name__, str(e))
for lab in [0, -4, '12', '-12', '--12', '-', '', 'abc', '1a', 2.0, None, (1,),
            True, '٣', '²']:
    try:
        emit('key', lab, gmod._label_sort_key(lab))
    except Exception as e:
        emit('key', lab, type(e).__name__, str(e))
for cls in (Graph, DirectedGraph, BipartiteGraph):
    for bad in (networkx.DiGraph() if cls is Graph else networkx.Graph(), 5, 'g'):
        for f in (cls.from_networkx, cls.normalize):
            try:
                X = f(bad)
                emit('bad', type(X).__name__)
            except Exception as e:
                emit('bad', type(e).__name__, str(e))
N = networkx.Graph()
N.add_node('a', bipartite=0)
N.add_node('b')
attempt('bipbad', BipartiteGraph.from_networkx, N)
N = networkx.Graph()
N.add_node('a', bipartite=0)
N.add_node('b', bipartite=0)
N.add_edge('a', 'b')
attempt('bipbad', BipartiteGraph.from_networkx, N)

print(H.hexdigest())
