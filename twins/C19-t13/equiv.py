"""Equivalence harness for cnfgen.clitools.cnfgen.parse_command_line (split around -T)"""
import sys, os, io, hashlib, random, contextlib, warnings
warnings.simplefilter('ignore')
sys.path.insert(0, os.getcwd())

from cnfgen.clitools.cnfgen import cli, parse_command_line, setup_command_line_parsers
from cnfgen.clitools.cmdline import get_formula_helpers, get_transformation_helpers

H = hashlib.sha256()
LOG = []


def rec(*items):
    s = ' | '.join(repr(x) for x in items)
    LOG.append(s)
    H.update(s.encode('utf-8'))
    H.update(b'\n')


def snapshot(F):
    buf = io.StringIO()
    F.to_file(buf, fileformat='dimacs', export_header=True)
    return (F.number_of_variables(), F.number_of_clauses(),
            list(F.header.items()), list(F.all_variable_labels()),
            [tuple(c) for c in F], buf.getvalue())


def ns_repr(ns):
    out = []
    for k, v in sorted(vars(ns).items()):
        if k in ('generator', 'transformation'):
            out.append((k, v.name))
        elif k == 'output':
            out.append((k, getattr(v, 'name', None)))
        elif isinstance(v, (int, str, bool, type(None), list, tuple)):
            out.append((k, repr(v)))
        else:
            out.append((k, type(v).__name__))
    return out


class FakeParser:
    """Records the order and content of parse_args calls"""
    def __init__(self, tag, trace, fail_on=None):
        self.tag, self.trace, self.fail_on = tag, trace, fail_on

    def parse_args(self, args):
        self.trace.append((self.tag, list(args), type(args).__name__))
        if self.fail_on is not None and list(args) == self.fail_on:
            raise ValueError('boom ' + self.tag + ' ' + repr(args))
        return (self.tag, tuple(args))


SPLITS = [
    [],
    ['prog'],
    ['-T'],
    ['prog', '-T'],
    ['-T', '-T'],
    ['prog', '-T', '-T', '-T'],
    ['prog', 'a', 'b', '-T', 'c', '-T', 'd', 'e'],
    ['prog', 'a', '-T', '-T', 'x', '-T'],
    ['prog', '-Tx', '-T', '--T', '-t', '-T', 'T'],
    ['prog', 'a', ' -T', '-T ', '-T', 'b'],
    ['prog', '-T', 'fail', '-T', 'after'],
    ['prog', 'fail', '-T', 'fail'],
    ('prog', 'tuple', '-T', 'x', 'y'),
]


def fake_runs():
    for argv in SPLITS:
        for ffail, tfail in ((None, None), (['fail'], None), (None, ['fail']), (['fail'], ['fail'])):
            trace = []
            fp = FakeParser('F', trace, ffail)
            tp = FakeParser('T', trace, tfail)
            copy = list(argv)
            try:
                res = parse_command_line(argv, fp, tp)
                rec('fake', list(argv), ffail, tfail, res, type(res).__name__,
                    type(res[1]).__name__, trace)
            except BaseException as e:
                rec('fake-exc', list(argv), ffail, tfail, type(e).__name__, str(e), trace)
            rec('argv-untouched', list(argv) == copy)
    # a generator as argv
    trace = []
    res = parse_command_line(iter(['p', 'a', '-T', 'b']), FakeParser('F', trace), FakeParser('T', trace))
    rec('fake-iter', res, trace)


REAL = [
    ['cnfgen', 'php', '3', '2'],
    ['cnfgen', 'php', '3', '2', '-T', 'flip'],
    ['cnfgen', '-S', '4', 'php', '3', '2', '-T', 'shuffle', '-T', 'xor', '2', '-T', 'flip'],
    ['cnfgen', '-q', 'or', '1', '1', '-T', 'or', '2', '-T', 'lift', '2', '-T', 'ite', '-T', 'none'],
    ['cnfgen', 'op', '3', '-T'],
    ['cnfgen', 'op', '3', '-T', '-T', 'flip'],
    ['cnfgen', '-T', 'flip'],
    ['cnfgen'],
    ['cnfgen', 'op', '3', '-T', 'nosuch'],
    ['cnfgen', 'op', '3', '-T', 'xor'],
    ['cnfgen', 'op', '3', '-T', 'xor', '0'],
    ['cnfgen', 'nosuch', '-T', 'alsonosuch'],
    ['cnfgen', 'op', 'x', '-T', 'xor', 'y'],
    ['cnfgen', 'op', 3, '-T', 'xor', 2],
    ['cnfgen', '-S', '12', 'randkcnf', '3', '5', '7', '-T', 'shuffle', '-p', '-T', 'shuffle', '-v', '-c'],
    ['cnfgen', 'and', '1', '0', '-T', 'one', '2', '-T', 'atleast', '2', '1', '-T', 'atmost', '2', '1'],
    ['cnfgen', 'and', '1', '0', '-T', 'exact', '2', '1', '-T', 'anybut', '2', '1', '-T', 'none'],
    ['cnfgen', 'or', '1', '0', '-T', 'eq', '2', '-T', 'neq', '2', '-T', 'maj', '3'],
]


def real_runs():
    parser, t_parser = setup_command_line_parsers('cnfgen', get_formula_helpers(),
                                                  get_transformation_helpers())
    for argv in REAL:
        sargv = [str(x) for x in argv]
        err, out = io.StringIO(), io.StringIO()
        try:
            with contextlib.redirect_stderr(err), contextlib.redirect_stdout(out):
                fargs, targs = parse_command_line(sargv, parser, t_parser)
            rec('real', sargv, ns_repr(fargs), [ns_repr(t) for t in targs], out.getvalue(), err.getvalue())
        except SystemExit as e:
            rec('real-exit', sargv, e.code, out.getvalue(), err.getvalue())
        except BaseException as e:
            rec('real-exc', sargv, type(e).__name__, str(e), out.getvalue(), err.getvalue())
    for argv in REAL:
        err, out = io.StringIO(), io.StringIO()
        random.seed(99)
        try:
            with contextlib.redirect_stderr(err), contextlib.redirect_stdout(out):
                F = cli(list(argv), mode='formula')
            rec('cli', argv, snapshot(F), out.getvalue(), err.getvalue())
        except SystemExit as e:
            rec('cli-exit', argv, e.code, out.getvalue(), err.getvalue())
        except BaseException as e:
            rec('cli-exc', argv, type(e).__name__, str(e), out.getvalue(), err.getvalue())
        rec('rnd', random.random())
        for fmt in ('latex', 'opb'):
            try:
                with contextlib.redirect_stderr(err), contextlib.redirect_stdout(out):
                    text = cli([argv[0], '-of', fmt] + list(argv[1:]), mode='string')
                rec('cli-str', fmt, argv, text)
            except SystemExit as e:
                rec('cli-str-exit', fmt, argv, e.code)
            except BaseException as e:
                rec('cli-str-exc', fmt, argv, type(e).__name__, str(e))


fake_runs()
real_runs()
if '--dump' in sys.argv:
    print('\n'.join(LOG))
print(H.hexdigest())
