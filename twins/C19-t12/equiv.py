"""Equivalence harness for XorCompressionCmd / MajCompressionCmd.transform_cnf"""
import sys, os, io, hashlib, random, argparse, contextlib, warnings
warnings.simplefilter('ignore')
sys.path.insert(0, os.getcwd())

from cnfgen.formula.cnf import CNF
from cnfgen.graphs import BipartiteGraph
from cnfgen.clitools.cnfgen import cli
from cnfgen.clihelpers.transformation_helpers import XorCompressionCmd, MajCompressionCmd

H = hashlib.sha256()
LOG = []


def rec(*items):
    s = ' | '.join(repr(x) for x in items)
    LOG.append(s)
    H.update(s.encode('utf-8'))
    H.update(b'\n')


def snapshot(F):
    buf = io.StringIO()
    F.to_file(buf, fileformat='dimacs', export_header=True)
    return (F.number_of_variables(), F.number_of_clauses(),
            list(F.header.items()), list(F.all_variable_labels()),
            [tuple(c) for c in F], buf.getvalue())


def run_cli(argv):
    err = io.StringIO()
    out = io.StringIO()
    try:
        with contextlib.redirect_stderr(err), contextlib.redirect_stdout(out):
            F = cli(argv, mode='formula')
        rec('cli', argv, snapshot(F), out.getvalue(), err.getvalue())
    except SystemExit as e:
        rec('cli-exit', argv, e.code, out.getvalue(), err.getvalue())
    except BaseException as e:
        rec('cli-exc', argv, type(e).__name__, str(e), out.getvalue(), err.getvalue())
    rec('rnd', random.random())


def base_formulas():
    F0 = CNF()
    F0.header['description'] = 'empty formula'
    yield 'empty', F0
    F1 = CNF([[1, -2], [2, 3], [-1, -3, 2]])
    F1.header['description'] = 'small'
    F1.header['transformation 1'] = 'earlier step'
    yield 'small', F1
    F2 = CNF([[]])
    yield 'emptyclause', F2
    F3 = CNF()
    F3.update_variable_number(6)
    F3.add_clause([1, 6])
    F3.add_clause([-4])
    F3.header['transformation 2'] = 'gap in numbering'
    yield 'sparse', F3


def direct():
    for cmd in (XorCompressionCmd, MajCompressionCmd):
        for name, F in base_formulas():
            V = F.number_of_variables()
            specs = []
            for N in (1, 2, 3, 5, 7):
                for d in (1, 2, 3, 4):
                    specs.append(argparse.Namespace(N=N, d=d))
            # N and B both present: N wins
            Bx = BipartiteGraph(V, 3)
            for u in range(1, V + 1):
                Bx.add_edge(u, 1 + (u % 3))
            specs.append(argparse.Namespace(N=4, d=2, B=Bx))
            specs.append(argparse.Namespace(B=Bx))
            Bw = BipartiteGraph(V + 1, 2)
            specs.append(argparse.Namespace(B=Bw))
            specs.append(argparse.Namespace(B='not a graph'))
            specs.append(argparse.Namespace())
            specs.append(argparse.Namespace(N=3))
            specs.append(argparse.Namespace(N='3', d=2))
            specs.append(argparse.Namespace(N=0, d=0))
            specs.append(argparse.Namespace(N=3, d=0))
            for i, ns in enumerate(specs):
                random.seed(1000 + i)
                before = snapshot(F)
                tag = (cmd.name, name, sorted((k, repr(v) if k != 'B' else 'B')
                                             for k, v in vars(ns).items()))
                try:
                    G = cmd.transform_cnf(F, ns)
                    rec('direct', tag, snapshot(G), G is F)
                except BaseException as e:
                    rec('direct-exc', tag, type(e).__name__, str(e))
                rec('untouched', snapshot(F) == before, random.random())
                if hasattr(ns, 'B') and isinstance(ns.B, BipartiteGraph):
                    rec('graph', ns.B.left_order(), ns.B.right_order(), list(ns.B.edges()))


def viacli():
    cmds = [
        ['cnfgen', '-S', '3', 'php', '3', '2', '-T', 'xorcomp', '4', '2'],
        ['cnfgen', '-S', '3', 'php', '3', '2', '-T', 'majcomp', '4', '3'],
        ['cnfgen', '-S', '5', 'php', '3', '2', '-T', 'xorcomp', '5'],
        ['cnfgen', '-S', '5', 'php', '3', '2', '-T', 'majcomp', '5'],
        ['cnfgen', '-S', '7', 'op', '3', '-T', 'xorcomp', '4', '2', '-T', 'shuffle', '-T', 'majcomp', '3', '1'],
        ['cnfgen', '-S', '7', 'op', '3', '-T', 'xorcomp', 'glrd', '6', '4', '2'],
        ['cnfgen', '-S', '7', 'op', '3', '-T', 'majcomp', 'glrd', '6', '4', '3', '-T', 'flip'],
        ['cnfgen', '-S', '7', 'op', '3', '-T', 'xorcomp', 'glrd', '5', '4', '2'],
        ['cnfgen', '-S', '9', 'php', '2', '2', '-T', 'xorcomp', '2', '3'],
        ['cnfgen', '-S', '9', 'php', '2', '2', '-T', 'majcomp', '0'],
        ['cnfgen', '-S', '9', 'php', '2', '2', '-T', 'majcomp', '3', '0'],
        ['cnfgen', '-S', '9', 'php', '2', '2', '-T', 'xorcomp'],
        ['cnfgen', '-S', '9', 'php', '2', '2', '-T', 'xorcomp', 'x', 'y'],
        ['cnfgen', '-S', '11', 'and', '0', '0', '-T', 'xorcomp', '3', '2'],
        ['cnfgen', '-S', '11', 'or', '2', '1', '-T', 'majcomp', '3', '2', '-T', 'xorcomp', '2', '1'],
        ['cnfgen', 'php', '2', '1', '-T', 'xorcomp', '1', '1', '-T', 'majcomp', '1', '1', '-T', 'xorcomp', '1', '1'],
    ]
    for argv in cmds:
        run_cli(argv)


direct()
viacli()
if '--dump' in sys.argv:
    print('\n'.join(LOG))
print(H.hexdigest())
