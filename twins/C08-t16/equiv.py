#!/usr/bin/env python3
"""Equivalence digest for VariablesManager.force_nondecreasing_mapping

Exercises the method directly (CNF and OPB formula classes, unary /
sparse / binary mappings, boundary sizes, error paths) and through the
families that use it (kclique, kcliquebin, subgraph, domset) via both
`cnfgen` and `pbgen`.

Run as:  cd <checkout> && /venv/bin/python equiv.py
Prints one SHA256 digest of everything observable.
"""
import sys
import os
import io
import hashlib
import random
import importlib
import contextlib
from itertools import product

sys.path.insert(0, os.getcwd())

import cnfgen.clitools.msg as msgmod
from cnfgen.formula.cnf import CNF
from cnfgen.formula.opb import OPB
from cnfgen.graphs import BipartiteGraph, Graph
from cnfgen.families.subgraph import CliqueFormula, BinaryCliqueFormula
from cnfgen.families.subgraph import SubgraphFormula
from cnfgen.families.dominatingset import DominatingSet

pbmod = importlib.import_module('cnfgen.clitools.pbgen')
cnfmod = importlib.import_module('cnfgen.clitools.cnfgen')

H = hashlib.sha256()


def record(*items):
    for it in items:
        H.update(repr(it).encode('utf-8'))
        H.update(b'\x00')


def content(F):
    if isinstance(F, OPB):
        body = [list(c) for c in F.constraints()]
    else:
        body = [list(c) for c in F.clauses()]
    return (type(F).__name__, F.number_of_variables(),
            list(F.all_variable_labels()), body)


def observe(tag, fn, *a, **kw):
    msgmod._prefix = ''
    out, err = io.StringIO(), io.StringIO()
    res = None
    try:
        with contextlib.redirect_stdout(out), contextlib.redirect_stderr(err):
            res = fn(*a, **kw)
        if isinstance(res, (CNF, OPB)):
            outcome = ('ok', content(res))
        else:
            outcome = ('ok', repr(res))
    except SystemExit as e:
        outcome = ('exit', repr(e.code))
    except BaseException as e:  # noqa
        outcome = ('exc', type(e).__name__, str(e))
    record(tag, outcome, out.getvalue(), err.getvalue())
    return res


def models(F):
    """Set of satisfying assignments, as bitmasks (brute force)"""
    n = F.number_of_variables()
    sat = []
    if isinstance(F, OPB):
        cons = [list(c) for c in F.constraints()]
    else:
        cons = [list(c) for c in F.clauses()]
    for bits in product([False, True], repeat=n):
        def val(l):
            return bits[abs(l) - 1] == (l > 0)
        ok = True
        for c in cons:
            if isinstance(F, OPB):
                s = sum(k for (k, l) in c[:-2] if val(l))
                good = (s >= c[-1]) if c[-2] == '>=' else (s == c[-1])
            else:
                good = any(val(l) for l in c)
            if not good:
                ok = False
                break
        if ok:
            sat.append(bits)
    return sat


# ---------------------------------------------------------------
# 1. direct calls
# ---------------------------------------------------------------
def bip(L, R, edges, name=None):
    B = BipartiteGraph(L, R, name=name)
    for (u, v) in edges:
        B.add_edge(u, v)
    return B


rnd = random.Random(20240)
SPARSE = [
    bip(0, 0, []),
    bip(0, 3, []),
    bip(3, 0, []),
    bip(1, 1, [(1, 1)]),
    bip(2, 3, [(1, 2), (1, 3), (2, 1), (2, 3)]),
    bip(3, 3, []),
    bip(3, 3, [(1, 3), (2, 2), (3, 1)]),
    bip(3, 3, [(1, 1), (2, 2), (3, 3)]),
    bip(3, 4, [(1, 4), (3, 1), (3, 2)]),
    bip(4, 2, [(1, 2), (2, 1), (2, 2), (3, 2), (4, 1)]),
]
for _ in range(6):
    L, R = rnd.randint(1, 5), rnd.randint(1, 5)
    E = [(u, v) for u in range(1, L + 1) for v in range(1, R + 1)
         if rnd.random() < 0.5]
    # add edges in a scrambled order: adjacency lists must end up sorted anyway
    rnd.shuffle(E)
    SPARSE.append(bip(L, R, E))


def direct_sparse(cls, B, pre):
    F = cls()
    if pre:
        F.new_block(2, 2, label='z_{{{},{}}}')
    f = F.new_sparse_mapping(B)
    F.force_nondecreasing_mapping(f)
    return F


def direct_dense(cls, n, m, pre):
    F = cls()
    if pre:
        F.new_variable('w')
    f = F.new_mapping(n, m)
    F.force_nondecreasing_mapping(f)
    return F


def direct_binary(cls, n, m):
    F = cls()
    f = F.new_binary_mapping(n, m)
    F.force_nondecreasing_mapping(f)
    return F


for cls in (CNF, OPB):
    for i, B in enumerate(SPARSE):
        for pre in (False, True):
            observe(('sparse', cls.__name__, i, pre), direct_sparse, cls, B, pre)
    for n in range(0, 5):
        for m in range(0, 5):
            observe(('dense', cls.__name__, n, m), direct_dense, cls, n, m, (n + m) % 2 == 0)
    for n in range(0, 4):
        for m in range(0, 6):
            observe(('binary', cls.__name__, n, m), direct_binary, cls, n, m)

# the two renderings have the same models
for i, B in enumerate(SPARSE):
    if B.number_of_edges() <= 10:
        c = direct_sparse(CNF, B, False)
        o = direct_sparse(OPB, B, False)
        mc, mo = models(c), models(o)
        record(('models-sparse', i, mc == mo, len(mc)))
for n in range(0, 4):
    for m in range(0, 4):
        mc = models(direct_dense(CNF, n, m, False))
        mo = models(direct_dense(OPB, n, m, False))
        record(('models-dense', n, m, mc == mo, mc))


# error paths
def wrong_type(cls):
    F = cls()
    b = F.new_block(2, 3)
    F.force_nondecreasing_mapping(b)


def wrong_formula(cls, binary):
    F, G = cls(), cls()
    f = G.new_binary_mapping(2, 3) if binary else G.new_mapping(2, 3)
    F.force_nondecreasing_mapping(f)
    return F


def wrong_none(cls):
    F = cls()
    F.force_nondecreasing_mapping(None)


def bipartite_edges_not_mapping(cls):
    F = cls()
    e = F.new_bipartite_edges(bip(2, 2, [(1, 1), (2, 2)]))
    F.force_nondecreasing_mapping(e)
    return F


for cls in (CNF, OPB):
    observe(('err-type', cls.__name__), wrong_type, cls)
    observe(('err-formula-u', cls.__name__), wrong_formula, cls, False)
    observe(('err-formula-b', cls.__name__), wrong_formula, cls, True)
    observe(('err-none', cls.__name__), wrong_none, cls)
    observe(('err-edges', cls.__name__), bipartite_edges_not_mapping, cls)

# ---------------------------------------------------------------
# 2. families, library level
# ---------------------------------------------------------------
def graph(n, edges):
    G = Graph(n)
    for (u, v) in edges:
        G.add_edge(u, v)
    return G


GRAPHS = [
    graph(0, []),
    graph(1, []),
    graph(3, [(1, 2), (2, 3)]),
    graph(4, [(1, 2), (2, 3), (3, 4), (1, 4), (1, 3)]),
    graph(5, [(1, 2), (1, 3), (2, 3), (3, 4), (4, 5), (3, 5)]),
]
for cls in (CNF, OPB):
    for gi, G in enumerate(GRAPHS):
        for k in range(0, 4):
            for sb in (True, False):
                observe(('kclique', cls.__name__, gi, k, sb), CliqueFormula,
                        G, k, sb, formula_class=cls)
                observe(('kcliquebin', cls.__name__, gi, k, sb), BinaryCliqueFormula,
                        G, k, sb, formula_class=cls)
        for d in range(0, 3):
            for alt in (False, True):
                observe(('domset', cls.__name__, gi, d, alt), DominatingSet,
                        G, d, alt, formula_class=cls)
        for ti, T in enumerate(GRAPHS[:4]):
            for induced in (False, True):
                for sb in (True, False):
                    observe(('subgraph', cls.__name__, gi, ti, induced, sb), SubgraphFormula,
                            G, T, induced, sb, formula_class=cls)

for gi, G in enumerate(GRAPHS[:4]):
    for k in (1, 2, 3):
        if G.number_of_vertices() * k <= 12:
            mc = models(CliqueFormula(G, k, True, formula_class=CNF))
            mo = models(CliqueFormula(G, k, True, formula_class=OPB))
            record(('models-kclique', gi, k, mc == mo, len(mc)))
    for d in (1, 2):
        if G.number_of_vertices() * (d + 1) <= 12:
            mc = models(DominatingSet(G, d, formula_class=CNF))
            mo = models(DominatingSet(G, d, formula_class=OPB))
            record(('models-domset', gi, d, mc == mo, len(mc)))

# ---------------------------------------------------------------
# 3. command line, both tools
# ---------------------------------------------------------------
TAILS = [
    ['kclique', '3', 'complete', '4'],
    ['kclique', '2', 'grid', '2', '3'],
    ['kclique', '--no-symmetry-breaking', '3', 'complete', '4'],
    ['kclique', '0', 'complete', '3'],
    ['kclique', '4', 'empty', '3'],
    ['-S', '11', 'kclique', '3', 'gnp', '6', '.5'],
    ['-S', '12', 'kclique', '3', 'gnm', '6', '9', 'plantclique', '3'],
    ['kcliquebin', '3', 'complete', '5'],
    ['kcliquebin', '2', 'grid', '2', '2'],
    ['domset', '2', 'grid', '2', '3'],
    ['domset', '--alternative', '2', 'grid', '2', '3'],
    ['domset', '1', 'complete', '3'],
    ['-S', '4', 'domset', '3', 'gnd', '6', '3'],
    ['subgraph', '-G', 'complete', '4', '-H', 'complete', '3'],
    ['subgraph', '-G', 'grid', '2', '3', '-H', 'grid', '2', '2'],
    ['kclique', '-1', 'complete', '4'],
    ['kclique', 'complete', '4'],
    ['domset', '2'],
]
for tail in TAILS:
    for tool, mod in (('pbgen', pbmod), ('cnfgen', cnfmod)):
        random.seed(31337)
        observe(('cli', tool, tuple(tail), 'formula'), mod.cli, [tool] + tail, mode='formula')
        random.seed(31337)
        observe(('cli', tool, tuple(tail), 'string'), mod.cli, [tool] + tail, mode='string')

print(H.hexdigest())
