#!/usr/bin/env python
"""Equivalence script for t20: Pitfall formula and Thapen's CPLS formula
(cnfgen/families/pitfall.py, cnfgen/families/cpls.py), the per-copy /
per-level variable tables.

Run as:  cd <checkout> && /venv/bin/python equiv.py
Prints one SHA256 digest of everything observable.
"""
import sys
import os
import hashlib
import itertools
import random
import warnings

warnings.simplefilter('ignore')
sys.path.insert(0, os.getcwd())

from cnfgen.formula.cnf import CNF
from cnfgen.families.pitfall import PitfallFormula
from cnfgen.families.cpls import CPLSFormula
from cnfgen.clitools.cnfgen import cli
import cnfgen

try:
    import numpy
except ImportError:  # pragma: no cover
    numpy = None

H = hashlib.sha256()


def emit(*items):
    for x in items:
        H.update(repr(x).encode('utf-8'))
        H.update(b'\x00')


def reseed(s):
    random.seed(s)
    if numpy is not None:
        numpy.random.seed(s)


def observe_formula(F):
    emit(sorted(F.header.items()) if hasattr(F.header, 'items') else F.header)
    emit(F.number_of_variables(), len(F))
    emit(list(F.all_variable_labels()))
    emit([list(c) for c in F.clauses()])
    emit(F.to_dimacs())


def attempt(tag, fn, *args, **kwargs):
    emit('CALL', tag, repr(args), sorted((k, getattr(v, '__name__', v))
                                         for k, v in kwargs.items()))
    try:
        res = fn(*args, **kwargs)
    except BaseException as e:  # noqa
        emit('EXC', type(e).__name__, str(e))
        return None
    return res


def is_satisfiable(F, limit=18):
    """Brute force satisfiability for tiny formulas"""
    n = F.number_of_variables()
    if n > limit:
        return None
    cls = [list(c) for c in F.clauses()]
    for bits in itertools.product([False, True], repeat=n):
        if all(any((bits[abs(l) - 1] if l > 0 else not bits[abs(l) - 1])
                   for l in c) for c in cls):
            return True
    return False


# ---------------------------------------------------------------- Pitfall
pitfall_params = []
for v, d in [(2, 1), (3, 2), (4, 1), (4, 2), (4, 3), (5, 2), (5, 4), (6, 3),
             (6, 5), (8, 3), (10, 4)]:
    for ny, nz in [(1, 1), (2, 2), (2, 3), (3, 2), (4, 1), (1, 4), (5, 3)]:
        for k in [2, 4]:
            pitfall_params.append((v, d, ny, nz, k))
pitfall_params += [(6, 3, 2, 2, 6), (4, 2, 3, 3, 8), (12, 3, 6, 4, 2),
                   (45, 4, 30, 5, 8)]

for seed, params in enumerate(pitfall_params):
    reseed(1000 + seed)
    F = attempt('pitfall', PitfallFormula, *params)
    if F is not None:
        observe_formula(F)
        if params == (45, 4, 30, 5, 8):
            continue
        emit('sat', is_satisfiable(F))
    emit(random.random())

# same seed, twice, and package level name / formula_class keyword
for fn in (PitfallFormula, cnfgen.PitfallFormula):
    reseed(5)
    F = attempt('pitfall-again', fn, 6, 3, 3, 2, 2, formula_class=CNF)
    if F is not None:
        observe_formula(F)

# error paths
bad_pitfall = [(0, 1, 2, 2, 2), (4, 0, 2, 2, 2), (4, 2, 0, 2, 2),
               (4, 2, 2, 0, 2), (4, 2, 2, 2, 0), (4, 2, 2, 2, 3),
               (4, 2, 2, 2, 1), (4, 4, 2, 2, 2), (4, 5, 2, 2, 2),
               (5, 3, 2, 2, 2), (3, 1, 2, 2, 2), (1, 1, 2, 2, 2),
               (-4, 2, 2, 2, 2), (4, 2, 2, 2, -2), ('a', 2, 2, 2, 2),
               (4, 2.0, 2, 2, 2), (4, 2, None, 2, 2), (4, 2, 2, 2),
               (4, 2, 2, 2, 2, 2), (4, 2, 2, 2, 2.0)]
for params in bad_pitfall:
    reseed(77)
    F = attempt('pitfall-bad', PitfallFormula, *params)
    if F is not None:
        observe_formula(F)
    emit(random.random())

# ------------------------------------------------------------------- CPLS
for a in range(1, 5):
    for b in [1, 2, 4, 8]:
        for c in [1, 2, 4, 8]:
            F = attempt('cpls', CPLSFormula, a, b, c)
            if F is not None:
                observe_formula(F)
                emit('sat', is_satisfiable(F, 16))
for params in [(6, 2, 2), (2, 16, 2), (2, 2, 16), (7, 1, 1), (3, 8, 16)]:
    F = attempt('cpls-big', CPLSFormula, *params)
    if F is not None:
        observe_formula(F)
F = attempt('cpls-pkg', cnfgen.CPLSFormula, 3, 2, 4, formula_class=CNF)
if F is not None:
    observe_formula(F)

bad_cpls = [(0, 2, 2), (2, 0, 2), (2, 2, 0), (2, 3, 2), (2, 2, 3), (2, 6, 6),
            (-1, 2, 2), (2, -2, 2), (2, 2, -4), ('a', 2, 2), (2, 'b', 2),
            (2, 2, 2.0), (None, 2, 2), (2, 2), (2, 2, 2, 2), (2, 12, 4)]
for params in bad_cpls:
    F = attempt('cpls-bad', CPLSFormula, *params)
    if F is not None:
        observe_formula(F)

# ----------------------------------------------------------- command line
cmdlines = [
    ['cnfgen', '-q', '--seed', '3', 'pitfall', '4', '2', '2', '2', '2'],
    ['cnfgen', '--seed', '3', 'pitfall', '6', '3', '3', '2', '4'],
    ['cnfgen', '-q', '--seed', '3', '-of', 'latex', 'pitfall', '4', '3', '2', '2', '2'],
    ['cnfgen', '-q', '--seed', '3', '-of', 'opb', 'pitfall', '4', '3', '2', '3', '2'],
    ['cnfgen', '-q', '--seed', '3', 'pitfall', '4', '2', '2', '2', '3'],
    ['cnfgen', '-q', '--seed', '3', 'pitfall', '4', '4', '2', '2', '2'],
    ['cnfgen', '-q', '--seed', '3', 'pitfall', '5', '3', '2', '2', '2'],
    ['cnfgen', '-q', '--seed', '3', 'pitfall', '0', '3', '2', '2', '2'],
    ['cnfgen', '-q', '--seed', '3', 'pitfall', '4', '2', '2', '2'],
    ['cnfgen', '-q', '--seed', '3', 'pitfall', '4', '2', 'x', '2', '2'],
    ['cnfgen', '-q', '--seed', '3', 'pitfall', '6', '3', '2', '2', '2', '-T', 'shuffle'],
    ['cnfgen', '-q', 'cpls', '2', '2', '2'],
    ['cnfgen', 'cpls', '3', '4', '2'],
    ['cnfgen', '-q', '-of', 'latex', 'cpls', '2', '2', '4'],
    ['cnfgen', '-q', '-of', 'opb', 'cpls', '1', '1', '1'],
    ['cnfgen', '-q', 'cpls', '2', '3', '2'],
    ['cnfgen', '-q', 'cpls', '2', '2', '6'],
    ['cnfgen', '-q', 'cpls', '0', '2', '2'],
    ['cnfgen', '-q', 'cpls', '2', '2'],
    ['cnfgen', '-q', 'cpls', 'a', '2', '2'],
    ['cnfgen', '-q', '--seed', '8', 'cpls', '2', '2', '2', '-T', 'shuffle'],
]
for cmd in cmdlines:
    reseed(42)
    out = attempt('cli', cli, cmd, mode='string')
    emit(out)
    emit(random.random())

print(H.hexdigest())
