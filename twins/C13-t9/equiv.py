"""Equivalence script for the `randkxor` / `randkcnf` command line helpers.

Exercises RandXorHelper.build_formula and RandCmdHelper.build_formula,
directly and through the cnfgen / pbgen command lines, with and without
--plant, at boundary sizes and on error paths.  Prints one SHA256 digest.
"""
import sys
import os
import io
import hashlib
import random
import warnings
import contextlib
from types import SimpleNamespace

warnings.simplefilter('ignore')
sys.path.insert(0, os.getcwd())

from cnfgen.formula.cnf import CNF
from cnfgen.clitools import cnfgen as cnfgen_cli
from cnfgen.clitools.pbgen import cli as pbgen_cli
from cnfgen.clihelpers.simple_helpers import RandCmdHelper, RandXorHelper

H = hashlib.sha256()


def rec(*items):
    for it in items:
        H.update(repr(it).encode('utf-8'))
        H.update(b'\x00')


def run(tag, fn):
    out, err = io.StringIO(), io.StringIO()
    try:
        with contextlib.redirect_stdout(out), contextlib.redirect_stderr(err):
            res = fn()
        rec(tag, 'ok', res)
    except BaseException as e:  # includes SystemExit
        rec(tag, 'exc', type(e).__name__, str(e),
            getattr(e, 'code', None))
    rec(out.getvalue(), err.getvalue())
    # state of the random stream after the call is observable as well
    rec(random.random())


def describe(F):
    return (F.number_of_variables(), len(F), list(F.clauses()),
            dict(F.header), F.to_dimacs())


# 1. direct calls of the helpers
for helper in (RandXorHelper, RandCmdHelper):
    for k in range(0, 5):
        for n in range(0, 6):
            for m in (0, 1, 3, 8, 20, 33, 81):
                for plant in (False, True):
                    for seed in (7,):
                        def call():
                            random.seed(seed)
                            args = SimpleNamespace(k=k, n=n, m=m, plant=plant)
                            return describe(helper.build_formula(args, CNF))
                        run((helper.name, k, n, m, plant, seed), call)

# 2. through the command lines
cmdlines = []
for fam in ('randkxor', 'randkcnf'):
    for k, n, m in [(1, 1, 0), (1, 1, 1), (1, 1, 2), (1, 1, 3), (2, 2, 2),
                    (2, 2, 3), (3, 5, 10), (3, 5, 20), (3, 5, 21), (3, 5, 40),
                    (3, 5, 70), (3, 5, 80), (3, 5, 81), (4, 3, 1), (2, 9, 30),
                    (3, 12, 60), (0, 3, 1), (3, 0, 1), (2, 3, -1)]:
        for extra in ([], ['-p'], ['--plant']):
            for seed in ('1', '42'):
                cmdlines.append(['--seed', seed, fam, str(k), str(n), str(m)] + extra)
                if seed == '1' and extra:
                    cmdlines.append(['--seed', seed, fam] + extra + [str(k), str(n), str(m)])
    cmdlines.append([fam, '-h'])
    cmdlines.append([fam])
    cmdlines.append(['--seed', '5', '-of', 'latex', fam, '2', '4', '3', '-p'])
    cmdlines.append(['--seed', '5', '-of', 'opb', fam, '2', '4', '3', '-p'])
    cmdlines.append(['--seed', '5', fam, '3', '6', '9', '-p', '-T', 'shuffle'])

for cl in cmdlines:
    run(('cnfgen', 'string', cl), lambda: cnfgen_cli(['cnfgen'] + cl, mode='string'))
for cl in cmdlines[::5]:
    run(('cnfgen', 'formula', cl), lambda: describe(cnfgen_cli(['cnfgen'] + cl, mode='formula')))
for cl in cmdlines[::7]:
    run(('cnfgen', 'output', cl), lambda: cnfgen_cli(['cnfgen', '-q'] + cl, mode='output'))
    if cl[-1] != 'shuffle' and 'randkxor' not in cl:
        run(('pbgen', 'string', cl), lambda: pbgen_cli(['pbgen'] + cl, mode='string'))

print(H.hexdigest())
