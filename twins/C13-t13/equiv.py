#!/usr/bin/env python
"""Equivalence script for property C13 (random k-CNF / k-XOR).

Exercises clause_satisfied / all_clauses / sample_clauses / RandomKCNF
(library and command line) on many inputs, including boundary ones and
error paths, and prints one SHA256 digest of everything observable.
"""
import contextlib
import hashlib
import io
import itertools
import random
import sys
import warnings

warnings.simplefilter('ignore')
sys.path.insert(0, '.')

from cnfgen.families import randomformulas as RF
from cnfgen.families.randomformulas import RandomKCNF
from cnfgen.formula.cnf import CNF
from cnfgen.clitools.cnfgen import cli

H = hashlib.sha256()
random.seed(777001)


def emit(*items):
    H.update((" ".join(repr(x) for x in items) + "\n").encode('utf-8'))


def attempt(label, fn):
    try:
        res = fn()
        emit(label, 'OK', res)
    except BaseException as e:  # record type and message
        emit(label, 'EXC', type(e).__name__, str(e))
    emit(label, 'rnd', random.random())  # state of the random stream


def total_assignments(n, howmany, rng):
    return [[rng.choice([-1, 1]) * v for v in range(1, n + 1)]
            for _ in range(howmany)]


class Spy:
    """A container recording every membership query made on it"""
    def __init__(self, lits, log):
        self.lits = list(lits)
        self.log = log

    def __contains__(self, lit):
        self.log.append(lit)
        return lit in self.lits


# ---- 1. clause_satisfied directly (total, partial, contradictory, odd containers)
rng = random.Random(4321)
containers = [list, tuple, set, frozenset]
for n in range(0, 6):
    for trial in range(10):
        nass = rng.randint(0, 3)
        raw = []
        for _ in range(nass):
            a = [rng.choice([-1, 1]) * v for v in range(1, n + 1)]
            if rng.random() < 0.4 and a:
                a = [l for l in a if rng.random() < 0.7]
            if rng.random() < 0.2 and a:
                a.append(-a[0])
            rng.shuffle(a)
            raw.append(a)
        assignments = [rng.choice(containers)(a) for a in raw]
        for k in range(0, n + 1):
            for dom in itertools.combinations(range(1, n + 1), k):
                for pol in itertools.product([1, -1], repeat=k):
                    cls = [p * v for p, v in zip(pol, dom)]
                    attempt(('cs', n, trial, cls),
                            lambda: RF.clause_satisfied(cls, assignments))
                    attempt(('cst', n, trial, cls),
                            lambda: RF.clause_satisfied(tuple(cls), tuple(assignments)))
                    # order and number of membership queries
                    log = []
                    spies = [Spy(a, log) for a in raw]
                    attempt(('css', n, trial, cls),
                            lambda: (RF.clause_satisfied(cls, spies), log))
                    # assignments given as one-shot iterators
                    attempt(('csi', n, trial, cls),
                            lambda: RF.clause_satisfied(cls, [iter(a) for a in raw]))
                    attempt(('csg', n, trial, cls),
                            lambda: RF.clause_satisfied(iter(cls), iter(assignments)))

for bad in [(None, []), ([1], None), ([1], [None]), ([1], [5]), (3, [[1]]),
            ([], [[1]]), ([], []), ([[1]], [[1]])]:
    attempt(('cs-bad', bad), lambda: RF.clause_satisfied(*bad))

# ---- 2. all_clauses and sample_clauses
rng = random.Random(98)
for n in range(0, 6):
    for k in range(0, n + 2):
        for nass in range(0, 4):
            planted = total_assignments(n, nass, rng)
            attempt(('ac', n, k, nass),
                    lambda: list(RF.all_clauses(k, n, planted)))
            maxm = len(list(RF.all_clauses(k, n, planted)))
            for m in sorted(set([0, 1, maxm // 2, maxm - 1, maxm, maxm + 1, 2 * maxm + 3])):
                if m < 0:
                    continue
                for seed in (0, 7):
                    def run():
                        random.seed(seed)
                        return RF.sample_clauses(k, n, m, planted)
                    attempt(('sc', n, k, nass, m, seed), run)
attempt(('ac-gen',), lambda: type(RF.all_clauses(2, 3, [])).__name__)
attempt(('ac-partial',), lambda: list(RF.all_clauses(2, 4, [[1, -3], {2}])))
attempt(('ac-neg',), lambda: list(RF.all_clauses(-1, 3, [])))

# ---- 3. RandomKCNF
rng = random.Random(2025)


def describe(F):
    return (F.number_of_variables(), len(F), list(F), dict(F.header),
            F.to_dimacs())


for n in range(0, 6):
    for k in range(0, n + 2):
        for nass in (None, 0, 1, 2, 3):
            planted = None if nass is None else total_assignments(n, nass, rng)
            maxm = len(list(RF.all_clauses(k, n, planted or [])))
            for m in sorted(set([0, 1, 2, maxm - 1, maxm, maxm + 1])):
                if m < 0:
                    continue
                for seed in (None, 3, 'abc'):
                    random.seed(n * 1000 + k * 100 + m)
                    attempt(('kcnf', n, k, nass, m, seed),
                            lambda: describe(RandomKCNF(k, n, m, seed=seed,
                                                        planted_assignments=planted)))

for args, kw in [
    ((2, 4, 3), dict(seed=1, planted_assignments=[[1, -2]])),
    ((2, 4, 20), dict(seed=1, planted_assignments=[[1, -2]])),
    ((2, 4, 21), dict(seed=1, planted_assignments=[[1, -2]])),
    ((2, 4, 3), dict(seed=1, planted_assignments=[[1, -2, 3, 4], [1, 2]])),
    ((1, 3, 2), dict(seed=1, planted_assignments=[[1, -1, 2, 3]])),
    ((1, 3, 5), dict(seed=1, planted_assignments=[[1, -1, 2, 3]])),
    ((3, 3, 2), dict(seed=1, planted_assignments=[(1, 2, 3), {-1, -2, -3}])),
    ((3, 3, 6), dict(seed=1, planted_assignments=[(1, 2, 3), {-1, -2, -3}])),
    ((3, 3, 7), dict(seed=1, planted_assignments=[(1, 2, 3), {-1, -2, -3}])),
    ((2, 3, 2), dict(seed=1, planted_assignments=[[]])),
    ((0, 3, 1), dict(seed=1, planted_assignments=[[]])),
    ((-1, 3, 2), {}), ((1, -3, 2), {}), ((1, 3, -2), {}),
    ((1.5, 3, 2), {}), ((1, '3', 2), {}), ((1, 3, None), {}),
    ((4, 3, 0), {}), ((4, 3, 1), dict(planted_assignments=[[1, 2, 3]])),
    ((0, 0, 0), {}), ((0, 0, 1), {}), ((0, 0, 2), {}),
    ((0, 3, 1), dict(planted_assignments=[[1, 2, 3]])),
    ((0, 3, 2), dict(planted_assignments=[[1, 2, 3]])),
    ((3, 40, 200), dict(seed=11)),
    ((3, 40, 200), dict(seed=11, planted_assignments=[list(range(1, 41))])),
]:
    random.seed(17)
    attempt(('kcnf-special', args, sorted(kw)),
            lambda: describe(RandomKCNF(*args, **kw)))

# ---- 4. command line
def run_cli(argv, mode):
    out, err = io.StringIO(), io.StringIO()
    with contextlib.redirect_stdout(out), contextlib.redirect_stderr(err):
        try:
            res = cli(argv, mode=mode)
            if mode == 'formula':
                res = (res.number_of_variables(), list(res), dict(res.header))
            status = ('OK', res)
        except SystemExit as e:
            status = ('EXIT', e.code)
        except Exception as e:
            status = ('EXC', type(e).__name__, str(e))
    return status, out.getvalue(), err.getvalue()


for fam in ('randkcnf', 'randkxor'):
    for k, n, m in [(1, 1, 0), (1, 1, 1), (1, 1, 2), (1, 1, 3), (2, 3, 3),
                    (2, 3, 9), (2, 3, 10), (2, 3, 12), (2, 3, 13), (3, 6, 10),
                    (3, 6, 140), (3, 6, 141), (3, 6, 160), (3, 6, 161),
                    (3, 2, 1), (4, 4, 1), (4, 4, 15), (4, 4, 16), (4, 4, 17),
                    (0, 3, 1), (2, 0, 1), (2, 5, -1), (2, 9, 30), (5, 12, 50)]:
        for plant in ([], ['-p'], ['--plant']):
            for seed in ('1', '42'):
                for fmt in ([], ['-of', 'opb']):
                    argv = ['cnfgen', '-q', '--seed', seed] + fmt + \
                        [fam, k, n, m] + plant
                    emit(('cli', argv), run_cli(argv, 'string'))
                    emit(('cli-rnd', argv), random.random())
            argv = ['cnfgen', '--seed', '5', fam] + plant + [k, n, m]
            emit(('cli-f', argv), run_cli(argv, 'formula'))
            emit(('cli-f-rnd', argv), random.random())

print(H.hexdigest())
