#!/usr/bin/env python
"""Equivalence digest for obtain_bipartite_shift and obtain_grid_or_torus
(cnfgen/clitools/graph_build.py) and command lines using 'shift', 'grid', 'torus'."""
import os, sys, hashlib, random, itertools
sys.path.insert(0, os.getcwd())

from cnfgen.clitools.graph_build import (obtain_bipartite_shift, obtain_grid_or_torus,
                                         obtain_grid, obtain_torus)
from cnfgen.clitools.graph_args import make_graph_from_spec
from cnfgen.clitools.cnfgen import cli as cnfgen_cli

out = []
def rec(*a):
    out.append(repr(a))

def gdescr(G):
    d = [type(G).__name__, G.name, G.number_of_vertices(), G.number_of_edges(),
         list(G.edges())]
    if G.is_bipartite():
        d.append((G.left_order(), G.right_order()))
    return d

def attempt(label, f, *args, **kw):
    try:
        G = f(*args, **kw)
        rec(label, 'OK', gdescr(G))
    except BaseException as e:
        rec(label, 'EXC', type(e).__name__, str(e), repr(e.__cause__), e.__suppress_context__)

# ---- shift
shift_args = [
    [], ['3'], ['3', '4'], ['0', '4'], ['3', '0'], ['-1', '4'], ['3', '-2'],
    ['3', '4', '0'], ['3', '4', '4'], ['3', '4', '5'], ['3', '4', '-1'],
    ['3', '4', '1', '1'], ['3', '4', '2', '1', '2'], ['3', '4', '0', '1', '2', '3', '4'],
    ['3', '4', '3', '1', '0'], ['5', '5', '1', '2'], ['5', '3', '0', '3'],
    ['4', '7', '1', '2', '4'], ['4', '7', '1', '2', '4', '4'], ['1', '1'], ['1', '1', '0'],
    ['1', '1', '1'], ['1', '1', '0', '1'], ['1', '1', '0', '0'],
    ['3', '4', 'x'], ['x', '4', '1'], ['3', 'y', '1'], ['3.0', '4', '1'], ['3', '4', '1.5'],
    ['3', '4', '1e0'], ['3', '4', None], [None, '4'], ['3', '4', ' 2 '], ['3', '4', '+1', '1'],
    [3, 4, 1, 2], [3, 4, 1, 1], [3, 4.7, 1], [3, 4, 2.5, 2],
    ['10', '6', '6', '0'], ['10', '6', '7'], ['2', '9', '8', '9', '0'],
]
for a in shift_args:
    attempt(('shift', tuple(map(repr, a))), obtain_bipartite_shift, {'args': a})
attempt(('shift', 'noargs'), obtain_bipartite_shift, {})
attempt(('shift', 'noneargs'), obtain_bipartite_shift, {'args': None})
attempt(('shift', 'strargs'), obtain_bipartite_shift, {'args': '345'})
attempt(('shift', 'strargs2'), obtain_bipartite_shift, {'args': '3455'})

rnd = random.Random(6174)
for i in range(1500):
    if rnd.random() < 0.25:
        L = rnd.randint(-1, 7)
        R = rnd.randint(-1, 7)
        k = rnd.randint(0, 5)
        pat = [str(rnd.randint(-2, 9)) for _ in range(k)]
    else:
        L = rnd.randint(1, 7)
        R = rnd.randint(1, 7)
        k = rnd.randint(0, min(4, R + 1))
        pat = [str(x) for x in rnd.sample(range(0, R + 1), k)]
        if rnd.random() < 0.15 and pat:
            pat.append(rnd.choice(pat))          # a repetition
        if rnd.random() < 0.1:
            pat.append(str(R + 1))               # just out of range
        if rnd.random() < 0.1:
            pat.append('-1')
    attempt(('rshift', L, R, tuple(pat)), obtain_bipartite_shift, {'args': [str(L), str(R)] + pat})

# ---- grid / torus
grid_args = [
    [], ['1'], ['2'], ['3'], ['0'], ['-1'], ['2', '3'], ['3', '3'], ['1', '1'], ['1', '5'],
    ['2', '0'], ['0', '2'], ['2', '-3'], ['2', '2', '2'], ['3', '2', '1'], ['3', '3', '3'],
    ['x'], ['2', 'x'], ['2.5'], ['2', '3.0'], ['1e1'], [None], ['2', None], [' 3', '2 '],
    [2, 3], [2.9, 3], [0, 0], ['4', '4'], ['5'], ['2', '2', '2', '2'],
]
for a in grid_args:
    for periodic in (False, True):
        attempt(('grid_or_torus', periodic, tuple(map(repr, a))), obtain_grid_or_torus,
                {'args': a}, periodic)
    attempt(('grid', tuple(map(repr, a))), obtain_grid, {'args': a})
    attempt(('torus', tuple(map(repr, a))), obtain_torus, {'args': a})
attempt(('grid', 'noargs'), obtain_grid, {})
attempt(('grid', 'noneargs'), obtain_grid, {'args': None})
attempt(('torus', 'strargs'), obtain_torus, {'args': '34'})
attempt(('torus', 'strargs0'), obtain_torus, {'args': '30'})
attempt(('torus', 'strargsx'), obtain_torus, {'args': '3x'})
for periodic in (0, 1, None, 'yes', ''):
    attempt(('grid_or_torus_truthy', repr(periodic)), obtain_grid_or_torus, {'args': ['3', '3']}, periodic)

for i in range(300):
    k = rnd.randint(0, 3)
    dims = [str(rnd.randint(-1, 4)) for _ in range(k)]
    attempt(('rgrid', tuple(dims)), obtain_grid, {'args': dims})
    attempt(('rtorus', tuple(dims)), obtain_torus, {'args': dims})

# ---- through graph spec and through the command line
specs = [
    ('bipartite', 'shift 5 4 1 2'), ('bipartite', 'shift 5 4 2 2'), ('bipartite', 'shift 5 4 9'),
    ('bipartite', 'shift 5'), ('bipartite', 'shift 5 4 0 3 addedges 2'),
    ('bipartite', 'shift 4 4 0 1 plantbiclique 2 2'),
    ('simple', 'grid 3 3'), ('simple', 'torus 3 3'), ('simple', 'grid 0 3'), ('simple', 'torus 3 4 addedges 2'),
    ('simple', 'grid 2 2 2 plantclique 3'), ('simple', 'grid'), ('simple', 'torus 4 splitedges 1'),
]
for gt, s in specs:
    random.seed(99)
    attempt(('spec', gt, s), make_graph_from_spec, gt, s)

def cli(argv):
    lab = ('cli', tuple(argv))
    try:
        F = cnfgen_cli(['cnfgen'] + argv, mode='formula')
        rec(lab, 'OK', F.number_of_variables(), list(F.all_variable_labels()),
            [tuple(c) for c in F.clauses()],
            sorted((str(k), str(v)) for k, v in dict(F.header).items()))
        rec(lab, 'DIMACS', cnfgen_cli(['cnfgen'] + argv, mode='string'))
    except SystemExit as e:
        rec(lab, 'EXIT', e.code)
    except BaseException as e:
        rec(lab, 'EXC', type(e).__name__, str(e))

cmds = [
    ['php', 'shift', '5', '4', '0', '1'],
    ['php', '--functional', 'shift', '5', '4', '0', '1', '2'],
    ['php', '--onto', 'shift', '5', '4', '3', '3'],
    ['php', 'shift', '5', '4', '5'],
    ['php', 'shift', '5'],
    ['php', 'shift', '0', '4', '1'],
    ['subsetcard', 'shift', '6', '6', '0', '1', '2'],
    ['-q', 'subsetcard', 'shift', '6', '6', '0', '1', '1'],
    ['tseitin', 'first', 'grid', '3', '3'],
    ['tseitin', 'first', 'torus', '3', '3'],
    ['-S', '4', 'tseitin', 'randomodd', 'torus', '3', '4', '-T', 'or', '2'],
    ['tseitin', 'first', 'grid', '3', '0'],
    ['tseitin', 'first', 'torus', '3', 'x'],
    ['kcolor', '3', 'grid', '2', '3'],
    ['kcolor', '2', 'torus', '4'],
    ['kclique', '3', 'grid', '2', '2', '2'],
    ['domset', '2', 'torus', '3', '3', '-T', 'flip', '-T', 'xor', '2'],
    ['-S', '8', 'matching', 'grid', '2', '4', '-T', 'shuffle'],
    ['xorcomp' ],
    ['and', '2', '2', '-T', 'xorcomp', 'shift', '4', '3', '0', '1'],
    ['and', '2', '2', '-T', 'majcomp', 'shift', '4', '3', '0', '1', '2'],
    ['and', '2', '2', '-T', 'majcomp', 'shift', '4', '3', '1', '1'],
]
for c in cmds:
    random.seed(1)
    cli(c)

h = hashlib.sha256()
for line in out:
    h.update(line.encode('utf-8', 'backslashreplace'))
    h.update(b'\n')
if os.environ.get('EQUIV_DEBUG'):
    sys.stderr.write('\n'.join(out) + '\n')
print(h.hexdigest())
