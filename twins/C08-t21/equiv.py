"""Equivalence witness for refactoring t21 (BaseOPB unit-coefficient helper).

Run as:  cd <checkout> && /venv/bin/python equiv.py
Prints one SHA256 digest of everything observable.
"""
import sys, os, io, hashlib, contextlib, random, warnings
warnings.simplefilter('ignore')
sys.path.insert(0, os.getcwd())

from cnfgen.formula.baseopb import BaseOPB
from cnfgen.formula.opbio import OPBio
from cnfgen.formula.opb import OPB
from cnfgen.formula.cnf import CNF
from cnfgen.clitools.pbgen import cli as pbcli
from cnfgen.clitools.cnfgen import cli as cnfcli

H = hashlib.sha256()


def emit(*items):
    H.update((" ".join(repr(x) for x in items) + "\n").encode('utf-8'))


def attempt(label, thunk):
    try:
        res = thunk()
        emit(label, 'ok', res)
    except BaseException as e:  # noqa
        cause = e.__cause__
        emit(label, 'exc', type(e).__name__, str(e),
             type(cause).__name__ if cause is not None else None,
             str(cause) if cause is not None else None)


def snapshot(F):
    return (F.number_of_variables(), len(F), [list(c) for c in F],
            list(F.all_variable_labels()), str(F))


METHODS_VALUE = ['cardinality_geq', 'cardinality_leq', 'cardinality_eq',
                 'cardinality_neq']
METHODS_NOVALUE = ['add_loose_majority', 'add_loose_minority',
                   'add_strict_majority', 'add_strict_minority']

LITS = [
    [], [1], [-1], [1, 2], [1, -2, 3], [1, 4, 2, -3, 6], [1, 4, 2, -3, 6, -5],
    (3, -1, 2), range(1, 5), [2, 2, -2], [7, -9, 11, 13, -15, 17, 19],
    [True, 2], [1.0, 2], [0, 1], [1, 'a'], ['a', 'b'], [None], None, 5, 'xy',
    [(1, 2)], [[1], [2]],
]


def gens():
    yield 'gen3', lambda: (x for x in [1, -2, 3])
    yield 'gen0', lambda: (x for x in [])
    yield 'iter', lambda: iter([4, 5, -6])
    yield 'map', lambda: map(lambda v: -v, [1, 2, 3])
    yield 'set', lambda: {3}
    yield 'dictkeys', lambda: {1: 'a', 2: 'b'}.keys()


for cls in (BaseOPB, OPBio, OPB):
    for check in (True, False):
        for m in METHODS_VALUE:
            for lits in LITS:
                for value in (-1, 0, 1, 2, 3, 7, 2.5, '1', None):
                    F = cls()
                    F.update_variable_number(2)
                    attempt((cls.__name__, m, lits, value, check),
                            lambda: getattr(F, m)(lits, value, check=check))
                    attempt('snap', lambda: snapshot(F))
            for name, mk in gens():
                for value in (0, 1, 2):
                    F = cls()
                    attempt((cls.__name__, m, name, value, check),
                            lambda: getattr(F, m)(mk(), value, check=check))
                    attempt('snap', lambda: snapshot(F))
        for m in METHODS_NOVALUE:
            for lits in LITS:
                F = cls()
                attempt((cls.__name__, m, lits, check),
                        lambda: getattr(F, m)(lits, check=check))
                attempt('snap', lambda: snapshot(F))
            for name, mk in gens():
                F = cls()
                attempt((cls.__name__, m, name, check),
                        lambda: getattr(F, m)(mk(), check=check))
                attempt('snap', lambda: snapshot(F))
        # clause / parity paths
        for lits in LITS:
            F = cls()
            attempt((cls.__name__, 'add_clause', lits, check),
                    lambda: F.add_clause(lits, check=check))
            attempt('snap', lambda: snapshot(F))
            for const in (0, 1):
                F = cls()
                attempt((cls.__name__, 'add_parity', lits, const, check),
                        lambda: F.add_parity(lits, const, check=check))
                attempt('snap', lambda: snapshot(F))
        for name, mk in gens():
            F = cls()
            attempt((cls.__name__, 'add_clause', name),
                    lambda: F.add_clause(mk(), check=check))
            attempt((cls.__name__, 'add_parity', name),
                    lambda: F.add_parity(mk(), 1, check=check))
            attempt('snap', lambda: snapshot(F))

# several constraints accumulated in one formula, then all the renderings
F = OPB()
F.cardinality_geq([1, 2, 3], 2)
F.cardinality_leq([-1, 4], 1)
F.cardinality_eq([5, -6, 7], 2)
F.cardinality_neq([1, 2, 3, 4], 2)
F.add_loose_majority([1, -2, 3, 4])
F.add_loose_minority([1, -2, 3, 4, 8])
F.add_strict_majority([2, 3, 9])
F.add_strict_minority([2, 3, -9, 10])
F.add_parity([1, 5, -10], 0)
F.add_clause([-1, -2])
emit(snapshot(F), F.to_opb(), F.to_latex(), F.debug(),
     F.constraints() == list(F))
# subclass overriding nothing, static/instance access both work
emit(F.debug(allow_opposite=True), F.debug(allow_repetition=True))

CMDS = """php 5 4
php 3 3 --functional --onto
bphp 5 4
op 4 --total
or 3 2
and 2 3
true
false
count 5 3
count 6 2
parity 5
matching gnp 6 .7
tseitin 6
tseitin randomodd gnd 6 3
ec gnd 6 4
subsetcard 4
subsetcard 5 --equal
kclique 3 gnp 5 .6
kcolor 3 gnp 5 .5
domset 2 gnp 5 .5
ram 3 3 5
ramlb 3 3 gnp 5 .5
vdw 5 3 3
ptn 6
peb pyramid 3
stone 3 pyramid 2
randkcnf 3 6 8
rphp 4 3 2
cliquecoloring 5 3 2
cpls 2 2 2
iso gnp 4 .5 -e gnp 4 .5
subgraph -G gnp 5 .5 -H complete 3
tiling gnp 6 .5
nosuchformula 3
php 0 0
php -1 3
count 5 0
op"""


def run_cli(cli, argv, mode):
    err = io.StringIO()
    out = io.StringIO()
    with contextlib.redirect_stderr(err), contextlib.redirect_stdout(out):
        res = cli(argv, mode=mode)
    if mode == 'formula':
        res = snapshot(res) + (sorted(res.header.items()),)
    return res, out.getvalue(), err.getvalue()


for line in CMDS.splitlines():
    for seed in ('7', '42'):
        argv = ['pbgen', '-S', seed] + line.split()
        attempt(argv, lambda: run_cli(pbcli, argv, 'string'))
        attempt(argv, lambda: run_cli(pbcli, argv, 'formula'))
        argv2 = ['pbgen', '-S', seed, '--latex'] + line.split()
        attempt(argv2, lambda: run_cli(pbcli, argv2, 'string'))
        argv3 = ['cnfgen', '-of', 'opb', '-S', seed] + line.split()
        attempt(argv3, lambda: run_cli(cnfcli, argv3, 'string'))
attempt('T', lambda: run_cli(pbcli, ['pbgen', 'php', '3', '2', '-T', 'xor', '2'], 'string'))
attempt('dimacs', lambda: run_cli(pbcli, ['pbgen', '-of', 'dimacs', 'php', '3', '2'], 'string'))

print(H.hexdigest())
