"""Equivalence digest for CliqueColoring (cnfgen/families/cliquecoloring.py)."""
import hashlib
import sys
sys.path.insert(0, '.')

from cnfgen.families.cliquecoloring import CliqueColoring
from cnfgen.formula.opb import OPB

H = hashlib.sha256()


def emit(*items):
    for it in items:
        H.update(repr(it).encode('utf-8'))
        H.update(b'\n')


def observe(tag, thunk, latex=True):
    emit('CASE', tag)
    try:
        F = thunk()
    except Exception as exc:  # record type and message
        emit('EXC', type(exc).__name__, str(exc))
        return
    emit('TYPE', type(F).__name__)
    emit('HEADER', sorted(F.header.items()))
    emit('NVARS', F.number_of_variables(), 'LEN', len(F))
    emit('LABELS', list(F.all_variable_labels()))
    emit('BODY', [list(c) for c in F])
    if isinstance(F, OPB):
        emit('OPB', F.to_opb())
    else:
        emit('DIMACS', F.to_dimacs())
        if latex:
            emit('LATEX', F.to_latex())


# all small parameters, including every zero boundary
for n in range(0, 6):
    for k in range(0, 5):
        for c in range(0, 5):
            observe(('cc', n, k, c), lambda: CliqueColoring(n, k, c))
for n, k, c in [(4, 3, 2), (5, 4, 3), (3, 3, 3), (0, 0, 0), (1, 1, 1), (2, 0, 3), (5, 1, 0)]:
    observe(('cc-opb', n, k, c), lambda: CliqueColoring(n, k, c, formula_class=OPB))
# some larger ones
for n, k, c in [(7, 4, 3), (8, 3, 5), (6, 6, 5), (9, 2, 2), (6, 7, 2)]:
    observe(('cc-big', n, k, c), lambda: CliqueColoring(n, k, c), latex=False)

# invalid arguments
bad = [(-1, 2, 2), (3, -1, 2), (3, 2, -1), ('a', 2, 2), (3, 'b', 2), (3, 2, 'c'),
       (3.0, 2, 2), (3, 2.5, 2), (3, 2, None), (None, None, None), (True, 1, 1),
       ([3], 2, 2)]
for n, k, c in bad:
    observe(('cc-bad', repr(n), repr(k), repr(c)), lambda: CliqueColoring(n, k, c))

print(H.hexdigest())
