#!/usr/bin/env python
"""Equivalence script for the refactoring of XorCompressionCmd / MajCompressionCmd
(cnfgen/clihelpers/transformation_helpers.py).

Runs the `xorcomp` / `majcomp` command line transformations in process (numeric
spec, graph spec, graph from file, bad specs, missing arguments), calls
transform_cnf directly with hand made namespaces (including degenerate ones),
and hashes every formula, text, exception and exit code."""
import sys, os, io, hashlib, random, argparse, tempfile
from contextlib import redirect_stdout, redirect_stderr
sys.path.insert(0, os.getcwd())

from cnfgen.clitools import cnfgen
from cnfgen.formula.cnf import CNF
from cnfgen.graphs import BipartiteGraph
from cnfgen.clihelpers.transformation_helpers import (
    XorCompressionCmd, MajCompressionCmd)

H = hashlib.sha256()
sys.stdin = io.StringIO('')   # never wait for input


def emit(*items):
    H.update((" | ".join(repr(x) for x in items) + "\n").encode('utf8'))


def attempt(tag, fn):
    out, err = io.StringIO(), io.StringIO()
    try:
        with redirect_stdout(out), redirect_stderr(err):
            res = fn()
        emit(tag, 'ok', res, out.getvalue(), err.getvalue())
    except BaseException as e:
        emit(tag, 'exc', type(e).__name__, str(e),
             getattr(e, 'code', None), out.getvalue(), err.getvalue())


def state(F):
    return (F.number_of_variables(), [list(c) for c in F],
            list(F.all_variable_labels()), dict(F.header))


tmpdir = tempfile.mkdtemp()
import atexit, shutil
atexit.register(shutil.rmtree, tmpdir, True)
os.chdir(tmpdir)   # relative, stable file names in the headers
with open('b1.matrix', 'w') as f:
    f.write("3 4\n1 1 0 0\n0 1 1 0\n1 0 1 1\n")
with open('b2.matrix', 'w') as f:
    f.write("2 2\n1 1\n0 0\n")
with open('b0.matrix', 'w') as f:
    f.write("3 0\n\n\n\n")

FORMULAS = [
    ['php', 3, 2], ['and', 0, 0], ['and', 2, 1],
    ['randkcnf', 3, 5, 7], ['parity', 3],
]
SPECS = [
    [4], [4, 2], [5, 1], [6, 3], [3, 3], [1, 1], [12], [12, 3], [4, 4],
    [2, 3], [0], [-1], [3, 0], [3, -2], ['1.5'], [2, '1.5'], [3, 2, 1],
    ['glrd'], [],
]

for name in ('xorcomp', 'majcomp'):
    for fi, fspec in enumerate(FORMULAS):
        for seed in (42,):
            for spec in SPECS:
                argv = ['cnfgen', '--seed', seed] + fspec + ['-T', name] + spec
                attempt((name, fi, seed, spec, 'formula'),
                        lambda: state(cnfgen(argv, mode='formula')))
                attempt((name, fi, seed, spec, 'string'),
                        lambda: cnfgen(argv, mode='string'))
    # explicit graph specs: the left side must match the number of variables
    for fspec, nvars in ((['php', 3, 2], 6), (['and', 2, 1], 3), (['parity', 3], 3)):
        for gspec in (['glrd', nvars, 4, 2], ['glrd', nvars + 1, 4, 2],
                      ['glrd', nvars, 2, 2], ['glrm', nvars, 5, 7],
                      ['glrp', nvars, 4, 0.5], ['regular', nvars, 3, 2],
                      ['shift', nvars, 5, 1, 2, 4], ['complete', nvars, 2],
                      ['complete', nvars, 1], ['b1.matrix'], ['b2.matrix'],
                      ['b0.matrix'], ['missing.matrix'], ['matrix', 'b1.matrix'],
                      ['glrd', nvars], ['nonsense', 1, 2]):
            argv = ['cnfgen', '--seed', 7] + fspec + ['-T', name] + gspec
            attempt((name, fspec, gspec, 'formula'),
                    lambda: state(cnfgen(argv, mode='formula')))
            attempt((name, fspec, gspec, 'output'),
                    lambda: cnfgen(argv, mode='output'))
            attempt((name, fspec, gspec, 'verbose'),
                    lambda: cnfgen(['cnfgen', '-v', '--seed', 7] + fspec
                                   + ['-T', name] + gspec + ['-T', 'flip'],
                                   mode='output'))
    # two compressions in a row and help text
    attempt((name, 'chain'),
            lambda: cnfgen(['cnfgen', '--seed', 3, 'php', 3, 2, '-T', name, 5, 2,
                            '-T', 'xorcomp', 4, 1, '-T', 'majcomp', 3, 2],
                           mode='string'))
    attempt((name, 'help'),
            lambda: cnfgen(['cnfgen', 'php', 3, 2, '-T', name, '-h'], mode='string'))

# direct calls of transform_cnf with hand made namespaces
BASES = [CNF(), CNF([[]]), CNF([[1, -1]]), CNF([[2, 2, -3]]),
         CNF([[1, 2], [-1], [], [3, -2, 1]])]
u = CNF([[1, -2]])
u.update_variable_number(4)
BASES.append(u)


def some_graph(n, r, seed):
    rnd = random.Random(seed)
    B = BipartiteGraph(n, r)
    for a in range(1, n + 1):
        for b in range(1, r + 1):
            if rnd.random() < 0.5:
                B.add_edge(a, b)
    return B


for cmd in (XorCompressionCmd, MajCompressionCmd):
    emit(cmd.__name__, cmd.name, cmd.__mro__[1].__name__)
    for bi, F in enumerate(BASES):
        n = F.number_of_variables()
        for N, d in ((1, 1), (3, 2), (4, 4), (2, 3), (0, 0), (3, 0), (3, None), ('3', 2)):
            def run():
                random.seed(99)
                ns = argparse.Namespace(N=N, d=d)
                G = cmd.transform_cnf(F, ns)
                return (state(G), random.random())
            attempt(('ns-Nd', cmd.name, bi, N, d), run)
        attempt(('ns-N-only', cmd.name, bi),
                lambda: state(cmd.transform_cnf(F, argparse.Namespace(N=3))))
        attempt(('ns-d-only', cmd.name, bi),
                lambda: state(cmd.transform_cnf(F, argparse.Namespace(d=3))))
        attempt(('ns-empty', cmd.name, bi),
                lambda: state(cmd.transform_cnf(F, argparse.Namespace())))
        attempt(('ns-none', cmd.name, bi),
                lambda: state(cmd.transform_cnf(F, None)))
        for r in (0, 1, 3):
            for gn in (n, n + 1):
                B = some_graph(gn, r, 1000 * bi + 10 * r + gn)
                attempt(('ns-B', cmd.name, bi, r, gn),
                        lambda: state(cmd.transform_cnf(F, argparse.Namespace(B=B))))
                def both():
                    random.seed(5)
                    ns = argparse.Namespace(B=B, N=3, d=2)
                    return (state(cmd.transform_cnf(F, ns)), random.random())
                attempt(('ns-both', cmd.name, bi, r, gn), both)
        attempt(('ns-badB', cmd.name, bi),
                lambda: state(cmd.transform_cnf(F, argparse.Namespace(B='junk'))))
    attempt(('noF', cmd.name),
            lambda: state(cmd.transform_cnf(None, argparse.Namespace(N=3, d=2))))
    attempt(('noF-B', cmd.name),
            lambda: state(cmd.transform_cnf(None, argparse.Namespace(B=some_graph(2, 2, 1)))))

print(H.hexdigest())
