"""Equivalence check for literal checking / variable count update when
clauses and constraints are inserted, interleaved with the creation of
variable groups (C11)."""
import sys, os, hashlib, itertools, random, warnings
warnings.simplefilter('ignore')
sys.path.insert(0, os.getcwd())

from cnfgen.formula.cnf import CNF
from cnfgen.formula.opb import OPB
from cnfgen.formula.basecnf import BaseCNF
from cnfgen.formula.baseopb import BaseOPB
from cnfgen.formula.linear import CNFLinear
from cnfgen.graphs import Graph, DirectedGraph, BipartiteGraph

out = []


def rec(*args):
    out.append(repr(args))


def attempt(tag, fn):
    try:
        res = fn()
        rec(tag, 'ok', res)
        return res
    except Exception as e:  # noqa
        cause = e.__cause__
        rec(tag, 'EXC', type(e).__name__, str(e),
            None if cause is None else (type(cause).__name__, str(cause)))
        return None


def state(tag, F):
    rec(tag, 'numvar', F.number_of_variables(), 'len', len(F), 'content', list(F),
        'str', str(F))
    attempt((tag, 'vars'), lambda: list(F.variables()))
    attempt((tag, 'labels'), lambda: list(F.all_variable_labels()))


BAD_CLAUSES = [[0], [1, 0, 2], ['a'], [1, 'a'], [None], [1.5, 2], [2.0], [(1, 2)],
               [[1]], [1, None], [True, False], [True], 5, None, 'abc', '', [],
               (), (3, -4), {7}, iter([9, -11]), range(1, 4), [-30], [10 ** 6]]

# 1. plain containers: BaseCNF, CNFLinear, BaseOPB
for cls in (BaseCNF, CNFLinear, CNF, BaseOPB, OPB):
    for check in (True, False):
        F = cls()
        for i, c in enumerate(BAD_CLAUSES):
            if isinstance(c, type(iter([]))):
                c = iter([9, -11])
            attempt((cls.__name__, check, 'add_clause', i), lambda: F.add_clause(c, check=check))
            rec(cls.__name__, check, i, F.number_of_variables(), len(F))
        state((cls.__name__, check, 'bad clauses'), F)
        F = cls()
        attempt((cls.__name__, check, 'from'),
                lambda: F.add_clauses_from([[1, 2], [-5], [], [3, 0], [9]], check=check))
        state((cls.__name__, check, 'from'), F)
    attempt((cls.__name__, 'ctor'), lambda: list(cls([[1, -2], [], [-7, 3]])))
    attempt((cls.__name__, 'ctor bad'), lambda: list(cls([[1, -2], [0]])))
    attempt((cls.__name__, 'ctor bad2'), lambda: list(cls([[1, -2], ['x']])))
    F = cls()
    for v in [0, 3, 2, 3, 10]:
        attempt((cls.__name__, 'update', v), lambda: F.update_variable_number(v))
        rec(F.number_of_variables())
    for v in [-1, 2.5, '3', None]:
        attempt((cls.__name__, 'update bad', v), lambda: F.update_variable_number(v))
        rec(F.number_of_variables())

# 2. linear constraints in CNF flavours
LITS = [[], [1], [-1, 2], [1, 2, 3], [4, -9, 2], [0, 1], ['a', 2], [1, None], [2.5]]
for cls in (CNFLinear, CNF):
    for check in (True, False):
        for lits in LITS:
            for const in (0, 1):
                F = cls()
                attempt((cls.__name__, 'parity', check, lits, const),
                        lambda: F.add_parity(list(lits), const, check=check))
                state(('parity', check, lits, const), F)
                F = cls()
                attempt((cls.__name__, 'parity gen', check, lits, const),
                        lambda: F.add_parity((l for l in lits), const, check=check))
                state(('parity gen', check, lits, const), F)
            for op in ['<=', '>=', '<', '>', '==', '!=', '=', None]:
                for const in (-1, 0, 1, 2, 5):
                    F = cls()
                    attempt((cls.__name__, 'linear', check, lits, op, const),
                            lambda: F.add_linear(list(lits), op, const, check=check))
                    rec(F.number_of_variables(), list(F))
            for meth in ['cardinality_geq', 'cardinality_leq', 'cardinality_eq', 'cardinality_neq']:
                for val in (0, 1, 2):
                    F = cls()
                    attempt((cls.__name__, meth, check, lits, val),
                            lambda: getattr(F, meth)(list(lits), val, check=check))
                    rec(F.number_of_variables(), list(F))
            for meth in ['add_loose_majority', 'add_loose_minority',
                         'add_strict_majority', 'add_strict_minority']:
                F = cls()
                attempt((cls.__name__, meth, check, lits),
                        lambda: getattr(F, meth)(list(lits), check=check))
                rec(F.number_of_variables(), list(F))

# 3. OPB constraints
CONSTRAINTS = [
    [(1, 1), (2, -3), '>=', 2], [(1, 1), (2, -3), '<=', 2], [(1, 1), (2, -3), '<', 2],
    [(1, 1), (2, -3), '>', 2], [(1, 1), (2, -3), '==', 2], [(1, 1), (2, -3), '!=', 2],
    [(-1, 1), (2, -3), '>=', 0], [(1, 0), '>=', 1], [(1, 'a'), '>=', 1], [('a', 1), '>=', 1],
    [(1, 7), '>=', 'x'], [(1, 7)], [], ['>=', 1], [1, 2, '>=', 1], [(1, 2, 3), '>=', 1],
    [(3, 12), (0, 20), '==', 3], None, 5,
    [1, 2, 3, -4, '>=', 1], [1, 2, 3, -4, '<=', 1], [1, 2, 3, '>=', 1],
]
for cls in (BaseOPB, OPB):
    for check in (True, False):
        F = cls()
        for i, c in enumerate(CONSTRAINTS):
            attempt((cls.__name__, 'constraint', check, i),
                    lambda: F.add_constraint(c, check=check))
            rec(F.number_of_variables(), len(F))
        state((cls.__name__, 'constraints', check), F)
        F = cls()
        attempt((cls.__name__, 'constraints_from', check),
                lambda: F.add_constraints_from(CONSTRAINTS[:5] + CONSTRAINTS[7:8] + CONSTRAINTS[:1], check=check))
        state((cls.__name__, 'constraints_from', check), F)
        for lits in LITS:
            for meth in ['cardinality_geq', 'cardinality_leq', 'cardinality_eq', 'cardinality_neq']:
                for val in (0, 1, 2):
                    F = cls()
                    attempt((cls.__name__, meth, check, lits, val),
                            lambda: getattr(F, meth)(list(lits), val, check=check))
                    rec(F.number_of_variables(), list(F))
            for meth in ['add_loose_majority', 'add_loose_minority',
                         'add_strict_majority', 'add_strict_minority']:
                F = cls()
                attempt((cls.__name__, meth, check, lits),
                        lambda: getattr(F, meth)(list(lits), check=check))
                rec(F.number_of_variables(), list(F))
            for const in (0, 1):
                F = cls()
                attempt((cls.__name__, 'parity', check, lits, const),
                        lambda: F.add_parity(list(lits), const, check=check))
                rec(F.number_of_variables(), list(F))
    attempt((cls.__name__, 'ctor'), lambda: list(cls([[(1, 1), (1, -4), '>=', 1], [(2, 9), '==', 2]])))
    attempt((cls.__name__, 'ctor bad'), lambda: list(cls([[(1, 1), (1, 0), '>=', 1]])))

# 4. random interleavings of group creation, insertion and raises
rnd = random.Random(777)


def random_run(cls, seed):
    rnd.seed(seed)
    F = cls()
    groups = []
    for step in range(25):
        op = rnd.randrange(12)
        nv = F.number_of_variables()
        if op == 0:
            groups.append(('single', F.new_variable('s%d' % step)))
        elif op == 1:
            groups.append(F.new_block(rnd.randrange(0, 3), rnd.randrange(0, 4), label='b%d({{}},{{}})'.format(step) if False else 'b{}_{}'))
        elif op == 2:
            groups.append(F.new_combinations(rnd.randrange(0, 4), rnd.randrange(0, 3), label='c({})'))
        elif op == 3:
            B = BipartiteGraph(2, 3)
            for u in (1, 2):
                for v in (1, 2, 3):
                    if rnd.random() < 0.5:
                        B.add_edge(u, v)
            groups.append(F.new_sparse_mapping(B))
        elif op == 4:
            groups.append(F.new_binary_mapping(rnd.randrange(0, 3), rnd.randrange(0, 6)))
        elif op == 5:
            F.update_variable_number(nv + rnd.randrange(0, 3))
        elif op == 6:
            F.update_variable_number(max(0, nv - 2))
        elif op in (7, 8):
            k = rnd.randrange(0, 4)
            cl = [rnd.choice([1, -1]) * rnd.randrange(1, nv + 4) for _ in range(k)]
            F.add_clause(cl, check=(op == 7))
        elif op == 9:
            cl = [rnd.choice([1, -1]) * rnd.randrange(1, nv + 3) for _ in range(rnd.randrange(1, 4))]
            if cls is CNF:
                F.add_parity(cl, rnd.randrange(2))
            else:
                F.add_constraint([(rnd.randrange(1, 4), l) for l in cl] + [rnd.choice(['>=', '<=', '==']), 1])
        elif op == 10:
            cl = [rnd.choice([1, -1]) * rnd.randrange(1, nv + 3) for _ in range(rnd.randrange(0, 4))]
            F.cardinality_leq(cl, 1)
        else:
            attempt(('run bad', seed, step), lambda: F.add_clause([nv + 5, 0]))
        rec('run', cls.__name__, seed, step, op, F.number_of_variables())
    labels = list(F.all_variable_labels())
    rec('run labels', cls.__name__, seed, labels, len(labels) == F.number_of_variables())
    for g in groups:
        if isinstance(g, tuple):
            rec('single', g[1], labels[g[1] - 1])
            continue
        rec('group', type(g).__name__, list(g), [(idx, g(*idx), g.to_index(-g(*idx))) for idx in g.indices()])
        for idx in g.indices():
            lab = g.label(*idx)
            if not isinstance(lab, str):
                lab = list(lab)
            rec('aligned', idx, labels[g(*idx) - 1], lab)
    rec('run content', list(F))
    for meth in ['to_dimacs', 'to_latex', 'to_opb']:
        if hasattr(F, meth):
            attempt(('run out', meth), getattr(F, meth))


for cls in (CNF, OPB):
    for seed in range(30):
        random_run(cls, seed)

print(hashlib.sha256('\n'.join(out).encode('utf-8')).hexdigest())
