#!/usr/bin/env python
"""Equivalence script for moving the label sorting helper used by
`normalize_networkx_labels` (cnfgen/graphs.py) into cnfgen/localtypes.py.

Exercises the relabeling of networkx graphs (directly, through
`from_networkx`/`normalize`, and through the gml/dot file readers)
and prints a single SHA256 digest of everything observable.
"""
import contextlib
import hashlib
import io
import random
import sys

sys.path.insert(0, '.')

import networkx

import cnfgen
import cnfgen.graphs
import cnfgen.localtypes
from cnfgen.graphs import (Graph, DirectedGraph, BipartiteGraph, BaseGraph,
                           readGraph, writeGraph, normalize_networkx_labels)
from cnfgen.clitools.graph_build import normalize_networkx_labels as nnl2

H = hashlib.sha256()


def rec(*items):
    for it in items:
        H.update(repr(it).encode('utf-8'))
        H.update(b'\x00')
    H.update(b'\n')


def describe(G):
    if isinstance(G, BaseGraph):
        d = [type(G).__name__, G.number_of_vertices(), G.number_of_edges(),
             getattr(G, 'name', None)]
        if G.is_bipartite():
            d.append((G.left_order(), G.right_order()))
        else:
            d.append(G.is_dag())
        d.append(list(G.edges()))
        return d
    if isinstance(G, networkx.Graph):
        return [type(G).__name__, list(G.nodes(data=True)),
                list(G.edges(data=True)), G.name]
    return ['other', type(G).__name__, repr(G)[:200]]


def attempt(label, fn, *args, **kwargs):
    try:
        res = fn(*args, **kwargs)
    except Exception as e:  # noqa
        rec(label, 'EXC', type(e).__name__, str(e))
        return None
    rec(label, 'OK', describe(res))
    return res


class Opaque:
    """Unorderable, hashable label"""
    def __init__(self, k):
        self.k = k

    def __repr__(self):
        return 'Opaque({})'.format(self.k)


LABEL_SETS = [
    [],
    [1],
    [3, 1, 2],
    list(range(12, 0, -1)),
    [str(i) for i in range(1, 13)],
    ['10', '9', '2', '1', '100', '11'],
    ['10', 9, '2', 1, '100', 11],
    ['-3', '2', '-10', 0, '--4', '-'],
    ['b', 'a', 'B', '', ' ', 'a1', '1a'],
    ['b', 2, 'a', '1', 10, 'z10', 'z9'],
    [True, 0, 2, '1'],
    ['٣', '2', '１０', '²'],
    [1.5, 2, '3', 0.5],
    [(1, 2), (0, 5), (0, 1)],
    [(1, 2), 'x', 3],
    [1.5, 'x', 3],
    [b'1', 1, 'a'],
    ['x', frozenset([1]), frozenset([2])],
    ['+5', '5', ' 5', '5 ', '05', '5'],
    [2 ** 70, str(2 ** 71), -2 ** 65, '-' + str(2 ** 66)],
]


def graphs_on(labels, rng):
    G = networkx.Graph()
    D = networkx.DiGraph()
    G.add_nodes_from(labels)
    D.add_nodes_from(labels)
    k = len(labels)
    if k >= 2:
        for _ in range(2 * k):
            i, j = rng.sample(range(k), 2)
            G.add_edge(labels[i], labels[j])
            D.add_edge(labels[i], labels[j])
    G.name = 'G on {} labels'.format(k)
    return G, D


def main():
    rng = random.Random(31337)
    rec(normalize_networkx_labels is nnl2,
        normalize_networkx_labels is cnfgen.graphs.normalize_networkx_labels)
    sets = list(LABEL_SETS)
    ops = [Opaque(i) for i in range(4)]
    sets.append(ops + [1, 'a'])
    for idx, labels in enumerate(sets):
        G, D = graphs_on(labels, rng)
        attempt(('relabel', idx), normalize_networkx_labels, G)
        attempt(('relabel-di', idx), normalize_networkx_labels, D)
        attempt(('from-nx', idx), Graph.from_networkx, G)
        attempt(('from-nx-di', idx), DirectedGraph.from_networkx, D)
        attempt(('normalize', idx), Graph.normalize, G, 'X')
        attempt(('normalize-di', idx), DirectedGraph.normalize, D, 'X')
        # shuffled insertion order of the same vertices
        perm = list(labels)
        rng.shuffle(perm)
        G2 = networkx.Graph()
        G2.add_nodes_from(perm)
        G2.add_edges_from(G.edges())
        attempt(('relabel-shuffled', idx), normalize_networkx_labels, G2)
    attempt('relabel-none', normalize_networkx_labels, None)
    attempt('relabel-list', normalize_networkx_labels, [1, 2])

    # round trips through the networkx based file formats
    for n in [0, 1, 2, 9, 10, 11, 12, 25, 101]:
        G = Graph(n, 'simple {}'.format(n))
        D = DirectedGraph(n, 'dag {}'.format(n))
        C = DirectedGraph(n, 'digraph {}'.format(n))
        for _ in range(2 * n):
            u, v = rng.randint(1, n), rng.randint(1, n)
            if u != v:
                G.add_edge(u, v)
                D.add_edge(min(u, v), max(u, v))
            C.add_edge(u, v)
        B = BipartiteGraph(n, n + 3, 'bip {}'.format(n))
        for _ in range(2 * n):
            B.add_edge(rng.randint(1, n), rng.randint(1, n + 3))
        for gtype, X in [('simple', G), ('dag', D), ('digraph', C),
                         ('bipartite', B)]:
            fmts = ['gml', 'dot', 'kthlist']
            if n > 30:
                fmts = ['gml', 'kthlist']
            for fmt in fmts:
                buf = io.StringIO()
                writeGraph(X, buf, gtype, fmt)
                text = buf.getvalue()
                rec('text', gtype, fmt, n, text)
                Y = attempt(('read', gtype, fmt, n), readGraph,
                            io.StringIO(text), gtype, fmt)
                if Y is not None:
                    rec('same', gtype, fmt, n,
                        list(Y.edges()) == list(X.edges()),
                        Y.number_of_vertices() == X.number_of_vertices())

    # hand written files with vertex ids out of order / as strings
    gml = ['graph [\n'] + \
        ['  node [\n    id {}\n    label "v{}"\n  ]\n'.format(i, i)
         for i in [10, 2, 33, 1, 9, 11, 100]] + \
        ['  edge [\n    source 10\n    target 2\n  ]\n',
         '  edge [\n    source 1\n    target 100\n  ]\n',
         '  edge [\n    source 9\n    target 11\n  ]\n', ']\n']
    for gtype in ['simple', 'digraph', 'dag', 'bipartite']:
        attempt(('gml-hand', gtype), readGraph, io.StringIO(''.join(gml)),
                gtype, 'gml')
    gmld = ''.join(gml).replace('graph [\n', 'graph [\n  directed 1\n')
    for gtype in ['simple', 'digraph', 'dag']:
        attempt(('gml-hand-directed', gtype), readGraph, io.StringIO(gmld),
                gtype, 'gml')
    dot = 'graph G {\n 10; 9; 2; 1; 11; a; "b c";\n 10 -- 2;\n 1 -- 11;\n a -- 9;\n}\n'
    attempt('dot-hand', readGraph, io.StringIO(dot), 'simple', 'dot')
    ddot = 'digraph G {\n 1 -> 2;\n 2 -> 10;\n 10 -> 11;\n 3 -> 12;\n}\n'
    for gtype in ['digraph', 'dag', 'simple']:
        attempt(('ddot-hand', gtype), readGraph, io.StringIO(ddot), gtype, 'dot')
    ddot2 = 'digraph G {\n 10 -> 2;\n 2 -> 1;\n}\n'
    for gtype in ['digraph', 'dag']:
        attempt(('ddot-hand2', gtype), readGraph, io.StringIO(ddot2), gtype, 'dot')

    # the argument checkers that live in the destination module still work
    for fn in [cnfgen.localtypes.positive_int, cnfgen.localtypes.non_negative_int]:
        for val in [0, 1, -1, 'a', 1.0, True]:
            try:
                rec(fn.__name__, val, fn(val, 'n'))
            except Exception as e:  # noqa
                rec(fn.__name__, val, type(e).__name__, str(e))
    rec(sorted(cnfgen.graphs.__all__))


captured = io.StringIO()
with contextlib.redirect_stdout(captured):
    main()
H.update(captured.getvalue().encode('utf-8'))
print(H.hexdigest())
