#!/usr/bin/env python
"""Equivalence check for t22: the order-preserving duplicate removal helper
used by SparseStoneFormula / StoneFormula (cnfgen/families/pebbling.py)."""
import hashlib
import itertools
import random
import sys
import warnings
warnings.simplefilter('ignore')
sys.path.insert(0, '.')

from cnfgen.graphs import DirectedGraph, BipartiteGraph, CompleteBipartiteGraph
from cnfgen.graphs import bipartite_random_left_regular, bipartite_random
from cnfgen.families import pebbling
from cnfgen.families.pebbling import PebblingFormula, StoneFormula, SparseStoneFormula
from cnfgen.clitools import cnfgen as cnfgen_cli

H = hashlib.sha256()


def emit(*items):
    H.update((" ".join(repr(i) for i in items) + "\n").encode('utf-8'))


def attempt(tag, thunk):
    try:
        emit(tag, 'OK', thunk())
    except SystemExit as e:
        emit(tag, 'EXIT', e.code)
    except Exception as e:
        emit(tag, 'EXC', type(e).__name__, str(e))


def dump(tag, thunk):
    def run():
        F = thunk()
        return (F.header['description'], F.number_of_variables(),
                list(F.all_variable_labels()), [tuple(c) for c in F.clauses()])
    attempt(tag, run)


# the helper itself, wherever the module exposes it
uniq = None
for name in ['_uniqify_list', 'uniqify_list']:
    uniq = uniq or getattr(pebbling, name, None)
emit('helper found', uniq is not None)
if uniq is not None:
    rnd = random.Random(7)
    samples = [[], (), [1], (1, 1), (1, 2, 1), (3, 2, 1, 2, 3), 'abracadabra',
               ('a', 'b', 'a'), [None, None, 0, False, 0.0, 1, True],
               range(5), iter([5, 4, 5, 4, 3])]
    for _ in range(60):
        samples.append(tuple(rnd.randrange(1, 6) for _ in range(rnd.randrange(0, 9))))
    for pos, s in enumerate(samples):
        attempt(('uniq', pos), lambda: (lambda r: (type(r).__name__, r))(uniq(s)))
    attempt(('uniq unhashable',), lambda: uniq([[1], [1]]))
    attempt(('uniq not iterable',), lambda: uniq(5))


def random_dag(n, p, rnd):
    D = DirectedGraph(n, name='dag{}_{}'.format(n, p))
    for u in range(1, n + 1):
        for v in range(u + 1, n + 1):
            if rnd.random() < p:
                D.add_edge(u, v)
    return D


def pyramid(h):
    n = (h + 1) * (h + 2) // 2
    D = DirectedGraph(n, name='pyramid{}'.format(h))
    level = list(range(1, h + 2))
    nxt = h + 2
    while len(level) > 1:
        new = []
        for a, b in zip(level, level[1:]):
            D.add_edge(a, nxt)
            D.add_edge(b, nxt)
            new.append(nxt)
            nxt += 1
        level = new
    return D


rnd = random.Random(99)
dags = [DirectedGraph(0, name='null'), DirectedGraph(1, name='one'), DirectedGraph(3, name='isolated3'),
        pyramid(1), pyramid(2), pyramid(3)]
for n, p in [(4, 0.9), (5, 0.6), (6, 0.5), (7, 0.4)]:
    dags.append(random_dag(n, p, rnd))
fan = DirectedGraph(5, name='fan-in4')
fan.add_edges_from((i, 5) for i in range(1, 5))
dags.append(fan)

for D in dags:
    n = D.number_of_vertices()
    dump(('peb', D.name), lambda: PebblingFormula(D))
    for s in range(0, 5):
        if n <= 6 or s <= 3:
            dump(('stone', D.name, s), lambda: StoneFormula(D, s))
    for r in range(1, 5):
        for d in range(1, r + 1):
            dump(('sparse regular', D.name, r, d),
                 lambda: SparseStoneFormula(D, bipartite_random_left_regular(n, r, d, seed=1000 * n + 10 * r + d)))
    for seed in range(3):
        dump(('sparse random', D.name, seed),
             lambda: SparseStoneFormula(D, bipartite_random(n, 3, 0.6, seed=seed)))
    dump(('sparse complete', D.name), lambda: SparseStoneFormula(D, CompleteBipartiteGraph(n, 3)))
    dump(('sparse empty', D.name), lambda: SparseStoneFormula(D, BipartiteGraph(n, 2)))
    attempt(('sparse mismatch', D.name), lambda: SparseStoneFormula(D, BipartiteGraph(n + 1, 2)))

attempt(('stone negative',), lambda: StoneFormula(pyramid(1), -1))
attempt(('stone bad type',), lambda: StoneFormula(pyramid(1), 'two'))
attempt(('stone bad graph',), lambda: StoneFormula([1, 2], 2))
cyc = DirectedGraph(2)
cyc.add_edges_from([(1, 2), (2, 1)])
attempt(('stone cyclic',), lambda: StoneFormula(cyc, 2))
attempt(('sparse cyclic',), lambda: SparseStoneFormula(cyc, CompleteBipartiteGraph(2, 2)))

# command line
for argv in [['stone', '3', 'pyramid', '2'],
             ['stone', '3', 'pyramid', '2', '--sparse', '2'],
             ['stone', '4', 'tree', '2', '--sparse', '3'],
             ['stone', '2', 'path', '4', '--sparse', '3'],
             ['stone', '1', 'pyramid', '1'],
             ['peb', 'pyramid', '3'],
             ['stone', '0', 'pyramid', '1']]:
    for seed in ['1', '42']:
        attempt(('cli', tuple(argv), seed),
                lambda: cnfgen_cli(['cnfgen', '-q', '--seed', seed] + argv, mode='string'))

print(H.hexdigest())
