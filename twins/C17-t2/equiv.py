#!/usr/bin/env python
"""Equivalence digest for cnfgen.clitools.kthlist2pebbling.cli
(kthlist file -> pebbling formula, optional transformation, three modes)."""
import contextlib
import hashlib
import io
import os
import random
import sys
import tempfile

sys.path.insert(0, os.getcwd())

from cnfgen.clitools.kthlist2pebbling import cli as kth
from cnfgen.clitools.cnfgen import cli as cnfgencli

H = hashlib.sha256()
TMP = None


def record(*items):
    for it in items:
        text = repr(it)
        if TMP is not None:
            text = text.replace(TMP, '<TMP>')
        H.update(text.encode('utf-8'))
        H.update(b'\x00')


def dump_formula(F):
    return (type(F).__name__, F.number_of_variables(), F.number_of_clauses(),
            list(F.clauses()), list(F.all_variable_labels()),
            sorted((k, str(v)) for k, v in F.header.items()))


@contextlib.contextmanager
def stdin_from(text):
    old = sys.stdin
    sys.stdin = io.StringIO(text)
    try:
        yield
    finally:
        sys.stdin = old


def run(tool, argv, mode, stdin_text=''):
    random.seed(2024)
    out, err = io.StringIO(), io.StringIO()
    try:
        with stdin_from(stdin_text), contextlib.redirect_stdout(out), \
                contextlib.redirect_stderr(err):
            res = tool(argv, mode=mode)
        if mode == 'formula':
            res = dump_formula(res)
        record('OK', argv, mode, res, out.getvalue(), err.getvalue())
    except SystemExit as e:
        record('EXIT', argv, mode, e.code, out.getvalue(), err.getvalue())
    except BaseException as e:
        record('EXC', argv, mode, type(e).__name__, str(e), out.getvalue(),
               err.getvalue())


GRAPHS = {
    'unit': "1\n1 : 0\n",
    'line': "3\n1 : 0\n2 : 1 0\n3 : 2 0\n",
    'pyramid': "3\n1 : 0\n2 : 0\n3 : 1 2 0\n",
    'pyr3': "6\n1 : 0\n2 : 0\n3 : 0\n4 : 1 2 0\n5 : 2 3 0\n6 : 4 5 0\n",
    'twosinks': "4\n1 : 0\n2 : 0\n3 : 1 2 0\n4 : 1 2 0\n",
    'isolated': "3\n1 : 0\n2 : 0\n3 : 0\n",
    'comments': "c a comment\n4\nc another\n1 : 0\n2 : 1 0\n3 : 1 2 0\n4 : 3 0\n",
    'fanin3': "5\n1 : 0\n2 : 0\n3 : 0\n4 : 1 2 3 0\n5 : 4 1 0\n",
    'empty': "",
    'zero': "0\n",
    'badorder': "3\n1 : 2 0\n2 : 0\n3 : 1 0\n",
    'garbage': "hello world\n",
    'short': "3\n1 : 0\n",
    'noterm': "2\n1 : 0\n2 : 1\n",
}

TRANSF = [
    [],
    ['none'],
    ['xor', '2'],
    ['or', '2'],
    ['or', '1'],
    ['flip'],
    ['lift', '2'],
    ['eq', '2'],
    ['exact', '3', '1'],
    ['shuffle'],
    ['shuffle', '-p', '-c'],
    ['xorcomp', '4', '2'],
    ['xor'],
    ['xor', 'two'],
    ['nosuch'],
    ['exact', '2', '7'],
]

with tempfile.TemporaryDirectory() as tmpdir:
    TMP = tmpdir
    files = {}
    for name, text in GRAPHS.items():
        path = os.path.join(tmpdir, name + '.kthlist')
        with open(path, 'w') as f:
            f.write(text)
        files[name] = path

    # all graphs, all modes, on stdin and through -i
    for name, text in GRAPHS.items():
        for mode in ('formula', 'string', 'output'):
            for opts in ([], ['-q']):
                run(kth, ['kthlist2pebbling'] + opts, mode, text)
                run(kth, ['kthlist2pebbling'] + opts + ['xor', 2], mode, text)
            run(kth, ['kthlist2pebbling', '-i', files[name]], mode)
            run(kth, ['kthlist2pebbling', '--input', files[name], 'or', '2'],
                mode)

    # all transformations on a few graphs
    for name in ('unit', 'pyramid', 'pyr3', 'fanin3', 'twosinks', 'zero'):
        for t in TRANSF:
            for mode in ('formula', 'string', 'output'):
                run(kth, ['kthlist2pebbling', '-q', '-i', files[name]] + t,
                    mode)

    # the same through 'cnfgen peb <file>'
    for name in ('unit', 'pyramid', 'pyr3', 'fanin3', 'comments'):
        for t in TRANSF[:10]:
            argv = ['cnfgen', '-q', 'peb', files[name]]
            if t:
                argv += ['-T'] + t
            run(cnfgencli, argv, 'string')

    # output to a file
    for name in ('pyramid', 'pyr3', 'garbage'):
        for t in ([], ['xor', '2'], ['flip']):
            dest = os.path.join(tmpdir, 'out.cnf')
            run(kth, ['kthlist2pebbling', '-i', files[name], '-o', dest] + t,
                'output')
            try:
                with open(dest) as f:
                    record('FILE', name, t, f.read())
                os.unlink(dest)
            except OSError as e:
                record('NOFILE', name, t, type(e).__name__)

    # broken command lines, unknown mode
    run(kth, ['kthlist2pebbling', '-i', os.path.join(tmpdir, 'missing')],
        'string')
    run(kth, ['kthlist2pebbling', '--bogus'], 'string', GRAPHS['line'])
    run(kth, ['kthlist2pebbling', '-h'], 'string', GRAPHS['line'])
    run(kth, ['kthlist2pebbling', 'xor', '-h'], 'string', GRAPHS['line'])
    run(kth, ['kthlist2pebbling'], 'whatever', GRAPHS['line'])
    run(kth, ['kthlist2pebbling', 'flip'], None, GRAPHS['line'])
    run(kth, ['some/path/prog', 'xor'], 'string', GRAPHS['line'])

print(H.hexdigest())
