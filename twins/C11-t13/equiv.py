#!/usr/bin/env python
"""Equivalence check for VariablesManager.all_variable_labels (property C11).

Builds CNF and OPB formulas by random sequences interleaving the
creation of every kind of variable group (including empty ones), clause
insertion and explicit raises of the variable count.  After every step
it records the names reported by the formula (with several default
formats, also broken ones, and partially consumed), and checks them
against the group labels.  It also records the DIMACS (with variable
names), OPB and LaTeX outputs and the result of transformations that read
the names.  Prints a single SHA256 digest.
"""
import sys
import io
import hashlib
import random
import itertools
import warnings

warnings.simplefilter('ignore')
sys.path.insert(0, '.')

from cnfgen import CNF
from cnfgen.formula.opb import OPB
from cnfgen.formula.basecnf import BaseCNF
from cnfgen.formula.variables import VariablesManager
from cnfgen.graphs import BipartiteGraph, Graph, DirectedGraph
from cnfgen.utils.parsedimacs import to_dimacs_file
from cnfgen.utils.opb import to_opb_file
from cnfgen.transformations.substitutions import FlipPolarity, XorSubstitution

H = hashlib.sha256()


def out(*args):
    H.update((' '.join(repr(a) for a in args) + '\n').encode('utf8'))


def attempt(tag, fn, *args, **kw):
    try:
        res = fn(*args, **kw)
        out(tag, args, sorted(kw.items()), 'OK', res)
        return res
    except Exception as e:
        out(tag, args, sorted(kw.items()), 'EXC', type(e).__name__, str(e))
        return None


def drain(gen):
    """Consume a generator, keeping what was produced before an error"""
    got = []
    try:
        for x in gen:
            got.append(x)
    except Exception as e:
        got.append(('EXC', type(e).__name__, str(e)))
    return got


def names_report(F, groups):
    n = F.number_of_variables()
    names = drain(F.all_variable_labels())
    out('names', n, names)
    assert len(names) == n
    for fmt in ['x{}', 'y_{{{}}}', 'v', '{0}{0}', '{}{}', '{:03d}', '{:s}', '{x}']:
        out('names-fmt', fmt, drain(F.all_variable_labels(fmt)))
        out('names-kw', fmt, drain(F.all_variable_labels(default_label_format=fmt)))
    # partial consumption
    for k in [0, 1, 2, n // 2, n, n + 1]:
        out('names-head', k, list(itertools.islice(F.all_variable_labels(), k)))
    # alignment with the groups
    covered = set()
    for g in groups:
        if len(g) == 0:
            continue
        if hasattr(g, 'name'):
            expected = [g.name]
        else:
            expected = list(g.label())
        got = names[g[0] - 1:g[-1]]
        out('group-names', type(g).__name__, g[0], g[-1], got)
        assert got == expected
        covered.update(g)
    for v in range(1, n + 1):
        if v not in covered:
            assert names[v - 1] == 'x{}'.format(v)


def random_bipartite(rng):
    L, R = rng.randint(0, 3), rng.randint(0, 3)
    B = BipartiteGraph(L, R)
    if L and R:
        for _ in range(rng.randint(0, 6)):
            B.add_edge(rng.randint(1, L), rng.randint(1, R))
    return B


def random_graph(rng, directed):
    n = rng.randint(0, 4)
    G = DirectedGraph(n) if directed else Graph(n)
    if n >= 2:
        for _ in range(rng.randint(0, 6)):
            u, v = rng.sample(range(1, n + 1), 2)
            if directed and u > v and rng.random() < 0.7:
                u, v = v, u
            G.add_edge(u, v)
    return G


KINDS = ['var', 'varnone', 'block', 'block0', 'comb', 'combr', 'perm', 'words',
         'bip', 'graph', 'digraph', 'map', 'smap', 'bmap', 'clause', 'raise',
         'raise0', 'emptyclause']


def build(rng, F, nsteps, is_cnf):
    groups = []
    for step in range(nsteps):
        what = rng.choice(KINDS)
        g = None
        if what == 'var':
            F.new_variable(label=rng.choice(['A', 'B_{1}', 'x3', '{}']))
            g = F._groups[-1]
        elif what == 'varnone':
            F.new_variable()
            g = F._groups[-1]
        elif what == 'block':
            dims = [rng.randint(1, 3) for _ in range(rng.randint(1, 3))]
            g = F.new_block(*dims, label=rng.choice(
                [None, 'q' + '_{}' * len(dims)]))
        elif what == 'block0':
            g = F.new_block(rng.randint(0, 2), 0, rng.randint(0, 2))
        elif what == 'comb':
            g = F.new_combinations(rng.randint(0, 4), rng.randint(0, 3))
        elif what == 'combr':
            g = F.new_combinations_with_replacement(rng.randint(0, 3), rng.randint(0, 2))
        elif what == 'perm':
            g = F.new_permutations(rng.randint(0, 3), rng.choice([None, 0, 1, 2]),
                                   label='s[{}]')
        elif what == 'words':
            g = F.new_words(rng.randint(0, 3), rng.randint(0, 2))
        elif what == 'bip':
            g = F.new_bipartite_edges(random_bipartite(rng))
        elif what == 'graph':
            g = F.new_graph_edges(random_graph(rng, False), label='E{{{},{}}}')
        elif what == 'digraph':
            g = F.new_digraph_edges(random_graph(rng, True),
                                    sortby=rng.choice(['pred', 'succ']))
        elif what == 'map':
            g = F.new_mapping(rng.randint(0, 3), rng.randint(0, 3))
        elif what == 'smap':
            g = F.new_sparse_mapping(random_bipartite(rng), label='g({})->{}')
        elif what == 'bmap':
            g = F.new_binary_mapping(rng.randint(0, 3), rng.choice([0, 1, 2, 3, 5, 8]))
        elif what in ('clause', 'emptyclause'):
            k = 0 if what == 'emptyclause' else rng.randint(1, 4)
            top = F.number_of_variables() + rng.choice([0, 0, 1, 4])
            lits = [rng.choice([-1, 1]) * rng.randint(1, max(top, 1)) for _ in range(k)]
            if is_cnf or rng.random() < 0.5:
                attempt('add_clause', F.add_clause, lits)
            else:
                attempt('card', F.cardinality_geq, lits, 1)
        elif what == 'raise':
            F.update_variable_number(F.number_of_variables() + rng.randint(1, 5))
        elif what == 'raise0':
            F.update_variable_number(rng.randint(0, max(F.number_of_variables(), 1)))
        if g is not None:
            groups.append(g)
        out('step', step, what, F.number_of_variables(), len(F._groups))
        names_report(F, groups)
    return groups


rng = random.Random(1103)
for trial in range(60):
    is_cnf = trial % 3 != 2
    F = CNF(description='trial {}'.format(trial)) if is_cnf else OPB()
    out('TRIAL', trial, is_cnf)
    groups = build(rng, F, rng.randint(0, 9), is_cnf)
    if is_cnf:
        for hdr, vn in [(False, True), (True, True), (False, False)]:
            buf = io.StringIO()
            to_dimacs_file(F, buf, export_header=hdr, export_varnames=vn)
            out('dimacs', hdr, vn, buf.getvalue())
        out('latex', attempt('to_latex', F.to_latex))
        if F.number_of_variables() <= 25 and len(F) <= 12:
            G = attempt('flip', lambda: list(FlipPolarity(F).all_variable_labels()))
            G = attempt('xor', lambda: list(XorSubstitution(F, 2).all_variable_labels()))
    else:
        buf = io.StringIO()
        attempt('opbfile', lambda: to_opb_file(F, buf, export_header=False, export_varnames=True))
        out('opb', buf.getvalue())
        out('latex', attempt('to_latex', F.to_latex))

# Hand made boundary cases on a bare manager
F = BaseCNF()
V = VariablesManager(F)
out('bare-empty', drain(V.all_variable_labels()))
F.update_variable_number(3)
out('bare-raised', drain(V.all_variable_labels()))
V.new_block(0)
V.new_block(2, 0)
out('bare-emptygroups', drain(V.all_variable_labels('z{}')))
V.new_variable('only')
out('bare-one', drain(V.all_variable_labels('z{}')))
F.add_clause([9, -12])
V.new_block(2)
F.update_variable_number(16)
V.new_combinations(2, 0)
out('bare-mixed', drain(V.all_variable_labels('z{}')), F.number_of_variables())
# clause added without check: the variable count is not raised
F.add_clause([40], check=False)
out('bare-nocheck', drain(V.all_variable_labels()), F.number_of_variables())

print(H.hexdigest())
