#!/usr/bin/env python
"""Equivalence script for refactoring t11 (Graph.normalize in cnfgen/graphs.py).

Run as: cd <checkout> && /venv/bin/python equiv.py
Prints one SHA256 digest of everything observable.
"""
import sys, os, hashlib, random, itertools
sys.path.insert(0, os.getcwd())

import networkx as nx
from cnfgen.graphs import Graph, DirectedGraph, BipartiteGraph
from cnfgen.families.tseitin import TseitinFormula
from cnfgen.families.coloring import GraphColoringFormula, EvenColoringFormula
from cnfgen.families.dominatingset import DominatingSet, Tiling
from cnfgen.families.graphisomorphism import GraphIsomorphism, GraphAutomorphism
from cnfgen.families.subgraph import (SubgraphFormula, CliqueFormula,
                                      BinaryCliqueFormula, RamseyWitnessFormula)

out = []


def rec(*items):
    out.append(repr(items))


def describe_exc(e):
    ctx = e.__context__
    cause = e.__cause__
    return (type(e).__name__, str(e),
            None if ctx is None else (type(ctx).__name__, str(ctx)),
            None if cause is None else (type(cause).__name__, str(cause)),
            e.__suppress_context__)


def graph_dump(G):
    return (type(G).__name__, G.order(), G.number_of_edges(), list(G.edges()),
            [list(G.neighbors(v)) for v in G.vertices()], G.name)


class SubGraphClass(Graph):
    pass


class BrokenOrder(nx.Graph):
    def order(self):
        raise AttributeError("no order here")


class BrokenEdges(nx.Graph):
    @property
    def edges(self):
        raise AttributeError("edges are gone")


class BrokenKey(nx.Graph):
    def order(self):
        raise KeyError("unexpected")


rng = random.Random(31337)


def rnd_nx(n, p, labels=None):
    G = nx.Graph()
    nodes = labels if labels is not None else list(range(n))
    G.add_nodes_from(nodes)
    for u, v in itertools.combinations(nodes, 2):
        if rng.random() < p:
            G.add_edge(u, v)
    return G


named = nx.petersen_graph()
named.name = 'Petersen'
selfloop = nx.Graph()
selfloop.add_edges_from([(1, 2), (2, 2), (2, 3)])
multi = nx.MultiGraph()
multi.add_edges_from([(1, 2), (1, 2), (2, 3)])
di = nx.DiGraph()
di.add_edges_from([(1, 2), (2, 1), (3, 1)])
cg = Graph.complete_graph(4)
sub = SubGraphClass(3, 'sub')
sub.add_edge(1, 3)
bo = BrokenOrder(); bo.add_edge(1, 2)
be = BrokenEdges(); be.add_node(1)
bk = BrokenKey(); bk.add_edge(1, 2)

candidates = [
    ('cnfgen-empty0', Graph(0)), ('cnfgen-null', Graph.null_graph()),
    ('cnfgen-complete4', cg), ('cnfgen-star', Graph.star_graph(3)), ('cnfgen-sub', sub),
    ('nx-null', nx.Graph()), ('nx-empty3', nx.empty_graph(3)), ('nx-path', nx.path_graph(5)),
    ('nx-cycle', nx.cycle_graph(6)), ('nx-complete', nx.complete_graph(4)),
    ('nx-petersen', named), ('nx-grid', nx.grid_2d_graph(2, 3)),
    ('nx-strlabels', rnd_nx(0, 0.5, ['10', '2', '1', '-3', 'b', 'a'])),
    ('nx-mixed', rnd_nx(0, 0.6, [3, 'x', (1, 2), 2.5, frozenset([1])])),
    ('nx-rnd7', rnd_nx(7, 0.4)), ('nx-rnd9', rnd_nx(9, 0.7)),
    ('nx-selfloop', selfloop), ('nx-multi', multi), ('nx-di', di),
    ('broken-order', bo), ('broken-edges', be), ('broken-key', bk),
    ('none', None), ('str', 'graph'), ('int', 5), ('list', [(1, 2)]), ('dict', {1: [2]}),
    ('directed', DirectedGraph(3)), ('bipartite', BipartiteGraph(2, 2)),
    ('class', Graph), ('nxclass', nx.Graph),
]

# 1. direct calls, with and without varname, on the class and on a subclass
for tag, obj in candidates:
    for cls in (Graph, SubGraphClass):
        for vn in (None, '', 'G', 'H', 'my graph {}', '{0}'):
            try:
                if vn is None:
                    res = cls.normalize(obj)
                else:
                    res = cls.normalize(obj, vn)
                rec('norm', tag, cls.__name__, vn, 'ok', res is obj, graph_dump(res))
            except Exception as e:
                rec('norm', tag, cls.__name__, vn, 'exc', describe_exc(e))

# keyword form
try:
    rec('kw', graph_dump(Graph.normalize(G=nx.path_graph(3), varname='Z')))
except Exception as e:
    rec('kw', 'exc', describe_exc(e))
try:
    Graph.normalize(G=3.5, varname='Z')
except Exception as e:
    rec('kw-bad', 'exc', describe_exc(e))

# 2. through every graph family of the property
builders = [
    ('tseitin', lambda G: TseitinFormula(G)),
    ('tseitin-ch', lambda G: TseitinFormula(G, [1, 0, 1])),
    ('kcolor3', lambda G: GraphColoringFormula(G, 3)),
    ('ec', lambda G: EvenColoringFormula(G)),
    ('domset2', lambda G: DominatingSet(G, 2)),
    ('domset2a', lambda G: DominatingSet(G, 2, alternative=True)),
    ('tiling', lambda G: Tiling(G)),
    ('iso-self', lambda G: GraphIsomorphism(G, G)),
    ('iso-left', lambda G: GraphIsomorphism(G, nx.path_graph(3))),
    ('iso-right', lambda G: GraphIsomorphism(nx.path_graph(3), G)),
    ('auto', lambda G: GraphAutomorphism(G)),
    ('subgraph-G', lambda G: SubgraphFormula(G, nx.complete_graph(3))),
    ('subgraph-H', lambda G: SubgraphFormula(Graph.complete_graph(4), G, induced=True)),
    ('kclique3', lambda G: CliqueFormula(G, 3)),
    ('kclique3ns', lambda G: CliqueFormula(G, 3, symbreak=False)),
    ('kcliquebin2', lambda G: BinaryCliqueFormula(G, 2)),
    ('ramlb', lambda G: RamseyWitnessFormula(G, 3, 2)),
]
for tag, obj in candidates:
    for bname, build in builders:
        try:
            F = build(obj)
            rec('fam', tag, bname, 'ok', F.header.get('description'), F.to_dimacs())
        except Exception as e:
            rec('fam', tag, bname, 'exc', describe_exc(e))

print(hashlib.sha256('\n'.join(out).encode('utf-8')).hexdigest())
