"""Equivalence digest for the refactoring of
cnfgen.clitools.cmdline.CLIParser.error and CLIParser._check_value

Run as:  cd <checkout> && /venv/bin/python equiv.py
"""
import sys
import os
import io
import hashlib
import random
import warnings

warnings.simplefilter('ignore')
sys.path.insert(0, os.getcwd())

import argparse
from cnfgen.clitools.cmdline import CLIParser, CLIError
import importlib
import cnfgen.clitools.msg as msgmod

# (`cnfgen.clitools.cnfgen` the attribute is a function, not the module)
cnfgen_cli = importlib.import_module('cnfgen.clitools.cnfgen')
pbgen_cli = importlib.import_module('cnfgen.clitools.pbgen')
from cnfgen.info import info

# the version string comes from `git describe`: pin it
info['version'] = 'equiv'

H = hashlib.sha256()


def record(*items):
    for x in items:
        H.update(repr(x).encode('utf8'))
        H.update(b'\x00')


class KeepOpen(io.StringIO):
    def close(self):
        pass


def run_main(module, argv, stdin_text=''):
    """Run the `main` entry point of a command line tool in process"""
    old = sys.argv, sys.stdout, sys.stderr, sys.stdin
    out, err = KeepOpen(), KeepOpen()
    sys.argv, sys.stdout, sys.stderr = list(argv), out, err
    sys.stdin = io.StringIO(stdin_text)
    code = 0
    msgmod._prefix = ''   # a fresh process starts with no prefix
    random.seed(1234)
    try:
        try:
            module.main()
        except SystemExit as e:
            code = e.code
        except BaseException as e:  # unhandled internal exception
            code = ('UNHANDLED', type(e).__name__, str(e))
    finally:
        sys.argv, sys.stdout, sys.stderr, sys.stdin = old
    record(argv, code, out.getvalue(), err.getvalue())
    if os.environ.get("EQUIV_DEBUG"): print(argv, code, out.getvalue()[:300], err.getvalue()[:300], file=sys.__stderr__)


cnfshuffle_cli = importlib.import_module('cnfgen.clitools.cnfshuffle')


def attempt(label, f, *args):
    try:
        res = f(*args)
        record('ok', label, repr(args), repr(res))
    except BaseException as e:
        record('exc', label, repr(args), type(e).__name__, str(e),
               repr(e.args))


# 1. CLIParser.error directly
messages = [
    "", "one line", "two\nlines", "trailing newline\n", "\n", "\n\n",
    "\nleading", "a\n\nb", "crlf\r\nline", "form\x0cfeed", "tab\tchar",
    "unicode \u2028 separator", "  indented\n    more", None, 0, 3.5,
    ValueError("a value error"), ValueError("multi\nline error"),
    ValueError(), CLIError("ERROR: nested\n\nSee more"), ["a", "b"],
    KeyError("key"), OSError(2, "No such file", "f.gml"),
]
usages = [None, "", "usage: prog [-h]", "usage:\n prog [-h]\n   <x>", " "]
progs = [None, "prog", "cnfgen php", "", "a{0}b", "{}"]
for usage in usages:
    for prog in progs:
        try:
            parser = CLIParser(prog=prog, usage=usage)
        except BaseException as e:
            record('noparser', usage, prog, type(e).__name__, str(e))
            continue
        for m in messages:
            attempt('error', parser.error, m)

# 2. CLIParser._check_value directly and through parse_args
parser = CLIParser(prog='prog', usage='usage: prog')
choices_list = [
    None, [], ['a'], ['a', 'b', 'c'], (1, 2, 3), range(3), {'k': 1}, 'abc',
    [None], ['it\'s', 'b\nc'], [1.0, 2],
]
values = ['a', 'b', 'z', '', 1, 2, 3, 1.0, None, 'ab', 'k', "it's", ()]
for ch in choices_list:
    action = argparse.Action(['--opt'], 'opt', choices=ch, metavar='<opt>')
    pos = argparse.Action([], 'pos', choices=ch)
    for v in values:
        attempt('check_value', parser._check_value, action, v)
        attempt('check_value', parser._check_value, pos, v)


def small_parser():
    p = CLIParser(prog='tool', usage='usage: tool [-c C] [-n N] x')
    p.add_argument('-c', choices=['red', 'green'], default='red')
    p.add_argument('-n', type=int, choices=[1, 2, 3])
    p.add_argument('x', choices=['left', 'right'])
    p.add_argument('rest', nargs='*', choices=['u', 'v'])
    return p


for argv in [
    ['left'], ['right', 'u', 'v'], ['middle'], [], ['-c', 'blue', 'left'],
    ['-c', 'green', 'left'], ['-n', '4', 'left'], ['-n', '2', 'right'],
    ['-n', 'two', 'left'], ['left', 'w'], ['--unknown', 'left'], ['-c'],
    ['-n'], ['left', 'u', '-c', 'green'], ['-h'], ['left', 'right'],
]:
    old = sys.stdout
    sys.stdout = buf = io.StringIO()
    try:
        attempt('small', lambda a: sorted(vars(small_parser().parse_args(a)).items()), argv)
    finally:
        sys.stdout = old
    record(buf.getvalue())

# 3. through the command line tools
cmdlines = [
    ['cnfgen'], ['cnfgen', 'nosuchformula'], ['cnfgen', '--nosuchoption'],
    ['cnfgen', 'php'], ['cnfgen', 'php', '3'], ['cnfgen', '-q', 'php', '3', '2'],
    ['cnfgen', 'php', '3', '2', '1', '0'], ['cnfgen', 'php', 'a', 'b'],
    ['cnfgen', 'php', '-3', '2'], ['cnfgen', 'php', '3', '2', '--nosuch'],
    ['cnfgen', '-of', 'nosuchformat', 'php', '3', '2'],
    ['cnfgen', '-of'], ['cnfgen', '--seed'], ['cnfgen', '-o'],
    ['cnfgen', '-q', '-of', 'opb', 'php', '3', '2', '-T'],
    ['cnfgen', '-q', 'php', '3', '2', '-T', 'nosuchtransformation'],
    ['cnfgen', '-q', 'php', '3', '2', '-T', 'xor'],
    ['cnfgen', '-q', 'php', '3', '2', '-T', 'xor', '0'],
    ['cnfgen', '-q', 'php', '3', '2', '-T', 'xor', '2', '3'],
    ['cnfgen', '-q', '-of', 'latex', 'php', '3', '2', '-T', 'xor', 'x'],
    ['cnfgen', '-q', '-of', 'latex', 'nosuchformula'],
    ['cnfgen', '-q', '-of', 'opb', 'randkcnf', '3', '2', '100'],
    ['cnfgen', '-q', 'randkcnf', '3', '2'], ['cnfgen', '-q', 'randkcnf', '3', '5', '-1'],
    ['cnfgen', '-q', 'kclique', '0', 'gnp', '3', '.5'],
    ['cnfgen', '-q', 'kclique', '2', 'gnp', '3', '1.5'],
    ['cnfgen', '-q', 'kclique', '2', 'gnp', '3', '.5', 'nosuchoption'],
    ['cnfgen', '-q', 'ram', '3', '3'], ['cnfgen', '-q', 'ram', '3', '3', '0'],
    ['cnfgen', '-q', 'tseitin'], ['cnfgen', '-q', 'tseitin', 'bad', 'gnd', '4', '2'],
    ['cnfgen', '-q', 'count', '5', '2'], ['cnfgen', '-q', 'count', '0', '0'],
    ['cnfgen', '-q', 'parity', '-1'], ['cnfgen', '-q', 'op', '2', '--total', '--nosuch'],
    ['cnfgen', '-q', 'and', '2'], ['cnfgen', '-q', 'and', '2', '2'],
    ['cnfgen', 'php', '-h'], ['cnfgen', '-h'],
    ['pbgen'], ['pbgen', 'nosuchformula'], ['pbgen', 'php'],
    ['pbgen', '-q', 'php', '3', '2'], ['pbgen', '-of', 'dimacs', 'php', '3', '2'],
    ['pbgen', '-of', 'nosuchformat', 'php', '3', '2'],
    ['pbgen', '-q', '-of', 'latex', 'php', '3'], ['pbgen', 'php', '3', '2', '1', '0'],
    ['pbgen', '-q', 'php', '3', '2', '-T', 'xor', '2'],
    ['cnfshuffle', '--nosuchoption'], ['cnfshuffle', '-i'],
    ['cnfshuffle', '-i', 'nosuchfile.cnf'], ['cnfshuffle', 'extra'],
    ['cnfshuffle', '-S', '1', '-q'],
]
tools = {'cnfgen': cnfgen_cli, 'pbgen': pbgen_cli, 'cnfshuffle': cnfshuffle_cli}
for argv in cmdlines:
    run_main(tools[argv[0]], argv, stdin_text='p cnf 3 2\n1 -2 0\n2 3 0\n')

print(H.hexdigest())
