"""Equivalence script for refactoring of obtain_bipartite_shift (graph_build.py)."""
import hashlib
import random
import sys
import os
sys.path.insert(0, os.getcwd())

from cnfgen.clitools.graph_build import obtain_bipartite_shift
from cnfgen.clitools import cnfgen as cnfgen_cli
from cnfgen.clitools import CLIError

out = []


def rec(*items):
    out.append(repr(items))


def graph_repr(G):
    return (type(G).__name__, G.name, G.left_order(), G.right_order(),
            sorted(G.edges()))


def try_shift(args):
    try:
        G = obtain_bipartite_shift({'args': args})
        rec('OK', args, graph_repr(G))
    except BaseException as e:
        rec('EXC', args, type(e).__name__, str(e),
            type(e.__cause__).__name__, type(e.__context__).__name__)


# systematic direct calls
cases = [
    [], ['3'], ['3', '4'], ['0', '4'], ['4', '0'], ['-1', '3'], ['3', '-2'],
    ['3', '4', '0'], ['3', '4', '4'], ['3', '4', '5'], ['3', '4', '-1'],
    ['3', '4', '1', '1'], ['3', '4', '1', '2', '1'], ['3', '4', '2', '1', '0'],
    ['3', '4', '0', '4'], ['3', '4', '0', '1', '2', '3', '4'],
    ['3', '4', '0', '1', '2', '3', '4', '5'],
    ['a', '4'], ['3', 'b'], ['3', '4', 'c'], ['3', '4', '1', 'c', '1'],
    ['3', '4', '1.5'], ['3.0', '4'], [3, 4, 1, 2], [3, 4, 2, 2],
    [3, 4, None], [None, 4], ['1', '1'], ['1', '1', '0'], ['1', '1', '1'],
    ['1', '1', '0', '1'], ['1', '1', '0', '0'], ['1', '1', '2'],
    ['5', '3', '3', '0'], ['5', '3', '3', '3'], ['5', '3', '4', '4'],
    ['5', '3', '4', '1'], ['5', '3', '-1', '-1'], ['5', '3', '-1', '1'],
    ['5', '3', ' 1', '1 '], ['5', '3', '+1', '1'], ['5', '3', '1', '01'],
    ['7', '7', '6', '5', '4', '3', '2', '1', '0', '7'],
    ['7', '7', '6', '5', '4', '3', '2', '1', '0', '7', '8'],
    ['7', '7', '6', '5', '4', '3', '3', '1', '0', '9'],
    [[1], 2], ['2', '2', [1]], ('3', '4', '1', '3'),
]
for c in cases:
    try_shift(c)

# random cases
rnd = random.Random(1717)
for _ in range(400):
    L = rnd.randint(-1, 8)
    R = rnd.randint(-1, 8)
    k = rnd.randint(0, 6)
    if R >= 0 and rnd.random() < 0.6:
        pat = rnd.sample(range(0, R + 1), min(k, R + 1))
    else:
        pat = [rnd.randint(-1, R + 2) for _ in range(k)]
    args = [str(L), str(R)] + [str(x) for x in pat]
    if rnd.random() < 0.05:
        args[rnd.randrange(len(args))] = 'x'
    try_shift(args)

# through the command lines
cmdlines = [
    ['cnfgen', '-q', 'php', 'shift', '5', '4', '0', '1'],
    ['cnfgen', '-q', 'php', 'shift', '5', '4', '1', '1'],
    ['cnfgen', '-q', 'php', 'shift', '5', '4', '0', '5'],
    ['cnfgen', '-q', 'php', 'shift', '5', '4', '0', '4'],
    ['cnfgen', '-q', 'php', 'shift', '5', '4'],
    ['cnfgen', '-q', 'php', 'shift', '5'],
    ['cnfgen', '-q', 'php', '--functional', 'shift', '6', '4', '3', '1', '2'],
    ['cnfgen', '-q', 'subsetcard', 'shift', '4', '4', '0', '1', '2'],
    ['cnfgen', '-q', 'subsetcard', 'shift', '4', '4', '0', '1', '-2'],
    ['cnfgen', '-q', 'parity', '3', '-T', 'xorcomp', 'shift', '3', '5', '0', '2'],
    ['cnfgen', '-q', 'parity', '3', '-T', 'majcomp', 'shift', '3', '5', '2', '2', '1'],
    ['cnfgen', '-q', 'parity', '3', '-T', 'majcomp', 'shift', '3', '5', '0', '2', '4',
     'plantbiclique', '1', '2'],
]
for cmd in cmdlines:
    random.seed(42)
    try:
        s = cnfgen_cli(cmd, mode='string')
        rec('CLI', cmd, s)
    except CLIError as e:
        rec('CLIERR', cmd, str(e))
    except BaseException as e:
        rec('CLIEXC', cmd, type(e).__name__, str(e))

print(hashlib.sha256("\n".join(out).encode('utf-8')).hexdigest())
