"""Equivalence harness for cnfgen.clitools.cnfgen.parse_command_line
(the splitting of the command line around '-T', used by '-T shuffle').

Run as: cd <checkout> && /venv/bin/python equiv.py
Prints one SHA256 digest of everything observable.
"""
import sys, os, io, hashlib, random, importlib, itertools, warnings
warnings.simplefilter('ignore')
sys.path.insert(0, os.getcwd())

cg = importlib.import_module("cnfgen.clitools.cnfgen")
from cnfgen.clitools.cmdline import CLIError
import cnfgen.clitools.msg as m

LOG = []


def rec(*items):
    LOG.append(repr(items))


# ---------------------------------------------------------------- 1. stubs
class StubParser:
    """Records calls (globally ordered); optionally fails on some chunk"""
    def __init__(self, tag, calls, fail_on=None):
        self.tag, self.calls, self.fail_on = tag, calls, fail_on

    def parse_args(self, chunk):
        self.calls.append((self.tag, list(chunk), type(chunk).__name__))
        if self.fail_on is not None and self.fail_on in chunk:
            raise CLIError("{} does not like {}".format(self.tag, self.fail_on))
        return (self.tag, tuple(chunk))


STUB_ARGVS = [
    [],
    ['cnfgen'],
    ['cnfgen', 'php', '3', '2'],
    ['cnfgen', '-T'],
    ['-T'],
    ['-T', '-T'],
    ['cnfgen', '-T', '-T', '-T'],
    ['cnfgen', 'php', '3', '2', '-T', 'shuffle'],
    ['cnfgen', 'php', '3', '2', '-T', 'shuffle', '-p', '-T', 'shuffle', '-v', '-c'],
    ['cnfgen', '-q', '-S', '4', 'op', '5', '-T', 'xor', '2', '-T', 'shuffle', '-T'],
    ['cnfgen', '-T', 'shuffle', 'php', '3', '2'],
    ['cnfgen', 'php', '-T', 'BAD', '-T', 'shuffle', '-T', 'BAD2'],
    ['cnfgen', 'BAD', '-T', 'shuffle'],
    ['cnfgen', '-t', '-TT', '--T', '-T ', ' -T', '-T', 'x'],
    ('cnfgen', 'and', '1', '1', '-T', 'shuffle'),
]
for argv in STUB_ARGVS:
    for ffail, tfail in [(None, None), ('BAD', None), (None, 'BAD'), (None, 'BAD2'),
                         ('BAD', 'BAD'), ('php', 'shuffle')]:
        calls = []
        fp = StubParser('F', calls, ffail)
        tp = StubParser('T', calls, tfail)
        before = list(argv)
        try:
            res = cg.parse_command_line(argv, fp, tp)
            out = ('ok', res, type(res).__name__, type(res[1]).__name__)
        except Exception as e:
            out = ('exc', type(e).__name__, str(e))
        rec('stub', before, list(argv), ffail, tfail, out, calls)

# generator input (an iterable that is not a list)
calls = []
res = cg.parse_command_line(iter(['cnfgen', 'a', '-T', 'b', '-T', 'c', 'd']),
                            StubParser('F', calls), StubParser('T', calls))
rec('iter', res, calls)

# ---------------------------------------------------------------- 2. real parsers
parser, t_parser = cg.setup_command_line_parsers('cnfgen',
                                                 cg.get_formula_helpers(),
                                                 cg.get_transformation_helpers())
REAL = [
    ['cnfgen', 'php', '3', '2'],
    ['cnfgen', 'php', '3', '2', '-T', 'shuffle'],
    ['cnfgen', 'php', '3', '2', '-T', 'shuffle', '-p'],
    ['cnfgen', 'php', '3', '2', '-T', 'shuffle', '-v', '-c', '-T', 'shuffle', '--no-polarity-flips'],
    ['cnfgen', '-q', 'php', '3', '2', '-T', 'shuffle', '-x'],
    ['cnfgen', 'php', '3', '2', '-T'],
    ['cnfgen', 'php', '3', '2', '-T', 'nonsense'],
    ['cnfgen', 'nonsense', '-T', 'shuffle'],
    ['cnfgen', 'php', '3', '-T', 'nonsense'],
    ['cnfgen', '-T', 'shuffle'],
    ['cnfgen', 'php', '3', '2', '-T', 'xor', '-T', 'shuffle'],
    ['cnfgen', 'php', '3', '2', '-T', 'shuffle', '-T', 'xor', 'zz'],
]
for argv in REAL:
    try:
        fargs, targs = cg.parse_command_line(argv, parser, t_parser)
        fa = sorted((k, str(v)) for k, v in vars(fargs).items() if k not in ('output',))
        ta = [sorted((k, str(v)) for k, v in vars(t).items()) for t in targs]
        out = ('ok', fa, ta)
    except SystemExit as e:
        out = ('SystemExit', e.code)
    except Exception as e:
        out = ('exc', type(e).__name__, str(e))
    rec('real', argv, out)

# ---------------------------------------------------------------- 3. whole cli
FORMULAS = [['php', '3', '2'], ['op', '3'], ['and', '2', '1'], ['and', '0', '0'],
            ['or', '0', '0'], ['parity', '4'], ['randkcnf', '3', '6', '9'],
            ['tseitin', 'first', 'grid', '2', '3']]
SW = [[], ['-p'], ['-v'], ['-c'], ['-p', '-v'], ['-p', '-c'], ['-v', '-c'], ['-p', '-v', '-c']]


def run_cli(argv, mode='string'):
    old = (sys.stdout, sys.stderr, sys.stdin)
    sys.stdout, sys.stderr, sys.stdin = io.StringIO(), io.StringIO(), io.StringIO('')
    try:
        try:
            r = cg.cli(argv, mode=mode)
            if mode == 'formula':
                r = (r.number_of_variables(), [tuple(c) for c in r], sorted(r.header.items()))
            out = ('ok', r)
        except SystemExit as e:
            out = ('SystemExit', e.code)
        except Exception as e:
            out = ('exc', type(e).__name__, str(e))
        so, se = sys.stdout.getvalue(), sys.stderr.getvalue()
    finally:
        sys.stdout, sys.stderr, sys.stdin = old
    rec('cli', argv, mode, out, so, se, m._prefix)
    m._prefix = ''


for f in FORMULAS:
    for sw in SW:
        for seed in (0, 1, 17):
            run_cli(['cnfgen', '-S', seed] + f + ['-T', 'shuffle'] + sw)
    run_cli(['cnfgen', '-q', '-S', 5] + f + ['-T', 'shuffle', '-T', 'shuffle', '-p'])
    run_cli(['cnfgen', '-S', 5] + f + ['-T', 'shuffle', '-T', 'xor', '2', '-T', 'shuffle', '-c'], mode='formula')
    run_cli(['cnfgen', '-S', 9] + f + ['-T', 'shuffle'], mode='output')
    run_cli(['cnfgen', '-S', 9, '-of', 'opb'] + f + ['-T', 'shuffle', '-v'], mode='output')
    run_cli(['cnfgen', '-S', 9] + f + ['-T', 'shuffle', '-p', '-v', '-c'])
    run_cli(['cnfgen'] + f + ['-T', 'shuffle', '-p', '-v', '-c'])

for argv in [['cnfgen', 'php', '3', '2', '-T'],
             ['cnfgen', 'php', '3', '2', '-T', '-T', 'shuffle'],
             ['cnfgen', 'php', '3', '2', '-T', 'shuffle', '--bogus'],
             ['cnfgen', 'php', '3', '2', '-T', 'shuffle', 'extra'],
             ['cnfgen', 'php', '3', '2', '-T', 'shuffel'],
             ['cnfgen', '-T', 'shuffle'],
             ['cnfgen'],
             ['cnfgen', 'php', '3', '-T', 'shuffle'],
             ['cnfgen', 'php', '3', '2', '-T', 'shuffle', '-h'],
             ['cnfgen', 'php', 'x', '2', '-T', 'shuffel']]:
    run_cli(argv)

h = hashlib.sha256()
for line in LOG:
    h.update(line.encode('utf-8', errors='backslashreplace'))
    h.update(b'\n')
print(h.hexdigest())
