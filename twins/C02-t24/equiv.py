import hashlib, random, itertools, sys
sys.path.insert(0, '.')
from cnfgen.formula.cnf import CNF
from cnfgen.formula.basecnf import BaseCNF
from cnfgen.formula.variables import VariablesManager
from cnfgen.graphs import Graph, BipartiteGraph
from cnfgen.families.graphisomorphism import GraphIsomorphism, GraphAutomorphism
from cnfgen.families.coloring import GraphColoringFormula
from cnfgen.families.dominatingset import DominatingSet
from cnfgen.families.subgraph import (SubgraphFormula, CliqueFormula,
                                      BinaryCliqueFormula, RamseyWitnessFormula)
from cnfgen.families.pigeonhole import PigeonholePrinciple, BinaryPigeonholePrinciple

H = hashlib.sha256()
def out(*a):
    H.update((' '.join(repr(x) for x in a) + '\n').encode())

def dump(tag, F):
    out(tag, F.number_of_variables(), len(F), list(F.clauses()),
        sorted(F.header.items()), list(F.all_variable_labels()))

def attempt(tag, fn):
    try:
        fn()
        out(tag, 'ok')
    except Exception as e:
        out(tag, type(e).__name__, str(e))

def graphs():
    rnd = random.Random(1302)
    yield Graph(0)
    for n in range(1, 6):
        yield Graph.empty_graph(n)
        yield Graph.complete_graph(n)
        yield Graph.star_graph(n)
        for p in (0.3, 0.6):
            G = Graph(n)
            for u, v in itertools.combinations(range(1, n+1), 2):
                if rnd.random() < p:
                    G.add_edge(u, v)
            yield G

METHODS = ['force_complete_mapping', 'force_functional_mapping',
           'force_surjective_mapping', 'force_injective_mapping',
           'force_nondecreasing_mapping']

# direct use of the mapping constraints
for n, m in itertools.product(range(0, 5), range(0, 6)):
    for meth in METHODS:
        F = CNF()
        f = F.new_mapping(n, m)
        attempt(('u', n, m, meth), lambda: getattr(F, meth)(f))
        dump(('u', n, m, meth), F)
        F = CNF()
        F.new_variable('pad')
        g = F.new_binary_mapping(n, m)
        attempt(('b', n, m, meth), lambda: getattr(F, meth)(g))
        dump(('b', n, m, meth), F)

rnd = random.Random(77)
for L, R in [(0, 0), (1, 3), (3, 2), (4, 4), (2, 5)]:
    B = BipartiteGraph(L, R)
    for u in range(1, L+1):
        for v in range(1, R+1):
            if rnd.random() < 0.6:
                B.add_edge(u, v)
    for meth in METHODS:
        F = CNF()
        f = F.new_sparse_mapping(B)
        attempt(('s', L, R, meth), lambda: getattr(F, meth)(f))
        dump(('s', L, R, meth), F)

# error paths
for meth in METHODS:
    F = CNF()
    x = F.new_variable('x')
    blk = F.new_block(3, 2)
    e = F.new_graph_edges(Graph.complete_graph(3))
    for bad in (x, blk, e, None, 7, 'f', [1, 2]):
        attempt(('bad', meth, type(bad).__name__), lambda: getattr(F, meth)(bad))
    G = CNF()
    fu = G.new_mapping(2, 3)
    fb = G.new_binary_mapping(2, 3)
    attempt(('foreign-u', meth), lambda: getattr(F, meth)(fu))
    attempt(('foreign-b', meth), lambda: getattr(F, meth)(fb))
    # VariablesManager over a bare BaseCNF
    C = BaseCNF()
    V = VariablesManager(C)
    h = V.new_mapping(3, 2)
    attempt(('vm', meth), lambda: getattr(V, meth)(h))
    out(('vm', meth), list(C.clauses()))
    dump(('err', meth), F)

# families built on top of them
GS = list(graphs())
for i, G in enumerate(GS):
    for k in range(0, 4):
        attempt(('col', i, k), lambda: dump(('col', i, k), GraphColoringFormula(G, k)))
        attempt(('colnf', i, k), lambda: dump(('colnf', i, k), GraphColoringFormula(G, k, functional=False)))
        for sb in (True, False):
            attempt(('kc', i, k, sb), lambda: dump(('kc', i, k, sb), CliqueFormula(G, k, symbreak=sb)))
            attempt(('bkc', i, k, sb), lambda: dump(('bkc', i, k, sb), BinaryCliqueFormula(G, k, symbreak=sb)))
            attempt(('rw', i, k, sb), lambda: dump(('rw', i, k, sb), RamseyWitnessFormula(G, k, 2, symbreak=sb)))
    for d in range(1, 4):
        for alt in (True, False):
            attempt(('ds', i, d, alt), lambda: dump(('ds', i, d, alt), DominatingSet(G, d, alternative=alt)))
    attempt(('aut', i), lambda: dump(('aut', i), GraphAutomorphism(G)))
for i, j in itertools.product(range(0, len(GS), 3), repeat=2):
    for flag in (True, False):
        attempt(('iso', i, j, flag), lambda: dump(('iso', i, j, flag), GraphIsomorphism(GS[i], GS[j], nontrivial=flag)))
        attempt(('sub', i, j, flag), lambda: dump(('sub', i, j, flag), SubgraphFormula(GS[i], GS[j], induced=flag, symbreak=not flag)))
for p, h in itertools.product(range(0, 5), range(0, 4)):
    for fn, on in itertools.product((True, False), repeat=2):
        attempt(('php', p, h, fn, on), lambda: dump(('php', p, h, fn, on), PigeonholePrinciple(p, h, functional=fn, onto=on)))
    attempt(('bphp', p, h), lambda: dump(('bphp', p, h), BinaryPigeonholePrinciple(p, h)))

print(H.hexdigest())
