"""Equivalence script for refactoring t10 (property C04).

Exercises BaseOPB._check_and_update (validation of pseudo-Boolean
constraints and update of the variable count) directly and through all
the constraint builders of OPB formulas, including the error paths.
"""
import hashlib
import itertools
import random
import sys

sys.path.insert(0, '.')

from cnfgen.formula.baseopb import BaseOPB, normalize_opb
from cnfgen.formula.opb import OPB

out = []


def rec(*args):
    out.append(repr(args))


def attempt(tag, fn, F=None):
    try:
        res = fn()
        rec(tag, 'ok', res)
    except Exception as e:  # noqa
        cause = e.__cause__
        rec(tag, 'exc', type(e).__name__, str(e),
            type(cause).__name__, str(cause))
    if F is not None:
        rec(tag, 'state', F.number_of_variables(), len(F), list(F))


# ---- direct calls to _check_and_update
direct = [
    [],
    (),
    [(1, 1), '>=', 1],
    [(1, -7), (2, 3), '>=', 1],
    [(1, -7), (2, 3), '==', 0],
    [(0, 4), '>=', 0],
    [(1, 4), '<=', 0],
    [(1, 4), '<', 0],
    [(1, 4), '>', 0],
    [(1, 4), '!=', 0],
    [(1, 9), 'foo', 0],
    [(1, 9), None, 0],
    [(1, 0), '>=', 1],
    [(1, 5), (1, 0), '>=', 1],
    [(-1, 5), '>=', 1],
    [(1, 5), (-1, 8), '>=', 1],
    [(-1, 0), '>=', 1],
    [(-1, 12), (1, 0), '>=', 1],
    [(1, 12), (1, 0), '!=', 1],
    [(1, 'a'), '>=', 1],
    [('a', 1), '>=', 1],
    [(1, None), '>=', 1],
    [(None, 3), '>=', 1],
    [(1, 2.5), '>=', 1],
    [(1.5, 2), '>=', 1],
    [(1, 3.0), '>=', 1],
    [(1, True), '>=', 1],
    [(1, 2, 3), '>=', 1],
    [(1,), '>=', 1],
    [1, '>=', 1],
    ['ab', '>=', 1],
    [[1, 6], '>=', 1],
    ['>=', 1],
    ['<=', 1],
    [1],
    ['>='],
    [(1, 3)],
    [(1, 3), (1, 4)],
    [(1, 30), (1, 4), 3],
    ((1, 3), (2, 10), '>=', 1),
    ((1, 3), (2, 10), '<', 1),
    '>=1',
    'ab',
    {1: 2},
    {(1, 2)},
    frozenset([(1, 2), (3, 4), (5, 6)]),
    iter([(1, 2), '>=', 1]),
    [(1, 10**30), '==', 5],
    [(10**30, -(10**20)), '==', 5],
]
for prev in [0, 4, 100]:
    for i, data in enumerate(direct):
        F = BaseOPB()
        F.update_variable_number(prev)
        attempt(('direct', prev, i), lambda: F._check_and_update(data), F)
attempt('direct int', lambda: BaseOPB()._check_and_update(5))
attempt('direct None', lambda: BaseOPB()._check_and_update(None))

# a sequence of updates on the same formula: the count never decreases
F = BaseOPB()
for i, data in enumerate(direct):
    attempt(('seq', i), lambda: F._check_and_update(data), F=None)
    rec('seq numvar', i, F.number_of_variables())

# ---- through add_constraint / add_clause / constructor
ops = ['>=', '<=', '>', '<', '==', '!=', '=', 'geq']
rng = random.Random(40404)
for trial in range(150):
    k = rng.randint(0, 5)
    terms = [(rng.randint(-3, 3), rng.choice([1, -1]) * rng.randint(0, 9))
             for _ in range(k)]
    op = rng.choice(ops)
    val = rng.randint(-6, 6)
    cons = terms + [op, val]
    for check in (True, False):
        F = BaseOPB()
        F.update_variable_number(rng.choice([0, 3]))
        attempt(('add_constraint', trial, check, cons),
                lambda: F.add_constraint(list(cons), check=check), F)
    attempt(('ctor', trial), lambda: list(BaseOPB([list(cons)])))
    attempt(('normalize', trial), lambda: normalize_opb(list(cons)))

clauses = [[], [1], [-3, 2], [0], [1, 0, -2], ['a'], [None], [2.5], (4, -9),
           range(1, 4), [10**12]]
for i, cl in enumerate(clauses):
    for check in (True, False):
        F = BaseOPB()
        attempt(('add_clause', i, check), lambda: F.add_clause(cl, check=check), F)
    F = BaseOPB()
    attempt(('add_clauses_from', i), lambda: F.add_clauses_from([[1, 2], cl, [7]]), F)
    attempt(('add_clauses_from nocheck', i),
            lambda: F.add_clauses_from([[1, 2], cl, [7]], check=False), F)

# ---- through the linear / parity / majority builders of OPB
litlists = [[], [1], [-1], [1, 2, 3], [-1, 2, -3, 4], [5, -6], [0],
            [1, 0, 2], ['x', 2], [2, None], (3, -1), range(1, 5),
            [7, 7], [7, -7]]
builders = ['cardinality_geq', 'cardinality_leq', 'cardinality_eq',
            'cardinality_neq']
for i, lits in enumerate(litlists):
    for name in builders:
        for value in [-2, -1, 0, 1, 2, 3, 5, 9]:
            for check in (True, False):
                F = OPB()
                attempt((name, i, value, check),
                        lambda: getattr(F, name)(lits, value, check=check), F)
    for name in ['add_loose_majority', 'add_loose_minority',
                 'add_strict_majority', 'add_strict_minority']:
        for check in (True, False):
            F = OPB()
            attempt((name, i, check),
                    lambda: getattr(F, name)(lits, check=check), F)
    for const in [0, 1]:
        for check in (True, False):
            F = OPB()
            attempt(('parity', i, const, check),
                    lambda: F.add_parity(lits, const, check=check), F)
    # generators
    F = OPB()
    attempt(('gen geq', i), lambda: F.cardinality_geq((l for l in lits), 1), F)
    F = OPB()
    attempt(('gen neq', i), lambda: F.cardinality_neq((l for l in lits), 1), F)
    F = OPB()
    attempt(('gen parity', i), lambda: F.add_parity((l for l in lits), 1), F)

# ---- mappings on OPB formulas and text output
for (n, m) in [(0, 0), (1, 1), (2, 3), (3, 2), (4, 4)]:
    F = OPB()
    f = F.new_mapping(n, m)
    F.force_complete_mapping(f)
    F.force_functional_mapping(f)
    F.force_injective_mapping(f)
    F.force_surjective_mapping(f)
    F.force_nondecreasing_mapping(f)
    g = F.new_binary_mapping(n, m)
    F.force_complete_mapping(g)
    F.force_injective_mapping(g)
    F.force_nondecreasing_mapping(g)
    F.add_constraint([(2, 1), (-3, F.number_of_variables() + 2), '<', 1])
    rec('mapping', n, m, F.number_of_variables(), list(F), F.to_opb(),
        F.debug())

digest = hashlib.sha256("\n".join(out).encode('utf-8')).hexdigest()
print(digest)
