#!/usr/bin/env python
"""Equivalence digest for the refactoring of the command line helpers
XorCompressionCmd.transform_cnf and MajCompressionCmd.transform_cnf
(cnfgen/clihelpers/transformation_helpers.py).

Run as:  cd <checkout> && /venv/bin/python equiv.py
Prints one SHA256 digest of every observable thing produced.
"""
import sys
import os
import io
import random
import hashlib
import argparse
from contextlib import redirect_stdout, redirect_stderr

sys.path.insert(0, os.getcwd())

import cnfgen
from cnfgen.formula.cnf import CNF
from cnfgen.graphs import BipartiteGraph, CompleteBipartiteGraph
from cnfgen.clitools import redirect_stdin
from cnfgen.clitools.cnfgen import cli
from cnfgen.clihelpers import transformation_helpers as TH

H = hashlib.sha256()


def emit(*items):
    H.update((" ".join(repr(x) for x in items) + "\n").encode('utf-8'))


def dump(tag, F):
    emit(tag, 'nvars', F.number_of_variables(), 'nclauses', len(F))
    emit(tag, 'clauses', [list(c) for c in F])
    emit(tag, 'header', sorted(F.header.items()))
    emit(tag, 'labels', list(F.all_variable_labels()))
    if len(F) <= 300:
        emit(tag, 'dimacs', F.to_dimacs())


def run_cli(argv, mode, stdin=''):
    """Run the command line and record everything observable"""
    tag = 'cli/{}/{}'.format(mode, " ".join(str(a) for a in argv))
    out = io.StringIO()
    err = io.StringIO()
    random.seed(12345)
    res = None
    try:
        with redirect_stdin(io.StringIO(stdin)), redirect_stdout(out), redirect_stderr(err):
            res = cli(list(argv), mode=mode)
    except SystemExit as e:
        emit(tag, 'EXIT', e.code)
    except BaseException as e:
        emit(tag, 'EXC', type(e).__name__, str(e))
    if isinstance(res, CNF):
        dump(tag, res)
    else:
        emit(tag, 'result', res)
    emit(tag, 'stdout', out.getvalue())
    emit(tag, 'stderr', err.getvalue())
    # state of the random stream after the run
    emit(tag, 'rnd', random.random())


DIMACS = """c test formula with unused variables
p cnf 6 5
1 -2 0
2 2 -3 0
0
-1 1 0
4 -1 0
"""


def cli_section():
    formulas = [['php', 3, 2], ['and', 2, 1], ['or', 0, 0], ['and', 0, 0],
                ['op', 3], ['randkcnf', 3, 5, 7]]
    tails = [[5], [5, 2], [4, 3], [3, 3], [7, 1], [1], [1, 1], [6, 0],
             [2, 3], [0], [-3], [4, 9], [4, 2, 1], ['4.5'], ['4', '1.5'], ['x'],
             ['glrd', 6, 5, 2], ['regular', 6, 4, 2], ['complete', 6, 2],
             ['complete', 2, 3], ['complete', 3, 2], ['complete', 1, 1],
             ['empty', 6, 3], ['empty', 3, 0], ['shift', 6, 5, 1, 2],
             ['glrm', 6, 4, 7], ['glrp', 6, 4, '0.5'], ['gnp', 6, '0.5'],
             ['glrd', 6, 5, 2, 'addedges', 3], [], ['-h'], ['nonexistent.file']]
    for cmd in ['xorcomp', 'majcomp']:
        for f in formulas:
            for tail in tails:
                for seed in ([7] if tail[:1] not in ([5], ['glrd']) else [7, 8]):
                    argv = ['cnfgen', '-q', '--seed', seed] + f + ['-T', cmd] + tail
                    run_cli(argv, 'formula')
        # no explicit seed: the random stream seeded by the caller
        run_cli(['cnfgen', '-q', 'php', 3, 2, '-T', cmd, 5, 2], 'string')
        run_cli(['cnfgen', 'php', 3, 2, '-T', cmd, 5, 2], 'output')
        run_cli(['cnfgen', '-q', '-of', 'latex', 'php', 3, 2, '-T', cmd, 5, 2], 'output')
        run_cli(['cnfgen', '-of', 'opb', '--seed', 3, 'php', 3, 2, '-T', cmd, 5], 'output')
        run_cli(['cnfgen', '--seed', 3, 'php', 3, 2, '-T', cmd, 5], 'string')
        # chained transformations: the number of variables changes on the way
        for pre in [['xor', 2], ['or', 3], ['ite'], ['lift', 2], ['flip'],
                    ['none'], ['shuffle'], [cmd, 4, 2], ['maj', 3], ['eq', 2],
                    ['neq', 2], ['one', 2], ['atleast', 3, 2], ['atmost', 3, 2],
                    ['exact', 3, 2], ['anybut', 3, 2]]:
            run_cli(['cnfgen', '-q', '--seed', 11, 'php', 3, 2, '-T'] + pre
                    + ['-T', cmd, 5, 2], 'formula')
            run_cli(['cnfgen', '-q', '--seed', 11, 'php', 3, 2, '-T', cmd, 5, 2,
                     '-T'] + pre, 'formula')
        # formula from dimacs input, with unused variables and empty clause
        run_cli(['cnfgen', '-q', '--seed', 5, 'dimacs', '-T', cmd, 4, 2],
                'formula', stdin=DIMACS)
        run_cli(['cnfgen', '-q', '--seed', 5, 'dimacs', '-T', cmd, 'complete', 6, 3],
                'formula', stdin=DIMACS)
        run_cli(['cnfgen', '-q', '--seed', 5, 'dimacs', '-T', cmd, 'complete', 5, 3],
                'formula', stdin=DIMACS)
        run_cli(['cnfgen', '-q', '--seed', 5, 'dimacs', '-T', cmd, 3],
                'string', stdin='p cnf 0 0\n')
        run_cli(['cnfgen', '-q', '--seed', 5, 'dimacs', '-T', cmd, 3],
                'string', stdin='p cnf 0 1\n0\n')


class Args:
    """A bare namespace"""
    def __init__(self, **kw):
        self.__dict__.update(kw)


class LoggingArgs:
    """A namespace that records the order of the attribute accesses"""
    def __init__(self, log, **kw):
        object.__setattr__(self, '_log', log)
        object.__setattr__(self, '_kw', kw)

    def __getattr__(self, name):
        self._log.append(name)
        try:
            return self._kw[name]
        except KeyError:
            raise AttributeError(name)


def direct_section():
    rng = random.Random(31)
    formulas = [('empty', CNF()), ('emptyclause', CNF([[]])),
                ('repeat', CNF([[1, 1, -2], [2, -2], [-1, -1]]))]
    F = CNF([[1, -2], []])
    F.update_variable_number(4)
    formulas.append(('unused', F))
    F = CNF()
    x = F.new_variable('x')
    y = F.new_block(2, label='y_{{{}}}')
    F.add_clause([x, -y(1)])
    F.add_clause([-x, y(2), y(1)])
    formulas.append(('named', F))
    for n in range(1, 5):
        cls = [[rng.choice([-1, 1]) * rng.randint(1, n)
                for _ in range(rng.randint(0, 3))] for _ in range(rng.randint(0, 4))]
        F = CNF(cls)
        F.update_variable_number(n)
        formulas.append(('rnd{}'.format(n), F))

    for cname in ['XorCompressionCmd', 'MajCompressionCmd']:
        cmd = getattr(TH, cname)
        emit(cname, cmd.name, cmd.__doc__)
        for name, F in formulas:
            n = F.number_of_variables()
            namespaces = [
                ('Nd', dict(N=4, d=2)), ('Nd3', dict(N=3, d=3)),
                ('Nd0', dict(N=3, d=0)), ('N1d1', dict(N=1, d=1)),
                ('dtoobig', dict(N=2, d=3)), ('onlyN', dict(N=4)),
                ('onlyd', dict(d=4)), ('none', dict()),
                ('B', dict(B=CompleteBipartiteGraph(n, 3))),
                ('Bwrong', dict(B=CompleteBipartiteGraph(n + 1, 3))),
                ('Bnone', dict(B=None)), ('Bstr', dict(B='graph')),
                ('NandB', dict(N=4, d=1, B=CompleteBipartiteGraph(n, 2))),
                ('Nstr', dict(N='4', d=2)), ('N0', dict(N=0, d=0)),
                ('Nneg', dict(N=-1, d=1)), ('Nnone', dict(N=None, d=None)),
                ('Nfloat', dict(N=4.0, d=2)),
            ]
            for nsname, kw in namespaces:
                for mk in ['plain', 'argparse', 'logging']:
                    tag = '{}/{}/{}/{}'.format(cname, name, nsname, mk)
                    log = []
                    if mk == 'plain':
                        ns = Args(**kw)
                    elif mk == 'argparse':
                        ns = argparse.Namespace(**kw)
                    else:
                        ns = LoggingArgs(log, **kw)
                    random.seed(99)
                    try:
                        G = cmd.transform_cnf(F, ns)
                    except Exception as e:
                        emit(tag, 'EXC', type(e).__name__, str(e))
                    else:
                        dump(tag, G)
                    emit(tag, 'log', log, 'rnd', random.random())
                    # the original formula is untouched
                    emit(tag, 'orig', F.number_of_variables(), [list(c) for c in F])


def main():
    cli_section()
    direct_section()
    print(H.hexdigest())


if __name__ == '__main__':
    main()
