"""Equivalence witness for refactoring t23 (to_opb_file constraint writer).

Run as:  cd <checkout> && /venv/bin/python equiv.py
Prints one SHA256 digest of everything observable.
"""
import sys, os, io, hashlib, contextlib, tempfile, warnings
warnings.simplefilter('ignore')
sys.path.insert(0, os.getcwd())

from cnfgen.utils.opb import to_opb_file
from cnfgen.formula.basecnf import BaseCNF
from cnfgen.formula.cnf import CNF
from cnfgen.formula.baseopb import BaseOPB
from cnfgen.formula.opbio import OPBio
from cnfgen.formula.opb import OPB
from cnfgen.clitools.pbgen import cli as pbcli
from cnfgen.clitools.cnfgen import cli as cnfcli

H = hashlib.sha256()


def emit(*items):
    H.update((" ".join(repr(x) for x in items) + "\n").encode('utf-8'))


def attempt(label, thunk):
    try:
        res = thunk()
        emit(label, 'ok', res)
    except BaseException as e:  # noqa
        cause = e.__cause__
        emit(label, 'exc', type(e).__name__, str(e),
             type(cause).__name__ if cause is not None else None,
             str(cause) if cause is not None else None)


class Recorder:
    """File-like object recording every single write call"""
    def __init__(self):
        self.calls = []

    def write(self, text):
        self.calls.append(text)


def fix_header(F):
    # the version string is the same on both trees, keep it anyway
    F.header['extra'] = 'line one\nline two\n\nfour è ∀'
    F.header['empty'] = ''
    F.header[3] = None
    return F


def formulas():
    yield 'cnf-empty', CNF()
    yield 'cnf-emptyclause', CNF([[]])
    yield 'cnf-small', CNF([[1, 2, -3], [-2, 4], [], [5], [-5]])
    F = CNF()
    X = F.new_mapping(3, 2, label='p_{{{},{}}}')
    F.force_complete_mapping(X)
    F.force_injective_mapping(X)
    yield 'cnf-php', F
    F = CNF()
    F.add_clause((1, -2), check=False)
    F.add_clause([True, 2.5, -1.5], check=False)
    F.add_clause(iter([1]), check=False) if False else None
    yield 'cnf-odd-literals', F
    F = CNF()
    F.add_clause([1, 'a', 2], check=False)
    yield 'cnf-bad-literal', F
    F = CNF()
    F.add_clause([1, None], check=False)
    F.add_clause([2], check=False)
    yield 'cnf-none-literal', F
    yield 'basecnf', BaseCNF([[1, -2], [2, 3, -4]])

    yield 'opb-empty', OPB()
    F = OPB()
    F.add_constraint([(1, 3), (-2, 2), (1, 4), '>', 3])
    F.add_constraint([(2, -3), '<', 1])
    F.add_constraint([(1, 3), (2, 1), (-3, -2), '==', 3])
    F.add_constraint(['>=', 0])
    F.add_constraint(['==', -4])
    F.add_clause([])
    F.add_clause([1, -5])
    F.cardinality_leq([1, 2, 3, 4], 2)
    F.cardinality_eq([6, -7], 1)
    F.add_parity([1, 2, 3], 1)
    yield 'opb-mixed', F
    F = OPB()
    X = F.new_mapping(3, 2, label='p_{{{},{}}}')
    F.force_complete_mapping(X)
    F.force_injective_mapping(X)
    yield 'opb-php', F
    F = BaseOPB()
    F._constraints.append([(1, 2), (3, -4), '<=', 7])   # unusual operator
    F._constraints.append([(0, 1), (-2, 3), '>=', -1])  # unusual coefficients
    F._constraints.append([(1.5, 2), (True, -1), '==', 2.5])
    F.update_variable_number(4)
    yield 'opb-unnormalised', F
    F = BaseOPB()
    F._constraints.append([(1, 1), (1, 'a'), '>=', 1])
    yield 'opb-bad-literal', F
    F = BaseOPB()
    F._constraints.append([(1, 1), (2,), '>=', 1])
    yield 'opb-bad-term', F
    F = BaseOPB()
    F._constraints.append([(1, 1), ('c', -2), '>=', 1])
    yield 'opb-bad-coefficient', F
    F = BaseOPB()
    F._constraints.append([3])
    yield 'opb-short-row', F
    F = BaseOPB()
    F._constraints.append([])
    yield 'opb-empty-row', F
    F = BaseOPB()
    F._constraints.append(((1, 1), (2, -2), '>=', 2))
    yield 'opb-tuple-row', F
    yield 'opbio', OPBio([[(1, 1), (1, -2), '>=', 1], [(2, 3), '==', 2]])

    class Other:
        header = {'description': 'neither CNF nor OPB'}

        def number_of_variables(self):
            return 2

        def __len__(self):
            return 1

        def __iter__(self):
            return iter([[1, 2]])

        def all_variable_labels(self):
            return ['a', 'b\nc']
    yield 'other', Other()


for name, F in formulas():
    if F is None:
        continue
    for with_extra in (False, True):
        if with_extra:
            try:
                fix_header(F)
            except Exception:
                pass
        for eh in (True, False):
            for ev in (True, False):
                rec = Recorder()
                attempt((name, with_extra, eh, ev),
                        lambda: to_opb_file(F, rec, export_header=eh,
                                            export_varnames=ev))
                emit(rec.calls)
    # default arguments, stdout, file name
    buf = io.StringIO()
    attempt((name, 'defaults'), lambda: to_opb_file(F, buf))
    emit(buf.getvalue())
    out = io.StringIO()
    with contextlib.redirect_stdout(out):
        attempt((name, 'stdout'), lambda: to_opb_file(F))
    emit(out.getvalue())
    out = io.StringIO()
    with contextlib.redirect_stdout(out):
        attempt((name, 'stdout-none'),
                lambda: to_opb_file(F, None, False, True))
    emit(out.getvalue())
    with tempfile.TemporaryDirectory() as d:
        path = os.path.join(d, 'f.opb')
        attempt((name, 'path'), lambda: to_opb_file(F, path, export_header=False))
        emit(open(path, encoding='utf-8').read() if os.path.exists(path) else None)
        # the methods of the formula classes which end up in to_opb_file
        if hasattr(F, 'to_opb'):
            attempt((name, 'to_opb'), lambda: F.to_opb())
        if hasattr(F, 'to_file'):
            path2 = os.path.join(d, 'g.opb')
            attempt((name, 'to_file'),
                    lambda: F.to_file(path2, fileformat='opb',
                                      export_varnames=True))
            emit(open(path2, encoding='utf-8').read()
                 if os.path.exists(path2) else None)
            path3 = os.path.join(d, 'h.opb')
            attempt((name, 'to_file-guess'), lambda: F.to_file(path3))
            emit(open(path3, encoding='utf-8').read()
                 if os.path.exists(path3) else None)
attempt('bad-path', lambda: to_opb_file(OPB(), '/nonexistent-dir-c08/x.opb'))
attempt('bad-file', lambda: to_opb_file(OPB(), 42))
attempt('bad-formula', lambda: to_opb_file(None, io.StringIO()))

CMDS = """php 5 4
php 3 3 --functional --onto
bphp 4 3
op 4 --total
or 3 2
and 2 3
true
false
count 5 3
parity 5
matching gnp 6 .7
tseitin randomodd gnd 6 3
ec gnd 6 4
subsetcard 5 --equal
kclique 3 gnp 5 .6
kcolor 3 gnp 5 .5
domset 2 gnp 5 .5
ram 3 3 5
ramlb 3 3 gnp 5 .5
vdw 5 3 3
peb pyramid 3
stone 3 pyramid 2
randkcnf 3 6 8
rphp 4 3 2
cliquecoloring 5 3 2
cpls 2 2 2
iso gnp 4 .5
subgraph -G gnp 5 .5 -H complete 3
tiling gnp 6 .5
nosuchformula 3
php -1 3"""


def run_cli(cli, argv, mode='string'):
    err = io.StringIO()
    out = io.StringIO()
    with contextlib.redirect_stderr(err), contextlib.redirect_stdout(out):
        res = cli(argv, mode=mode)
    return res, out.getvalue(), err.getvalue()


with tempfile.TemporaryDirectory() as d:
    for i, line in enumerate(CMDS.splitlines()):
        for opts in (['-S', '7'], ['-q', '-S', '42'], ['--varnames', '-S', '3']):
            argv = ['pbgen'] + opts + line.split()
            attempt(argv, lambda: run_cli(pbcli, argv))
            argv = ['cnfgen', '-of', 'opb'] + opts + line.split()
            attempt(argv, lambda: run_cli(cnfcli, argv))
        # real output on file, through to_file
        for tool, cli in (('pbgen', pbcli), ('cnfgen', cnfcli)):
            path = os.path.join(d, '{}{}.opb'.format(tool, i))
            argv = [tool, '-o', path, '--varnames', '-S', '11'] + line.split()
            attempt(argv[:2] + argv[3:], lambda: run_cli(cli, argv, 'output'))
            # argparse opens (creates) the output file also on errors
            data = open(path, encoding='utf-8').read() if os.path.exists(path) else None
            emit(None if data is None else data.replace(path, '<path>'))
    argv = ['cnfgen', '-q', '-of', 'opb', 'php', '3', '2', '-T', 'xor', '2']
    attempt(argv, lambda: run_cli(cnfcli, argv))

print(H.hexdigest())
