#!/usr/bin/env python
"""Equivalence script for the label escaping helper `escape_curly` used by all the
substitutions of cnfgen/transformations/substitutions.py when naming the new
variables.  Every substitution is applied to formulas whose variable labels
contain curly braces and other format-string metacharacters; labels, headers,
clauses, dimacs/latex output and exceptions are hashed into one SHA256 digest.
"""
import sys
import os
import io
import hashlib
from contextlib import redirect_stdout, redirect_stderr

sys.path.insert(0, os.getcwd())

from cnfgen import CNF
from cnfgen.graphs import BipartiteGraph
from cnfgen.clitools import cnfgen, CLIError
import cnfgen.transformations.substitutions as S

OUT = []


def rec(*items):
    OUT.append(repr(items))


def describe(F):
    try:
        latex = F.to_latex()
    except BaseException as e:  # noqa
        latex = (type(e).__name__, str(e))
    dimacs = '\n'.join(l for l in F.to_dimacs().split('\n')
                       if 'version' not in l.lower() and 'generator' not in l.lower())
    return (F.number_of_variables(), F.number_of_clauses(),
            [list(c) for c in F.clauses()],
            list(F.all_variable_labels()),
            sorted((str(k), str(v)) for k, v in F.header.items() if str(k).lower() not in ('version', 'generator')),
            dimacs, latex)


def attempt(tag, fn):
    try:
        rec(tag, 'ok', fn())
    except SystemExit as e:
        rec(tag, 'SystemExit', e.code)
    except BaseException as e:   # noqa
        rec(tag, type(e).__name__, str(e))


# 1. the helper itself, reached through the substitutions module
TEXTS = ['', 'x', '{', '}', '{}', '{{', '}}', '{{}}', 'x_{1,2}', '{0}', '{a}{b}', 'a{b{c}d}e',
         '}{', '{}{}{}', 'é{ü}', '{' * 50 + '}' * 49, 'x^{%d}', '\\{x\\}', 'e_{{1,2}}', ' { } ']
for t in TEXTS:
    attempt(('esc', t), lambda: S.escape_curly(t))
    attempt(('esc-fmt', t), lambda: ('{{' + S.escape_curly(t) + '}}^{}').format(3))
for bad in [None, 3, 1.5, ['{'], b'{x}', ('{',)]:
    attempt(('esc-bad', repr(bad)), lambda: S.escape_curly(bad))
rec('esc-meta', S.escape_curly.__name__, callable(S.escape_curly))


# 2. formulas with awkward labels
def labelled(labels, clauses, extra=0):
    F = CNF()
    for lab in labels:
        F.new_variable(lab)
    for c in clauses:
        F.add_clause(c)
    if extra:
        F.update_variable_number(F.number_of_variables() + extra)
    return F


def make_bases():
    bases = {}
    bases['empty'] = CNF()
    bases['emptyclause'] = CNF([[]])
    bases['plain'] = CNF([[1, -2], [2, 3], [-1, -3], []])
    bases['repeated'] = CNF([[1, 1, -1], [2, -2]])
    bases['curly'] = labelled(['x_{1,2}', 'y_{3}', '{', '}'], [[1, -2], [3, 4], [-4]])
    bases['fmtlike'] = labelled(['{0}', '{}', '{a}', '{{}}', ''], [[1, 2, 3], [-4, 5], [-1]])
    bases['unused'] = labelled(['a{b}', 'c'], [[-2]], extra=2)
    B = CNF()
    B.new_block(2, 2, label='p_{{{},{}}}')
    B.add_clause([1, -4])
    B.add_clause([2, 3])
    bases['block'] = B
    return bases


def bip(L, R, edges):
    G = BipartiteGraph(L, R)
    for u, v in edges:
        G.add_edge(u, v)
    return G


for name, F in make_bases().items():
    V = F.number_of_variables()
    rec('base', name, describe(F))
    attempt(('flip', name), lambda: describe(S.FlipPolarity(F)))
    attempt(('ite', name), lambda: describe(S.IfThenElseSubstitution(F)))
    for k in [1, 2, 3]:
        attempt(('xor', name, k), lambda: describe(S.XorSubstitution(F, k)))
        attempt(('or', name, k), lambda: describe(S.OrSubstitution(F, k)))
        attempt(('and', name, k), lambda: describe(S.AndSubstitution(F, k)))
        attempt(('maj', name, k), lambda: describe(S.MajoritySubstitution(F, k)))
        attempt(('eq', name, k), lambda: describe(S.AllEqualSubstitution(F, k)))
        attempt(('neq', name, k), lambda: describe(S.NotAllEqualSubstitution(F, k)))
        attempt(('one', name, k), lambda: describe(S.ExactlyOneSubstitution(F, k)))
        attempt(('lift', name, k), lambda: describe(S.FormulaLifting(F, k)))
        for c in [0, 1, k]:
            attempt(('exact', name, k, c), lambda: describe(S.ExactlyKSubstitution(F, k, c)))
            attempt(('atleast', name, k, c), lambda: describe(S.AtLeastKSubstitution(F, k, c)))
            attempt(('atmost', name, k, c), lambda: describe(S.AtMostKSubstitution(F, k, c)))
            attempt(('anybut', name, k, c), lambda: describe(S.AnythingButKSubstitution(F, k, c)))
            attempt(('lin', name, k, c), lambda: describe(S.LinearSubstitution(F, k, '<', c)))
    for fn in ['xor', 'maj', 'and']:
        G = bip(V, 3, [(u, 1 + (u + j) % 3) for u in range(1, V + 1) for j in range(2)])
        attempt(('comp', name, fn), lambda: describe(S.VariableCompression(F, G, fn)))
    # composition: labels with braces get escaped twice
    attempt(('xor-xor', name), lambda: describe(S.XorSubstitution(S.XorSubstitution(F, 2), 2)))
    attempt(('lift-ite', name), lambda: describe(S.IfThenElseSubstitution(S.FormulaLifting(F, 2))))
    attempt(('ite-or-flip', name),
            lambda: describe(S.FlipPolarity(S.OrSubstitution(S.IfThenElseSubstitution(F), 2))))
    # bad arities
    for k in [0, -1, 1.5, '2', None, True]:
        attempt(('bad-xor', name, repr(k)), lambda: describe(S.XorSubstitution(F, k)))
        attempt(('bad-lift', name, repr(k)), lambda: describe(S.FormulaLifting(F, k)))


# 3. command line (github issue 114 was about label escaping)
def cli(argv, mode='formula'):
    out, err = io.StringIO(), io.StringIO()
    try:
        with redirect_stdout(out), redirect_stderr(err):
            res = cnfgen(argv, mode=mode)
        rec('cli', argv, 'ok', describe(res))
    except SystemExit as e:
        rec('cli', argv, 'SystemExit', e.code, out.getvalue(), err.getvalue())
    except CLIError as e:
        rec('cli', argv, 'CLIError', str(e))
    except BaseException as e:   # noqa
        rec('cli', argv, type(e).__name__, str(e))


for T in [['xor', 2], ['or', 2], ['maj', 3], ['eq', 2], ['neq', 3], ['one', 2], ['ite'], ['lift', 2],
          ['flip'], ['exact', 3, 1], ['atleast', 3, 2], ['atmost', 2, 1], ['anybut', 2, 1],
          ['xor', 0], ['lift'], ['ite', 3]]:
    cli(['cnfgen', 'op', 3] + ['-T'] + T)
    cli(['cnfgen', 'php', 3, 2] + ['-T'] + T)
    cli(['cnfgen', 'op', 3] + ['-T'] + T + ['-T', 'xor', 2])

print(hashlib.sha256('\n'.join(OUT).encode('utf-8')).hexdigest())
