#!/usr/bin/env python
"""Equivalence script for the refactoring of VariablesManager._add_variable_group.

Run as:  cd <checkout> && /venv/bin/python equiv.py
Prints one SHA256 digest of everything observed.
"""
import os
import sys
import random
import hashlib

sys.path.insert(0, os.getcwd())

import networkx as nx

from cnfgen.formula.cnf import CNF
from cnfgen.formula.opb import OPB
from cnfgen.formula.basecnf import BaseCNF
from cnfgen.formula.variables import (VariablesManager, BlockOfVariables,
                                      SingletonVariableGroup)
from cnfgen.graphs import Graph, DirectedGraph, BipartiteGraph
import cnfgen

H = hashlib.sha256()
LOG = []


def rec(*items):
    line = ' '.join(repr(x) for x in items)
    LOG.append(line)
    H.update(line.encode('utf-8'))
    H.update(b'\n')


def attempt(tag, fn):
    try:
        res = fn()
        rec(tag, 'OK', res)
        return res
    except Exception as e:  # noqa
        rec(tag, 'EXC', type(e).__name__, str(e))
        return None


def snapshot(tag, F):
    rec(tag, 'numvar', F.number_of_variables())
    rec(tag, 'ngroups', len(F._groups))
    rec(tag, 'groups', [(type(g).__name__, len(g), list(g)[:3], list(g)[-3:])
                        for g in F._groups])
    rec(tag, 'labels', list(F.all_variable_labels()))
    rec(tag, 'content', [list(c) if isinstance(c, (list, tuple)) else c
                         for c in F])


def small_graphs(rng):
    G = Graph(6)
    for u in range(1, 7):
        for v in range(u + 1, 7):
            if rng.random() < 0.5:
                G.add_edge(u, v)
    D = DirectedGraph(6)
    for u in range(1, 7):
        for v in range(u + 1, 7):
            if rng.random() < 0.4:
                D.add_edge(u, v)
    B = BipartiteGraph(4, 5)
    for u in range(1, 5):
        for v in range(1, 6):
            if rng.random() < 0.5:
                B.add_edge(u, v)
    return G, D, B


def creators(F, rng):
    G, D, B = small_graphs(rng)
    E = Graph(5)            # no edges: empty group
    EB = BipartiteGraph(3, 3)  # no edges: empty group
    ED = DirectedGraph(4)
    return [
        ('var', lambda: F.new_variable('x')),
        ('var_nolabel', lambda: F.new_variable()),
        ('block', lambda: list(F.new_block(3, 4, label='b({},{})'))),
        ('block1', lambda: list(F.new_block(1))),
        ('block_empty', lambda: list(F.new_block(0, 5))),
        ('block_empty2', lambda: list(F.new_block(7, 0, 2))),
        ('block_bad', lambda: list(F.new_block())),
        ('block_neg', lambda: list(F.new_block(-1, 3))),
        ('comb', lambda: list(F.new_combinations(5, 2))),
        ('comb_empty', lambda: list(F.new_combinations(2, 3))),
        ('combrep', lambda: list(F.new_combinations_with_replacement(3, 2))),
        ('perm', lambda: list(F.new_permutations(4, 2))),
        ('perm_full', lambda: list(F.new_permutations(3))),
        ('words', lambda: list(F.new_words(3, 2))),
        ('graph', lambda: list(F.new_graph_edges(G))),
        ('graph_empty', lambda: list(F.new_graph_edges(E))),
        ('digraph', lambda: list(F.new_digraph_edges(D))),
        ('digraph_succ', lambda: list(F.new_digraph_edges(D, sortby='succ'))),
        ('digraph_empty', lambda: list(F.new_digraph_edges(ED))),
        ('bip', lambda: list(F.new_bipartite_edges(B))),
        ('bip_empty', lambda: list(F.new_bipartite_edges(EB))),
        ('mapping', lambda: list(F.new_mapping(3, 4))),
        ('mapping_empty', lambda: list(F.new_mapping(0, 4))),
        ('sparse', lambda: list(F.new_sparse_mapping(B))),
        ('binmap', lambda: list(F.new_binary_mapping(3, 5))),
        ('binmap1', lambda: list(F.new_binary_mapping(2, 1))),
    ]


def interleaving(cls, seed, steps):
    rng = random.Random(seed)
    F = cls()
    makers = creators(F, rng)
    for s in range(steps):
        action = rng.random()
        tag = '{}-{}-{}'.format(cls.__name__, seed, s)
        if action < 0.55:
            name, fn = rng.choice(makers)
            attempt(tag + ':' + name, fn)
        elif action < 0.85:
            n = F.number_of_variables()
            top = n + rng.choice([0, 0, 1, 3])
            if top == 0:
                attempt(tag + ':emptyclause', lambda: F.add_clause([]))
            else:
                k = rng.randint(1, min(4, top))
                lits = [v * rng.choice([1, -1])
                        for v in rng.sample(range(1, top + 1), k)]
                if rng.random() < 0.3 and top not in [abs(x) for x in lits]:
                    lits.append(top)
                attempt(tag + ':clause', lambda: F.add_clause(lits))
        elif action < 0.95:
            inc = F.number_of_variables() + rng.choice([0, 1, 5])
            attempt(tag + ':update', lambda: F.update_variable_number(inc))
        else:
            attempt(tag + ':debug', lambda: F.debug(allow_opposite=True,
                                                    allow_repetition=True))
        rec(tag, 'nv', F.number_of_variables(), 'ng', len(F._groups))
    snapshot('{}-{}-final'.format(cls.__name__, seed), F)


def stale_groups(cls):
    """Groups built before the formula grows must be refused."""
    F = cls()
    F.new_variable('a')
    stale_single = SingletonVariableGroup(F, 'stale')
    stale_block = BlockOfVariables(F, [2, 3], 'st({},{})')
    stale_empty = BlockOfVariables(F, [0, 3], 'se({},{})')
    far = BlockOfVariables(F, [2, 2], 'far({},{})')
    F.add_clause([1, -2])          # variable 2 now mentioned by a clause
    attempt(cls.__name__ + ':stale_single',
            lambda: F._add_variable_group(stale_single))
    attempt(cls.__name__ + ':stale_block',
            lambda: F._add_variable_group(stale_block))
    attempt(cls.__name__ + ':stale_empty',
            lambda: F._add_variable_group(stale_empty))
    snapshot(cls.__name__ + ':stale-1', F)
    # exactly at the boundary: begin == numvar + 1 is fine, begin == numvar is not
    ok = BlockOfVariables(F, [2], 'ok({})')
    attempt(cls.__name__ + ':boundary_ok', lambda: F._add_variable_group(ok))
    attempt(cls.__name__ + ':boundary_again', lambda: F._add_variable_group(ok))
    attempt(cls.__name__ + ':far', lambda: F._add_variable_group(far))
    snapshot(cls.__name__ + ':stale-2', F)
    # a group with a gap after the current variables is accepted
    F2 = cls()
    F2.update_variable_number(3)
    gap = BlockOfVariables(F2, [2, 2], 'g({},{})')
    F2._numvar = 1
    attempt(cls.__name__ + ':gap', lambda: F2._add_variable_group(gap))
    snapshot(cls.__name__ + ':gap', F2)
    # standalone manager on a base formula
    B = BaseCNF()
    V = VariablesManager(B)
    attempt('vm:var', lambda: V.new_variable('X'))
    attempt('vm:block', lambda: list(V.new_block(2, 2, label='z_{{{},{}}}')))
    attempt('vm:empty', lambda: list(V.new_block(0)))
    B.add_clause([7, -1])
    attempt('vm:var2', lambda: V.new_variable('Y'))
    rec('vm', B.number_of_variables(), len(V._groups),
        list(V.all_variable_labels()))


def families():
    def dump(tag, F):
        rec(tag, F.number_of_variables(), len(F), len(F._groups))
        rec(tag, 'labels', list(F.all_variable_labels())[:40])
        rec(tag, 'dimacs', hashlib.sha256(
            F.to_dimacs().encode('utf-8')).hexdigest())
        maxv = max([abs(l) for c in F for l in c] or [0])
        rec(tag, 'maxvar', maxv, maxv <= F.number_of_variables())

    dump('php', cnfgen.PigeonholePrinciple(7, 5))
    dump('fphp', cnfgen.PigeonholePrinciple(6, 6, functional=True, onto=True))
    dump('bphp', cnfgen.BinaryPigeonholePrinciple(9, 5))
    dump('op', cnfgen.OrderingPrinciple(7))
    dump('gop', cnfgen.GraphOrderingPrinciple(nx.cycle_graph(8)))
    dump('tseitin', cnfgen.TseitinFormula(nx.grid_2d_graph(3, 4)))
    dump('peb', cnfgen.PebblingFormula(
        nx.DiGraph([(1, 3), (2, 3), (3, 5), (4, 5), (2, 4)])))
    dump('stone', cnfgen.StoneFormula(
        nx.DiGraph([(1, 3), (2, 3), (3, 5), (4, 5), (2, 4)]), 4))
    dump('ramsey', cnfgen.RamseyNumber(3, 3, 6))
    dump('clique', cnfgen.CliqueFormula(nx.complete_graph(6), 3))
    dump('coloring', cnfgen.GraphColoringFormula(nx.petersen_graph(), 3))
    dump('count', cnfgen.CountingPrinciple(7, 3))
    dump('parity', cnfgen.PerfectMatchingPrinciple(nx.complete_graph(6)))
    dump('subsetcard', cnfgen.SubsetCardinalityFormula(
        nx.complete_bipartite_graph(4, 4)))
    dump('cpls', cnfgen.CPLSFormula(4, 4, 4))
    dump('xor', cnfgen.XorSubstitution(cnfgen.PigeonholePrinciple(4, 3), 2))
    dump('lift', cnfgen.FormulaLifting(cnfgen.OrderingPrinciple(4), 3))
    dump('ite', cnfgen.IfThenElseSubstitution(cnfgen.OrderingPrinciple(4)))


for cls in (CNF, OPB):
    for seed in range(12):
        interleaving(cls, seed, 60)
    stale_groups(cls)
families()

if '-v' in sys.argv:
    print('\n'.join(LOG))
print(H.hexdigest())
