import hashlib, itertools, sys
sys.path.insert(0, '.')
from cnfgen.formula.cnf import CNF
from cnfgen.families.cliquecoloring import CliqueColoring

out = []
def rec(*a):
    out.append(repr(a))

class Recording(CNF):
    """records the sequence of add_clause calls as they are made"""
    def __init__(self, *a, **kw):
        self.calls = []
        CNF.__init__(self, *a, **kw)
    def add_clause(self, clause, check=True):
        clause = list(clause)
        self.calls.append((clause, check))
        return CNF.add_clause(self, clause, check=check)

for n, k, c in itertools.product(range(0, 6), range(0, 5), range(0, 4)):
    for cls in (CNF, Recording):
        try:
            F = CliqueColoring(n, k, c, formula_class=cls)
        except Exception as ex:
            rec((n, k, c), cls.__name__, 'EXC', type(ex).__name__, str(ex))
            continue
        rec((n, k, c), cls.__name__, F.number_of_variables(), F.number_of_clauses(),
            [list(cl) for cl in F.clauses()], F.header.get('description'),
            list(F.all_variable_labels()), F.to_dimacs())
        if cls is Recording:
            rec('calls', F.calls)
for n, k, c in [(7, 3, 2), (6, 6, 1), (8, 2, 5)]:
    F = CliqueColoring(n, k, c)
    rec((n, k, c), F.to_dimacs(), F.to_latex())

for bad in [(-1, 2, 2), (3, -1, 2), (3, 2, -1), ('a', 2, 2), (3, 2.0, 1), (3, 2, None), (None, 1, 1), (True, 1, 1)]:
    try:
        F = CliqueColoring(*bad)
        rec(bad, 'ok', F.to_dimacs())
    except Exception as ex:
        rec(bad, 'EXC', type(ex).__name__, str(ex))

print(hashlib.sha256("\n".join(out).encode()).hexdigest())
