import hashlib, random, sys, os, subprocess
sys.path.insert(0, os.getcwd())
from cnfgen.graphs import DirectedGraph, BipartiteGraph, CompleteBipartiteGraph
from cnfgen.families.pebbling import PebblingFormula, StoneFormula, SparseStoneFormula

out = []
def rec(*a):
    out.append(repr(a))

def attempt(tag, fn):
    try:
        rec(tag, fn())
    except Exception as e:
        rec(tag, 'EXC', type(e).__name__, str(e))

def dump(F):
    return (F.header.get('description'), F.number_of_variables(),
            list(F.all_variable_labels()), list(F.clauses()), F.to_dimacs())

rng = random.Random(77)
def randdag(n, p, cyclic=False):
    D = DirectedGraph(n)
    for u in range(1, n + 1):
        for v in range(u + 1, n + 1):
            if rng.random() < p:
                D.add_edge(u, v)
    if cyclic and n >= 2:
        D.add_edge(n, 1)
    return D

def pyramid(h):
    n = (h + 1) * (h + 2) // 2
    D = DirectedGraph(n)
    rows, c = [], 1
    for w in range(h + 1, 0, -1):
        rows.append(list(range(c, c + w))); c += w
    for r in range(1, len(rows)):
        for i, v in enumerate(rows[r]):
            D.add_edge(rows[r - 1][i], v); D.add_edge(rows[r - 1][i + 1], v)
    return D

dags = [DirectedGraph(0), DirectedGraph(1), DirectedGraph(3), pyramid(1), pyramid(2)]
for n in range(2, 7):
    for p in (0.3, 0.7, 1.0):
        dags.append(randdag(n, p))
dags.append(randdag(4, 0.5, cyclic=True))

for idx, D in enumerate(dags):
    n = D.number_of_vertices()
    attempt(('peb', idx), lambda: dump(PebblingFormula(D)))
    for s in (0, 1, 2, 3, 4):
        if n * s <= 18:
            attempt(('stone', idx, s), lambda: dump(StoneFormula(D, s)))
    for s in (-1, 1.5, 'x'):
        attempt(('stonebad', idx, s), lambda: dump(StoneFormula(D, s)))
    for R in (1, 2, 3, 4):
        for dens in (0.4, 0.8):
            B = BipartiteGraph(n, R)
            for l in range(1, n + 1):
                for r in range(1, R + 1):
                    if rng.random() < dens:
                        B.add_edge(l, r)
            attempt(('sparse', idx, R, dens), lambda: dump(SparseStoneFormula(D, B)))
    attempt(('mismatch', idx), lambda: dump(SparseStoneFormula(D, CompleteBipartiteGraph(n + 1, 2))))
    attempt(('notbip', idx), lambda: dump(SparseStoneFormula(D, D)))

# command line
for args in (['stone', '3', 'pyramid', '2'], ['stone', '2', 'tree', '2'],
             ['stone', '2', 'path', '4', '--sparse', '2'], ['peb', 'pyramid', '3'], ['stone', '-1', 'pyramid', '1']):
    p = subprocess.run([sys.executable, '-W', 'ignore', '-c', 'import sys; from cnfgen.clitools.cnfgen import main; main()' ,
                        '-q', '--seed', '11'] + args, capture_output=True, text=True)
    rec('cli', args, p.returncode, p.stdout, p.stderr.splitlines()[-1:] )

print(hashlib.sha256("\n".join(out).encode()).hexdigest())
