#!/usr/bin/env python
"""Equivalence script for t23: the cnfshuffle command line tool
(cnfgen/clitools/cnfshuffle.py, functions cli and main).

Run as:  cd <checkout> && /venv/bin/python equiv.py
"""
import sys, os, io, random, hashlib, contextlib, itertools, tempfile, shutil
sys.path.insert(0, os.getcwd())

from cnfgen import CNF
from cnfgen.clitools import cnfshuffle as cnfshuffle_cli
from cnfgen.clitools import cnfshuffle as _pkg_alias
import cnfgen.clitools.cnfshuffle   # noqa  (the attribute of the package is the cli function)
cnfshuffle_mod = sys.modules['cnfgen.clitools.cnfshuffle']

H = hashlib.sha256()
tmpdir = tempfile.mkdtemp(prefix='c09t23')


def rec(*items):
    for x in items:
        H.update(repr(x).replace(tmpdir, '<TMP>').encode('utf-8'))
        H.update(b'\x00')


class KeepIO(io.StringIO):
    """StringIO that remembers its content after close()"""
    final = None

    def close(self):
        if self.final is None:
            self.final = self.getvalue()
        super().close()

    def text(self):
        return self.final if self.final is not None else self.getvalue()


def describe(res):
    if isinstance(res, CNF):
        hdr = io.StringIO()
        res.to_file(hdr, fileformat='dimacs', export_header=True)
        return ('CNF', res.number_of_variables(), res.number_of_clauses(), list(res),
                list(res.header.items()), hdr.getvalue())
    return res


def run_cli(label, argv, stdin_text, mode, **kw):
    old_stdin = sys.stdin
    sys.stdin = io.StringIO(stdin_text)
    out, err = KeepIO(), KeepIO()
    try:
        with contextlib.redirect_stdout(out), contextlib.redirect_stderr(err):
            if mode is None:
                res = cnfshuffle_cli(argv, **kw)
            else:
                res = cnfshuffle_cli(argv, mode=mode, **kw)
        rec(label, mode, 'ok', describe(res))
    except SystemExit as e:
        rec(label, mode, 'SystemExit', e.code)
    except BaseException as e:
        rec(label, mode, type(e).__name__, str(e))
    finally:
        sys.stdin = old_stdin
    rec(out.text(), err.text(), random.random())


def run_main(label, argv, stdin_text):
    old_stdin, old_argv = sys.stdin, sys.argv
    old_stdout, old_stderr = sys.stdout, sys.stderr
    sys.stdin = io.StringIO(stdin_text)
    sys.argv = argv
    out, err = KeepIO(), KeepIO()
    sys.stdout, sys.stderr = out, err
    try:
        res = cnfshuffle_mod.main()
        outcome = (label, 'main ok', res)
    except SystemExit as e:
        outcome = (label, 'main SystemExit', e.code)
    except BaseException as e:
        outcome = (label, 'main', type(e).__name__, str(e))
    finally:
        sys.stdin, sys.argv = old_stdin, old_argv
        sys.stdout, sys.stderr = old_stdout, old_stderr
    rec(*outcome)
    rec(out.text(), err.text(), err.closed, out.closed, random.random())


inputs = {
    'empty00': "p cnf 0 0\n",
    'novars': "p cnf 0 2\n0\n0\n",
    'noclauses': "p cnf 4 0\n",
    'unit': "p cnf 1 1\n-1 0\n",
    'small': "c a comment\np cnf 5 4\n1 -2 0\n3 4 -5 0\n0\n-1 2 5 0\n",
    'multiline': "c x\n\np cnf 6 3\n1 2\n-3 0 4\n-5 0\n6 -1 0\n",
    'unused': "p cnf 9 2\n1 2 0\n-2 3 0\n",
    'repeat': "p cnf 3 4\n1 1 -1 0\n2 0\n2 0\n-3 -3 0\n",
}
random.seed(42)
lines = ["p cnf 15 40"]
for _ in range(40):
    k = random.randint(0, 6)
    lines.append(" ".join(str(random.choice([-1, 1]) * random.randint(1, 15)) for _ in range(k)) + " 0")
inputs['random'] = "\n".join(lines) + "\n"

bad_inputs = {
    'nospec': "1 2 0\n",
    'nothing': "",
    'twospecs': "p cnf 2 1\np cnf 2 1\n1 0\n",
    'badspec': "p cnf x 1\n1 0\n",
    'negspec': "p cnf -2 1\n1 0\n",
    'shortspec': "p cnf 2\n1 0\n",
    'toobig': "p cnf 2 1\n3 0\n",
    'notint': "p cnf 2 1\n1 a 0\n",
    'incomplete': "p cnf 2 1\n1 2\n",
    'fewer': "p cnf 2 3\n1 0\n",
    'more': "p cnf 2 1\n1 0\n2 0\n",
}

switch_sets = []
for r in range(4):
    for combo in itertools.combinations(['p', 'v', 'c'], r):
        switch_sets.append(combo)
long_name = {'p': '--no-polarity-flips', 'v': '--no-variables-permutation', 'c': '--no-clauses-permutation'}

# 1. all combinations of the switches, all modes, several seeds
for name, text in inputs.items():
    for combo in switch_sets:
        for seed in ('0', '17', 'hello'):
            short = ['-' + x for x in combo]
            for mode in ('formula', 'string', 'output', None, 'whatever'):
                run_cli('{} {} {}'.format(name, combo, seed),
                        ['cnfshuffle', '--seed', seed] + short, text, mode)
        longopts = [long_name[x] for x in combo]
        run_cli('{} long {}'.format(name, combo), ['cnfshuffle', '-S', '5'] + longopts + ['-q'], text, 'output')
        run_cli('{} long {}'.format(name, combo), ['/usr/bin/cnfshuffle', '-S', 5] + longopts, text, 'string')
        if combo:
            run_cli('{} merged {}'.format(name, combo), ['cnfshuffle', '-S', '5', '-' + ''.join(combo)], text, 'string')

# 2. without explicit seed the global generator is used as is
for combo in switch_sets:
    random.seed(1234)
    run_cli('noseed {}'.format(combo), ['cnfshuffle'] + ['-' + x for x in combo], inputs['small'], 'string')
    random.seed(1234)
    run_cli('noseed {}'.format(combo), ['cnfshuffle'] + ['-' + x for x in combo], inputs['random'], 'formula')

# 3. files for input and output
inpath = os.path.join(tmpdir, 'in.cnf')
with open(inpath, 'w') as f:
    f.write(inputs['random'])
for ci, combo in enumerate(switch_sets):
    outpath = os.path.join(tmpdir, 'out{}.cnf'.format(ci))
    opts = ['-' + x for x in combo]
    for mode in ('output', 'string', 'formula'):
        run_cli('files {}'.format(combo), ['cnfshuffle', '-S', '3', '-i', inpath, '-o', outpath] + opts, '', mode)
        with open(outpath) as f:
            rec(f.read())
    run_cli('files-q {}'.format(combo), ['cnfshuffle', '-S', '3', '--input', inpath, '--output', outpath, '--quiet'] + opts, '', 'output')
    with open(outpath) as f:
        rec(f.read())
    run_cli('files-dash {}'.format(combo), ['cnfshuffle', '-S', '3', '-i', inpath, '-o', '-'] + opts, '', 'output')
run_cli('missing input', ['cnfshuffle', '-i', os.path.join(tmpdir, 'nonexistent.cnf')], '', 'string')
run_cli('bad output', ['cnfshuffle', '-o', os.path.join(tmpdir, 'nodir', 'x.cnf')], inputs['small'], 'output')

# 4. malformed input and malformed command lines
for name, text in bad_inputs.items():
    for mode in ('formula', 'string', 'output'):
        run_cli('bad ' + name, ['cnfshuffle', '-S', '1'], text, mode)
    run_cli('bad-pvc ' + name, ['cnfshuffle', '-S', '1', '-p', '-v', '-c'], text, 'string')
for argv in (['cnfshuffle', '--bogus'], ['cnfshuffle', 'extra'], ['cnfshuffle', '-S'], ['cnfshuffle', '-h'],
             ['cnfshuffle', '--help'], ['cnfshuffle', '-p', '-p'], ['cnfshuffle', '--no-pol'],
             ['cnfshuffle', '--no'], ['cnfshuffle', '-i'], ['othername', '-x'], ['cnfshuffle', '-S', '1', '-S', '2']):
    for mode in ('string', 'output'):
        run_cli('argv {}'.format(argv), argv, inputs['small'], mode)

# 5. the launcher main(): exit codes and messages on stderr
for name, text in list(inputs.items())[:5]:
    for combo in switch_sets:
        run_main('main {} {}'.format(name, combo), ['cnfshuffle', '-S', '9'] + ['-' + x for x in combo], text)
for name, text in bad_inputs.items():
    run_main('main bad ' + name, ['cnfshuffle', '-S', '9'], text)
for argv in (['cnfshuffle', '--bogus'], ['cnfshuffle', '-h'], ['cnfshuffle', '-i', os.path.join(tmpdir, 'nonexistent.cnf')],
             ['cnfshuffle', '-o', os.path.join(tmpdir, 'nodir', 'x.cnf')], ['cnfshuffle', '-S', '2', '-i', inpath, '-q', '-c']):
    run_main('main argv {}'.format(argv[1:2]), argv, inputs['small'])

shutil.rmtree(tmpdir, ignore_errors=True)
print(H.hexdigest())
