"""Equivalence check for BinaryMappingVariables.__init__ / .forbid
(cnfgen/formula/variables.py), the binary mappings used by CPLSFormula.
Prints one SHA256 digest of everything observed."""
import sys, os, hashlib
sys.path.insert(0, os.getcwd())

from cnfgen.formula.cnf import CNF
from cnfgen.formula.basecnf import BaseCNF
from cnfgen.formula.variables import BinaryMappingVariables, VariablesManager
from cnfgen.families.cpls import CPLSFormula

H = hashlib.sha256()


def rec(*items):
    for it in items:
        H.update(repr(it).encode('utf-8'))
        H.update(b'\x00')


def attempt(tag, fn):
    try:
        rec(tag, 'OK', fn())
    except Exception as e:
        rec(tag, 'EXC', type(e).__name__, str(e))


# 1. The variable group on its own
for offset in [0, 3]:
    for n in [0, 1, 2, 5]:
        for m in [0, 1, 2, 3, 4, 5, 8, 9, 16, 17]:
            F = BaseCNF()
            F.update_variable_number(offset)
            try:
                f = BinaryMappingVariables(F, n, m, labelfmt='f({},{})')
            except Exception as e:
                rec('init', n, m, type(e).__name__, str(e))
                continue
            rec('grp', offset, n, m, len(f), f.bits(), f.bitlength, f.domain_size,
                f.range_size, f.id_offset, type(f.flips).__name__, f.flips,
                list(f.domain()), list(f.range()), list(f.label()), list(f.indices()),
                F.number_of_variables())
            for i in range(0, n + 2):
                for j in range(-1, 2 ** f.bits() + 2):
                    attempt(('forbid', offset, n, m, i, j), lambda: f.forbid(i, j))
            # forbid must return a fresh list each time, flips stay untouched
            if n >= 1 and m >= 1:
                c1 = f.forbid(1, 0)
                c1.append(12345)
                rec(f.forbid(1, 0), f.flips)

for (n, m) in [(-1, 3), (3, -1), (-2, -2)]:
    attempt(('bad', n, m), lambda: BinaryMappingVariables(BaseCNF(), n, m))

# 2. Via the variable manager: complete / functional / injective ... mappings
for n in [1, 2, 3, 4]:
    for m in [1, 2, 3, 5, 6, 8]:
        F = CNF()
        F.new_block(2, label='pad_{}')
        g = F.new_binary_mapping(n, m, label='g({})_{}')
        F.force_complete_mapping(g)
        rec('complete', n, m, list(F.clauses()))
        for name in ['force_functional_mapping', 'force_surjective_mapping',
                     'force_injective_mapping', 'force_nondecreasing_mapping']:
            G = CNF()
            h = G.new_binary_mapping(n, m)
            attempt((name, n, m), lambda: (getattr(G, name)(h), list(G.clauses()))[1])
        rec(list(F.all_variable_labels()))

# 3. CPLS formulas (the user of forbid in property C03)
for a in [1, 2, 3, 4]:
    for b in [1, 2, 4, 8]:
        for c in [1, 2, 4, 8]:
            if a * b * b * c > 600:
                continue
            F = CPLSFormula(a, b, c)
            rec('cpls', a, b, c, F.header['description'], F.number_of_variables(),
                len(F), list(F.clauses()), list(F.all_variable_labels()))
            rec(F.to_dimacs())

for args in [(0, 2, 2), (1, 3, 2), (1, 2, 6), (1, 0, 1), (2, 2, 0), (1.0, 2, 2), (1, '2', 2), (-1, 2, 2)]:
    attempt(('cplsbad', args), lambda: CPLSFormula(*args))

print(H.hexdigest())
