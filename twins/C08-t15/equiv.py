#!/usr/bin/env python3
"""Equivalence digest for pbgen command line parsing (the '-T' rejection path).

Run as:  cd <checkout> && /venv/bin/python equiv.py
Prints one SHA256 digest of everything observable.
"""
import sys
import os
import io
import hashlib
import random
import contextlib

sys.path.insert(0, os.getcwd())

import cnfgen.clitools.msg as msgmod
import importlib
pbmod = importlib.import_module('cnfgen.clitools.pbgen')
cnfmod = importlib.import_module('cnfgen.clitools.cnfgen')
from cnfgen.clitools.cmdline import get_formula_helpers

H = hashlib.sha256()


def record(*items):
    for it in items:
        H.update(repr(it).encode('utf-8'))
        H.update(b'\x00')


def observe(tag, fn, *a, **kw):
    """Run fn and record result / exception / stdout / stderr"""
    msgmod._prefix = ''
    out, err = io.StringIO(), io.StringIO()
    res = None
    try:
        with contextlib.redirect_stdout(out), contextlib.redirect_stderr(err):
            res = fn(*a, **kw)
        outcome = ('ok', res if isinstance(res, (str, type(None))) else type(res).__name__)
    except SystemExit as e:
        outcome = ('exit', repr(e.code))
    except BaseException as e:  # noqa
        outcome = ('exc', type(e).__name__, str(e))
    record(tag, outcome, out.getvalue(), err.getvalue(), msgmod._prefix)
    return res


def clean(text):
    # the header of string output has no timestamps, nothing to clean
    return text


# ---------------------------------------------------------------
# 1. full pbgen command lines, through cli(..., mode='string')
# ---------------------------------------------------------------
CMDLINES = [
    ['pbgen', 'php', '5', '4'],
    ['pbgen', 'php', 5, 4],
    ['pbgen', '-q', 'php', '3', '2'],
    ['pbgen', 'op', '4'],
    ['pbgen', 'parity', '5'],
    ['pbgen', 'count', '6', '3'],
    ['pbgen', '-S', '17', 'randkcnf', '3', '8', '10'],
    ['pbgen', '--seed', '5', 'tseitin', '6', '3'],
    ['pbgen', 'subsetcard', '--equal', 'complete', '3', '4'],
    ['pbgen', 'subsetcard', 'complete', '3', '4'],
    ['pbgen', 'and', '2', '3'],
    ['pbgen', 'or', '0', '0'],
    ['pbgen', 'true'],
    ['pbgen', 'false'],
    ['pbgen', '-l', 'php', '3', '2'],
    ['pbgen', '-of', 'latex', 'op', '3'],
    ['pbgen', '-of', 'dimacs', 'op', '3'],
    ['pbgen', '-of', 'opb', 'bphp', '5', '4'],
    # '-T' in all sort of positions
    ['pbgen', 'php', '5', '4', '-T', 'shuffle'],
    ['pbgen', '-T', 'shuffle', 'php', '5', '4'],
    ['pbgen', '-T'],
    ['-T'],
    ['-T', 'php', '3', '2'],
    ['pbgen', 'php', '5', '4', '-T'],
    ['pbgen', 'php', '5', '-T', '4'],
    ['pbgen', 'php', '5', '4', '-T', 'xor', '2', '-T', 'shuffle'],
    ['pbgen', '-q', '-T', 'or', '2', 'op', '3'],
    # things that look like -T but are not
    ['pbgen', 'php', '5', '4', '-t'],
    ['pbgen', 'php', '5', '4', '-TT'],
    ['pbgen', 'php', '5', '4', '--T'],
    ['pbgen', 'php', '5', '4', ' -T'],
    ['pbgen', 'php', '5', '4', '-T '],
    ['pbgen', 'php', '5', '4', '-Tshuffle'],
    ['pbgen', 'php', '5', '4', 'T'],
    ['pbgen', 'php', '5', '4', '-'],
    ['pbgen', 'php', '5', '4', ''],
    # other errors
    ['pbgen'],
    [],
    ['pbgen', 'nosuchformula'],
    ['pbgen', 'php'],
    ['pbgen', 'php', 'a', 'b'],
    ['pbgen', 'php', '-1', '4'],
    ['pbgen', '--seed', 'x', 'php', '2', '2'],
    ['pbgen', '-q', '-v', 'php', '2', '2'],
    ['pbgen', 'tseitin', '3', '4'],
    ['pbgen', 'tseitin', '5', '3'],
]

for argv in CMDLINES:
    for mode in ('string', 'formula'):
        random.seed(1234)
        res = observe(('cli', mode, tuple(map(str, argv))),
                      pbmod.cli, list(argv), mode=mode)
        if mode == 'formula' and res is not None:
            record(res.number_of_variables(),
                   list(res.all_variable_labels()),
                   [list(c) for c in res.constraints()],
                   sorted((k, str(v)) for k, v in res.header.items()))

# ---------------------------------------------------------------
# 2. parse_command_line called directly (also with non string tokens)
# ---------------------------------------------------------------
parser = pbmod.setup_command_line_parsers('pbgen', get_formula_helpers())

DIRECT = [
    ['pbgen', 'php', '5', '4'],
    ['pbgen', 'php', 5, 4],
    ['pbgen', 'php', 5, 4, '-T'],
    ['pbgen', 'php', 5, 4, None],
    ['pbgen', 'php', 5, 4, b'-T'],
    ['-T', 'php', '5', '4'],
    ('pbgen', 'op', '3'),
    ('pbgen', 'op', '3', '-T'),
    ['pbgen'],
    [],
    ['pbgen', '-T', '-T'],
    ['pbgen', ['-T']],
    ['pbgen', 'op', '3', '--varnames'],
    ['pbgen', '--varnames', '-q', 'op', '3'],
]


def direct(argv):
    ns = pbmod.parse_command_line(argv, parser)
    d = dict(vars(ns))
    gen = d.pop('generator', None)
    d.pop('output', None)
    return repr((sorted(d.items(), key=lambda kv: kv[0]),
                 getattr(gen, 'name', None)))


for argv in DIRECT:
    random.seed(99)
    observe(('direct', repr(argv)), direct, argv)

# ---------------------------------------------------------------
# 3. pbgen vs cnfgen on the same family (the property itself)
# ---------------------------------------------------------------
PAIRS = [
    ['php', '4', '3'],
    ['op', '3'],
    ['parity', '4'],
    ['count', '4', '2'],
    ['subsetcard', 'complete', '2', '3'],
    ['-S', '3', 'tseitin', '4', '3'],
]
for tail in PAIRS:
    random.seed(7)
    o = observe(('pair-opb', tuple(tail)), pbmod.cli, ['pbgen'] + tail, mode='formula')
    random.seed(7)
    c = observe(('pair-cnf', tuple(tail)), cnfmod.cli, ['cnfgen'] + tail, mode='formula')
    if o is not None and c is not None:
        record(o.number_of_variables() == c.number_of_variables(),
               list(o.all_variable_labels()) == list(c.all_variable_labels()),
               list(c.all_variable_labels()))

print(H.hexdigest())
