#!/usr/bin/env python3
"""Equivalence digest for cnfgen.graphs.Graph.normalize (type checks, error
paths, networkx conversion) and the graph formula families that call it.

Run as:  cd <checkout> && /venv/bin/python equiv.py
"""
import sys, os, hashlib, random, itertools
sys.path.insert(0, os.getcwd())

import networkx as nx
import cnfgen
from cnfgen.graphs import Graph, DirectedGraph, BipartiteGraph

H = hashlib.sha256()


def record(*items):
    for it in items:
        H.update(repr(it).encode('utf-8'))
        H.update(b'\x00')


def excinfo(e):
    ctx, cause = e.__context__, e.__cause__
    return (type(e).__name__, str(e), e.args,
            None if ctx is None else (type(ctx).__name__, str(ctx)),
            None if cause is None else (type(cause).__name__, str(cause)),
            e.__suppress_context__)


def attempt(tag, fn):
    try:
        res = fn()
        record('OK', tag, res)
    except BaseException as e:  # noqa
        record('EXC', tag, excinfo(e))


def gdump(G):
    return (type(G).__name__, G.name, G.order(), G.number_of_edges(), list(G.edges()),
            [list(G.neighbors(v)) for v in G.vertices()])


def fdump(F):
    return (dict(F.header), F.number_of_variables(), F.number_of_clauses(),
            list(F.clauses()), F.to_dimacs())


def mkgraph(n, edges, name=None, cls=Graph):
    G = cls(n, name=name)
    for u, v in edges:
        G.add_edge(u, v)
    return G


class SubGraph(Graph):
    pass


class BrokenNodes(nx.Graph):
    """networkx graph whose conversion hits the AttributeError path"""
    @property
    def nodes(self):
        raise AttributeError('no nodes here')


class BrokenEdges(nx.Graph):
    @property
    def edges(self):
        raise AttributeError('no edges here')


class BrokenValue(nx.Graph):
    @property
    def edges(self):
        raise ValueError('value error in edges')


class NoName(nx.Graph):
    @property
    def name(self):
        raise AttributeError('nameless')


class RaisingFrom(Graph):
    @classmethod
    def from_networkx(cls, G):
        raise AttributeError('from_networkx broke')


class KeyFrom(Graph):
    @classmethod
    def from_networkx(cls, G):
        raise KeyError('from_networkx key')


rng = random.Random(777)

cg = [Graph(0), Graph(1), Graph(3, name='three'), mkgraph(4, [(1, 2), (3, 4), (2, 3)], 'P4'),
      Graph.complete_graph(4), Graph.star_graph(3), Graph.null_graph(), Graph.empty_graph(2),
      mkgraph(3, [(1, 3)], 'sub', SubGraph)]

nxg = [nx.Graph(), nx.empty_graph(3), nx.path_graph(5), nx.cycle_graph(4), nx.complete_graph(4),
       nx.petersen_graph(), nx.Graph([('b', 'a'), ('c', 'a'), ('d', 'c')]),
       nx.Graph([('10', '2'), ('2', '1'), ('-3', '10')]),
       nx.Graph([(3, 'x'), ('x', (1, 2)), ((1, 2), 3)]),
       nx.Graph([(5, 9), (9, 7), (100, 5)]), nx.grid_2d_graph(2, 3),
       nx.Graph([(1, 1), (1, 2)]),           # self loop
       nx.DiGraph([(1, 2), (2, 3)]), nx.MultiGraph([(1, 2), (1, 2), (2, 3)]),
       nx.MultiDiGraph([(1, 2), (2, 1)]),
       BrokenNodes([(1, 2)]), BrokenEdges([(1, 2)]), BrokenValue([(1, 2)]), NoName([(1, 2), (2, 3)])]
G = nx.gnp_random_graph(7, 0.5, seed=3)
G.name = 'a gnp graph'
nxg.append(G)
nxg.append(nx.relabel_nodes(nx.path_graph(4), {0: 'v0', 1: 'v10', 2: 'v2', 3: 'v1'}))

bad = [None, 0, 1.5, 'graph', b'g', [(1, 2)], ((1, 2),), {1: [2]}, {1, 2}, object(), Graph, nx.Graph,
       DirectedGraph(3), BipartiteGraph(2, 2), lambda: 0]

varnames = [None, '', 'G', 'H', 'G1', 'the {} graph', 7]


def norm(cls, X, vn):
    if vn is None:
        return cls.normalize(X)
    return cls.normalize(X, vn)


for cls in (Graph, SubGraph, RaisingFrom, KeyFrom):
    for i, X in enumerate(cg):
        for vn in varnames:
            attempt(('cg', cls.__name__, i, vn),
                    lambda: (lambda R: (R is X, gdump(R)))(norm(cls, X, vn)))
    for i, X in enumerate(nxg):
        before = (list(map(repr, X.nodes)) if not isinstance(X, BrokenNodes) else None)
        for vn in varnames:
            attempt(('nx', cls.__name__, i, vn), lambda: gdump(norm(cls, X, vn)))
        after = (list(map(repr, X.nodes)) if not isinstance(X, BrokenNodes) else None)
        record(before == after)
    for i, X in enumerate(bad):
        for vn in varnames:
            attempt(('bad', cls.__name__, i, vn), lambda: gdump(norm(cls, X, vn)))

# keyword form, positional/keyword errors
attempt('kw', lambda: gdump(Graph.normalize(G=nx.path_graph(3), varname='Z')))
attempt('kw-bad', lambda: gdump(Graph.normalize(G=3, varname='Z')))
attempt('noarg', lambda: Graph.normalize())
attempt('3args', lambda: Graph.normalize(Graph(1), 'a', 'b'))

# The formula families going through Graph.normalize
small = [Graph(0), Graph(1), mkgraph(3, [(1, 2), (2, 3), (1, 3)]), mkgraph(4, [(1, 2), (3, 4)]),
         nx.Graph(), nx.path_graph(4), nx.cycle_graph(5), nx.complete_graph(4),
         nx.Graph([('b', 'a'), ('c', 'a')])]
for n in range(4, 7):
    pairs = itertools.combinations(range(1, n + 1), 2)
    small.append(mkgraph(n, [e for e in pairs if rng.random() < 0.5]))
wrong = [None, 5, 'K4', [(1, 2)], DirectedGraph(2), nx.DiGraph([(1, 2)])]

for i, X in enumerate(small + wrong):
    attempt(('tse', i), lambda: fdump(cnfgen.TseitinFormula(X)))
    attempt(('tse1', i), lambda: fdump(cnfgen.TseitinFormula(X, [1, 0, 1, 1])))
    attempt(('col', i), lambda: fdump(cnfgen.GraphColoringFormula(X, 3)))
    attempt(('ec', i), lambda: fdump(cnfgen.EvenColoringFormula(X)))
    attempt(('dom', i), lambda: fdump(cnfgen.DominatingSet(X, 2)))
    attempt(('doma', i), lambda: fdump(cnfgen.DominatingSet(X, 2, alternative=True)))
    attempt(('til', i), lambda: fdump(cnfgen.Tiling(X)))
    attempt(('aut', i), lambda: fdump(cnfgen.GraphAutomorphism(X)))
    attempt(('clq', i), lambda: fdump(cnfgen.CliqueFormula(X, 3)))
    attempt(('clqn', i), lambda: fdump(cnfgen.CliqueFormula(X, 3, symbreak=False)))
    attempt(('bclq', i), lambda: fdump(cnfgen.BinaryCliqueFormula(X, 2)))
    attempt(('ram', i), lambda: fdump(cnfgen.RamseyWitnessFormula(X, 3, 2)))
    attempt(('gop', i), lambda: fdump(cnfgen.GraphOrderingPrinciple(X)))
    for j, Y in enumerate(small[:6] + wrong[:3]):
        attempt(('iso', i, j), lambda: fdump(cnfgen.GraphIsomorphism(X, Y)))
        attempt(('sub', i, j), lambda: fdump(cnfgen.SubgraphFormula(X, Y)))
        attempt(('subi', i, j), lambda: fdump(cnfgen.SubgraphFormula(X, Y, induced=True)))

print(H.hexdigest())
