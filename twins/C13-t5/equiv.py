"""Equivalence probe for property C13 (random k-CNF / k-XOR).

Run as:  cd <checkout> && /venv/bin/python equiv.py
Prints a single SHA256 digest of everything observable.
"""
import hashlib
import itertools
import os
import random
import sys

sys.path.insert(0, os.getcwd())

from cnfgen import RandomKCNF, RandomKXOR, CNF
from cnfgen.formula.linear import CNFLinear
from cnfgen.families import randomformulas as RF
from cnfgen.families import randomkxor as RX
from cnfgen.clitools import cnfgen as cnfgen_cli, CLIError

H = hashlib.sha256()


def emit(*things):
    H.update((repr(things) + "\n").encode("utf-8"))


def rstate():
    return hashlib.sha256(repr(random.getstate()).encode()).hexdigest()[:16]


def attempt(tag, fn, post=None):
    try:
        res = fn()
        if post is not None:
            res = post(res)
        emit(tag, "ok", res, rstate())
    except Exception as e:  # noqa
        emit(tag, "exc", type(e).__name__, str(e), rstate())


def formula_obs(F):
    return (F.number_of_variables(), len(F), [list(c) for c in F.clauses()],
            F.to_dimacs())


def plantings(n, rng):
    """A few sets of planted total / partial assignments over n variables"""
    res = [None, []]
    if n == 0:
        res.append([[]])
        return res
    a1 = [rng.choice([-1, 1]) * v for v in range(1, n + 1)]
    a2 = [rng.choice([-1, 1]) * v for v in range(1, n + 1)]
    a3 = [-l for l in a1]
    res.append([a1])
    res.append([a1, a2])
    res.append([a1, a3])
    res.append([tuple(a1), set(a2)])
    res.append([a1[: max(1, n // 2)]])   # partial assignment
    res.append(([a1]).__iter__ and (a1,))  # tuple of assignments
    return res


def binom(n, k):
    from math import comb
    return comb(n, k)


rng = random.Random(20240913)
random.seed(20240913)  # the global stream starts from a known state

# ---- predicates ------------------------------------------------------
for cls in ([], [1], [-1], [1, -2], [-1, -2, 3], [2, 2], [4], (1, -3), [-3, 5]):
    for assignments in ([], [[]], [[1, 2, 3]], [[-1, 2, -3]], [[1, -2, 3], [-1, -2, -3]],
                        [[-1, 2], [3]], [{1, -2, 3}], [(1, 2, -3), (-1, -2, -3)], ([1, 2, 3],)):
        attempt(("clause_satisfied", cls, repr(assignments)),
                lambda: RF.clause_satisfied(cls, assignments))

for X in ([], [1], [2], [1, 2], [1, 2, 3], [2, 2], (1, 3), [2, 4], [-1, 2]):
    for b in (0, 1, 2, -1):
        for assignments in ([], [[]], [[1, 2, 3]], [[-1, 2, -3]], [[1, -2, 3], [-1, -2, -3]],
                            [[-1, 2], [3]], [{1, -2, 3}], [(1, 2, -3), (-1, -2, 3, 4)],
                            [[1, 2, 3, -4], [1, 2, 4]], ([1, -2, 3],)):
            attempt(("parity_satisfied", X, b, repr(assignments)),
                    lambda: RX.parity_satisfied(X, b, assignments))

# ---- add_parity ------------------------------------------------------
for cls_ in (CNF, CNFLinear):
    for lits in ([], [1], [-1], [1, 2], [-1, 2], [1, 2, 3], [1, -2, 3, -4], [2, 2],
                 (1, 3), [5, 4, 3, 2, 1], [0], [7]):
        for const in (0, 1, 2, -1, True, False, 1.0):
            for check in (True, False):
                def go():
                    F = cls_()
                    if not check:
                        F.update_variable_number(8)
                    F.add_parity(lits, const, check=check)
                    F.add_parity((l for l in lits), const, check=check)
                    return (F.number_of_variables(), [list(c) for c in F.clauses()])
                attempt(("add_parity", cls_.__name__, lits, repr(const), check), go)

# ---- enumerations and samplers --------------------------------------
for n in range(0, 6):
    for k in range(0, n + 2):
        for pl in plantings(n, rng):
            if pl is None:
                continue
            attempt(("all_clauses", k, n, repr(pl)),
                    lambda: list(RF.all_clauses(k, n, pl)))
            attempt(("all_good_parities", k, n, repr(pl)),
                    lambda: list(RX.all_good_parities(k, n, pl)))
            total_c = binom(n, k) * 2 ** k if k <= n else 0
            total_p = binom(n, k) * 2 if k <= n else 0
            for m in sorted({0, 1, 2, total_c // 2, total_c - 1, total_c, total_c + 1,
                             total_p // 2, total_p - 1, total_p, total_p + 1}):
                if m < 0:
                    continue
                for seed in (0, 7):
                    random.seed(seed)
                    attempt(("sample_clauses", k, n, m, seed, repr(pl)),
                            lambda: RF.sample_clauses(k, n, m, pl))
                    random.seed(seed)
                    attempt(("sample_parities", k, n, m, seed, repr(pl)),
                            lambda: RX.sample_parities(k, n, m, pl))

# ---- top level generators -------------------------------------------
for n in range(0, 7):
    for k in range(0, n + 2):
        if k > 4:
            continue
        total_c = binom(n, k) * 2 ** k if k <= n else 0
        total_p = binom(n, k) * 2 if k <= n else 0
        for pl in plantings(n, rng):
            # number of clauses / parities compatible with the planting
            ms = {0, 1, 3, total_p // 2, total_p - 1, total_p, total_p + 1,
                  total_c // 2, total_c - 1, total_c, total_c + 1}
            if pl:
                try:
                    good_c = len(list(RF.all_clauses(k, n, pl)))
                    ms |= {good_c - 1, good_c, good_c + 1}
                except Exception:
                    pass
                try:
                    good_p = len(list(RX.all_good_parities(k, n, pl)))
                    ms |= {good_p - 1, good_p, good_p + 1}
                except Exception:
                    pass
            for m in sorted(ms):
                if m < 0 or m > 400:
                    continue
                for seed in (None, 1, "abc"):
                    if seed is None:
                        random.seed(99)
                    for fc in ((CNF, CNFLinear) if seed == 1 else (CNF,)):
                        attempt(("RandomKCNF", k, n, m, seed, repr(pl), fc.__name__),
                                lambda: RandomKCNF(k, n, m, seed=seed,
                                                   planted_assignments=pl,
                                                   formula_class=fc),
                                formula_obs)
                        attempt(("RandomKXOR", k, n, m, seed, repr(pl), fc.__name__),
                                lambda: RandomKXOR(k, n, m, seed=seed,
                                                   planted_assignments=pl,
                                                   formula_class=fc),
                                formula_obs)

# medium / larger instances, sparse sampling path and dense fallback
for (k, n, m) in [(3, 10, 50), (3, 20, 85), (4, 6, 240), (4, 6, 239), (4, 6, 241),
                  (2, 30, 100), (5, 12, 300), (3, 5, 80), (3, 5, 81), (1, 9, 18), (1, 9, 19),
                  (7, 7, 128), (7, 7, 129), (0, 5, 1), (0, 5, 2)]:
    for seed in (3, 42):
        attempt(("RandomKCNF-big", k, n, m, seed),
                lambda: RandomKCNF(k, n, m, seed=seed), formula_obs)
        a = [rng.choice([-1, 1]) * v for v in range(1, n + 1)]
        attempt(("RandomKCNF-big-pl", k, n, m, seed, a),
                lambda: RandomKCNF(k, n, m, seed=seed, planted_assignments=[a]), formula_obs)
for (k, n, m) in [(3, 10, 50), (3, 20, 85), (4, 6, 30), (4, 6, 29), (4, 6, 31),
                  (2, 30, 100), (5, 12, 300), (3, 5, 20), (3, 5, 21), (1, 9, 18), (1, 9, 19),
                  (7, 7, 2), (7, 7, 3), (0, 5, 1), (0, 5, 2), (3, 5, 10), (3, 5, 11)]:
    for seed in (3, 42):
        attempt(("RandomKXOR-big", k, n, m, seed),
                lambda: RandomKXOR(k, n, m, seed=seed), formula_obs)
        a = [rng.choice([-1, 1]) * v for v in range(1, n + 1)]
        attempt(("RandomKXOR-big-pl", k, n, m, seed, a),
                lambda: RandomKXOR(k, n, m, seed=seed, planted_assignments=[a]), formula_obs)

# bad arguments
for args in [(-1, 3, 2), (2, -3, 2), (2, 3, -2), (2.0, 3, 2), ("2", 3, 2), (2, 3, None),
             (5, 3, 0), (5, 3, 1), (1, 0, 0), (0, 0, 1), (0, 0, 2), (0, 0, 3)]:
    attempt(("RandomKCNF-bad", args), lambda: RandomKCNF(*args, seed=5), formula_obs)
    attempt(("RandomKXOR-bad", args), lambda: RandomKXOR(*args, seed=5), formula_obs)
# partial planted assignment -> undefined xor value
attempt(("RandomKXOR-partial",), lambda: RandomKXOR(2, 4, 3, seed=1, planted_assignments=[[1, -2]]),
        formula_obs)
attempt(("RandomKCNF-partial",), lambda: RandomKCNF(2, 4, 3, seed=1, planted_assignments=[[1, -2]]),
        formula_obs)

# ---- command line ----------------------------------------------------
for argv in [
        ["cnfgen", "--seed", "5", "randkcnf", "3", "8", "20"],
        ["cnfgen", "--seed", "5", "randkcnf", "-p", "3", "8", "20"],
        ["cnfgen", "--seed", "6", "randkcnf", "--plant", "2", "3", "9"],
        ["cnfgen", "--seed", "6", "randkcnf", "--plant", "2", "3", "10"],
        ["cnfgen", "--seed", "6", "randkcnf", "2", "3", "12"],
        ["cnfgen", "--seed", "6", "randkcnf", "2", "3", "13"],
        ["cnfgen", "--seed", "6", "randkcnf", "4", "3", "1"],
        ["cnfgen", "--seed", "6", "randkcnf", "1", "3", "0"],
        ["cnfgen", "--seed", "6", "randkcnf", "0", "3", "0"],
        ["cnfgen", "-q", "--seed", "8", "-of", "latex", "randkcnf", "3", "5", "6"],
        ["cnfgen", "--seed", "5", "randkxor", "3", "8", "20"],
        ["cnfgen", "--seed", "5", "randkxor", "-p", "3", "8", "20"],
        ["cnfgen", "--seed", "6", "randkxor", "--plant", "2", "4", "6"],
        ["cnfgen", "--seed", "6", "randkxor", "--plant", "2", "4", "7"],
        ["cnfgen", "--seed", "6", "randkxor", "2", "4", "12"],
        ["cnfgen", "--seed", "6", "randkxor", "2", "4", "13"],
        ["cnfgen", "--seed", "6", "randkxor", "5", "4", "1"],
        ["cnfgen", "--seed", "6", "randkxor", "1", "4", "0"],
        ["cnfgen", "-q", "--seed", "8", "-of", "latex", "randkxor", "3", "5", "6"],
        ["cnfgen", "-q", "--seed", "9", "randkxor", "3", "6", "7", "-T", "shuffle"],
        ["cnfgen", "-q", "--seed", "9", "randkcnf", "3", "6", "7", "-T", "xor", "2"],
]:
    def run():
        try:
            return cnfgen_cli(argv, mode="string")
        except SystemExit as e:
            return ("SystemExit", e.code)
    attempt(("cli", argv), run)

# ---- argument checkers and variable bookkeeping ----------------------
from cnfgen import localtypes as LT
import fractions
for value in (0, 1, -1, 5, -7, True, False, 2.0, -2.0, "3", None, [1], 10**30, -10**30,
              fractions.Fraction(4, 2), 1j):
    for name in ("n", "m", "k", "new_value", "", "{}"):
        attempt(("non_negative_int", repr(value), name),
                lambda: LT.non_negative_int(value, name))
        attempt(("positive_int", repr(value), name),
                lambda: LT.positive_int(value, name))

for cls_ in (CNF, CNFLinear):
    for start in ([], [[1, -3]], [[5], [-2, 4]]):
        for seq in ([0], [3], [3, 2], [2, 7, 7, 1], [True], [False, True, 0], [-1], [2.0],
                    ["4"], [None], [10**20, 5], [4, -2, 6]):
            def go():
                F = cls_(start)
                obs = []
                for v in seq:
                    try:
                        r = F.update_variable_number(v)
                        obs.append(("ok", repr(r), repr(F.number_of_variables()),
                                    type(F.number_of_variables()).__name__))
                    except Exception as e:  # noqa
                        obs.append(("exc", type(e).__name__, str(e),
                                    repr(F.number_of_variables())))
                obs.append(list(F.variables()) if F.number_of_variables() < 100 else None)
                if F.number_of_variables() < 100:
                    obs.append(F.to_dimacs())
                return obs
            attempt(("update_variable_number", cls_.__name__, start, repr(seq)), go)

# ---- command line helpers, called directly and through the cli -------
import argparse
from cnfgen.clihelpers.simple_helpers import RandCmdHelper, RandXorHelper
for helper in (RandCmdHelper, RandXorHelper):
    emit("helper", helper.name, helper.description)
    for (k, n, m) in [(1, 1, 0), (1, 1, 1), (1, 1, 2), (1, 1, 3), (2, 3, 0), (2, 3, 3),
                      (2, 3, 4), (3, 3, 1), (3, 3, 2), (3, 7, 12), (4, 3, 0), (4, 3, 1),
                      (2, 5, 10), (2, 5, 11), (2, 5, 30), (2, 5, 31), (3, 12, 40)]:
        for plant in (False, True):
            for seed in (0, 1, 2, 11):
                for fc in (CNF, CNFLinear):
                    args = argparse.Namespace(k=k, n=n, m=m, plant=plant)
                    random.seed(seed)
                    attempt(("build_formula", helper.name, k, n, m, plant, seed, fc.__name__),
                            lambda: helper.build_formula(args, fc), formula_obs)
    pr = argparse.ArgumentParser(prog="prog-" + helper.name, add_help=False)
    helper.setup_command_line(pr)
    emit("parser", pr.usage, pr.description, [(a.dest, a.option_strings, repr(a.default), a.nargs, repr(a.const),
           getattr(a.type, "__name__", repr(a.type)), type(a).__name__) for a in pr._actions])

for sub in ("randkcnf", "randkxor"):
    for seed in range(4):
        for tail in (["-p", "2", "4", "5"], ["2", "4", "5"], ["--plant", "3", "3", "1"],
                     ["-p", "3", "3", "2"], ["-p", "1", "2", "2"], ["-p", "1", "2", "3"],
                     ["0", "4", "1"], ["2", "0", "0"], ["2", "4", "-1"], ["2", "4"],
                     ["2", "x", "1"], ["-p", "3", "9", "25"], ["-h"]):
            argv = ["cnfgen", "-q", "--seed", str(seed), sub] + tail
            def run():
                import io, contextlib
                out, err = io.StringIO(), io.StringIO()
                try:
                    with contextlib.redirect_stdout(out), contextlib.redirect_stderr(err):
                        res = cnfgen_cli(argv, mode="string")
                except SystemExit as e:
                    res = ("SystemExit", e.code)
                return (res, out.getvalue(), err.getvalue())
            attempt(("cli2", argv), run)

# ---- OPB formula class and the pbgen command line ---------------------
from cnfgen.formula.opb import OPB
from cnfgen.clitools.pbgen import cli as pbgen_cli
for (k, n, m) in [(0, 0, 0), (0, 0, 1), (0, 2, 1), (1, 2, 4), (1, 2, 5), (2, 4, 5), (2, 4, 24),
                  (2, 4, 25), (3, 6, 20), (5, 4, 0), (5, 4, 1)]:
    for seed in (0, 4):
        for pl in (None, [[-1, 2, -3, 4, 5, -6][:n]], [[1, 2, 3, 4, 5, 6][:n], [-1, 2, 3, -4, 5, 6][:n]]):
            attempt(("RandomKCNF-OPB", k, n, m, seed, repr(pl)),
                    lambda: RandomKCNF(k, n, m, seed=seed, planted_assignments=pl,
                                       formula_class=OPB),
                    lambda F: (F.number_of_variables(), len(F), F.to_opb()))
            attempt(("RandomKXOR-OPB", k, n, m, seed, repr(pl)),
                    lambda: RandomKXOR(k, n, m, seed=seed, planted_assignments=pl,
                                       formula_class=OPB),
                    lambda F: (F.number_of_variables(), len(F), F.to_opb()))
for sub in ("randkcnf", "randkxor"):
    for seed in range(3):
        for tail in (["-p", "2", "4", "5"], ["2", "4", "5"], ["-p", "3", "3", "1"],
                     ["-p", "3", "3", "2"], ["2", "3", "12"], ["2", "3", "13"], ["4", "3", "1"],
                     ["1", "3", "0"], ["-p", "3", "9", "25"]):
            argv = ["pbgen", "-q", "--seed", str(seed), sub] + tail
            def run():
                try:
                    return pbgen_cli(argv, mode="string")
                except SystemExit as e:
                    return ("SystemExit", e.code)
            attempt(("pbgen", argv), run)

print(H.hexdigest())
