#!/usr/bin/env python
"""Equivalence check for refactoring t21 (property C18).

Exercises the graph argument actions (ObtainSimpleGraph,
ObtainBipartiteGraph, ObtainDirectedAcyclicGraph) both directly through
small argparse parsers and through the command line tools `cnfgen` and
`pbgen`, with legal, boundary, illegal, missing and malformed graph
specifications and graph files.  Prints one SHA256 digest of everything
observed.

Run as:  cd <checkout> && /venv/bin/python equiv.py
"""
import os
import sys
import io
import random
import hashlib
import tempfile
import shutil
import warnings

warnings.simplefilter('ignore')

sys.path.insert(0, os.getcwd())

import cnfgen  # noqa
from cnfgen.info import info as _info
# the version is asked to git: make the digest independent of the commit
REAL_VERSION = str(_info['version'])
_info['version'] = 'VERSION'
import importlib
cnfgen_tool = importlib.import_module('cnfgen.clitools.cnfgen')
pbgen_tool = importlib.import_module('cnfgen.clitools.pbgen')
from cnfgen.clitools import graph_args
from cnfgen.clitools.cmdline import CLIParser, CLIError, CLIHelpFormatter
from cnfgen.clitools.msg import msg_prefix
from cnfgen.clitools import msg as msg_module

LOG = []


def log(*items):
    LOG.append(repr(items))


class Sink(io.StringIO):
    """StringIO that survives close() (main() closes stderr)"""
    def close(self):
        pass


def run_main(tool, argv):
    """Run the `main` entry point of a tool as the shell would do"""
    out, err = Sink(), Sink()
    saved = sys.argv, sys.stdout, sys.stderr, sys.stdin
    sys.argv, sys.stdout, sys.stderr = list(argv), out, err
    sys.stdin = io.StringIO('')
    code = 0
    exc = None
    random.seed(12345)
    msg_module._prefix = ''  # a fresh process starts with no prefix
    try:
        tool.main()
    except SystemExit as e:
        code = e.code
    except BaseException as e:  # an unhandled internal exception
        exc = (type(e).__name__, str(e))
    finally:
        sys.argv, sys.stdout, sys.stderr, sys.stdin = saved
    log('main', argv, code, exc, out.getvalue(), err.getvalue())


def run_cli(tool, argv, mode='string'):
    out, err = Sink(), Sink()
    saved = sys.stdin, sys.stdout, sys.stderr
    sys.stdin, sys.stdout, sys.stderr = io.StringIO(''), out, err
    random.seed(54321)
    msg_module._prefix = ''
    try:
        res = tool.cli(list(argv), mode=mode)
        if mode == 'formula':
            res = (type(res).__name__, res.number_of_variables(),
                   len(res), sorted(res.header.items()))
        log('cli', argv, mode, 'ok', res)
    except SystemExit as e:
        log('cli', argv, mode, 'exit', e.code)
    except BaseException as e:
        log('cli', argv, mode, 'exc', type(e).__name__, str(e),
            type(e.__cause__).__name__, type(e.__context__).__name__)
    finally:
        sys.stdin, sys.stdout, sys.stderr = saved
    log('cli-streams', out.getvalue(), err.getvalue())


def describe_graph(G):
    try:
        edges = sorted(G.edges())
    except Exception as e:
        edges = repr(e)
    return (type(G).__name__, G.number_of_vertices(), G.number_of_edges(),
            edges, getattr(G, 'name', None))


def run_action(action_cls, tokens, dest='G', with_prefix='c '):
    """Use the action in a stand alone parser"""
    parser = CLIParser(prog='prog', usage='usage: prog <graph>',
                       description='descr')
    parser.add_argument('--flag', action='store_true')
    act = parser.add_argument(dest, action=action_cls)
    log('action-attrs', action_cls.__name__, act.dest, act.nargs,
        act.option_strings, act.required, act.metavar,
        isinstance(act, graph_args.ObtainGraphAction),
        [c.__name__ for c in action_cls.__mro__])
    random.seed(999)
    msg_module._prefix = ''
    out, err = Sink(), Sink()
    saved = sys.stdin, sys.stdout, sys.stderr
    sys.stdin, sys.stdout, sys.stderr = io.StringIO(''), out, err
    try:
        with msg_prefix(with_prefix):
            ns = parser.parse_args(list(tokens))
        log('action', action_cls.__name__, tokens, 'ok', ns.flag,
            describe_graph(getattr(ns, dest)))
    except CLIError as e:
        log('action', action_cls.__name__, tokens, 'clierror', str(e))
    except SystemExit as e:
        log('action', action_cls.__name__, tokens, 'exit', e.code)
    except BaseException as e:
        log('action', action_cls.__name__, tokens, 'exc',
            type(e).__name__, str(e))
    finally:
        sys.stdin, sys.stdout, sys.stderr = saved
    log('action-streams', out.getvalue(), err.getvalue())
    log('help', parser.format_help(), parser.format_usage())


def write(name, content):
    with open(name, 'w') as f:
        f.write(content)


def main():
    checkout = os.getcwd()
    tmp = tempfile.mkdtemp(prefix='equiv_c18_')
    os.chdir(tmp)
    try:
        body()
    finally:
        os.chdir(checkout)
        shutil.rmtree(tmp, ignore_errors=True)
    data = "\n".join(LOG).encode('utf-8', 'backslashreplace')
    if '--dump' in sys.argv[1:]:
        sys.stdout.write("\n".join(LOG) + "\n")
    print(hashlib.sha256(data).hexdigest())


def body():
    # ------------------------------------------------------------
    # graph files: good, malformed, wrong kind, unreadable
    # ------------------------------------------------------------
    write('good.dimacs', "c a graph\np edge 4 3\ne 1 2\ne 2 3\ne 3 4\n")
    write('bad.dimacs', "p edge 4 3\ne 1 2\n")
    write('bad2.dimacs', "p edge 4 1\ne 1 x\n")
    write('bad3.dimacs', "e 1 2\np edge 3 1\n")
    write('bad4.dimacs', "p cnf 3 1\n1 2 0\n")
    write('empty.dimacs', "")
    write('good.kthlist', "3\n1 : 0\n2 : 1 0\n3 : 1 2 0\n")
    write('cyclic.kthlist', "3\n1 : 3 0\n2 : 1 0\n3 : 2 0\n")
    write('bad.kthlist', "3\n1 : 0\n2 : 7 0\n")
    write('garbage.kthlist', "hello world\n")
    write('bip.kthlist', "5\n1 : 3 4 0\n2 : 4 5 0\n")
    write('good.matrix', "2 3\n1 0 1\n0 1 1\n")
    write('short.matrix', "2 3\n1 0 1\n0 1\n")
    write('long.matrix', "2 2\n1 0\n0 1\n1\n")
    write('two.matrix', "2 2\n1 2\n0 1\n")
    write('alpha.matrix', "2 2\n1 a\n0 1\n")
    write('good.gml', 'graph [\n node [ id 1 ]\n node [ id 2 ]\n'
          ' edge [ source 1 target 2 ]\n]\n')
    write('bad.gml', 'graph [ node [ id 1 \n')
    write('bad.dot', 'graph {{{ 1 -- ;')
    write('noext', "p edge 2 1\ne 1 2\n")
    write('weird.xyz', "p edge 2 1\ne 1 2\n")
    os.mkdir('adir.dimacs')

    S = graph_args.ObtainSimpleGraph
    B = graph_args.ObtainBipartiteGraph
    D = graph_args.ObtainDirectedAcyclicGraph

    simple_specs = [
        ['gnp', '6', '0.5'], ['gnp', '6', '0'], ['gnp', '6', '1'],
        ['gnp', '6', '1.5'], ['gnp', '0', '0.5'], ['gnp', '-1', '0.5'],
        ['gnp', '4', '.5', '3'], ['gnp'], ['gnp', '6'], ['gnp', 'x', 'y'],
        ['gnp', '6', '0.5', '1', '1'],
        ['gnm', '5', '4'], ['gnm', '5', '10'], ['gnm', '5', '11'],
        ['gnm', '5', '0'], ['gnm', '5', '-1'], ['gnm', '5.5', '2'],
        ['gnd', '6', '3'], ['gnd', '5', '3'], ['gnd', '3', '3'],
        ['gnd', '6', '0'], ['gnd', '6'],
        ['grid', '3', '2'], ['grid', '1'], ['grid', '0', '2'], ['grid'],
        ['torus', '3', '3'], ['torus', '1', '1'], ['torus', '-2', '3'],
        ['complete', '4'], ['complete', '0'], ['complete', '4', '2'],
        ['complete', '4', '0'], ['complete', '1', '2', '3'],
        ['empty', '3'], ['empty', '0'], ['empty', '-3'], ['empty'],
        ['complete', '5', 'plantclique', '3'],
        ['empty', '5', 'plantclique', '6'],
        ['empty', '5', 'plantclique', '5'],
        ['empty', '5', 'plantclique', '0'],
        ['empty', '5', 'plantclique'],
        ['empty', '5', 'plantclique', '2', 'plantclique', '2'],
        ['empty', '5', 'addedges', '3'], ['empty', '5', 'addedges', '10'],
        ['empty', '5', 'addedges', '11'], ['empty', '5', 'addedges', '-1'],
        ['empty', '5', 'addedges'], ['empty', '5', 'addedges', '1', '2'],
        ['complete', '4', 'splitedges', '2'],
        ['complete', '4', 'splitedges', '6'],
        ['complete', '4', 'splitedges', '7'],
        ['complete', '4', 'splitedges', '-1'],
        ['empty', '5', 'plantbiclique', '2', '2'],
        ['empty', '5', 'gnp', '3', '.5'], ['empty', '5', 'simple'],
        ['empty', '5', '--flag'], ['empty', '5', 'bogus'],
        ['glrp', '3', '3', '.5'], ['tree', '3'], ['path', '3'],
        ['matrix', 'good.matrix'], ['kthlist'], ['dimacs'],
        ['good.dimacs'], ['dimacs', 'good.dimacs'], ['bad.dimacs'],
        ['bad2.dimacs'], ['bad3.dimacs'], ['bad4.dimacs'], ['empty.dimacs'],
        ['good.kthlist'], ['kthlist', 'good.kthlist'], ['bad.kthlist'],
        ['garbage.kthlist'], ['good.gml'], ['bad.gml'], ['bad.dot'],
        ['noext'], ['weird.xyz'], ['dimacs', 'noext'], ['dimacs', 'weird.xyz'],
        ['missing.dimacs'], ['missing'], ['dimacs', 'missing'],
        ['adir.dimacs'], ['good.matrix'], ['-'], ['dimacs', '-'],
        ['good.dimacs', 'addedges', '1'], ['good.dimacs', 'bogus'],
        ['complete', '3', 'save', 'out1.dimacs'],
        ['complete', '3', 'save', 'kthlist', 'out1.kthlist'],
        ['complete', '3', 'save', 'gml', 'out1.gml'],
        ['complete', '3', 'save'], ['complete', '3', 'save', 'dimacs'],
        ['complete', '3', 'save', 'out.xyz'], ['complete', '3', 'save', 'out'],
        ['complete', '3', 'save', 'matrix', 'out1.matrix'],
        ['complete', '3', 'save', 'nodir/out.dimacs'],
        ['complete', '3', 'save', 'adir.dimacs'],
        ['complete', '3', 'save', 'a.dimacs', 'save', 'b.dimacs'],
        ['--flag', 'complete', '3'], [],
    ]
    for spec in simple_specs:
        run_action(S, spec)

    bipartite_specs = [
        ['glrp', '3', '4', '.5'], ['glrp', '3', '4', '0'],
        ['glrp', '3', '4', '1'], ['glrp', '3', '4', '2'],
        ['glrp', '0', '4', '.5'], ['glrp', '3', '4'], ['glrp'],
        ['glrm', '3', '4', '5'], ['glrm', '3', '4', '12'],
        ['glrm', '3', '4', '13'], ['glrm', '3', '4', '0'],
        ['glrm', '3', '4', '-1'],
        ['glrd', '3', '4', '2'], ['glrd', '3', '4', '4'],
        ['glrd', '3', '4', '5'], ['glrd', '3', '4', '0'],
        ['regular', '4', '4', '2'], ['regular', '4', '6', '3'],
        ['regular', '4', '6', '2'], ['regular', '4', '4', '5'],
        ['regular', '4', '4', '0'],
        ['shift', '4', '4', '1', '2'], ['shift', '4', '4'],
        ['shift', '4', '4', '5'], ['shift', '4', '4', '0'],
        ['shift', '4', '4', '2', '1'], ['shift', '0', '4', '1'],
        ['complete', '2', '3'], ['complete', '0', '3'], ['complete', '2'],
        ['empty', '2', '3'], ['empty', '0', '0'], ['empty', '2', '-3'],
        ['empty', '3', '3', 'plantbiclique', '2', '2'],
        ['empty', '3', '3', 'plantbiclique', '3', '3'],
        ['empty', '3', '3', 'plantbiclique', '4', '2'],
        ['empty', '3', '3', 'plantbiclique', '2'],
        ['empty', '3', '3', 'plantbiclique', '0', '0'],
        ['empty', '3', '3', 'plantclique', '2'],
        ['empty', '3', '3', 'addedges', '4'],
        ['empty', '3', '3', 'addedges', '9'],
        ['empty', '3', '3', 'addedges', '10'],
        ['empty', '3', '3', 'splitedges', '1'],
        ['gnp', '3', '.5'], ['pyramid', '3'], ['dimacs', 'good.dimacs'],
        ['dot', 'bad.dot'], ['bad.dot'],
        ['good.matrix'], ['matrix', 'good.matrix'], ['short.matrix'],
        ['long.matrix'], ['two.matrix'], ['alpha.matrix'],
        ['bip.kthlist'], ['kthlist', 'bip.kthlist'], ['good.kthlist'],
        ['garbage.kthlist'], ['good.dimacs'], ['missing.matrix'], ['noext'],
        ['complete', '2', '2', 'save', 'outb.matrix'],
        ['complete', '2', '2', 'save', 'kthlist', 'outb.kthlist'],
        ['complete', '2', '2', 'save', 'dimacs', 'outb.dimacs'],
        ['complete', '2', '2', 'save', 'outb.dimacs'],
        [],
    ]
    for spec in bipartite_specs:
        run_action(B, spec, dest='B', with_prefix='* ')

    dag_specs = [
        ['tree', '3'], ['tree', '0'], ['tree', '-1'], ['tree'],
        ['tree', '1', '2'], ['tree', 'x'],
        ['pyramid', '3'], ['pyramid', '0'], ['pyramid', '-1'],
        ['pyramid', '2.5'],
        ['path', '4'], ['path', '0'], ['path', '-1'], ['path'],
        ['gnp', '4', '.5'], ['glrp', '3', '3', '.5'], ['matrix', 'x'],
        ['path', '4', 'addedges', '1'], ['path', '4', 'plantclique', '2'],
        ['path', '4', 'tree', '2'], ['path', '4', 'dag'],
        ['good.kthlist'], ['kthlist', 'good.kthlist'], ['cyclic.kthlist'],
        ['bad.kthlist'], ['garbage.kthlist'], ['good.dimacs'],
        ['bad.dimacs'], ['good.gml'], ['bad.gml'], ['missing.kthlist'],
        ['noext'], ['good.matrix'],
        ['pyramid', '2', 'save', 'outd.kthlist'],
        ['pyramid', '2', 'save', 'dimacs', 'outd.dimacs'],
        ['pyramid', '2', 'save', 'outd.matrix'],
        [],
    ]
    for spec in dag_specs:
        run_action(D, spec, dest='D', with_prefix='% ')

    # nargs is not allowed for these actions
    for cls in (S, B, D, graph_args.ObtainGraphAction):
        for nargs in (None, 1, '+', '?'):
            try:
                a = cls([], 'X', nargs=nargs)
                log('ctor', cls.__name__, nargs, a.nargs, a.dest)
            except Exception as e:
                log('ctor', cls.__name__, nargs, type(e).__name__, str(e))

    # files saved by the 'save' option
    for fname in sorted(os.listdir('.')):
        if os.path.isfile(fname) and fname.startswith('out'):
            with open(fname) as f:
                log('saved', fname, f.read())
        else:
            log('present', fname)

    # ------------------------------------------------------------
    # through the command line tools
    # ------------------------------------------------------------
    cnfgen_cmds = [
        ['kcolor', '3', 'gnp', '5', '.5'],
        ['kcolor', '3', 'gnp', '5', '1.5'],
        ['kcolor', '3', 'gnp', '5'],
        ['kcolor', '3'],
        ['kcolor', '0', 'complete', '3'],
        ['kcolor', '3', 'tree', '3'],
        ['kcolor', '3', 'missing.dimacs'],
        ['kcolor', '3', 'bad.dimacs'],
        ['kcolor', '3', 'good.dimacs'],
        ['kcolor', '3', 'noext'],
        ['kcolor', '3', 'good.dimacs', 'plantclique', '9'],
        ['kcolor', '3', 'complete', '3', '-q'],
        ['-q', 'kcolor', '3', 'complete', '3'],
        ['-S', '7', 'kclique', '3', 'gnm', '6', '9'],
        ['-S', '7', 'kclique', '3', 'gnm', '6', '16'],
        ['kclique', '7', 'complete', '3'],
        ['tseitin', 'first', 'grid', '2', '2'],
        ['tseitin', 'random', 'gnd', '6', '3'],
        ['tseitin', 'random', 'gnd', '5', '3'],
        ['domset', '2', 'complete', '4'],
        ['iso', 'complete', '3', '-e', 'empty', '3'],
        ['iso', 'complete', '3'],
        ['peb', 'pyramid', '2'], ['peb', 'pyramid', '-2'], ['peb', 'tree'],
        ['peb', 'cyclic.kthlist'], ['peb', 'good.kthlist'],
        ['peb', 'gnp', '3', '.5'], ['peb'],
        ['stone', '2', 'path', '3'], ['stone', '0', 'path', '3'],
        ['php', '3', '2'], ['php', 'glrd', '4', '3', '2'],
        ['php', 'glrd', '4', '3', '5'], ['php', 'good.matrix'],
        ['php', 'two.matrix'], ['php', 'short.matrix'],
        ['php', 'gnp', '4', '.5'], ['php'],
        ['-of', 'opb', 'php', 'complete', '2', '2'],
        ['-of', 'latex', 'peb', 'path', '2'],
        ['-of', 'latex', 'peb', 'path', 'x'],
        ['-of', 'opb', 'peb', 'path', 'x'],
        ['-o', 'res.cnf', 'kcolor', '2', 'bogus', '3'],
        ['-o', 'res.tex', 'kcolor', '2', 'bogus', '3'],
        ['-o', 'res.opb', 'kcolor', '2', 'complete', '3', 'save'],
        ['-o', 'res2.cnf', 'kcolor', '2', 'complete', '3'],
        ['op', '3', '-T', 'xor', '2'],
        ['op', '3', '-T', 'xor', 'glrp', '3', '3', '1'],
        ['op', '3', '-T', 'xor', 'gnp', '3', '1'],
        ['--help-graph'], ['--help-bipartite'], ['--help-dag'],
        ['kcolor', '-h'], ['peb', '--help'], ['php', '-h'],
    ]
    for cmd in cnfgen_cmds:
        run_main(cnfgen_tool, ['cnfgen'] + cmd)
    for cmd in cnfgen_cmds[:40:3]:
        run_cli(cnfgen_tool, ['cnfgen'] + cmd, mode='string')
        run_cli(cnfgen_tool, ['cnfgen'] + cmd, mode='formula')

    pbgen_cmds = [
        ['php', '3', '2'], ['php', 'glrd', '4', '3', '2'],
        ['php', 'glrd', '4', '3', '9'], ['php', 'gnp', '3', '.5'],
        ['php', 'good.matrix'], ['php', 'alpha.matrix'], ['php'],
        ['domset', '2', 'gnp', '5', '.5'], ['domset', '2', 'gnp', '5', '5'],
        ['domset', '2', 'good.dimacs', '2'], ['domset', '2', 'missing.gml'],
        ['-of', 'latex', 'domset', '2', 'tree', '2'],
        ['-of', 'dimacs', 'domset', '2', 'complete', '2'],
        ['--help-graph'], ['php', '-h'],
    ]
    for cmd in pbgen_cmds:
        run_main(pbgen_tool, ['pbgen'] + cmd)
        run_cli(pbgen_tool, ['pbgen'] + cmd, mode='string')

    for fname in sorted(os.listdir('.')):
        if os.path.isfile(fname) and fname.startswith('res'):
            with open(fname) as f:
                log('result', fname, f.read())


if __name__ == '__main__':
    main()
