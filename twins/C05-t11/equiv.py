"""Equivalence script for t11: BipartiteGraph.normalize (cnfgen/graphs.py),
the entry point through which VariableCompression accepts its graph."""
import hashlib
import itertools
import random
import sys

sys.path.insert(0, '.')

import networkx

from cnfgen.formula.cnf import CNF
from cnfgen.graphs import (BipartiteGraph, CompleteBipartiteGraph, Graph,
                           DirectedGraph, bipartite_random_left_regular,
                           bipartite_random, bipartite_shift)
from cnfgen.transformations.substitutions import VariableCompression

out = []


def rec(*items):
    out.append(repr(items))


def attempt(tag, fn):
    try:
        rec(tag, 'ok', fn())
    except Exception as e:
        cause = e.__cause__
        rec(tag, 'exc', type(e).__name__, str(e),
            type(e.__context__).__name__, str(e.__context__),
            type(cause).__name__, e.__suppress_context__)


def gdump(B):
    return (type(B).__name__, B.left_order(), B.right_order(),
            B.number_of_edges(), sorted(B.edges()), B.name,
            [B.right_neighbors(u) for u in range(1, B.left_order() + 1)],
            [B.left_neighbors(v) for v in range(1, B.right_order() + 1)])


def dump(F):
    return (F.number_of_variables(), F.number_of_clauses(),
            [list(c) for c in F], sorted(F.header.items(), key=repr),
            list(F.all_variable_labels()))


def nxbip(left, right, edges, name=None, labels=(0, 1)):
    G = networkx.Graph()
    if name is not None:
        G.name = name
    for u in left:
        G.add_node(u, bipartite=labels[0])
    for v in right:
        G.add_node(v, bipartite=labels[1])
    G.add_edges_from(edges)
    return G


class WeirdGraph(networkx.Graph):
    """A networkx graph whose edges cannot be listed"""
    @property
    def edges(self):
        raise AttributeError("no edges here")


class WeirdGraph2(networkx.Graph):
    def nodes(self):
        raise AttributeError("no nodes here")


rng = random.Random(5)
graphs = {}
graphs['empty00'] = BipartiteGraph(0, 0)
graphs['empty30'] = BipartiteGraph(3, 0)
graphs['empty03'] = BipartiteGraph(0, 3, name='zero left')
B = BipartiteGraph(3, 4, name='hand made')
for e in [(1, 1), (1, 4), (2, 2), (3, 1), (3, 2), (3, 3)]:
    B.add_edge(*e)
graphs['hand'] = B
graphs['complete'] = CompleteBipartiteGraph(3, 2)
graphs['glrd'] = bipartite_random_left_regular(4, 5, 2, seed=11)
graphs['rand'] = bipartite_random(3, 4, 0.5, seed=12)
graphs['shift'] = bipartite_shift(3, 5, [1, 2, 4])
graphs['nx_complete'] = networkx.bipartite.complete_bipartite_graph(3, 2)
graphs['nx_named'] = nxbip(['a', 'b', 'c'], ['x', 'y'], [('a', 'x'), ('y', 'b'), ('c', 'x'), ('c', 'y')], name='letters')
graphs['nx_strlabels'] = nxbip([1, 2, 3], [4, 5], [(1, 4), (5, 2)], labels=('0', '1'))
graphs['nx_mixed'] = nxbip([10, 30, 20], [7, 5], [(7, 10), (20, 5), (30, 7)])
graphs['nx_empty'] = networkx.Graph()
graphs['nx_onlyleft'] = nxbip([1, 2, 3], [], [])
graphs['nx_onlyright'] = nxbip([], [1, 2], [])
G = networkx.Graph()
G.add_edges_from([(1, 2), (2, 3)])
graphs['nx_nolabels'] = G
G = nxbip([1, 2, 3], [4, 5], [(1, 4)])
G.add_node(6)
graphs['nx_onemissing'] = G
graphs['nx_badlabel'] = nxbip([1, 2, 3], [4], [(1, 4)], labels=(0, 2))
graphs['nx_crossleft'] = nxbip([1, 2, 3], [4, 5], [(1, 2), (1, 4)])
graphs['nx_crossright'] = nxbip([1, 2, 3], [4, 5], [(1, 4), (4, 5)])
G = networkx.DiGraph()
G.add_node(1, bipartite=0); G.add_node(2, bipartite=0); G.add_node(3, bipartite=1)
G.add_edges_from([(1, 3), (3, 2)])
graphs['nx_digraph'] = G
G = networkx.MultiGraph()
G.add_node(1, bipartite=0); G.add_node(2, bipartite=0); G.add_node(3, bipartite=1)
G.add_edges_from([(1, 3), (1, 3), (3, 2)])
graphs['nx_multi'] = G
W = WeirdGraph()
W.add_node(1, bipartite=0); W.add_node(2, bipartite=1)
graphs['nx_weird'] = W
W = WeirdGraph2()
graphs['nx_weird2'] = W
graphs['none'] = None
graphs['int'] = 3
graphs['str'] = 'glrd 3 4 2'
graphs['list'] = [(1, 2)]
graphs['tuple'] = (3, 4)
graphs['simplegraph'] = Graph(3)
graphs['digraph'] = DirectedGraph(3)
graphs['class'] = BipartiteGraph

for name, G in graphs.items():
    for cls in (BipartiteGraph, CompleteBipartiteGraph):
        for kw in ({}, {'varname': 'B'}, {'varname': ''}, {'varname': '{}'}):
            def run(G=G, cls=cls, kw=kw):
                R = cls.normalize(G, **kw)
                return (R is G, gdump(R))
            attempt(('norm', name, cls.__name__, sorted(kw.items())), run)
    attempt(('normpos', name), lambda G=G: gdump(BipartiteGraph.normalize(G, 'H')))

attempt('noarg', lambda: BipartiteGraph.normalize())

# Variable compression through normalize
def formulas():
    F0 = CNF()
    F1 = CNF([[]])
    F1.update_variable_number(3)
    F3 = CNF([[1, -2], [2, 3], [-1, -3], [], [1, 1, -1]])
    F4 = CNF([[1, -2, 4], [3], [-4, -3]])
    F5 = CNF()
    F5.new_variable('a')
    b = F5.new_block(2, label='b_{}')
    F5.add_clause([1, -b(1)])
    F5.add_clause([-1, b(2), b(1)])
    return [F0, F1, F3, F4, F5]


def sat(F, a):
    return all(any((l > 0) == a[abs(l)] for l in c) for c in F)


for idx, F in enumerate(formulas()):
    n = F.number_of_variables()
    for name, G in graphs.items():
        for func in ('xor', 'maj', 'and'):
            def run(F=F, G=G, func=func):
                T = VariableCompression(F, G, func)
                res = dump(T)
                # semantic check of the composition
                B = BipartiteGraph.normalize(G)
                R = B.right_order()
                good = T.number_of_variables() == R
                if R <= 6:
                    for bits in itertools.product([False, True], repeat=R):
                        a = dict(enumerate(bits, start=1))
                        ind = {}
                        for v in range(1, n + 1):
                            vals = [a[w] for w in B.right_neighbors(v)]
                            if func == 'xor':
                                ind[v] = sum(vals) % 2 == 1
                            else:
                                ind[v] = 2 * sum(vals) >= len(vals)
                        good = good and (sat(T, a) == sat(F, ind))
                return res, good
            attempt(('vc', idx, name, func), run)

print(hashlib.sha256("\n".join(out).encode('utf-8')).hexdigest())
