"""Equivalence check for construction_for_another_type / format_for_another_type
(cnfgen/clitools/graph_args.py): the helpers that let the graph specification
parser refuse a construction or a file format that belongs to another type of
graph, instead of taking it for a file name."""
import warnings
warnings.simplefilter("ignore")
import contextlib
import hashlib
import io
import os
import random
import sys
import tempfile

sys.path.insert(0, os.getcwd())

from cnfgen.clitools import graph_args
from cnfgen.clitools.graph_args import (construction_for_another_type,
                                        format_for_another_type,
                                        parse_graph_argument,
                                        make_graph_from_spec)
from cnfgen.clitools.cnfgen import cli

H = hashlib.sha256()


def emit(*items):
    for x in items:
        H.update(repr(x).encode('utf-8'))
        H.update(b'\n')
        if os.environ.get('EQUIV_DEBUG'):
            sys.stderr.write(repr(x)[:200] + '\n')


def attempt(fn, *args):
    try:
        res = fn(*args)
    except BaseException as e:
        emit('EXC', type(e).__name__, str(e))
    else:
        if isinstance(res, dict):
            res = sorted(res.items())
        emit('OK', type(res).__name__, res)


graphtypes = ['simple', 'dag', 'digraph', 'bipartite']
othertypes = graphtypes + ['', 'Simple', 'multigraph', None, 0]

cnames = set()
for t in graph_args.constructions:
    cnames.update(graph_args.constructions[t])
fnames = set()
for t in graph_args.formats:
    fnames.update(graph_args.formats[t])
words = sorted(cnames) + sorted(fnames) + [
    'GNP', 'gnp ', '', 'save', 'addedges', 'plantclique', 'simple', 'dag',
    'bipartite', 'digraph', 'graph.dot', 'graph.matrix', 'x', '10', None, 3,
    ('gnp',)]

emit(sorted(cnames), sorted(fnames))
emit(list(graph_args.constructions), list(graph_args.formats))

for w in words:
    for t in othertypes:
        emit('HELPERS', w, t)
        attempt(construction_for_another_type, w, t)
        attempt(format_for_another_type, w, t)

# the parser: first word is a construction / a format / neither
tails = [[], ['3'], ['3', '4'], ['3', '4', '2'], ['file.txt'],
         ['3', 'save', 'out.kthlist'], ['3', 'addedges', '1']]
for t in graphtypes:
    for w in words:
        if not isinstance(w, str):
            continue
        for tail in tails:
            spec = [w] + tail
            emit('PARSE', t, spec)
            attempt(parse_graph_argument, t, spec)
            emit(spec)
        emit('PARSE str', t, w)
        attempt(parse_graph_argument, t, w + ' 3 3 1')

# building graphs: names of other types are refused, own names are built,
# anything else is a file name (which does not exist)
origdir = os.getcwd()
scratch = tempfile.mkdtemp()
os.chdir(scratch)
try:
    for t in graphtypes:
        for w in sorted(cnames) + sorted(fnames) + ['nosuchfile.dot', 'nosuchfile']:
            for tail in ('3', '4 2', '4 4 2', '4 4 1 2', 'nosuchfile.txt'):
                text = w + ' ' + tail
                emit('BUILD', t, text)
                random.seed(17)
                try:
                    G = make_graph_from_spec(t, text)
                except BaseException as e:
                    emit('EXC', type(e).__name__, str(e))
                else:
                    emit(type(G).__name__, G.name, G.number_of_vertices(),
                         G.number_of_edges(), sorted(G.edges()))
                emit(random.random(), sorted(os.listdir('.')))
finally:
    os.chdir(origdir)
    os.rmdir(scratch)


def run_cli(argv):
    emit('CLI', argv)
    out, err = io.StringIO(), io.StringIO()
    code = None
    with contextlib.redirect_stdout(out), contextlib.redirect_stderr(err):
        try:
            cli(argv)
        except SystemExit as e:
            code = e.code
        except BaseException as e:
            code = (type(e).__name__, str(e))
    emit(code, out.getvalue().splitlines(), err.getvalue())


for argv in (['cnfgen', '-q', 'php', 'gnp', '4', '0.5'],
             ['cnfgen', '-q', 'php', 'pyramid', '2'],
             ['cnfgen', '-q', 'php', 'dot', 'x.dot'],
             ['cnfgen', '-q', 'php', 'glrd', '3', '2', '1'],
             ['cnfgen', '-q', 'kcolor', '3', 'glrd', '3', '2', '1'],
             ['cnfgen', '-q', 'kcolor', '3', 'matrix', 'x.matrix'],
             ['cnfgen', '-q', 'kcolor', '3', 'tree', '2'],
             ['cnfgen', '-q', 'kcolor', '3', 'complete', '3'],
             ['cnfgen', '-q', 'peb', 'gnm', '4', '3'],
             ['cnfgen', '-q', 'peb', 'shift', '4', '3'],
             ['cnfgen', '-q', 'peb', 'matrix', 'x.matrix'],
             ['cnfgen', '-q', 'peb', 'path', '3'],
             ['cnfgen', '-q', 'peb', 'gml', 'x.gml']):
    run_cli(argv)

print(H.hexdigest())
