#!/usr/bin/env python
"""Equivalence script for refactoring t23 (property C10).

Exercises the variable groups indexed by words of indices
(WordOfIndicesVariables: combinations, combinations with replacement,
permutations, words), directly, through the VariablesManager of both
formula classes, interleaved with clause insertion, and through the
families that use them (ordering, counting, ramsey, clique-coloring).
Prints one SHA256 digest of everything observed.
"""
import sys
import os
import io
import random
import hashlib
import contextlib

sys.path.insert(0, os.getcwd())

import networkx
import cnfgen
from cnfgen.formula.basecnf import BaseCNF
from cnfgen.formula.cnf import CNF
from cnfgen.formula.opb import OPB
from cnfgen.formula.variables import WordOfIndicesVariables, VariablesManager
from cnfgen.clitools.cnfgen import cli as cnfgen_cli
from cnfgen.clitools.pbgen import cli as pbgen_cli

LOG = []
WORDTYPES = ['combinations', 'combinations_with_replacement', 'permutations', 'words']


def norm(x):
    """Materialise iterators, so that no object address ends in the log"""
    if isinstance(x, (str, bytes, int, float, type(None), range)):
        return x
    if isinstance(x, dict):
        return {norm(k): norm(v) for k, v in x.items()}
    if isinstance(x, tuple):
        return tuple(norm(y) for y in x)
    if isinstance(x, list):
        return [norm(y) for y in x]
    if hasattr(x, '__next__'):
        return ('iterator', [norm(y) for y in x])
    return x


def rec(*items):
    text = repr(norm(items))
    assert ' at 0x' not in text, text
    LOG.append(text)


def attempt(tag, fn, *args, **kwargs):
    try:
        res = fn(*args, **kwargs)
        rec(tag, 'ok', res)
        return res
    except SystemExit as e:
        rec(tag, 'exit', e.code)
    except BaseException as e:
        chain = []
        c = e
        while c is not None:
            chain.append((type(c).__name__, str(c)))
            c = c.__cause__
        rec(tag, 'exc', chain)
    return None


def describe(tag, g):
    ids = list(g)
    idx = list(g.indices())
    rec(tag, 'len', len(g), 'ids', ids[:4], ids[-4:], 'offset', g.offset, g.n, g.k, g.wordtype)
    rec(tag, 'idx', hashlib.sha256(repr(idx).encode()).hexdigest(), idx[:3], idx[-3:])
    rec(tag, 'vid2seq', hashlib.sha256(repr(g.vid2seq).encode()).hexdigest(), type(g.vid2seq).__name__)
    rec(tag, 'seq2vid', hashlib.sha256(repr(list(g.seq2vid.items())).encode()).hexdigest())
    rec(tag, 'labels', hashlib.sha256(repr(list(g.label())).encode()).hexdigest())
    allv = g()
    if not isinstance(allv, int):
        allv = list(allv)
    rec(tag, 'call', hashlib.sha256(repr(allv).encode()).hexdigest())
    rec(tag, 'todict', hashlib.sha256(repr(sorted(g.to_dict().items())).encode()).hexdigest())
    for t in idx[:2] + idx[-2:]:
        v = g(*t)
        rec(tag, t, v, g.to_index(v), g.to_index(-v), g.label(*t), v in g, -v in g,
            list(g.indices(*t)), g._unsafe_index_to_lit(t))
    if ids:
        attempt((tag, 'below'), g.to_index, ids[0] - 1)
        attempt((tag, 'above'), g.to_index, ids[-1] + 1)
    attempt((tag, 'badcall'), g, 99, 98, 97, 96, 95)
    attempt((tag, 'badidx'), g.indices, 0)
    attempt((tag, 'badlabel'), g.label, 99, 99)


# 1. direct construction: all word types, boundary sizes, offsets
for off in [0, 1, 17]:
    for wt in WORDTYPES:
        for n in range(0, 7):
            for k in range(0, 5):
                F = BaseCNF()
                F.update_variable_number(off)
                tag = (off, wt, n, k)
                try:
                    g = WordOfIndicesVariables(F, n, k, labelfmt='w[{}]', wordtype=wt)
                except BaseException as e:
                    rec(tag, 'exc', type(e).__name__, str(e))
                    continue
                describe(tag, g)
                rec(tag, 'formula untouched', F.number_of_variables())

# realistic sizes
for wt, n, k in [('combinations', 40, 2), ('combinations', 18, 4), ('permutations', 30, 2),
                 ('permutations', 9, 4), ('words', 8, 4), ('words', 50, 2),
                 ('combinations_with_replacement', 25, 3), ('combinations', 200, 2)]:
    F = BaseCNF()
    F.update_variable_number(123)
    describe(('big', wt, n, k), WordOfIndicesVariables(F, n, k, wordtype=wt))

# default arguments
F = BaseCNF()
g = WordOfIndicesVariables(F, 4, 2)
describe('defaults', g)
g = WordOfIndicesVariables(F, 4, 2, None)
describe('defaults-none', g)

# 2. error paths of the constructor
F = BaseCNF()
bad = [
    dict(n=3, k=2, wordtype='subsets'),
    dict(n=3, k=2, wordtype=''),
    dict(n=3, k=2, wordtype=None),
    dict(n=3, k=2, wordtype=0),
    dict(n=3, k=2, wordtype='Combinations'),
    dict(n=3, k=2, wordtype=b'words'),
    dict(n=3, k=2, wordtype=('words',)),
    dict(n=3, k=2, wordtype=['words']),
    dict(n=3, k=2, wordtype={'words': 1}),
    dict(n=-1, k=2, wordtype='words'),
    dict(n=3, k=-2, wordtype='combinations'),
    dict(n=-1, k=2, wordtype='nonsense'),
    dict(n=3.0, k=2, wordtype='words'),
    dict(n=3, k='2', wordtype='permutations'),
    dict(n=None, k=2),
    dict(n=3, k=2, labelfmt='{}{}'),
    dict(n=3, k=2, labelfmt='{}{}', wordtype='nonsense'),
    dict(n=3, k=2, labelfmt='nolabel'),
    dict(n=3, k=2, labelfmt='{0}{0}', wordtype='permutations'),
    dict(n=True, k=True, wordtype='words'),
]
for i, kw in enumerate(bad):
    def build():
        g = WordOfIndicesVariables(F, **kw)
        return (len(g), list(g), list(g.indices()), list(g.label()))
    attempt(('bad', i, sorted((k, repr(v)) for k, v in kw.items())), build)
rec('F after bad', F.number_of_variables())

# 3. through the variables manager, interleaved with clauses, both classes
rng = random.Random(2323)
for cls in [CNF, OPB]:
    for trial in range(30):
        F = cls()
        groups = []
        for step in range(rng.randint(1, 8)):
            what = rng.randrange(7)
            n, k = rng.randint(0, 6), rng.randint(0, 3)
            n0 = F.number_of_variables()
            if what == 0:
                groups.append(F.new_combinations(n, k, label='c%d_{{{{{{}}}}}}' % step))
            elif what == 1:
                groups.append(F.new_combinations_with_replacement(n, k))
            elif what == 2:
                groups.append(F.new_permutations(n, k))
            elif what == 3:
                groups.append(F.new_permutations(min(n, 4)))
            elif what == 4:
                groups.append(F.new_words(n, k, label='w({})'))
            elif what == 5:
                F.add_clause([n0 + rng.randint(1, 4), -(rng.randint(0, n0) + 1)])
            else:
                F.new_variable('y%d' % step)
            rec(cls.__name__, trial, step, what, n, k, F.number_of_variables())
            if groups and what < 5:
                g = groups[-1]
                rec(list(g), g.offset == n0, all(v > n0 for v in g))
                # clauses on the new variables
                for t in list(g.indices())[:3]:
                    F.add_clause([g(*t), -(rng.randint(0, n0) + 1)] if n0 else [g(*t)])
        n = F.number_of_variables()
        rec(cls.__name__, trial, 'final', n, len(F), list(F.all_variable_labels()))
        rec(F.to_dimacs() if cls is CNF else F.to_opb())
        for j, g in enumerate(groups):
            describe((cls.__name__, trial, j), g)

# overlapping group is refused
F = CNF()
a = F.new_combinations(4, 2)
F.add_clause([a(1, 2), 9])
g = WordOfIndicesVariables(F, 3, 2)
rec('late group', list(g))
F.add_clause([10, 11])
attempt('overlap', F._add_variable_group, g)

# 4. families built on these groups, realistic sizes
G = cnfgen.Graph.from_networkx(networkx.random_regular_graph(4, 12, seed=8))
builders = [
    ('op', lambda fc: cnfgen.OrderingPrinciple(10, formula_class=fc)),
    ('op-total', lambda fc: cnfgen.OrderingPrinciple(9, total=True, formula_class=fc)),
    ('op-smart', lambda fc: cnfgen.OrderingPrinciple(9, smart=True, formula_class=fc)),
    ('op-plant', lambda fc: cnfgen.OrderingPrinciple(8, plant=True, knuth=2, formula_class=fc)),
    ('gop', lambda fc: cnfgen.GraphOrderingPrinciple(G, formula_class=fc)),
    ('gop-total', lambda fc: cnfgen.GraphOrderingPrinciple(G, total=True, formula_class=fc)),
    ('count', lambda fc: cnfgen.CountingPrinciple(9, 3, formula_class=fc)),
    ('count-small', lambda fc: cnfgen.CountingPrinciple(2, 2, formula_class=fc)),
    ('matching', lambda fc: cnfgen.PerfectMatchingPrinciple(G, formula_class=fc)),
    ('ram', lambda fc: cnfgen.RamseyNumber(3, 4, 9, formula_class=fc)),
    ('ram-small', lambda fc: cnfgen.RamseyNumber(2, 2, 1, formula_class=fc)),
    ('cliquecoloring', lambda fc: cnfgen.CliqueColoring(7, 4, 3, formula_class=fc)),
]
for name, build in builders:
    for fc in [CNF, OPB]:
        try:
            F = build(fc)
        except BaseException as e:
            rec(name, fc.__name__, 'exc', type(e).__name__, str(e))
            continue
        n = F.number_of_variables()
        if fc is CNF:
            owned = all(isinstance(l, int) and 0 < abs(l) <= n for c in F for l in c)
            text = F.to_dimacs()
        else:
            owned = all(isinstance(l, int) and 0 < abs(l) <= n for c in F for (_, l) in c[:-2])
            text = F.to_opb()
        rec(name, fc.__name__, n, len(F), owned, hashlib.sha256(text.encode()).hexdigest(),
            hashlib.sha256(repr(list(F.all_variable_labels())).encode()).hexdigest())

# 5. command line
for argv in [['cnfgen', '-q', 'op', 8], ['cnfgen', 'op', 6, '--total', '-T', 'xor', 2],
             ['cnfgen', '-q', 'count', 8, 4], ['cnfgen', '-q', 'ram', 3, 3, 6],
             ['cnfgen', '-q', 'cliquecoloring', 6, 3, 2], ['cnfgen', '-q', 'op', 0],
             ['cnfgen', '-q', 'count', 5, 3], ['cnfgen', '-q', '-of', 'latex', 'op', 5]]:
    err = io.StringIO()
    with contextlib.redirect_stderr(err):
        attempt(('cli', tuple(argv)), cnfgen_cli, list(argv), mode='string')
    rec('stderr', err.getvalue())
for argv in [['pbgen', '-q', 'op', 7], ['pbgen', 'count', 6, 2], ['pbgen', '-q', 'ram', 3, 3, 5]]:
    err = io.StringIO()
    with contextlib.redirect_stderr(err):
        attempt(('pbcli', tuple(argv)), pbgen_cli, list(argv), mode='string')
    rec('stderr', err.getvalue())

print(hashlib.sha256("\n".join(LOG).encode('utf-8')).hexdigest())
