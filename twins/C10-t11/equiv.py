"""Equivalence script for the refactoring of
cnfgen.formula.variables.WordOfIndicesVariables.__init__

Creates word-indexed variable groups (combinations, permutations,
combinations with replacement, words) on CNF, OPB and BaseCNF, interleaved
with clause insertion and other groups, plus the families built on them,
and prints one SHA256 digest of everything observed.
"""
import hashlib
import os
import sys

sys.path.insert(0, os.getcwd())

from cnfgen import CNF
from cnfgen.formula.opb import OPB
from cnfgen.formula.basecnf import BaseCNF
from cnfgen.formula.variables import WordOfIndicesVariables, VariablesManager
from cnfgen import (CliqueColoring, RamseyNumber, CountingPrinciple,
                    PerfectMatchingPrinciple, OrderingPrinciple,
                    GraphOrderingPrinciple)
from cnfgen.graphs import Graph
from cnfgen.clitools.cnfgen import cli as cnfgencli

H = hashlib.sha256()


def emit(*items):
    for x in items:
        H.update(repr(x).encode('utf-8'))
        H.update(b'\x00')


def aslist(r):
    return r if isinstance(r, (int, str)) else list(r)


def observe_group(tag, F, g):
    emit(tag, len(g), list(g), list(g.ids), g.offset, g.n, g.k, g.wordtype)
    emit(list(g.vid2seq), sorted(g.seq2vid.items()))
    emit(aslist(g.indices()), aslist(g.label()), aslist(g()))
    emit(F.number_of_variables())
    for idx in list(g.indices())[:50]:
        v = g(*idx)
        emit(v, g.to_index(v), g.to_index(-v), aslist(g.label(*idx)), v in g,
             list(g.indices(*idx)))
    for bad in (0, F.number_of_variables() + 1, g.offset, -g.offset):
        try:
            emit(g.to_index(bad))
        except Exception as e:  # noqa
            emit('exc', type(e).__name__, str(e))
    for badidx in ((), (0,) * g.k, (g.n + 1,) * g.k, (1,) * (g.k + 1)):
        for fn in (g, g.label, g.indices):
            try:
                r = fn(*badidx)
                emit(aslist(r))
            except Exception as e:  # noqa
                emit('exc', type(e).__name__, str(e))


def observe_formula(tag, F):
    n = F.number_of_variables()
    body = [c for c in F]
    emit(tag, n, len(body), body, list(F.all_variable_labels()))
    if isinstance(F, CNF):
        emit(all(type(l) is int and 1 <= abs(l) <= n for c in body for l in c))
        emit(F.to_dimacs())
    elif isinstance(F, OPB):
        emit(F.to_opb())


METHODS = ['new_combinations', 'new_combinations_with_replacement',
           'new_permutations', 'new_words']

# 1. groups through the VariablesManager interface on both formula classes,
#    interleaved with clauses and other groups
for cls in (CNF, OPB):
    for n, k in [(0, 0), (0, 1), (1, 0), (1, 1), (3, 0), (3, 2), (4, 4),
                 (3, 5), (5, 3), (7, 2), (12, 3)]:
        F = cls()
        F.new_variable('first')
        F.add_clause([1, -3])          # raises the number of variables to 3
        for meth in METHODS:
            try:
                g = getattr(F, meth)(n, k, label=meth[4] + '_{{{}}}')
            except Exception as e:  # noqa
                emit('exc', meth, n, k, type(e).__name__, str(e))
                continue
            observe_group((cls.__name__, meth, n, k), F, g)
            vs = list(g)
            if vs:
                F.add_clause([vs[0], -vs[-1]])
                F.add_clause([-(F.number_of_variables() + 2)])  # unowned vars
            F.new_block(2, 2, label='b({},{})')
        observe_formula((cls.__name__, 'interleaved', n, k), F)

# new_permutations with default k
for n in (0, 1, 4):
    F = CNF()
    F.update_variable_number(2)
    g = F.new_permutations(n)
    observe_group(('perm-default', n), F, g)

# 2. direct constructor, including error paths
for args, kwargs in [((3, 2), {}),
                     ((3, 2), {'labelfmt': None}),
                     ((3, 2), {'labelfmt': 'q({})', 'wordtype': 'words'}),
                     ((3, 2), {'labelfmt': 'q'}),
                     ((3, 2), {'labelfmt': 'q({},{})'}),
                     ((3, 2), {'wordtype': 'anagrams'}),
                     ((-1, 2), {}), ((3, -2), {}), ((3.0, 2), {}),
                     (('3', 2), {}), ((True, 1), {}),
                     ((6, 3), {'wordtype': 'permutations'}),
                     ((4, 3), {'wordtype': 'combinations_with_replacement'})]:
    F = BaseCNF([[2, -5]])
    try:
        g = WordOfIndicesVariables(F, *args, **kwargs)
    except Exception as e:  # noqa
        emit('ctor exc', args, sorted(kwargs.items()), type(e).__name__, str(e))
        continue
    observe_group(('ctor', args, sorted(kwargs.items())), F, g)
    V = VariablesManager(F)
    V._add_variable_group(g)
    emit(F.number_of_variables(), list(V.all_variable_labels()))
    # a second group must start after the first one
    g2 = WordOfIndicesVariables(F, 2, 2, wordtype='words')
    V._add_variable_group(g2)
    emit(list(g2), set(g).isdisjoint(g2), F.number_of_variables())

# 3. families built on these groups, at realistic sizes
def cycle_plus(n):
    G = Graph(n)
    for i in range(1, n):
        G.add_edge(i, i+1)
    G.add_edge(n, 1)
    G.add_edge(1, 3)
    return G

for tag, fn in [('cliquecol', lambda: CliqueColoring(7, 4, 3)),
                ('cliquecol-b', lambda: CliqueColoring(4, 1, 1)),
                ('ramsey', lambda: RamseyNumber(3, 4, 8)),
                ('ramsey-b', lambda: RamseyNumber(2, 2, 2)),
                ('count', lambda: CountingPrinciple(9, 3)),
                ('count-b', lambda: CountingPrinciple(4, 4)),
                ('count-c', lambda: CountingPrinciple(5, 2)),
                ('op', lambda: OrderingPrinciple(7)),
                ('op-total', lambda: OrderingPrinciple(6, total=True)),
                ('op-smart', lambda: OrderingPrinciple(6, smart=True)),
                ('op-knuth', lambda: OrderingPrinciple(5, total=True, plant=True, knuth=2)),
                ('gop', lambda: GraphOrderingPrinciple(cycle_plus(7))),
                ('gop-smart', lambda: GraphOrderingPrinciple(cycle_plus(6), smart=True))]:
    try:
        observe_formula(tag, fn())
    except Exception as e:  # noqa
        emit(tag, 'exc', type(e).__name__, str(e))

# 4. command line
for argv in (['cnfgen', '-q', 'cliquecoloring', '6', '3', '2'],
             ['cnfgen', '-q', 'ram', '3', '3', '6'],
             ['cnfgen', 'count', '6', '3'],
             ['cnfgen', '-v', 'op', '5'],
             ['cnfgen', '-q', 'op', '5', '--total', '-T', 'xor', '2']):
    try:
        emit('cli', argv, cnfgencli(argv, mode='string'))
    except SystemExit as e:
        emit('cli', argv, 'exit', e.code)
    except Exception as e:  # noqa
        emit('cli', argv, 'exc', type(e).__name__, str(e))

print(H.hexdigest())
