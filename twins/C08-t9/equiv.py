#!/usr/bin/env python3
"""Equivalence check for pbgen.parse_command_line (the '-T' rejection path)
and for the pbgen command line as a whole.  Prints one SHA256 digest."""
import os, sys, io, hashlib, random, contextlib
sys.path.insert(0, os.getcwd())

from cnfgen.clitools import pbgen
from cnfgen.clitools.pbgen import parse_command_line, setup_command_line_parsers
from cnfgen.clitools.cmdline import get_formula_helpers, CLIError
from cnfgen.clitools.cnfgen import cli as cnfcli

H = hashlib.sha256()
def rec(*items):
    for it in items:
        H.update(repr(it).encode('utf-8'))
        H.update(b'\x00')

class KeepIO(io.StringIO):
    """StringIO that survives close() (pbgen.main closes sys.stderr)"""
    def close(self):
        pass

def run(fn, *a, **kw):
    out, err = KeepIO(), KeepIO()
    try:
        with contextlib.redirect_stdout(out), contextlib.redirect_stderr(err):
            res = fn(*a, **kw)
        rec('OK', res if isinstance(res, (str, type(None))) else str(res))
    except SystemExit as e:
        rec('EXIT', e.code)
    except BaseException as e:
        rec('EXC', type(e).__name__, str(e))
    rec(out.getvalue(), err.getvalue())

# 1. parse_command_line directly
parser = setup_command_line_parsers('pbgen', get_formula_helpers())
direct = [
    ['pbgen', 'php', '5', '4'],
    ['pbgen', '-T', 'php', '5', '4'],
    ['pbgen', 'php', '5', '4', '-T'],
    ['pbgen', 'php', '5', '-T', '4'],
    ['-T', 'php', '5', '4'],
    ['-T'],
    ['pbgen', '-T', '-T'],
    [],
    ['pbgen'],
    ['pbgen', '-Tx', 'php', '5', '4'],
    ['pbgen', '-t', 'php', '5', '4'],
    ['pbgen', '--T', 'php', '5', '4'],
    ['pbgen', ' -T', 'php', '5', '4'],
    ['pbgen', 'op', '4', '-T', 'shuffle', '-T', 'xor', '2'],
    ['pbgen', '-q', '--varnames', 'op', '4'],
    ['pbgen', '-S', '12', 'randkcnf', '3', '6', '5'],
    ['pbgen', 'nosuchformula'],
    ['pbgen', 'php'],
    ['pbgen', 'php', 'a', 'b'],
    ['pbgen', '-of', 'dimacs', 'php', '3', '2'],
    ['pbgen', '-l', '-of', 'opb', 'php', '3', '2'],
]
for argv in direct:
    rec('direct', argv)
    def f(argv=argv):
        ns = parse_command_line(argv, parser)
        d = {k: v for k, v in vars(ns).items()
             if isinstance(v, (int, str, bool, float, type(None), list, tuple))}
        return repr(sorted(d.items()))
    run(f)

# 2. the whole pbgen cli, string mode, and matching cnfgen -of opb runs
families = [
    ['php', 5, 4], ['php', 0, 0], ['php', 3, 3], ['php', '--functional', 4, 3],
    ['php', '--onto', 4, 3], ['bphp', 5, 4], ['rphp', 4, 3, 2],
    ['op', 4], ['op', '--total', 3], ['op', 1], ['and', 2, 3], ['or', 0, 0],
    ['true'], ['false'], ['parity', 5], ['count', 6, 3], ['matching', 'complete', 4],
    ['tseitin', 'first', 'grid', 2, 3], ['kcolor', 3, 'complete', 4],
    ['domset', 2, 'grid', 2, 2], ['tiling', 'grid', 2, 3], ['ec', 'complete', 5],
    ['subsetcard', 'complete', 3, 3], ['subsetcard', 5], ['ram', 3, 3, 5], ['vdw', 5, 3, 3],
    ['ptn', 6], ['kclique', 3, 'complete', 4], ['peb', 'pyramid', 2],
    ['stone', 3, 'pyramid', 2], ['cliquecoloring', 4, 3, 2],
    ['randkcnf', 3, 6, 5], ['pitfall', 6, 3, 2, 2, 2],
]
prefixes = [[], ['-q'], ['--varnames'], ['-l'], ['-of', 'latex'], ['-of', 'opb'],
            ['-S', '7'], ['-T'], ['-q', '-T']]
for fam in families:
    for pre in prefixes:
        argv = ['pbgen'] + pre + fam
        rec('cli', argv)
        random.seed(42)
        run(pbgen.cli, argv, mode='string')
    # '-T' after the family, in various positions
    for tail in (['-T'], ['-T', 'shuffle'], ['-T', 'xor', 2], ['-T', 'none', '-T', 'or', 2]):
        argv = ['pbgen'] + fam + tail
        rec('cli-tail', argv)
        random.seed(42)
        run(pbgen.cli, argv, mode='string')
    rec('cnfgen', fam)
    random.seed(42)
    run(cnfcli, ['cnfgen', '-of', 'opb'] + fam, mode='string')
    random.seed(42)
    run(pbgen.cli, ['pbgen'] + fam, mode='formula')

# 3. main(): exit codes and messages of the error path
for argv in (['pbgen', '-T', 'php', 3, 2], ['pbgen', 'php', 3, 2, '-T', 'shuffle'],
             ['pbgen', '-q', 'php', 3, 2], ['pbgen']):
    rec('main', argv)
    old = sys.argv
    sys.argv = [str(x) for x in argv]
    saved_err = sys.stderr
    try:
        def f():
            # main() closes sys.stderr at the end; give it a throwaway one
            pbgen.main()
        run(f)
    finally:
        sys.argv = old
        sys.stderr = saved_err

print(H.hexdigest())
