#!/usr/bin/env python
"""Equivalence script for cnfgen.clihelpers.php_helpers.PHPArgs.__call__

Runs the `php` sub command of both `cnfgen` and `pbgen` over many
argument lists (valid, boundary and wrong ones), and also calls the
argparse action directly with raising and non raising parsers.
Prints one SHA256 digest of everything observed.
"""
import sys, os
sys.dont_write_bytecode = True
sys.path.insert(0, os.getcwd())
import hashlib, io, random, argparse, contextlib, itertools

from cnfgen.clitools.cnfgen import cli as cnfgen_cli
from cnfgen.clitools.pbgen import cli as pbgen_cli
from cnfgen.clihelpers.php_helpers import PHPArgs, PHPCmdHelper
from cnfgen.clitools.cmdline import CLIParser
from cnfgen.formula.cnf import CNF
from cnfgen.formula.opb import OPB

LOG = []


def rec(*items):
    LOG.append(repr(items))


def attempt(tag, fn):
    out, err = io.StringIO(), io.StringIO()
    try:
        with contextlib.redirect_stdout(out), contextlib.redirect_stderr(err):
            res = fn()
        rec(tag, 'ok', res, out.getvalue(), err.getvalue())
    except BaseException as e:   # noqa
        chain = []
        x = e
        while x is not None:
            chain.append((type(x).__name__, str(x)))
            x = x.__cause__
        rec(tag, 'exc', chain, out.getvalue(), err.getvalue())


def show_namespace(ns):
    items = []
    for k in sorted(vars(ns)):
        v = getattr(ns, k)
        if hasattr(v, 'number_of_edges') or hasattr(v, 'edges'):
            try:
                v = ('graph', v.number_of_vertices(), sorted(v.edges()))
            except Exception:   # noqa
                v = ('graph', str(type(v)))
        elif k in ('generator', 'output'):
            v = str(type(v).__name__) if k == 'output' else getattr(v, 'name', str(v))
        items.append((k, v))
    return items


def describe(F):
    out = [type(F).__name__, F.number_of_variables(), len(F),
           [(k, v) for k, v in F.header.items()],
           [list(c) for c in F], list(F.all_variable_labels())]
    buf = io.StringIO()
    F.to_file(buf, fileformat='opb', export_header=False, export_varnames=True)
    out.append(buf.getvalue())
    return out


ARGLISTS = [
    [], ['0'], ['1'], ['2'], ['5'], ['7'],
    ['0', '0'], ['0', '3'], ['3', '0'], ['1', '1'], ['4', '3'], ['3', '4'], ['6', '6'],
    ['0', '0', '0'], ['3', '0', '0'], ['4', '3', '3'], ['4', '3', '2'], ['4', '3', '1'],
    ['4', '3', '0'], ['4', '3', '4'], ['0', '5', '2'], ['5', '5', '5'], ['6', '4', '3'],
    ['2', '7', '7'], ['2', '7', '8'], ['3', '1', '100'],
    ['1', '2', '3', '4'], ['4', '3', '2', '1'], ['4', '3', '2', '1', '0'],
    ['3.5'], ['3.0', '2'], ['4', '2.5'], ['1e1'], ['inf'], ['nan', '3'],
    ['+3'], ['+3', '+2', '+1'], [' 4', '3 '], ['4', 'x'], ['4', '3', 'x'],
    ['x'], ['abc', '3'], ['4', ''], ['٣', '2'],
    ['complete', '3', '2'], ['glrd', '5', '4', '2'], ['glrd', '5', '4', '5'],
    ['regular', '6', '4', '2'], ['glrp', '4', '3', '0.5'], ['glrm', '4', '3', '7'],
    ['complete', '0', '0'], ['complete', '3', '2', 'addedges', '0'],
    ['glrd', '4'], ['nosuchgraph', '3', '3'],
]
OPTIONS = [[], ['--functional'], ['--onto'], ['--functional', '--onto']]

for tool, cli in (('cnfgen', cnfgen_cli), ('pbgen', pbgen_cli)):
    for opts, values in itertools.product(OPTIONS, ARGLISTS):
        for place in ('before', 'after'):
            # options after the positional arguments: just for one choice
            if place == 'after' and opts != ['--functional']:
                continue
            if place == 'before' and opts == ['--functional']:
                continue
            if place == 'before':
                argv = [tool, '--seed', '42', 'php'] + opts + values
            else:
                argv = [tool, '--seed', '42', 'php'] + values + opts
            random.seed(7)
            attempt((tool, tuple(argv), 'formula'),
                    lambda: describe(cli(argv, mode='formula')))
            # state of the random stream after the run
            rec('rnd', random.random())
    for values in ARGLISTS:
        argv = [tool, '-q', '-S', '3', 'php'] + values
        attempt((tool, tuple(argv), 'string'), lambda: cli(argv, mode='string'))
        rec('rnd', random.random())

attempt('cnfgen-opb', lambda: cnfgen_cli(['cnfgen', '-q', '-S', '5', '-of', 'opb', 'php', '5', '4', '2'], mode='string'))
attempt('negative', lambda: cnfgen_cli(['cnfgen', 'php', '--', '-1', '3'], mode='string'))
attempt('negative', lambda: pbgen_cli(['pbgen', 'php', '--', '-1', '3'], mode='string'))
attempt('negative', lambda: cnfgen_cli(['cnfgen', 'php', '--', '4', '-3'], mode='string'))
attempt('negative', lambda: pbgen_cli(['pbgen', 'php', '--', '4', '3', '-2'], mode='string'))


# Direct calls of the argparse action
class RecordingParser:
    """A parser whose `error` method does not raise"""
    prog = 'fake php'

    def __init__(self):
        self.errors = []

    def error(self, message):
        self.errors.append(str(message))


def direct(values, parser_kind, preset):
    action = PHPArgs(option_strings=[], dest='pigeonholes', nargs='*')
    ns = argparse.Namespace(**preset)
    if parser_kind == 'cli':
        parser = CLIParser(prog='direct php', usage='usage: direct')
        res = None
        try:
            res = action(parser, ns, values)
        finally:
            rec('direct-ns', show_namespace(ns))
        return res, show_namespace(ns)
    else:
        parser = RecordingParser()
        res = None
        try:
            res = action(parser, ns, values, option_string=None)
        finally:
            rec('direct-ns', show_namespace(ns), parser.errors)
        return res, show_namespace(ns), parser.errors


DIRECT = ARGLISTS + [
    [0], [3], [3, 2], [3, 2, 1], [3, 2, 5], [3, 2, 1, 0], [-1], [3, -2], [3, 2, -1],
    [2.7], [2.7, 1.2], [True], [True, False], ['-4'], ['4', '-3'], ['4', '3', '-2'],
    ('5', '4'), ('5', '4', '6'), [None], [b'3'], ['3', None],
]
for values in DIRECT:
    for parser_kind in ('cli', 'recording'):
        for preset in ({}, {'functional': True, 'onto': False, 'B': None},
                       {'pigeons': 99, 'holes': 98, 'degree': 97}):
            random.seed(11)
            attempt(('direct', repr(values), parser_kind, sorted(preset)),
                    lambda: direct(values, parser_kind, dict(preset)))

# and the formulas built from namespaces filled by the action
for values in [['3'], ['4', '2'], ['5', '4', '2'], ['5', '4', '4'], ['0', '0', '0'], ['3', '3', '1']]:
    for cls in (CNF, OPB):
        for functional, onto in itertools.product([False, True], repeat=2):
            def build():
                action = PHPArgs(option_strings=[], dest='pigeonholes', nargs='*')
                ns = argparse.Namespace(functional=functional, onto=onto)
                action(CLIParser(prog='direct php'), ns, values)
                random.seed(1234)
                return describe(PHPCmdHelper.build_formula(ns, formula_class=cls))
            attempt(('build', tuple(values), cls.__name__, functional, onto), build)

print(hashlib.sha256("\n".join(LOG).encode('utf-8')).hexdigest())
