#!/usr/bin/env python
"""Equivalence script for cnfgen.utils.parsedimacs.from_dimacs_file

Reads DIMACS input through every kind of source (None/stdin, file name,
file object with and without a `name`, objects whose `name` misbehaves)
into both the CNF and the OPB classes, and through `cnfgen dimacs` /
`pbgen dimacs`.  Prints one SHA256 digest of everything observed.
"""
import sys, os
sys.dont_write_bytecode = True
sys.path.insert(0, os.getcwd())
import hashlib, io, shutil, tempfile, random, contextlib

from cnfgen.formula.cnf import CNF
from cnfgen.formula.opb import OPB
from cnfgen.utils.parsedimacs import from_dimacs_file
from cnfgen.clitools.cnfgen import cli as cnfgen_cli
from cnfgen.clitools.pbgen import cli as pbgen_cli

LOG = []
TMP = tempfile.mkdtemp(prefix='c08t12')


def rec(*items):
    LOG.append(repr(items).replace(TMP, '<TMP>'))


def describe(F):
    out = [type(F).__name__, F.number_of_variables(), len(F),
           list(F.header.items()), [list(c) for c in F],
           list(F.all_variable_labels())]
    if isinstance(F, CNF):
        out.append(F.to_dimacs())
        buf = io.StringIO()
        F.to_file(buf, fileformat='opb', export_header=True, export_varnames=True)
        out.append(buf.getvalue())
    else:
        out.append(F.to_opb())
        buf = io.StringIO()
        F.to_file(buf, fileformat='opb', export_header=True, export_varnames=True)
        out.append(buf.getvalue())
    return out


def attempt(tag, fn):
    try:
        res = fn()
        rec(tag, 'ok', res)
    except BaseException as e:   # noqa
        chain = []
        x = e
        while x is not None:
            chain.append((type(x).__name__, str(x)))
            x = x.__cause__
        rec(tag, 'exc', chain)


class NamelessReader:
    """File like object without a name attribute"""
    def __init__(self, text):
        self._lines = io.StringIO(text).readlines()

    def readlines(self):
        return self._lines


class NamedReader(NamelessReader):
    def __init__(self, text, name):
        NamelessReader.__init__(self, text)
        self.name = name


class KeyErrorName(NamelessReader):
    @property
    def name(self):
        raise KeyError('no name here')


class AttrErrorName(NamelessReader):
    @property
    def name(self):
        raise AttributeError('hidden attribute error')


class GetattrName(NamelessReader):
    def __getattr__(self, key):
        if key == 'name':
            return 'dynamic-name'
        raise AttributeError(key)


def random_dimacs(rng, n, m, width):
    lines = ['c random formula', 'p cnf {} {}'.format(n, m)]
    for _ in range(m):
        w = rng.randint(0, min(width, n))
        vs = rng.sample(range(1, n + 1), w)
        lits = [v * rng.choice([-1, 1]) for v in vs]
        # sometimes split a clause over two lines
        if len(lits) > 1 and rng.random() < 0.3:
            lines.append(" ".join(map(str, lits[:1])))
            lines.append(" ".join(map(str, lits[1:])) + " 0")
        else:
            lines.append(" ".join(map(str, lits + [0])))
    return "\n".join(lines) + "\n"


GOOD = [
    "p cnf 0 0\n",
    "p cnf 5 0\n",
    "p cnf 0 1\n0\n",
    "c comment\n\np cnf 3 2\n1 -2 0\n3 0\n",
    "p cnf 4 3\n1 2\n3 0 -4 0 0\n",
    "p cnf 10 2\n-10 0 1 2 3 4 5 6 7 8 9 0\n",
    "c only\np cnf 2 4\n1 2 0\n-1 2 0\n1 -2 0\n-1 -2 0\n",
]
BAD = [
    "",
    "c nothing\n",
    "1 2 0\n",
    "p cnf 3\n",
    "p cnf -1 2\n",
    "p cnf 3 2\n1 2 0\n",
    "p cnf 3 1\n1 2 0\n3 0\n",
    "p cnf 3 1\n1 4 0\n",
    "p cnf 3 1\n1 x 0\n",
    "p cnf 3 1\n1 2\n",
    "p cnf 3 1\np cnf 3 1\n1 0\n",
    "p cnf a b\n",
]
rng = random.Random(20240812)
for n, m, w in [(1, 1, 1), (3, 5, 3), (7, 12, 4), (12, 30, 5), (20, 40, 7), (2, 8, 2)]:
    GOOD.append(random_dimacs(rng, n, m, w))

TEXTS = GOOD + BAD

for idx, text in enumerate(TEXTS):
    fname = os.path.join(TMP, 'input{}.cnf'.format(idx))
    with open(fname, 'w', encoding='utf-8') as fh:
        fh.write(text)

    for cls in (CNF, OPB):
        cname = cls.__name__
        # 1. StringIO: no name attribute
        attempt((idx, cname, 'stringio'),
                lambda: describe(from_dimacs_file(cls, io.StringIO(text))))
        # 2. file name
        attempt((idx, cname, 'filename'),
                lambda: describe(from_dimacs_file(cls, fname)))
        # 3. real file object
        def realfile():
            with open(fname, 'r', encoding='utf-8') as fh:
                return describe(from_dimacs_file(cls, fh))
        attempt((idx, cname, 'fileobj'), realfile)
        # 4. stdin
        def fromstdin():
            old = sys.stdin
            sys.stdin = io.StringIO(text)
            try:
                return describe(from_dimacs_file(cls, None))
            finally:
                sys.stdin = old
        attempt((idx, cname, 'stdin'), fromstdin)
        def fromstdin_default():
            old = sys.stdin
            sys.stdin = io.StringIO(text)
            try:
                return describe(from_dimacs_file(cls))
            finally:
                sys.stdin = old
        attempt((idx, cname, 'stdin-default'), fromstdin_default)
        # 5. custom readers
        attempt((idx, cname, 'nameless'),
                lambda: describe(from_dimacs_file(cls, NamelessReader(text))))
        attempt((idx, cname, 'named'),
                lambda: describe(from_dimacs_file(cls, NamedReader(text, 'my name.cnf'))))
        attempt((idx, cname, 'named-none'),
                lambda: describe(from_dimacs_file(cls, NamedReader(text, None))))
        attempt((idx, cname, 'named-int'),
                lambda: describe(from_dimacs_file(cls, NamedReader(text, 42))))
        attempt((idx, cname, 'keyerror-name'),
                lambda: describe(from_dimacs_file(cls, KeyErrorName(text))))
        attempt((idx, cname, 'attrerror-name'),
                lambda: describe(from_dimacs_file(cls, AttrErrorName(text))))
        attempt((idx, cname, 'getattr-name'),
                lambda: describe(from_dimacs_file(cls, GetattrName(text))))

    # 6. command line tools
    for tool, cli in (('cnfgen', cnfgen_cli), ('pbgen', pbgen_cli)):
        def run_file():
            return cli([tool, '-q', 'dimacs', fname], mode='string')
        attempt((idx, tool, 'cli-file'), run_file)

        def run_file_verbose():
            F = cli([tool, 'dimacs', fname], mode='formula')
            return describe(F)
        attempt((idx, tool, 'cli-file-formula'), run_file_verbose)

        def run_stdin():
            old = sys.stdin
            sys.stdin = io.StringIO(text)
            try:
                err = io.StringIO()
                with contextlib.redirect_stderr(err):
                    F = cli([tool, 'dimacs'], mode='formula')
                return describe(F), err.getvalue()
            finally:
                sys.stdin = old
        attempt((idx, tool, 'cli-stdin'), run_stdin)
    attempt((idx, 'cnfgen-opb', 'cli-file'),
            lambda: cnfgen_cli(['cnfgen', '-q', '-of', 'opb', 'dimacs', fname], mode='string'))

# Wrong kinds of sources
for cls in (CNF, OPB):
    attempt((cls.__name__, 'missing-file'),
            lambda: from_dimacs_file(cls, os.path.join(TMP, 'does-not-exist.cnf')))
    attempt((cls.__name__, 'int-source'), lambda: from_dimacs_file(cls, 12))
    attempt((cls.__name__, 'list-source'), lambda: from_dimacs_file(cls, ["p cnf 1 1", "1 0"]))
    attempt((cls.__name__, 'bytes-source'), lambda: from_dimacs_file(cls, b"p cnf 1 1\n1 0\n"))

shutil.rmtree(TMP, ignore_errors=True)
print(hashlib.sha256("\n".join(LOG).encode('utf-8')).hexdigest())
