#!/usr/bin/env python
"""Equivalence check for cnfgen/clitools/kthlist2pebbling.py (cli and main):
all three modes, all transformations, error paths, and comparison with 'cnfgen peb'."""
import sys, os, io, hashlib, random, tempfile
sys.path.insert(0, os.getcwd())

from cnfgen.clitools import kthlist2pebbling as k2p_cli, cnfgen as cnfgen_cli
k2pmod = sys.modules['cnfgen.clitools.kthlist2pebbling']
from cnfgen.clitools.cmdline import redirect_stdin

out = []

def scrub(s):
    if isinstance(s, str):
        return "\n".join(l for l in s.split("\n") if not l.startswith("c generator:"))
    return s

def rec(*xs):
    out.append(repr(tuple(scrub(x) for x in xs)))

def formula_summary(F):
    return (type(F).__name__, F.number_of_variables(), F.number_of_clauses(),
            list(F.all_variable_labels()), [tuple(c) for c in F.clauses()],
            scrub(F.to_dimacs()))

GRAPHS = {
    'unit': "1\n1 : 0\n",
    'line': "3\n1 : 0\n2 : 1 0\n3 : 2 0\n",
    'pyramid': "3\n1 : 0\n2 : 0\n3 : 1 2 0\n",
    'pyr2': "6\n1 : 0\n2 : 0\n3 : 0\n4 : 1 2 0\n5 : 2 3 0\n6 : 4 5 0\n",
    'comments': "c a comment\n4\n1 : 0\n2 : 0\n3 : 1 0\n4 : 1 2 3 0\n",
    'twosinks': "3\n1 : 0\n2 : 1 0\n3 : 1 0\n",
    'empty': "",
    'zero': "0\n",
    'garbage': "hello world\n",
    'badorder': "2\n1 : 2 0\n2 : 0\n",
    'short': "3\n1 : 0\n",
    'noterm': "2\n1 : 0\n2 : 1\n",
}
TRANSF = [[], ['none'], ['or', '2'], ['xor', '2'], ['lift', '3'], ['flip'], ['eq', '2'],
          ['neq', '3'], ['maj', '3'], ['ite'], ['one', '2'], ['atleast', '3', '2'],
          ['atmost', '3', '1'], ['exact', '3', '2'], ['anybut', '3', '1'],
          ['shuffle'], ['shuffle', '-p', '-c'], ['xorcomp', '4', '2'], ['majcomp', '5', '3'],
          ['bogus'], ['or'], ['or', 'x'], ['or', '-1'], ['xor', '2', '3', '4']]

import cnfgen.clitools.msg as msgmod

def run_cli(argv, text, mode):
    random.seed(1234)
    msgmod._prefix = ''   # msg_prefix() is not restored when an exception escapes
    stdout, stderr = io.StringIO(), io.StringIO()
    old = sys.stdout, sys.stderr
    sys.stdout, sys.stderr = stdout, stderr
    res = None
    try:
        with redirect_stdin(io.StringIO(text)):
            try:
                res = k2p_cli(list(argv), mode=mode)
                status = 'OK'
            except SystemExit as e:
                status = ('EXIT', e.code)
            except BaseException as e:  # noqa
                status = ('EXC', type(e).__name__, str(e))
    finally:
        sys.stdout, sys.stderr = old
    if mode == 'formula' and status == 'OK':
        res = formula_summary(res)
    return status, res, stdout.getvalue(), stderr.getvalue()

for gname, text in GRAPHS.items():
    for tr in TRANSF:
        if gname not in ('pyramid', 'pyr2', 'line') and tr not in ([], ['none'], ['xor', '2'], ['bogus']):
            continue
        for quiet in ([], ['-q']):
            for mode in ('formula', 'string', 'output', 'whatever'):
                argv = ['kthlist2pebbling'] + quiet + tr
                rec('cli', gname, tuple(argv), mode, *run_cli(argv, text, mode))

# non-string argv tokens are tolerated
rec('cli-int', *run_cli(['kthlist2pebbling', '-q', 'xor', 2], GRAPHS['pyramid'], 'string'))
rec('cli-help', *run_cli(['kthlist2pebbling', '-h'], GRAPHS['pyramid'], 'string'))
rec('cli-badopt', *run_cli(['kthlist2pebbling', '--nope'], GRAPHS['pyramid'], 'string'))

# main(): exit codes and messages, output to stdout
def run_main(argv, text):
    random.seed(1234)
    msgmod._prefix = ''
    stdout, stderr = io.StringIO(), io.StringIO()
    errget = []
    _close = stderr.close
    def fakeclose():
        errget.append(stderr.getvalue())
        _close()
    stderr.close = fakeclose
    old = sys.stdout, sys.stderr, sys.stdin, sys.argv
    sys.stdout, sys.stderr, sys.stdin, sys.argv = stdout, stderr, io.StringIO(text), list(argv)
    try:
        try:
            k2pmod.main()
            status = 'RETURN'
        except SystemExit as e:
            status = ('EXIT', e.code)
        except BaseException as e:  # noqa
            status = ('EXC', type(e).__name__, str(e))
    finally:
        sys.stdout, sys.stderr, sys.stdin, sys.argv = old
    err = errget[0] if errget else stderr.getvalue()
    return status, stdout.getvalue(), err, bool(errget)

import signal
oldhandler = signal.getsignal(signal.SIGINT)
for gname, text in GRAPHS.items():
    for tr in ([], ['-q'], ['-q', 'xor', '2'], ['bogus'], ['lift', '2']):
        rec('main', gname, tuple(tr), *run_main(['kthlist2pebbling'] + tr, text))
signal.signal(signal.SIGINT, oldhandler)

# files: -i / -o and comparison with `cnfgen peb` on the same file
with tempfile.TemporaryDirectory() as d:
    for gname in ('unit', 'line', 'pyramid', 'pyr2', 'comments', 'badorder'):
        gpath = os.path.join(d, gname + '.kthlist')
        opath = os.path.join(d, gname + '.cnf')
        with open(gpath, 'w') as f:
            f.write(GRAPHS[gname])
        for tr in ([], ['xor', '2'], ['or', '3'], ['lift', '2'], ['shuffle']):
            argv = ['kthlist2pebbling', '-q', '-i', gpath, '-o', opath] + tr
            if os.path.exists(opath):
                os.unlink(opath)
            st = run_cli(argv, "", 'output')
            try:
                with open(opath) as f:
                    content = f.read()
            except OSError as e:
                content = 'NOFILE'
            rec('file', gname, tuple(tr), st, content)
            a = run_cli(['kthlist2pebbling', '-q', '-i', gpath] + tr, "", 'string')
            random.seed(1234)
            try:
                Tchain = (['-T'] + tr) if tr else []
                b = cnfgen_cli(['cnfgen', '-q', 'peb', gpath] + Tchain, mode='string')
            except BaseException as e:  # noqa
                b = ('EXC', type(e).__name__, str(e).replace(d, '<tmp>'))
            rec('vs-peb', gname, tuple(tr), a[0], a[1], b, a[1] == b)
    st = run_cli(['kthlist2pebbling', '-i', os.path.join(d, 'missing.kthlist')], "", 'string')
    rec('missing-input', tuple(str(x).replace(d, '<tmp>') for x in st))

print(hashlib.sha256("\n".join(out).encode('utf-8')).hexdigest())
