#!/usr/bin/env python
"""Equivalence script for property C13 (random k-CNF / k-XOR).

Exercises the command line helpers for `randkcnf` and `randkxor`
(RandCmdHelper / RandXorHelper . build_formula) both directly and
through the `cnfgen` command line, with and without planting, on
boundary values of k, n, m and on error paths.  Prints one SHA256
digest of everything observable (formulas, text output, error messages,
exit codes, state of the random stream).
"""
import argparse
import contextlib
import hashlib
import io
import random
import subprocess
import sys
import warnings

warnings.simplefilter('ignore')
sys.path.insert(0, '.')

from cnfgen.formula.cnf import CNF
from cnfgen.clihelpers.simple_helpers import RandCmdHelper, RandXorHelper
from cnfgen.clitools.cnfgen import cli

H = hashlib.sha256()
random.seed(31337)


def emit(*items):
    H.update((" ".join(repr(x) for x in items) + "\n").encode('utf-8'))


def attempt(label, fn):
    try:
        res = fn()
        emit(label, 'OK', res)
    except BaseException as e:
        emit(label, 'EXC', type(e).__name__, str(e))
    emit(label, 'rnd', random.random())


class MyCNF(CNF):
    """To check that formula_class is honoured"""


def describe(F):
    return (type(F).__name__, F.number_of_variables(), len(F), list(F),
            dict(F.header), F.to_dimacs())


KNM = [(1, 1, 0), (1, 1, 1), (1, 1, 2), (1, 1, 3), (1, 4, 4), (1, 4, 5),
       (1, 4, 8), (1, 4, 9), (2, 2, 1), (2, 2, 2), (2, 2, 3), (2, 2, 4),
       (2, 2, 5), (2, 3, 3), (2, 3, 6), (2, 3, 7), (2, 3, 9), (2, 3, 10),
       (2, 3, 12), (2, 3, 13), (3, 6, 10), (3, 6, 20), (3, 6, 21), (3, 6, 40),
       (3, 6, 41), (3, 6, 140), (3, 6, 141), (3, 6, 160), (3, 6, 161),
       (3, 2, 0), (3, 2, 1), (4, 4, 1), (4, 4, 2), (4, 4, 3), (4, 4, 15),
       (4, 4, 16), (4, 4, 17), (2, 9, 30), (5, 12, 50), (3, 30, 100)]

# ---- 1. build_formula called directly on a namespace
for helper in (RandCmdHelper, RandXorHelper):
    emit(helper.__name__, helper.name, helper.description)
    for k, n, m in KNM + [(0, 3, 1), (0, 0, 0), (2, 0, 1), (2, 5, -1),
                          (-1, 3, 1), (1.5, 3, 1), ('2', 3, 1), (2, '3', 1)]:
        for plant in (False, True, 0, 1, None, 'yes', []):
            for fc in (CNF, MyCNF):
                args = argparse.Namespace(k=k, n=n, m=m, plant=plant)
                random.seed("{}-{}-{}".format(k, n, m))
                attempt(('bf', helper.__name__, k, n, m, plant, fc.__name__),
                        lambda: describe(helper.build_formula(args, fc)))
    # missing attributes
    for ns in (argparse.Namespace(k=2, n=3, m=1),
               argparse.Namespace(k=2, n=3, plant=True),
               argparse.Namespace(n=3, m=1, plant=False),
               argparse.Namespace(k=2, m=1, plant=True),
               argparse.Namespace()):
        random.seed(5)
        attempt(('bf-missing', helper.__name__, sorted(vars(ns))),
                lambda: describe(helper.build_formula(ns, CNF)))
    # bad formula class
    random.seed(5)
    attempt(('bf-badclass', helper.__name__),
            lambda: helper.build_formula(
                argparse.Namespace(k=2, n=3, m=1, plant=True), None))
    # parser setup
    p = argparse.ArgumentParser(prog='PROG')
    helper.setup_command_line(p)
    emit(helper.__name__, p.usage, p.description)
    for line in (['2', '3', '1'], ['2', '3', '1', '-p'], ['--plant', '2', '3', '1'],
                 ['0', '3', '1'], ['2', '0', '1'], ['2', '3', '-1'], ['2', '3'],
                 ['a', '3', '1']):
        def parse():
            err = io.StringIO()
            with contextlib.redirect_stderr(err):
                try:
                    return sorted(vars(p.parse_args(line)).items())
                except SystemExit as e:
                    return ('EXIT', e.code, err.getvalue())
        attempt(('parse', helper.__name__, line), parse)


# ---- 2. through cnfgen's cli()
def run_cli(argv, mode):
    out, err = io.StringIO(), io.StringIO()
    with contextlib.redirect_stdout(out), contextlib.redirect_stderr(err):
        try:
            res = cli(argv, mode=mode)
            if mode == 'formula':
                res = describe(res)
            status = ('OK', res)
        except SystemExit as e:
            status = ('EXIT', e.code)
        except Exception as e:
            status = ('EXC', type(e).__name__, str(e))
    return status, out.getvalue(), err.getvalue()


for fam in ('randkcnf', 'randkxor'):
    for idx, (k, n, m) in enumerate(KNM[::2] + [(0, 3, 1), (2, 0, 1), (2, 5, -1), ('x', 5, 1)]):
        for plant in ([], ['-p'] if idx % 2 else ['--plant']):
            for seed in ('1', 'hello'):
                for fmt in ([], ['-of', 'opb'] if idx % 3 else ['-of', 'latex']):
                    argv = ['cnfgen', '-q', '--seed', seed] + fmt + \
                        [fam, k, n, m] + plant
                    emit(('cli', argv), run_cli(argv, 'string'))
                    emit(('cli-rnd', argv), random.random())
            argv = ['cnfgen', '--seed', '5', fam] + plant + [k, n, m]
            emit(('cli-f', argv), run_cli(argv, 'formula'))
            emit(('cli-f-rnd', argv), random.random())
            # with a transformation afterwards
            argv = ['cnfgen', '-q', '--seed', '8', fam, k, n, m] + plant + \
                ['-T', 'shuffle']
            emit(('cli-T', argv), run_cli(argv, 'string'))
            emit(('cli-T-rnd', argv), random.random())
    for argv in (['cnfgen', fam], ['cnfgen', fam, '-h'], ['cnfgen', fam, '3'],
                 ['cnfgen', fam, '3', '4'], ['cnfgen', fam, '3', '4', '5', '6'],
                 ['cnfgen', fam, '3', '4', '5', '--plant', '--plant'],
                 ['cnfgen', fam, '3', '4', '5', '--planted']):
        emit(('cli-bad', argv), run_cli(argv, 'output'))

# ---- 3. as a real subprocess (exit codes, stdout, stderr)
for fam in ('randkcnf', 'randkxor'):
    for rest in (['3', '6', '10'], ['3', '6', '10', '-p'], ['3', '2', '1'],
                 ['3', '6', '500', '-p'], ['3', '6', '161'], ['2', '3', '7', '-p'],
                 ['1', '1', '1', '--plant']):
        cmd = [sys.executable, '-W', 'ignore', '-c',
               'from cnfgen.clitools.cnfgen import main; main()',
               '-q', '--seed', '12', fam] + rest
        r = subprocess.run(cmd, capture_output=True, text=True)
        emit(('proc', fam, rest), r.returncode, r.stdout, r.stderr)

print(H.hexdigest())
