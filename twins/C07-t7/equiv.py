"""Equivalence script for C07/t7: multipartite random graphs (`gnp N p t`).

Calls cnfgen.clitools.graph_build.multipartite_tnp directly, builds graphs
through make_graph_from_spec, and runs cnfgen/pbgen on command lines with
t-partite gnp graph arguments on many seeds and prints one SHA256 of everything observable: the full output
(header included), exceptions and their messages, and the state of the random
generator after every run.
"""
import sys
import os
sys.path.insert(0, os.getcwd())
import warnings
warnings.simplefilter('ignore')

import io
import re
import random
import hashlib
import contextlib
from types import SimpleNamespace

from cnfgen.clitools.cnfgen import cli as cnfgen_cli
from cnfgen.clitools.pbgen import cli as pbgen_cli
from cnfgen.clitools.graph_build import multipartite_tnp, obtain_gnp
from cnfgen.clitools import make_graph_from_spec

H = hashlib.sha256()
VERSION = re.compile(r'CNFgen \([^)]*\)')


def record(*items):
    for x in items:
        H.update(repr(x).encode('utf-8'))
        H.update(b'\x00')


def run(tool, argv):
    out, err = io.StringIO(), io.StringIO()
    cli = cnfgen_cli if tool == 'cnfgen' else pbgen_cli
    result = None
    try:
        with contextlib.redirect_stdout(out), contextlib.redirect_stderr(err):
            cli([tool] + [str(a) for a in argv], mode='output')
        result = 'ok'
    except SystemExit as e:
        result = ('SystemExit', e.code)
    except BaseException as e:
        result = (type(e).__name__, str(e))
    record(tool, argv, result,
           VERSION.sub('CNFgen (V)', out.getvalue()),
           VERSION.sub('CNFgen (V)', err.getvalue()),
           random.getstate())



def dump(G):
    return (type(G).__name__, G.name, G.order(), G.number_of_edges(),
            list(G.edges()), [list(G.neighbors(v)) for v in G.vertices()])


def call(f, *args, **kw):
    try:
        res = dump(f(*args, **kw))
    except BaseException as e:
        res = (type(e).__name__, str(e))
    record(f.__name__, args, sorted(kw.items()), res, random.getstate())


PROBS = [0, 0.0, 1, 1.0, 0.5, 0.1, 0.93, 1e-9, 2, -1]
for seed in [0, 1, 31337]:
    for t in [0, 1, 2, 3, 5]:
        for n in [0, 1, 2, 4]:
            for p in PROBS:
                random.seed(seed)
                call(multipartite_tnp, t, n, p)
                random.seed(seed)
                call(multipartite_tnp, t, n, p, shuffleblocks=True)
                random.seed(seed)
                call(multipartite_tnp, t, n, p, True)
    # two graphs from the same stream
    random.seed(seed)
    call(multipartite_tnp, 3, 3, 0.5)
    call(multipartite_tnp, 2, 5, 0.4, shuffleblocks=True)
    call(multipartite_tnp, 4, 2, 0.6)

# larger ones
random.seed(8)
call(multipartite_tnp, 4, 9, 0.3)
call(multipartite_tnp, 7, 3, 0.8, shuffleblocks=True)
call(multipartite_tnp, 2, 30, 0.05)

SPECS = [['gnp', 4, '.5', 2], ['gnp', 3, '.5', 3], ['gnp', 1, '.5', 4],
         ['gnp', 2, 1, 3], ['gnp', 2, 0, 3], ['gnp', 5, '.5', 1],
         ['gnp', 5, '.5'], ['gnp', 3, '.4', 0], ['gnp', 3, '.4', -2],
         ['gnp', 0, '.4', 2], ['gnp', 3, '1.4', 2], ['gnp', 3, '.4', 'x'],
         ['gnp', 3, '.4', 2, 5], ['gnp', 3], ['gnp'],
         ['gnp', 3, '.6', 3, 'plantclique', 3],
         ['gnp', 3, '.3', 2, 'addedges', 3],
         ['gnp', 3, '.6', 2, 'splitedges', 2],
         ['gnp', 2, '.5', 3, 'plantclique', 2, 'addedges', 1]]

for seed in [0, 9]:
    for spec in SPECS:
        random.seed(seed)
        call(make_graph_from_spec, 'simple', [str(x) for x in spec])
        random.seed(seed)
        call(obtain_gnp, {'args': [str(x) for x in spec[1:4]]})

for seed in [0, 3, -12]:
    for spec in SPECS:
        run('cnfgen', ['--seed', seed, 'kclique', 3] + spec)
        run('cnfgen', ['--seed', seed, 'tseitin', 'random'] + spec)
    for spec in SPECS[:8]:
        run('cnfgen', ['--seed', seed, 'kcolor', 3] + spec)
        run('cnfgen', ['-q', '--seed', seed, 'domset', 2] + spec)
        run('cnfgen', ['--seed', seed, 'op'] + spec)
        run('cnfgen', ['--seed', seed, 'subsetcard'] + spec)
        run('pbgen', ['--seed', seed, 'tseitin', 'randomodd'] + spec)
        run('pbgen', ['--seed', seed, 'kclique', 2] + spec)
        run('cnfgen', ['--seed', seed, 'ramlb', 3, 3] + spec)
        run('cnfgen', ['--seed', seed, 'subgraph', '-G'] + spec +
            ['-H', 'gnp', 2, '.9', 2])

print(H.hexdigest())
