#!/usr/bin/env python
"""Equivalence script for t15: cnfgen.utils.parsedimacs.from_dimacs_file

Reads DIMACS from file objects (with / without a .name attribute, with odd
.name behaviour), from file names and from stdin, valid and damaged texts;
then feeds the result to Shuffle / cnfshuffle. Prints one SHA256 digest.
"""
import hashlib
import io
import os
import random
import sys
import tempfile

sys.path.insert(0, os.getcwd())

from cnfgen.formula.cnf import CNF
from cnfgen.formula.basecnf import BaseCNF
from cnfgen.utils.parsedimacs import from_dimacs_file, parse_dimacs
from cnfgen.transformations.shuffle import Shuffle
from cnfgen.clitools.cnfshuffle import cli as shufflecli

LOG = []


def log(*items):
    LOG.append(repr(items))


def describe(F):
    return (type(F).__name__, F.number_of_variables(), F.number_of_clauses(),
            [list(c) for c in F], sorted(F.header.items()) if hasattr(F, 'header') else None)


class NoName:
    """File like object without a name"""
    def __init__(self, text):
        self.text = text

    def readlines(self):
        return self.text.splitlines(True)


class Named(NoName):
    def __init__(self, text, name):
        NoName.__init__(self, text)
        self.name = name


class RaisingName(NoName):
    """`name` raises something which is not an AttributeError"""
    @property
    def name(self):
        raise KeyError('no name here')


class AttrErrName(NoName):
    """`name` is a property raising AttributeError"""
    @property
    def name(self):
        raise AttributeError('hidden')


class GetattrName(NoName):
    def __getattr__(self, key):
        if key == 'name':
            return 'dynamic-name'
        raise AttributeError(key)


TEXTS = [
    "p cnf 0 0\n",
    "p cnf 3 0\n",
    "p cnf 0 1\n0\n",
    "p cnf 3 2\n1 -2 0\n3 0\n",
    "c comment\nc another\np cnf 4 3\n1 2\n 3 0 -4\n0 0\n",
    "p cnf 5 4\n1 -1 0\n2 2 0\n-5 4 3 0\n0\n",
    "p  cnf   2  2 \n\n1 0\n\n-2 0\n",
    # damaged
    "",
    "c only comments\n",
    "1 2 0\n",
    "p cnf 3\n",
    "p cnf -1 2\n",
    "p cnf a b\n",
    "p cnf 2 1\np cnf 2 1\n1 0\n",
    "p cnf 2 1\n1 3 0\n",
    "p cnf 2 1\n1 x 0\n",
    "p cnf 2 1\n1 2\n",
    "p cnf 2 2\n1 2 0\n",
    "p cnf 2 1\n1 0\n2 0\n",
    "p cnf 2 1\n1 0\n-3 0\n",
]

rnd = random.Random(20240915)
for _ in range(25):
    n = rnd.randint(1, 9)
    m = rnd.randint(0, 12)
    lines = ["c random formula", "p cnf {} {}".format(n, m)]
    for _ in range(m):
        w = rnd.randint(0, 5)
        lits = [rnd.choice([-1, 1]) * rnd.randint(1, n) for _ in range(w)]
        lines.append(" ".join(str(x) for x in lits + [0]))
    TEXTS.append("\n".join(lines) + "\n")


def attempt(tag, thunk):
    try:
        res = thunk()
        log(tag, 'ok', describe(res))
        return res
    except BaseException as e:  # noqa
        log(tag, 'exc', type(e).__name__, str(e),
            type(e.__cause__).__name__ if e.__cause__ is not None else None)
        return None


tmpdir = tempfile.mkdtemp(prefix='t15equiv')
try:
    for idx, text in enumerate(TEXTS):
        makers = [
            ('stringio', lambda: io.StringIO(text)),
            ('noname', lambda: NoName(text)),
            ('named', lambda: Named(text, 'some file.cnf')),
            ('named-int', lambda: Named(text, 42)),
            ('named-none', lambda: Named(text, None)),
            ('attrerr', lambda: AttrErrName(text)),
            ('raising', lambda: RaisingName(text)),
            ('getattr', lambda: GetattrName(text)),
        ]
        for mname, mk in makers:
            for cls in (CNF, BaseCNF):
                attempt(('obj', idx, mname, cls.__name__),
                        lambda: from_dimacs_file(cls, mk()))
            attempt(('CNF.from_file', idx, mname), lambda: CNF.from_file(mk()))

        # by file name (relative name so that description is stable)
        fname = os.path.join(tmpdir, 'f{}.cnf'.format(idx))
        with open(fname, 'w', encoding='utf-8') as fh:
            fh.write(text)
        old = os.getcwd()
        os.chdir(tmpdir)
        try:
            attempt(('byname', idx), lambda: from_dimacs_file(CNF, 'f{}.cnf'.format(idx)))
            with open('f{}.cnf'.format(idx), 'r', encoding='utf-8') as fh:
                attempt(('byhandle', idx), lambda: from_dimacs_file(CNF, fh))
        finally:
            os.chdir(old)

        # stdin
        saved = sys.stdin
        sys.stdin = io.StringIO(text)
        try:
            attempt(('stdin', idx), lambda: from_dimacs_file(CNF, None))
        finally:
            sys.stdin = saved
        saved = sys.stdin
        sys.stdin = io.StringIO(text)
        try:
            attempt(('stdin-default', idx), lambda: CNF.from_file())
        finally:
            sys.stdin = saved

        # partial consumption state after an error: parse_dimacs directly
        try:
            log('parse', idx, list(parse_dimacs(io.StringIO(text))))
        except ValueError as e:
            log('parse', idx, 'exc', str(e))

        # property: shuffle the formula which was read
        F = attempt(('read', idx), lambda: from_dimacs_file(CNF, Named(text, 'in.cnf')))
        if F is not None:
            for seed in (0, 1, 'abc'):
                for switches in ([], ['-p'], ['-v'], ['-c'], ['-p', '-v', '-c'], ['-q', '-v']):
                    random.seed(seed)
                    G = Shuffle(F,
                                'fixed' if '-p' in switches else 'shuffle',
                                'fixed' if '-v' in switches else 'shuffle',
                                'fixed' if '-c' in switches else 'shuffle')
                    log('shuffled', idx, seed, switches, describe(G))
                    old = os.getcwd()
                    os.chdir(tmpdir)
                    try:
                        argv = ['cnfshuffle', '-S', seed, '-i', 'f{}.cnf'.format(idx)] + switches
                        attempt(('tool-formula', idx, seed, switches),
                                lambda: shufflecli(argv, mode='formula'))
                        try:
                            log('tool-string', idx, seed, switches, shufflecli(argv, mode='string'))
                        except BaseException as e:  # noqa
                            log('tool-string', idx, seed, switches, type(e).__name__, str(e))
                    finally:
                        os.chdir(old)

    # missing file
    attempt(('missing',), lambda: from_dimacs_file(CNF, os.path.join('nonexistent-dir-t15', 'x.cnf')))
    # weird argument types
    for bad in (12, 3.5, b'bytes', ['p cnf 1 1', '1 0']):
        attempt(('badarg', repr(bad)), lambda: from_dimacs_file(CNF, bad))
finally:
    for f in os.listdir(tmpdir):
        os.unlink(os.path.join(tmpdir, f))
    os.rmdir(tmpdir)

print(hashlib.sha256("\n".join(LOG).encode('utf-8')).hexdigest())
