#!/usr/bin/env python
"""Equivalence script for the refactoring of
cnfgen.clihelpers.pebbling_helpers.StoneCmdHelper.build_formula
(`cnfgen stone <stones> <dag> [--sparse <degree>]`)."""
import hashlib
import io
import os
import random
import sys
import tempfile
from argparse import Namespace
from contextlib import redirect_stdout, redirect_stderr

sys.path.insert(0, '.')

from cnfgen.clitools import cnfgen as cnfgen_cli
from cnfgen.clihelpers.pebbling_helpers import StoneCmdHelper
from cnfgen.formula.cnf import CNF
from cnfgen.graphs import DirectedGraph, dag_pyramid, dag_path, dag_complete_binary_tree

OUT = []


def rec(*items):
    OUT.append(repr(items))


def describe_exc(e):
    chain = []
    seen = 0
    while e is not None and seen < 5:
        chain.append((type(e).__name__, str(e)))
        e = e.__cause__
        seen += 1
    return chain


def run_cli(cmd, stdin_text=None):
    out = io.StringIO()
    err = io.StringIO()
    old_stdin = sys.stdin
    # known state of the global generator (an explicit --seed overrides it)
    random.seed(12345)
    if stdin_text is not None:
        sys.stdin = io.StringIO(stdin_text)
    try:
        with redirect_stdout(out), redirect_stderr(err):
            r = cnfgen_cli(cmd, mode='string')
        rec('cli', cmd, 'ok', r, out.getvalue(), err.getvalue(), random.random())
    except SystemExit as e:
        rec('cli', cmd, 'exit', e.code, out.getvalue(), err.getvalue())
    except Exception as e:
        rec('cli', cmd, 'exc', describe_exc(e), out.getvalue(), err.getvalue())
    finally:
        sys.stdin = old_stdin


def test_cli():
    dags = [['pyramid', 0], ['pyramid', 1], ['pyramid', 2], ['tree', 0], ['tree', 1],
            ['tree', 2], ['path', 0], ['path', 1], ['path', 3]]
    for dag in dags:
        for s in [1, 2, 3]:
            run_cli(['cnfgen', '-q', 'stone', s] + dag)
            for deg in [1, 2, 3, 4]:
                for seed in [0, 7]:
                    run_cli(['cnfgen', '-q', '--seed', seed, 'stone', s] + dag + ['--sparse', deg])
    # option before / verbose header / other output formats
    run_cli(['cnfgen', '--seed', 11, 'stone', 4, '--sparse', 2, 'pyramid', 2])
    run_cli(['cnfgen', '--seed', 11, 'stone', 4, 'pyramid', 2])
    run_cli(['cnfgen', '-q', '--seed', 5, '-of', 'opb', 'stone', 3, 'path', 2, '--sparse', 2])
    run_cli(['cnfgen', '-q', '--seed', 5, '-of', 'latex', 'stone', 3, 'tree', 1, '--sparse', 3])
    run_cli(['cnfgen', '-q', '--seed', 5, '-of', 'latex', 'stone', 2, 'tree', 1])
    # error paths
    run_cli(['cnfgen', 'stone', 2, 'pyramid', 2, '--sparse', 3])
    run_cli(['cnfgen', 'stone', 1, 'path', 0, '--sparse', 2])
    run_cli(['cnfgen', 'stone', 0, 'pyramid', 2])
    run_cli(['cnfgen', 'stone', 2, 'pyramid', 2, '--sparse', 0])
    run_cli(['cnfgen', 'stone', 2, 'pyramid', 2, '--sparse', -1])
    run_cli(['cnfgen', 'stone', 2, 'pyramid', 2, '--sparse', 'x'])
    run_cli(['cnfgen', 'stone', 2, 'pyramid', 2, '--sparse'])
    run_cli(['cnfgen', 'stone', 'a', 'pyramid', 2])
    run_cli(['cnfgen', 'stone', 2])
    run_cli(['cnfgen', 'stone'])
    run_cli(['cnfgen', 'stone', 2, 'pyramid'])
    run_cli(['cnfgen', 'stone', 2, 'nosuchfile.kthlist'])
    # graphs from stdin: a dag, a dag with no vertices, and a cyclic graph
    run_cli(['cnfgen', '-q', '--seed', 2, 'stone', 2, 'kthlist', '-', '--sparse', 1],
            "3\n1 : 0\n2 : 1 0\n3 : 1 2 0\n")
    run_cli(['cnfgen', '-q', 'stone', 2, 'kthlist', '-'],
            "3\n1 : 0\n2 : 1 0\n3 : 1 2 0\n")
    run_cli(['cnfgen', '-q', 'stone', 2, 'kthlist', '-'], "0\n")
    run_cli(['cnfgen', '-q', '--seed', 1, 'stone', 2, 'kthlist', '-', '--sparse', 2], "0\n")
    run_cli(['cnfgen', '-q', 'stone', 2, 'dimacs', '-', '--sparse', 1],
            "p edge 3 3\ne 1 2\ne 2 3\ne 3 1\n")
    run_cli(['cnfgen', '-q', 'stone', 2, 'dimacs', '-'],
            "p edge 3 3\ne 1 2\ne 2 3\ne 3 1\n")


def formula_obs(F):
    return (F.number_of_variables(), list(F.clauses()) if hasattr(F, 'clauses') else list(F),
            F.to_dimacs(), sorted((str(k), str(v)) for k, v in F.header.items()),
            list(F.all_variable_labels()))


def test_direct():
    cyc = DirectedGraph(3)
    cyc.add_edge(1, 2)
    cyc.add_edge(2, 1)
    graphs = [dag_pyramid(0), dag_pyramid(2), dag_path(2), dag_complete_binary_tree(1),
              DirectedGraph(0), DirectedGraph(2), cyc]
    rnd = random.Random(99)
    for D in graphs:
        for s in [0, 1, 2, 3]:
            spaces = [Namespace(D=D, s=s),
                      Namespace(D=D, s=s, sparse=None)]
            for deg in [0, 1, 2, 3, 5]:
                spaces.append(Namespace(D=D, s=s, sparse=deg))
            for ns in spaces:
                seed = rnd.randint(0, 1000)
                random.seed(seed)
                try:
                    F = StoneCmdHelper.build_formula(ns, formula_class=CNF)
                    rec('direct', D.name, D.number_of_vertices(), s, getattr(ns, 'sparse', 'missing'),
                        'ok', formula_obs(F), random.random())
                except Exception as e:
                    rec('direct', D.name, D.number_of_vertices(), s, getattr(ns, 'sparse', 'missing'),
                        'exc', describe_exc(e), random.random())
    # missing attributes
    for ns in [Namespace(), Namespace(D=dag_path(1)), Namespace(s=2),
               Namespace(D=dag_path(1), sparse=1), Namespace(D='notagraph', s=2),
               Namespace(D='notagraph', s=2, sparse=1), Namespace(D=dag_path(1), s='x', sparse=1),
               Namespace(D=dag_path(1), s=2, sparse='x'), Namespace(D=dag_path(1), s=2, sparse=False),
               Namespace(D=dag_path(1), s=2, sparse=True), Namespace(D=dag_path(1), s=2, sparse=0)]:
        random.seed(4)
        try:
            F = StoneCmdHelper.build_formula(ns, formula_class=CNF)
            rec('attr', sorted(vars(ns)), 'ok', formula_obs(F), random.random())
        except Exception as e:
            rec('attr', sorted(vars(ns)), 'exc', describe_exc(e), random.random())


test_cli()
test_direct()

h = hashlib.sha256()
for line in OUT:
    h.update(line.encode('utf-8', 'backslashreplace'))
    h.update(b'\n')
print(h.hexdigest())
