#!/usr/bin/env python
"""Equivalence check for VariablesManager.all_variable_labels (cnfgen/formula/variables.py).

Variable names (and their order) of CNF and OPB formulas, through the
library and through cnfgen / pbgen --varnames, dimacs / opb / latex output.
"""
import sys, os, hashlib, random, warnings, itertools
sys.path.insert(0, os.getcwd())
warnings.simplefilter("ignore")

from cnfgen.formula.cnf import CNF
from cnfgen.formula.opb import OPB
from cnfgen.formula.basecnf import BaseCNF
from cnfgen.formula.variables import VariablesManager
from cnfgen.graphs import Graph, DirectedGraph, BipartiteGraph
from cnfgen.clitools.pbgen import cli as pbcli
from cnfgen.clitools.cnfgen import cli as cnfcli

random.seed(20260105)
H = hashlib.sha256()
def rec(*items):
    for it in items:
        H.update(repr(it).encode('utf-8'))
        H.update(b'\x00')

def attempt(tag, fn, *args, **kw):
    try:
        res = fn(*args, **kw)
        # formula objects have an address-dependent repr: record their content
        if hasattr(res, 'all_variable_labels'):
            rec(tag, 'ok-formula', res.number_of_variables(), len(res), list(res))
        else:
            rec(tag, 'ok', res)
        return res
    except SystemExit as e:
        rec(tag, 'exit', e.code)
    except BaseException as e:
        rec(tag, 'exc', type(e).__name__, str(e))

def drain(tag, gen_fn):
    """Consume a generator one item at a time, recording everything
    produced before a possible exception."""
    got = []
    try:
        for x in gen_fn():
            got.append(x)
        rec(tag, 'done', got)
    except BaseException as e:
        rec(tag, 'partial', got, type(e).__name__, str(e))

FORMATS = ['x{}', 'y_{0}', 'const', '{0}-{0}', '{:03d}', '{0}{1}', '{', '{name}', '']

def labels_all_ways(tag, F):
    rec(tag, F.number_of_variables())
    for fmt in FORMATS:
        drain((tag, fmt), lambda: F.all_variable_labels(default_label_format=fmt))
    drain((tag, 'default'), lambda: F.all_variable_labels())
    drain((tag, 'positional'), lambda: F.all_variable_labels('w{}'))
    # laziness: only take the first few
    g = F.all_variable_labels()
    rec(tag, 'islice', list(itertools.islice(g, 3)))

def scenario(cls, which):
    F = cls()
    if which == 0:
        pass
    elif which == 1:
        F.new_variable('X'); F.new_variable(); F.new_variable(label='Z')
    elif which == 2:
        F.add_clause([1, -3]); F.new_variable('A'); F.add_clause([7, 2]); F.new_block(2, 2, label='b_{{{},{}}}')
    elif which == 3:
        F.new_block(0); F.new_block(3, 0); F.new_variable('S'); F.new_block(0, label='q{}')
    elif which == 4:
        F.new_block(3); F.update_variable_number(9)
    elif which == 5:
        F.update_variable_number(4); F.new_mapping(2, 3); F.update_variable_number(12); F.new_binary_mapping(3, 5)
        F.new_mapping(0, 4); F.new_mapping(3, 0)
    elif which == 6:
        G = Graph.from_networkx(__import__('networkx').cycle_graph(5))
        F.new_graph_edges(G); F.add_clause([20]); F.new_graph_edges(G, label='f[{},{}]')
    elif which == 7:
        B = BipartiteGraph(3, 4)
        for u, v in [(1, 1), (1, 3), (2, 2), (3, 4), (3, 1)]:
            B.add_edge(u, v)
        F.new_bipartite_edges(B); F.new_sparse_mapping(B); F.add_clause([-40])
    elif which == 8:
        D = DirectedGraph(4)
        for u, v in [(1, 2), (1, 3), (2, 4), (3, 4)]:
            D.add_edge(u, v)
        F.new_digraph_edges(D); F.new_digraph_edges(D, sortby='succ', label='d{}>{}')
    elif which == 9:
        F.new_combinations(4, 2); F.new_permutations(3); F.new_words(2, 2, label='w{}'); F.new_combinations_with_replacement(2, 2)
        F.new_combinations(2, 3); F.new_permutations(0)
    elif which == 10:
        F.new_variable('multi\nline'); F.new_variable(3.5); F.new_variable(('t', 1)); F.new_block(2, label='{}\nz')
    elif which == 11:
        for i in range(30):
            F.new_variable('v%d' % i)
            if i % 7 == 0:
                F.update_variable_number(F.number_of_variables() + i // 7)
    return F

for cls in (CNF, OPB):
    for which in range(12):
        F = attempt(('build', cls.__name__, which), scenario, cls, which)
        if F is None:
            continue
        labels_all_ways((cls.__name__, which), F)
        if cls is CNF:
            attempt(('dimacs', which), F.to_dimacs)
        attempt(('opb', cls.__name__, which), F.to_opb)
        import io
        for vn in (False, True):
            for fmt in (['dimacs', 'opb', 'latex'] if cls is CNF else ['opb', 'latex']):
                buf = io.StringIO()
                attempt(('to_file', cls.__name__, which, vn, fmt),
                        lambda: (F.to_file(buf, fileformat=fmt, export_varnames=vn), buf.getvalue())[1])

# corrupted / unusual managers: groups out of order, overlapping, formula shrunk
for cls in (CNF, OPB):
    F = cls(); F.new_block(3, label='a{}'); F.new_variable('M'); F.new_block(2, label='c{}')
    F._groups.reverse()
    labels_all_ways((cls.__name__, 'reversed'), F)
    F = cls(); F.new_block(3, label='a{}'); F.update_variable_number(6); F.new_block(2, label='c{}')
    F._groups = F._groups + F._groups
    labels_all_ways((cls.__name__, 'doubled'), F)
    F = cls(); F.new_block(4, label='a{}'); F.update_variable_number(8)
    F._numvar = 2
    labels_all_ways((cls.__name__, 'shrunk'), F)
    F = cls(); F.new_block(2, label='a{}'); F.update_variable_number(5); F.new_variable('K')
    F._groups = F._groups[1:]
    labels_all_ways((cls.__name__, 'dropped-first'), F)
    F = cls(); F.update_variable_number(5); F.new_variable('K'); F.update_variable_number(9)
    F._groups = []
    labels_all_ways((cls.__name__, 'no-groups'), F)

# standalone manager on a BaseCNF
B = BaseCNF(); V = VariablesManager(B)
V.new_variable('X'); B.add_clause([4]); V.new_block(2, 3, label='z_{{{},{}}}'); B.update_variable_number(13)
V.number_of_variables = B.number_of_variables
labels_all_ways('standalone', V)

# random construction, same script for the two classes: names must coincide
for trial in range(60):
    rng0 = random.Random(1000 + trial)
    script = []
    for _ in range(rng0.randint(0, 8)):
        script.append((rng0.choice(['var', 'block', 'gap', 'map', 'bmap', 'comb', 'empty']),
                       rng0.randint(0, 4), rng0.randint(0, 4)))
    out = []
    for cls in (CNF, OPB):
        F = cls()
        for kind, a, b in script:
            if kind == 'var': F.new_variable('n%d_%d' % (a, b))
            elif kind == 'block': F.new_block(a, b + 1, label='B{}.{}')
            elif kind == 'gap': F.update_variable_number(F.number_of_variables() + a)
            elif kind == 'map': F.new_mapping(a, b)
            elif kind == 'bmap': F.new_binary_mapping(a, b)
            elif kind == 'comb': F.new_combinations(a + b, a)
            elif kind == 'empty': F.new_block(0)
        names = list(F.all_variable_labels())
        out.append((F.number_of_variables(), names))
        drain(('rnd', trial, cls.__name__, 'fmt'), lambda: F.all_variable_labels('u{}'))
    rec('rnd', trial, out, out[0] == out[1])

# command line tools with --varnames: the same names from cnfgen and pbgen
cmds = [
    ['php', '4', '3'], ['php', '0', '0'], ['php', '3', '3', '--functional', '--onto'], ['bphp', '5', '4'],
    ['-S', '11', 'php', '6', '4', '3'], ['-S', '7', 'subsetcard', 'glrd', '4', '5', '3'],
    ['ec', 'complete', '5'], ['domset', '2', 'complete', '4'], ['-S', '5', 'domset', '-a', '2', 'gnp', '6', '.5'],
    ['count', '5', '2'], ['parity', '4'], ['matching', 'complete', '4'], ['vdw', '6', '3', '3'],
    ['rphp', '4', '3', '2'], ['rphp', '2', '0', '2'], ['tseitin', 'first', 'complete', '4'], ['op', '4'], ['op', '3', '--total'],
    ['kclique', '3', 'complete', '4'], ['kcliquebin', '2', 'complete', '4'], ['ram', '3', '3', '5'], ['peb', 'pyramid', '2'],
    ['stone', '3', 'pyramid', '1'], ['tiling', 'grid', '2', '2'], ['and', '2', '3'], ['or', '0', '0'], ['true'], ['false'],
    ['-S', '4', 'randkcnf', '3', '6', '9'], ['cliquecoloring', '4', '3', '2'], ['kcolor', '3', 'cycle', '5'],
    ['cpls', '2', '2', '2'], ['kcolor', '2', 'grid', '2', '2'], ['ptn', '6'], ['iso', 'grid', '2', '2', '-e', 'complete', '4'], ['pitfall', '1', '1', '1', '1', '2'],
    ['nosuchformula'],
]
for cmd in cmds:
    a = attempt(('pbgen-v', cmd), pbcli, ['pbgen', '--varnames'] + cmd, mode='string')
    b = attempt(('cnfgen-v', cmd), cnfcli, ['cnfgen', '--varnames'] + cmd, mode='string')
    attempt(('cnfgen-opb-v', cmd), cnfcli, ['cnfgen', '--varnames', '-of', 'opb'] + cmd, mode='string')
    attempt(('pbgen-latex', cmd), pbcli, ['pbgen', '-of', 'latex'] + cmd, mode='string')
    attempt(('cnfgen-latex', cmd), cnfcli, ['cnfgen', '-of', 'latex'] + cmd, mode='string')
    Fp = attempt(('pbgen-f', cmd), pbcli, ['pbgen'] + cmd, mode='formula')
    Fc = attempt(('cnfgen-f', cmd), cnfcli, ['cnfgen'] + cmd, mode='formula')
    if Fp is not None and Fc is not None:
        lp, lc = list(Fp.all_variable_labels()), list(Fc.all_variable_labels())
        rec('names', cmd, lp, lc, lp == lc, Fp.number_of_variables() == Fc.number_of_variables())

print(H.hexdigest())
