#!/usr/bin/env python
"""Equivalence check for cnfgen.graphs.BipartiteGraph.normalize, as used
by VariableCompression and by the generators taking a bipartite graph:
results, error types/messages, and the fact that the graph passed as an
argument is left untouched."""
import os
import sys
import hashlib
import random

sys.path.insert(0, os.getcwd())

import networkx

import cnfgen
from cnfgen import CNF
from cnfgen.graphs import BipartiteGraph, CompleteBipartiteGraph, Graph, DirectedGraph
from cnfgen.graphs import bipartite_random_left_regular
from cnfgen.transformations.substitutions import VariableCompression, XorSubstitution
from cnfgen.families.pigeonhole import GraphPigeonholePrinciple
from cnfgen.families.subsetcardinality import SubsetCardinalityFormula
from cnfgen.families.pebbling import SparseStoneFormula

out = []


def record(*items):
    out.append(repr(items))


def fsnap(F):
    return (F.number_of_variables(), F.number_of_clauses(),
            list(F.all_variable_labels()), [tuple(c) for c in F],
            list(F.header.items()))


def gsnap(G):
    """Everything observable about a graph argument"""
    if isinstance(G, BipartiteGraph):
        return ('B', G.left_order(), G.right_order(), G.number_of_edges(),
                [(u, list(G.right_neighbors(u))) for u in range(1, G.left_order() + 1)],
                [(v, list(G.left_neighbors(v))) for v in range(1, G.right_order() + 1)],
                G.name)
    if isinstance(G, (BrokenNodes, BrokenEdges)):
        return ('broken nx', type(G).__name__, sorted(G._node.items()), dict(G.graph))
    if isinstance(G, networkx.Graph):
        return ('nx', type(G).__name__, list(G.nodes(data=True)),
                list(G.edges(data=True)), dict(G.graph))
    if isinstance(G, (Graph, DirectedGraph)):
        return ('G', type(G).__name__, G.number_of_vertices(), list(G.edges()), G.name)
    return ('other', repr(G))


def nxbip(cls, left, right, edges, labels=(0, 1), name=None):
    G = cls()
    if name is not None:
        G.name = name
    for u in left:
        G.add_node(u, bipartite=labels[0])
    for v in right:
        G.add_node(v, bipartite=labels[1])
    G.add_edges_from(edges)
    return G


class BrokenNodes(networkx.Graph):
    """A networkx graph raising AttributeError while being converted"""
    @property
    def nodes(self):
        raise AttributeError('no nodes here')


class BrokenEdges(networkx.Graph):
    def edges(self, *args, **kwargs):
        raise AttributeError('no edges here')


def make_graphs():
    random.seed(31337)
    graphs = []
    B = BipartiteGraph(3, 4, name='hand made')
    for u, v in [(1, 1), (1, 2), (2, 2), (2, 3), (3, 3), (3, 4), (1, 4)]:
        B.add_edge(u, v)
    graphs.append(('cnfgen bipartite', B))
    graphs.append(('empty bipartite', BipartiteGraph(0, 0)))
    graphs.append(('no edges', BipartiteGraph(3, 2)))
    graphs.append(('complete', CompleteBipartiteGraph(3, 3)))
    graphs.append(('random', bipartite_random_left_regular(3, 5, 2)))
    E = [('a', 'x'), ('a', 'y'), ('b', 'y'), ('b', 'z'), ('c', 'z'), ('c', 'x'), ('c', 'w')]
    graphs.append(('nx', nxbip(networkx.Graph, 'abc', 'xyzw', E, name='named nx')))
    graphs.append(('nx noname', nxbip(networkx.Graph, 'abc', 'xyzw', E)))
    graphs.append(('nx strlabels', nxbip(networkx.Graph, 'abc', 'xyzw', E, labels=('0', '1'))))
    graphs.append(('nx swapped', nxbip(networkx.Graph, 'xyz', 'abc',
                                       [(v, u) for u, v in E if v != 'w'], labels=(1, 0))))
    graphs.append(('nx digraph', nxbip(networkx.DiGraph, 'abc', 'xyzw', E)))
    graphs.append(('nx multigraph', nxbip(networkx.MultiGraph, 'abc', 'xyzw', E + E[:2])))
    graphs.append(('nx ints', nxbip(networkx.Graph, [1, 2, 3], [10, 20, 30, 40],
                                    [(1, 10), (2, 20), (3, 30), (3, 40), (10, 2)])))
    graphs.append(('nx empty', networkx.Graph()))
    graphs.append(('nx 3 left only', nxbip(networkx.Graph, 'abc', '', [])))
    # bad ones
    G = nxbip(networkx.Graph, 'abc', 'xyzw', E)
    G.add_node('q')
    graphs.append(('nx unlabelled node', G))
    G = nxbip(networkx.Graph, 'abc', 'xyzw', E)
    G.add_edge('a', 'b')
    graphs.append(('nx edge inside a part', G))
    G = nxbip(networkx.Graph, 'abc', 'xyzw', E, labels=(0, 2))
    graphs.append(('nx bad colour', G))
    G = nxbip(networkx.Graph, 'abc', 'xyzw', E)
    G.add_edge('a', 'new')
    graphs.append(('nx edge to an unlabelled node', G))
    G = BrokenNodes()
    graphs.append(('nx broken nodes', G))
    G = BrokenEdges()
    G.add_node(1, bipartite=0)
    graphs.append(('nx broken edges', G))
    graphs.append(('simple cnfgen graph', Graph.complete_graph(3) if hasattr(Graph, 'complete_graph') else Graph(3)))
    graphs.append(('directed cnfgen graph', DirectedGraph(3)))
    graphs.append(('None', None))
    graphs.append(('int', 3))
    graphs.append(('str', 'glrd 3 4 2'))
    graphs.append(('list', [(1, 2), (2, 3)]))
    graphs.append(('dict', {1: [1, 2]}))
    graphs.append(('class', BipartiteGraph))
    return graphs


def attempt(tag, fn):
    try:
        res = fn()
        record(tag, 'ok', res)
    except BaseException as e:
        ctx = e.__context__
        record(tag, 'exc', type(e).__name__, str(e),
               type(ctx).__name__ if ctx is not None else None,
               type(e.__cause__).__name__ if e.__cause__ is not None else None)


F3 = CNF([[1, -2], [2, 3], [-1, -3], [1, 2, 3]], description='three variables')
F0 = CNF(description='no variables')
D3 = DirectedGraph(3)
D3.add_edge(1, 3)
D3.add_edge(2, 3)

for name, G in make_graphs():
    before = gsnap(G)

    def norm_default():
        R = BipartiteGraph.normalize(G)
        return (R is G, type(R).__name__, gsnap(R))

    def norm_named():
        R = BipartiteGraph.normalize(G, 'mygraph')
        return (R is G, type(R).__name__, gsnap(R))

    def norm_subclass():
        R = CompleteBipartiteGraph.normalize(G, varname='K')
        return (R is G, type(R).__name__)

    attempt((name, 'normalize'), norm_default)
    attempt((name, 'normalize named'), norm_named)
    attempt((name, 'normalize subclass'), norm_subclass)
    record(name, 'graph untouched 1', gsnap(G) == before)

    for function in ('xor', 'maj', 'and'):
        for F in (F3, F0):
            fbefore = fsnap(F)
            attempt((name, 'compression', function, F.number_of_variables()),
                    lambda: fsnap(VariableCompression(F, G, function)))
            record(name, 'formula untouched', fsnap(F) == fbefore)
    attempt((name, 'compression chain'),
            lambda: fsnap(VariableCompression(XorSubstitution(VariableCompression(F3, G, 'xor'), 1),
                                              CompleteBipartiteGraph(
                                                  BipartiteGraph.normalize(G).right_order(), 2),
                                              'maj')))
    record(name, 'graph untouched 2', gsnap(G) == before)

    for functional in (False, True):
        for onto in (False, True):
            attempt((name, 'gphp', functional, onto),
                    lambda: fsnap(GraphPigeonholePrinciple(G, functional=functional, onto=onto)))
    attempt((name, 'subsetcard'), lambda: fsnap(SubsetCardinalityFormula(G)))
    attempt((name, 'subsetcard eq'), lambda: fsnap(SubsetCardinalityFormula(G, equalities=True)))
    attempt((name, 'sparse stone'), lambda: fsnap(SparseStoneFormula(D3, G)))
    record(name, 'graph untouched 3', gsnap(G) == before)
    record(name, 'dag untouched', gsnap(D3))

print(hashlib.sha256("\n".join(out).encode('utf-8')).hexdigest())
