#!/usr/bin/env python
"""Equivalence check for CountingPrinciple (cnfgen/families/counting.py): the family
behind `count` and `parity` of both cnfgen and pbgen, built as CNF and as OPB."""
import sys, os, hashlib, random, warnings, itertools, io
sys.path.insert(0, os.getcwd())
warnings.simplefilter("ignore")

from fractions import Fraction
from cnfgen.formula.cnf import CNF
from cnfgen.formula.opb import OPB
from cnfgen.families.counting import CountingPrinciple
from cnfgen.clitools.pbgen import cli as pbcli
from cnfgen.clitools.cnfgen import cli as cnfcli

random.seed(20260108)
H = hashlib.sha256()
def rec(*items):
    for it in items:
        H.update(repr(it).encode('utf-8'))
        H.update(b'\x00')

import contextlib
def attempt(tag, fn, *args, **kw):
    out, err = io.StringIO(), io.StringIO()
    try:
        return _attempt(tag, fn, out, err, *args, **kw)
    finally:
        rec(tag, 'stdout', out.getvalue(), 'stderr', err.getvalue())

def _attempt(tag, fn, out, err, *args, **kw):
    try:
        with contextlib.redirect_stdout(out), contextlib.redirect_stderr(err):
            res = fn(*args, **kw)
        if hasattr(res, 'all_variable_labels'):
            rec(tag, 'ok-formula', res.number_of_variables(), len(res), list(res),
                list(res.all_variable_labels()), sorted(res.header.items()))
        else:
            rec(tag, 'ok', res)
        return res
    except SystemExit as e:
        rec(tag, 'exit', e.code)
    except BaseException as e:
        rec(tag, 'exc', type(e).__name__, str(e))

def holds(bits, l):
    return bits[abs(l) - 1] if l > 0 else not bits[abs(l) - 1]

def sat_cnf(F, n):
    return [bits for bits in itertools.product([False, True], repeat=n)
            if all(any(holds(bits, l) for l in cls) for cls in F)]

def sat_opb(F, n):
    sols = []
    for bits in itertools.product([False, True], repeat=n):
        for c in F:
            tot = sum(co for co, l in c[:-2] if holds(bits, l))
            if (c[-2] == '>=' and not tot >= c[-1]) or (c[-2] == '==' and not tot == c[-1]):
                break
        else:
            sols.append(bits)
    return sols

# 1. library, all small parameters, both formula classes
for M in range(0, 10):
    for p in range(1, 6):
        pair = []
        for cls in (CNF, OPB):
            F = attempt(('count', M, p, cls.__name__), CountingPrinciple, M, p, cls)
            pair.append(F)
            if F is not None:
                rec(F.to_opb())
                rec(F.to_latex())
                if cls is CNF:
                    rec(F.to_dimacs())
                buf = io.StringIO()
                F.to_file(buf, fileformat='opb', export_header=True, export_varnames=True)
                rec(buf.getvalue())
        if None not in pair:
            FC, FO = pair
            same_names = list(FC.all_variable_labels()) == list(FO.all_variable_labels())
            rec('names', M, p, FC.number_of_variables() == FO.number_of_variables(), same_names)
            if FC.number_of_variables() <= 15:
                nv = FC.number_of_variables()
                sc, so = sat_cnf(FC, nv), sat_opb(FO, nv)
                rec('sols', M, p, len(sc), sc, sc == so)
# default formula class and keyword arguments
attempt('default', CountingPrinciple, 5, 2)
attempt('kw', CountingPrinciple, M=6, p=3, formula_class=OPB)
attempt('kw2', CountingPrinciple, p=2, M=3)
# somewhat larger
for M, p in [(12, 2), (12, 3), (10, 4), (20, 2), (9, 9), (9, 10), (10, 8)]:
    for cls in (CNF, OPB):
        attempt(('big', M, p, cls.__name__), CountingPrinciple, M, p, cls)

# 2. invalid parameters
bad = [(-1, 2), (3, 0), (3, -1), (-2, -2), ('4', 2), (4, '2'), (4.0, 2), (4, 2.0), (None, 2), (4, None), (True, 1), (3, True),
       (False, False), ([4], 2), (4, (2,)), (Fraction(4), 2), (10**3, 0), (0, 0), (2, 50)]
for M, p in bad:
    for cls in (CNF, OPB):
        attempt(('bad', repr(M), repr(p), cls.__name__), CountingPrinciple, M, p, cls)
attempt('bad-class', CountingPrinciple, 4, 2, formula_class=None)
attempt('bad-class2', CountingPrinciple, 4, 2, formula_class=dict)
attempt('noargs', CountingPrinciple)

# 3. a recording formula class: the exact sequence of calls issued by the family
class Recorder(CNF):
    def __init__(self, *a, **k):
        self.calls = []
        CNF.__init__(self, *a, **k)
    def cardinality_eq(self, lits, value, check=True):
        self.calls.append(('cardinality_eq', type(lits).__name__, list(lits), value, check))
        return CNF.cardinality_eq(self, lits, value, check)
    def new_combinations(self, *a, **k):
        self.calls.append(('new_combinations', a, sorted(k.items())))
        return CNF.new_combinations(self, *a, **k)
for M, p in [(0, 1), (1, 1), (4, 2), (5, 2), (5, 3), (6, 3), (3, 4), (7, 1)]:
    F = attempt(('recorder', M, p), CountingPrinciple, M, p, Recorder)
    if F is not None:
        rec(F.calls)

# 4. command line tools
cmds = [['count', '5', '2'], ['count', '6', '3'], ['count', '0', '1'], ['count', '1', '1'], ['count', '2', '3'], ['count', '4', '4'],
        ['count', '7', '2'], ['count', '8', '4'], ['count', '5', '0'], ['count', '-1', '2'], ['count', 'x', '2'], ['count', '5'], ['count'],
        ['count', '5', '2', '3'], ['parity', '0'], ['parity', '1'], ['parity', '2'], ['parity', '3'], ['parity', '4'], ['parity', '5'],
        ['parity', '6'], ['parity', '-2'], ['parity', 'p'], ['parity'], ['-S', '3', 'count', '6', '2'], ['count', '-h']]
for cmd in cmds:
    attempt(('pbgen', cmd), pbcli, ['pbgen'] + cmd, mode='string')
    attempt(('pbgen-q', cmd), pbcli, ['pbgen', '-q'] + cmd, mode='string')
    attempt(('pbgen-v', cmd), pbcli, ['pbgen', '--varnames'] + cmd, mode='string')
    attempt(('pbgen-latex', cmd), pbcli, ['pbgen', '-of', 'latex'] + cmd, mode='string')
    attempt(('cnfgen', cmd), cnfcli, ['cnfgen'] + cmd, mode='string')
    attempt(('cnfgen-q', cmd), cnfcli, ['cnfgen', '-q'] + cmd, mode='string')
    attempt(('cnfgen-v', cmd), cnfcli, ['cnfgen', '--varnames'] + cmd, mode='string')
    attempt(('cnfgen-opb', cmd), cnfcli, ['cnfgen', '-q', '-of', 'opb'] + cmd, mode='string')
    attempt(('cnfgen-latex', cmd), cnfcli, ['cnfgen', '-of', 'latex'] + cmd, mode='string')
    Fp = attempt(('pbgen-f', cmd), pbcli, ['pbgen'] + cmd, mode='formula')
    Fc = attempt(('cnfgen-f', cmd), cnfcli, ['cnfgen'] + cmd, mode='formula')
    if Fp is not None and Fc is not None and Fc.number_of_variables() <= 15:
        nv = Fc.number_of_variables()
        sc, so = sat_cnf(Fc, nv), sat_opb(Fp, nv)
        rec('cli-sols', cmd, nv == Fp.number_of_variables(), len(sc), sc == so)
for tail in [['-T', 'shuffle'], ['-T', 'xor', '2'], ['-T', 'or', '2']]:
    attempt(('cnfgen-T', tail), cnfcli, ['cnfgen', '-q', '-S', '8', 'count', '4', '2'] + tail, mode='string')

print(H.hexdigest())
