"""Equivalence script for t9: cnfgen.formula.cnfio.guess_output_format / CNFio.to_file"""
import hashlib, io, os, sys, tempfile
sys.path.insert(0, os.getcwd())

from cnfgen.formula.cnfio import guess_output_format, CNFio
from cnfgen.formula.cnf import CNF

out = []
def rec(*a):
    out.append(repr(a))

class Named:
    def __init__(self, name): self.name = name
class NoName: pass
class BadName:
    @property
    def name(self): raise ValueError("boom")
class IdxName:
    @property
    def name(self): raise IndexError("idx")
class KeyName:
    @property
    def name(self): raise KeyError("key")

names = ['', 'a', 'a.tex', 'a.opb', 'a.cnf', 'a.TEX', 'a.Opb', '.tex', '.opb', 'tex', 'opb',
         'a.tex.cnf', 'a.cnf.tex', 'a.opb.tex', 'a.tex.opb', 'dir.tex/file', 'dir.opb/f.cnf',
         'a.tex ', 'a.', 'a..tex', 'a.texx', 'a.op', '-', '<stdout>', 'x.dimacs', 'a.latex',
         'fé.tex', 'a\nb.opb', b'a.tex', b'a.opb', b'a.cnf', 3, 0, None, 1.5, ('a.tex',), ['a.opb']]
files = list(names) + [Named(n) for n in names] + [NoName(), BadName(), IdxName(), KeyName(),
         io.StringIO(), sys.stdout, sys.stderr]
requests = [None, 'latex', 'dimacs', 'opb', 'tex', 'cnf', '', 'LATEX', 'Dimacs', 0, False, True, 1,
            b'latex', ('latex',), ['opb'], 3.5]

for fi, f in enumerate(files):
    for r in requests:
        tag = (fi, type(f).__name__, repr(getattr(f, '__dict__', '')), repr(r))
        try:
            res = guess_output_format(f, r)
            rec('ok', tag, res, type(res).__name__)
        except BaseException as e:
            rec('exc', tag, type(e).__name__, str(e))

# through to_file, with real files and file objects
formulas = []
formulas.append(CNFio())
formulas.append(CNFio([[]]))
formulas.append(CNFio([[1, -2], [], [3]], description="multi\nline é desc"))
F = CNF(description='with names')
x = F.new_variable(label='x y')
b = F.new_block(2, 2, label='z_{{{},{}}}')
F.add_clause([x, -b(1, 2)])
F.add_clause([-b(2, 2), 7])
F.update_variable_number(9)
formulas.append(F)

tmp = tempfile.mkdtemp()
try:
    for i, G in enumerate(formulas):
        for fname in ['o.cnf', 'o.tex', 'o.opb', 'o', 'o.tex.cnf', 'o.TEX']:
            for fmt in [None, 'dimacs', 'latex', 'opb', 'tex', 'bogus']:
                for hdr in (True, False):
                    for vn in (True, False):
                        path = os.path.join(tmp, fname)
                        # by name
                        try:
                            if os.path.exists(path): os.unlink(path)
                            G.to_file(path, fileformat=fmt, export_header=hdr, export_varnames=vn)
                            with open(path, encoding='utf-8') as fh:
                                rec('file', i, fname, fmt, hdr, vn, fh.read())
                        except BaseException as e:
                            rec('fileexc', i, fname, fmt, hdr, vn, type(e).__name__, str(e), os.path.exists(path))
                        # by named object
                        try:
                            with open(path, 'w', encoding='utf-8') as fh:
                                G.to_file(fh, fileformat=fmt, export_header=hdr, export_varnames=vn)
                            with open(path, encoding='utf-8') as fh:
                                rec('fobj', i, fname, fmt, hdr, vn, fh.read())
                        except BaseException as e:
                            rec('fobjexc', i, fname, fmt, hdr, vn, type(e).__name__, str(e))
        for fmt in [None, 'dimacs', 'latex', 'opb', 'x']:
            s = io.StringIO()
            try:
                G.to_file(s, fileformat=fmt)
                rec('sio', i, fmt, s.getvalue())
            except BaseException as e:
                rec('sioexc', i, fmt, type(e).__name__, str(e))
        # round trip via dimacs file
        path = os.path.join(tmp, 'rt.cnf')
        for hdr in (True, False):
            for vn in (True, False):
                G.to_file(path, export_header=hdr, export_varnames=vn)
                H = CNF.from_file(path)
                rec('rt', i, hdr, vn, H.number_of_variables(), list(H) == [list(c) for c in G],
                    H.number_of_variables() == G.number_of_variables())
finally:
    import shutil
    shutil.rmtree(tmp)

text = "\n".join(out).replace(tmp, '<TMP>')
if '-v' in sys.argv: print(text)
print(hashlib.sha256(text.encode('utf-8', 'backslashreplace')).hexdigest())
