import sys, os, hashlib, random, itertools, warnings
warnings.simplefilter("ignore")
sys.path.insert(0, os.getcwd())
import networkx as nx
from cnfgen.graphs import Graph

_H = hashlib.sha256()


def emit(*items):
    for it in items:
        _H.update(repr(it).encode("utf-8"))
        _H.update(b"\x00")


def dump(tag, fn, *args, **kwargs):
    """Call fn and record everything observable about the outcome."""
    emit("CALL", tag)
    try:
        F = fn(*args, **kwargs)
    except Exception as exc:  # record the exception type and message
        emit("EXC", type(exc).__name__, str(exc))
        return None
    emit("HEADER", sorted((str(k), str(v)) for k, v in F.header.items()))
    emit("NVARS", F.number_of_variables(), "NCLS", F.number_of_clauses())
    emit("LABELS", list(F.all_variable_labels()))
    emit("CLAUSES", [list(c) for c in F.clauses()])
    emit("DIMACS", F.to_dimacs())
    return F


def mkgraph(n, edges, name=None):
    G = Graph(n, name=name) if name is not None else Graph(n)
    for u, v in edges:
        G.add_edge(u, v)
    return G


def all_graphs(maxn):
    """Every labelled simple graph with at most maxn vertices."""
    for n in range(0, maxn + 1):
        pairs = list(itertools.combinations(range(1, n + 1), 2))
        for mask in range(1 << len(pairs)):
            yield n, [p for i, p in enumerate(pairs) if (mask >> i) & 1]


def random_graphs(rng, count, nmin, nmax):
    for _ in range(count):
        n = rng.randint(nmin, nmax)
        p = rng.choice([0.0, 0.2, 0.5, 0.8, 1.0])
        pairs = itertools.combinations(range(1, n + 1), 2)
        yield n, [e for e in pairs if rng.random() < p]


def finish():
    print(_H.hexdigest())

# ---- T1: TseitinFormula ----
import io, contextlib
from cnfgen import TseitinFormula
from cnfgen.clitools import cnfgen as cnfgen_cli

rng = random.Random(20202)

for n, edges in all_graphs(4):
    G = mkgraph(n, edges)
    dump(("tseitin-default", n, edges), TseitinFormula, G)
    # every charge vector of exact length, plus shorter and longer ones
    for charges in itertools.product([0, 1], repeat=n):
        dump(("tseitin", n, edges, charges), TseitinFormula, G, list(charges))
    dump(("tseitin-empty-charges", n, edges), TseitinFormula, G, [])
    dump(("tseitin-long", n, edges), TseitinFormula, G, [True] * (n + 2))
    dump(("tseitin-short", n, edges), TseitinFormula, G, [1] * max(0, n - 1))
    dump(("tseitin-nonbool", n, edges), TseitinFormula, G, [2, 0, 3, 5][:n])
    dump(("tseitin-tuple", n, edges), TseitinFormula, G, tuple([1] * n))

for n, edges in random_graphs(rng, 60, 5, 9):
    G = mkgraph(n, edges, name="rnd graph %d" % n)
    dump(("tseitin-default-rnd", n, edges), TseitinFormula, G)
    for _ in range(3):
        ln = rng.randint(0, n + 2)
        charges = [rng.choice([True, False, 0, 1, 3]) for _ in range(ln)]
        dump(("tseitin-rnd", n, edges, charges), TseitinFormula, G, charges)

# networkx inputs (normalisation path), bad inputs
for H in [nx.path_graph(5), nx.cycle_graph(6), nx.complete_graph(4),
          nx.empty_graph(3), nx.null_graph(), nx.grid_2d_graph(2, 3),
          nx.star_graph(4)]:
    dump(("tseitin-nx", sorted(map(str, H.edges()))), TseitinFormula, H)
    dump(("tseitin-nx-ch", sorted(map(str, H.edges()))), TseitinFormula, H,
         [True, True, False])
dump("bad-int", TseitinFormula, 5)
dump("bad-none", TseitinFormula, None)
dump("bad-digraph", TseitinFormula, nx.DiGraph([(1, 2)]))
dump("bad-charges", TseitinFormula, mkgraph(3, [(1, 2)]), 7)
dump("bad-charges-str", TseitinFormula, mkgraph(3, [(1, 2)]), ["a", "b"])

# command line front end
for argv in (["cnfgen", "-q", "tseitin", "first", "gnd", "6", "2"],
             ["cnfgen", "-q", "tseitin", "random", "grid", "3", "3"],
             ["cnfgen", "-q", "tseitin", "randomodd", "complete", "5"],
             ["cnfgen", "-q", "tseitin", "randomeven", "torus", "3", "3"],
             ["cnfgen", "-q", "-of", "latex", "tseitin", "first", "complete", "4"],
             ["cnfgen", "-q", "tseitin", "first", "gnp", "7", "0.5"]):
    random.seed(4242)
    out, err = io.StringIO(), io.StringIO()
    code = None
    try:
        with contextlib.redirect_stdout(out), contextlib.redirect_stderr(err):
            cnfgen_cli(argv)
    except SystemExit as exc:
        code = exc.code
    except Exception as exc:
        emit("CLI-EXC", type(exc).__name__, str(exc))
    emit("CLI", argv, code, out.getvalue(), err.getvalue())

finish()
