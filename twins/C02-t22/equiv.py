#!/usr/bin/env python
"""Equivalence script for t22: the non_edges helper used by the k-clique
formulas (unary and binary encodings), library and command line."""
import sys, os, hashlib, itertools, random
sys.path.insert(0, os.getcwd())

import networkx as nx
import cnfgen
import cnfgen.families.subgraph as subgraph
from cnfgen.graphs import Graph
from cnfgen.families.subgraph import (SubgraphFormula, CliqueFormula,
                                      BinaryCliqueFormula, RamseyWitnessFormula)
from cnfgen.clitools import cnfgen as cnfgen_cli, CLIError

H = hashlib.sha256()


def emit(*things):
    for t in things:
        H.update(repr(t).encode('utf-8'))
        H.update(b'\n')


def attempt(tag, fn):
    try:
        res = fn()
    except SystemExit as e:
        emit(tag, 'EXIT', e.code)
        return None
    except Exception as e:
        emit(tag, 'EXC', type(e).__name__, str(e))
        return None
    return res


def dump(tag, F):
    emit(tag, F.number_of_variables(), F.number_of_clauses(),
         [list(c) for c in F.clauses()], F.header.get('description'),
         list(F.all_variable_labels()), F.to_dimacs())


def graphs():
    yield Graph.null_graph()
    yield Graph(1)
    yield Graph(2)
    yield Graph.empty_graph(4)
    yield Graph.complete_graph(2)
    yield Graph.complete_graph(5)
    yield Graph.star_graph(4)
    r = random.Random(31)
    for n in (2, 3, 4, 5, 6, 7):
        for p in (0.2, 0.5, 0.8):
            G = Graph(n, 'rnd{}-{}'.format(n, p))
            for u, v in itertools.combinations(range(1, n + 1), 2):
                if r.random() < p:
                    G.add_edge(u, v)
            yield G
    G = Graph(5)
    G.add_edge(5, 1)
    G.add_edge(3, 2)
    G.remove_edge(2, 3)
    G.add_edge(4, 2)
    yield G
    yield nx.path_graph(5)
    yield nx.cycle_graph(6)
    yield nx.complete_bipartite_graph(2, 3)
    yield nx.Graph()


GS = list(graphs())

# the helper itself, reached through the module that uses it
for i, G in enumerate(GS):
    def run():
        g = Graph.normalize(G, 'G')
        it = subgraph.non_edges(g)
        emit(('non_edges-type', i), hasattr(it, '__next__'))
        return list(it)
    emit(('non_edges', i), attempt(('non_edges', i), run))
for bad in (None, 3, 'abc', [1, 2]):
    emit(('non_edges-bad', repr(bad)),
         attempt(('non_edges-bad', repr(bad)), lambda: list(subgraph.non_edges(bad))))
emit(subgraph.non_edges.__name__, callable(subgraph.non_edges))

for i, G in enumerate(GS):
    for k in range(0, 5):
        for sb in (True, False):
            for name, fn in (('clique', CliqueFormula), ('bclique', BinaryCliqueFormula)):
                F = attempt((name, i, k, sb), lambda: fn(G, k, symbreak=sb))
                if F is not None:
                    dump((name, i, k, sb), F)
        F = attempt(('ram', i, k), lambda: RamseyWitnessFormula(G, k, (k + 1) % 3, symbreak=(k % 2 == 0)))
        if F is not None:
            dump(('ram', i, k), F)

for bad in (-1, 1.5, '2', None):
    for name, fn in (('clique', CliqueFormula), ('bclique', BinaryCliqueFormula)):
        attempt((name, 'badk', repr(bad)), lambda: fn(Graph.complete_graph(3), bad))
        attempt((name, 'badG', repr(bad)), lambda: fn(bad, 2))

for (i, G1), (j, G2) in itertools.product(list(enumerate(GS))[:8], repeat=2):
    for ind, sb in itertools.product((False, True), repeat=2):
        F = attempt(('sub', i, j, ind, sb), lambda: SubgraphFormula(G1, G2, induced=ind, symbreak=sb))
        if F is not None:
            dump(('sub', i, j, ind, sb), F)

# command line
CMDS = [
    ['kclique', 3, 'complete', 4],
    ['kclique', 0, 'complete', 4],
    ['kclique', 3, 'empty', 4],
    ['kclique', '--no-symmetry-breaking', 3, 'gnp', 6, 0.5],
    ['kclique', 2, 'gnm', 5, 4],
    ['kclique', 4, 'grid', 2, 3],
    ['kcliquebin', 3, 'complete', 4],
    ['kcliquebin', 2, 'gnp', 5, 0.5],
    ['kcliquebin', 1, 'empty', 1],
    ['kcliquebin', 3, 'gnd', 6, 3],
    ['ramlb', 3, 3, 'gnp', 5, 0.5],
    ['subgraph', '-G', 'gnp', 5, 0.6, '-H', 'complete', 3],
    ['kclique', -1, 'complete', 4],
    ['kclique', 'x', 'complete', 4],
    ['kclique', 3],
]
for seed in (1, 42):
    for cmd in CMDS:
        argv = ['cnfgen', '-q', '--seed', seed] + cmd
        out = attempt(('cli', seed, cmd), lambda: cnfgen_cli(argv, mode='string'))
        emit(('cli', seed, cmd), out)
        argv = ['cnfgen', '-q', '--seed', seed, '-of', 'latex'] + cmd
        out = attempt(('cli-latex', seed, cmd), lambda: cnfgen_cli(argv, mode='string'))
        emit(('cli-latex', seed, cmd), out)

print(H.hexdigest())
