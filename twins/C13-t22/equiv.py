#!/usr/bin/env python
"""Equivalence script for t22: sparse/dense sampling of random k-CNF and k-XOR."""
import sys, os, hashlib, random, itertools
sys.path.insert(0, os.getcwd())

import cnfgen
from cnfgen import RandomKCNF, RandomKXOR, CNF
from cnfgen.formula.opb import OPB
from cnfgen.families import randomformulas as RF
from cnfgen.families import randomkxor as RX

H = hashlib.sha256()
def rec(*items):
    for it in items:
        H.update(repr(it).encode('utf8'))
        H.update(b'\x00')

def state():
    return random.getstate()[1][:4]

def attempt(tag, fn, *args, **kw):
    try:
        res = fn(*args, **kw)
        rec('OK', tag, res)
    except BaseException as e:
        rec('EXC', tag, type(e).__name__, str(e), repr(e.__cause__), repr(e.__context__))
    rec(state())

def planted_sets(n, rng):
    yield []
    if n == 0:
        yield [[]]
        return
    a1 = [rng.choice([-1, 1]) * v for v in range(1, n + 1)]
    a2 = [rng.choice([-1, 1]) * v for v in range(1, n + 1)]
    a3 = [-l for l in a1]
    yield [a1]
    yield [a1, a2]
    yield [a1, a3]
    yield (tuple(a1), tuple(a2), tuple(a3))
    yield [set(a1)]
    # partial assignment
    yield [a1[: max(1, n // 2)]]

rng = random.Random(2024)
random.seed(12345)

# low level samplers
for n in range(0, 6):
    for k in range(0, n + 2):
        total_cls = (2 ** k) * len(list(itertools.combinations(range(n), k)))
        total_par = 2 * len(list(itertools.combinations(range(n), k)))
        ms = sorted(set([0, 1, 2, total_par // 2, total_par - 1, total_par, total_par + 1,
                         total_cls // 2, total_cls - 1, total_cls, total_cls + 1]))
        ms = [m for m in ms if m >= 0]
        for planted in planted_sets(n, rng):
            for m in ms:
                for seed in (0, 11):
                    tag = (k, n, m, seed, repr(planted))
                    random.seed(seed)
                    attempt(('sample_clauses',) + tag, RF.sample_clauses, k, n, m, planted)
                    random.seed(seed)
                    attempt(('sample_parities',) + tag, RX.sample_parities, k, n, m, planted)

# public generators
def describe(F):
    if isinstance(F, CNF):
        return (type(F).__name__, F.number_of_variables(), len(F), list(F.clauses()),
                F.header['description'], F.to_dimacs())
    return (type(F).__name__, F.number_of_variables(), len(F), F.header['description'], F.to_opb())

def gen(fn, *args, **kw):
    return describe(fn(*args, **kw))

for n in range(0, 7):
    for k in range(0, n + 2):
        total_cls = (2 ** k) * len(list(itertools.combinations(range(n), k)))
        total_par = 2 * len(list(itertools.combinations(range(n), k)))
        for pi, planted in enumerate(planted_sets(n, rng)):
            for m in sorted(set([0, 1, 3, total_par // 2, total_par, total_par + 1,
                                 total_cls // 4, total_cls // 2, total_cls - 1, total_cls,
                                 total_cls + 1])):
                if m < 0:
                    continue
                for seed in (None, 5, 'abc'):
                    if seed is None:
                        random.seed(99)
                    tag = (k, n, m, seed, repr(planted))
                    attempt(('kcnf',) + tag, gen, RandomKCNF, k, n, m, seed=seed,
                            planted_assignments=planted)
                    if seed is None:
                        random.seed(99)
                    attempt(('kxor',) + tag, gen, RandomKXOR, k, n, m, seed=seed,
                            planted_assignments=planted)

# larger instances, sparse regime and planted regime that needs the dense fallback
for (k, n, m) in [(3, 20, 80), (3, 50, 210), (4, 12, 300), (2, 9, 100), (2, 9, 144), (2, 9, 145),
                  (5, 8, 500), (3, 9, 600), (3, 9, 672), (3, 9, 673), (7, 7, 128), (7, 7, 129)]:
    for seed in (1, 2):
        r = random.Random(seed)
        a = [r.choice([-1, 1]) * v for v in range(1, n + 1)]
        b = [r.choice([-1, 1]) * v for v in range(1, n + 1)]
        for planted in (None, [a], [a, b]):
            tag = (k, n, m, seed, repr(planted))
            attempt(('kcnf',) + tag, gen, RandomKCNF, k, n, m, seed, planted)
            attempt(('kxor',) + tag, gen, RandomKXOR, k, n, m, seed, planted)
            attempt(('kcnf-opb',) + tag, gen, RandomKCNF, k, n, m, seed, planted, OPB)

# bad arguments
for args in [(-1, 3, 2), (2, -3, 2), (2, 3, -2), (2.0, 3, 2), (2, '3', 2), (2, 3, None),
             (4, 3, 0), (1, 0, 0), (0, 0, 0), (0, 0, 1), (0, 0, 2), (0, 3, 1), (0, 3, 2), (0, 3, 3)]:
    attempt(('kcnf-bad',) + args, gen, RandomKCNF, *args, seed=3)
    attempt(('kxor-bad',) + args, gen, RandomKXOR, *args, seed=3)
    attempt(('kcnf-bad-p',) + args, gen, RandomKCNF, *args, seed=3, planted_assignments=[[1, -2, 3]])
    attempt(('kxor-bad-p',) + args, gen, RandomKXOR, *args, seed=3, planted_assignments=[[1, -2, 3]])

print(H.hexdigest())
