"""Equivalence script for refactoring t19 (kthlist graph writers, used by 'save')."""
import hashlib
import io
import os
import sys
import random
import shutil
import tempfile
import contextlib

sys.path.insert(0, os.getcwd())
os.environ["COLUMNS"] = "80"

from cnfgen.graphs import Graph, DirectedGraph, BipartiteGraph, CompleteBipartiteGraph
from cnfgen.graphs import readGraph, writeGraph
from cnfgen.graphs import bipartite_random_m_edges, bipartite_random_left_regular
from cnfgen.graphs import bipartite_shift
from cnfgen.graphs import dag_pyramid, dag_complete_binary_tree, dag_path
from cnfgen.graphs import split_random_edges, add_random_missing_edges
import cnfgen.graphs as graphs_module
from cnfgen.clitools.graph_args import parse_graph_argument, obtain_graph
from cnfgen.clitools.cnfgen import cli

H = hashlib.sha256()


def record(*items):
    for x in items:
        H.update(repr(x).encode('utf-8'))
        H.update(b'\x00')


class Unwritable(io.StringIO):
    """A stream that fails after a few writes, and logs what it got"""
    def __init__(self, budget):
        super().__init__()
        self.budget = budget

    def write(self, s):
        if self.budget <= 0:
            raise IOError("disk full")
        self.budget -= 1
        return super().write(s)


def try_write(G, graph_type, file_format, stream=None):
    out = io.StringIO() if stream is None else stream
    try:
        res = writeGraph(G, out, graph_type, file_format)
        record('OK', graph_type, file_format, res, out.getvalue())
    except BaseException as e:
        record('EXC', graph_type, file_format, type(e).__name__, str(e),
               out.getvalue())
    return out.getvalue()


def describe(G):
    return (type(G).__name__, G.name, G.number_of_vertices(),
            G.number_of_edges(), sorted(G.edges()))


# ---- a zoo of graphs
simple = []
simple.append(Graph(0))
simple.append(Graph(1))
simple.append(Graph(3, name='three isolated'))
simple.append(Graph.complete_graph(5))
simple.append(Graph.star_graph(4))
G = Graph(6, name='name with\nnewline? no: spaces  ')
G.add_edges_from([(1, 6), (6, 2), (3, 2), (5, 4), (1, 2)])
simple.append(G)
random.seed(1)
for n in range(2, 9):
    G = Graph(n, name='rnd {}'.format(n))
    for u in range(1, n):
        for v in range(u + 1, n + 1):
            if random.random() < 0.4:
                G.add_edge(v, u)
    simple.append(G)
G = Graph.complete_graph(4)
split_random_edges(G, 3, seed=5)
simple.append(G)
G = Graph(7)
add_random_missing_edges(G, 9, seed=6)
simple.append(G)

directed = []
directed.append(DirectedGraph(0))
directed.append(DirectedGraph(1))
directed.append(DirectedGraph(4, name=''))
for h in range(0, 4):
    directed.append(dag_pyramid(h))
    directed.append(dag_complete_binary_tree(h))
    directed.append(dag_path(h))
D = DirectedGraph(5, name='with cycle')
for e in [(1, 2), (2, 3), (3, 1), (5, 4), (4, 5)]:
    D.add_edge(*e)
directed.append(D)
random.seed(2)
for n in range(2, 8):
    D = DirectedGraph(n, name='rnd dag {}'.format(n))
    for u in range(1, n):
        for v in range(u + 1, n + 1):
            if random.random() < 0.5:
                D.add_edge(u, v)
    directed.append(D)
for n in range(2, 6):
    D = DirectedGraph(n, name='rnd digraph {}'.format(n))
    for u in range(1, n + 1):
        for v in range(1, n + 1):
            if u != v and random.random() < 0.4:
                D.add_edge(u, v)
    directed.append(D)

bipartite = []
bipartite.append(BipartiteGraph(0, 0))
bipartite.append(BipartiteGraph(0, 3))
bipartite.append(BipartiteGraph(2, 0))
bipartite.append(BipartiteGraph(2, 3, name='empty 2 3'))
bipartite.append(CompleteBipartiteGraph(3, 2))
bipartite.append(CompleteBipartiteGraph(1, 1))
bipartite.append(bipartite_shift(4, 5, [0, 1, 3]))
bipartite.append(bipartite_shift(5, 3, [2]))
for L, R, m, s in [(1, 1, 1, 0), (3, 4, 5, 1), (4, 3, 12, 2), (5, 5, 7, 3), (2, 7, 0, 4)]:
    bipartite.append(bipartite_random_m_edges(L, R, m, seed=s))
for L, R, d, s in [(3, 4, 2, 0), (4, 4, 4, 1), (5, 2, 1, 2), (3, 3, 0, 3)]:
    bipartite.append(bipartite_random_left_regular(L, R, d, seed=s))
B = BipartiteGraph(3, 3, name='unsorted insertions')
for e in [(3, 3), (3, 1), (1, 2), (2, 3), (2, 1), (3, 2)]:
    B.add_edge(*e)
bipartite.append(B)

all_formats = ['kthlist', 'dimacs', 'gml', 'dot', 'matrix', 'autodetect', 'foo']

for gtype, zoo in [('simple', simple), ('digraph', directed), ('dag', directed),
                   ('bipartite', bipartite)]:
    for G in zoo:
        record(describe(G))
        for fmt in all_formats:
            text = try_write(G, gtype, fmt)
            # read it back and write it again
            if fmt in ('kthlist', 'dimacs', 'matrix') and text:
                try:
                    G2 = readGraph(io.StringIO(text), gtype, fmt)
                    record('READBACK', describe(G2))
                    try_write(G2, gtype, fmt)
                except BaseException as e:
                    record('READEXC', type(e).__name__, str(e))

# mismatched graph objects and types
for G in [simple[3], directed[5], bipartite[4], None, 'graph', 7]:
    for gtype in ['simple', 'digraph', 'dag', 'bipartite', 'multi', None]:
        for fmt in ['kthlist', 'dimacs', 'matrix']:
            try_write(G, gtype, fmt)

# output streams that are not streams / fail half way
for out in [None, 12, [], b'bytes']:
    try:
        writeGraph(simple[3], out, 'simple', 'kthlist')
        record('accepted', out)
    except BaseException as e:
        record('EXC', type(e).__name__, str(e))
for budget in range(0, 12):
    for G, gtype in [(simple[5], 'simple'), (directed[7], 'dag'),
                     (bipartite[6], 'bipartite')]:
        try_write(G, gtype, 'kthlist', stream=Unwritable(budget))

# the private writers themselves, when still there under these names
for fname in ['_write_graph_kthlist_nonbipartite', '_write_graph_kthlist_bipartite']:
    f = getattr(graphs_module, fname)
    for G in [simple[5], simple[0], directed[7], directed[0], bipartite[6],
              bipartite[0], bipartite[4], None]:
        out = io.StringIO()
        try:
            res = f(G, out)
            record(fname, 'OK', res, out.getvalue())
        except BaseException as e:
            record(fname, 'EXC', type(e).__name__, str(e), out.getvalue())

# ---- files and the command line 'save'
tmpdir = tempfile.mkdtemp()
cwd = os.getcwd()
os.chdir(tmpdir)
try:
    for i, (G, gtype) in enumerate([(simple[5], 'simple'), (directed[8], 'dag'),
                                    (directed[8], 'digraph'),
                                    (bipartite[9], 'bipartite')]):
        for name, fmt in [('f{}.kthlist', 'autodetect'), ('g{}.txt', 'kthlist'),
                          ('h{}.dimacs', 'autodetect'), ('i{}.txt', 'autodetect'),
                          ('j{}.matrix', 'autodetect'), ('nodir/k{}.kthlist', 'kthlist')]:
            name = name.format(i)
            try:
                res = writeGraph(G, name, gtype, fmt)
                record('FILE OK', name, res)
            except BaseException as e:
                record('FILE EXC', name, type(e).__name__, str(e))
            if os.path.exists(name):
                with open(name, encoding='utf-8') as f:
                    record(f.read())
            else:
                record(None)

    specs = [
        ('simple', 'gnm 7 9 save s1.kthlist'),
        ('simple', 'gnm 7 9 plantclique 4 addedges 3 splitedges 2 save kthlist s2.txt'),
        ('simple', 'grid 3 3 save s3.kthlist'),
        ('simple', 'torus 3 3 save dimacs s4.kthlist'),
        ('simple', 'complete 4 save s5.kthlist'),
        ('simple', 'empty 4 save s6.kthlist'),
        ('simple', 'gnd 6 3 save s7.kthlist'),
        ('simple', 'complete 3 2 save s8.kthlist'),
        ('simple', 'gnm 5 4 save matrix s9.kthlist'),
        ('simple', 'gnm 5 4 save s10.matrix'),
        ('simple', 'gnm 5 4 save nodir/s11.kthlist'),
        ('dag', 'pyramid 3 save d1.kthlist'),
        ('dag', 'tree 2 save kthlist d2.txt'),
        ('dag', 'path 4 save d3.kthlist'),
        ('dag', 'path 0 save d4.kthlist'),
        ('digraph', 'pyramid 2 save d5.kthlist'),
        ('dag', 'pyramid 2 save d6.matrix'),
        ('bipartite', 'glrm 4 5 9 save b1.kthlist'),
        ('bipartite', 'glrd 4 5 2 save kthlist b2.txt'),
        ('bipartite', 'regular 6 4 2 save b3.kthlist'),
        ('bipartite', 'shift 4 5 0 2 save b4.kthlist'),
        ('bipartite', 'complete 2 3 save b5.kthlist'),
        ('bipartite', 'empty 2 3 save b6.kthlist'),
        ('bipartite', 'glrm 4 5 9 plantbiclique 2 2 addedges 3 save b7.kthlist'),
        ('bipartite', 'glrm 4 5 9 save b8.matrix'),
        ('bipartite', 'glrm 4 5 9 save dimacs b9.txt'),
        ('bipartite', 'glrp 3 3 0.5 save b10.kthlist'),
    ]
    for gtype, spec in specs:
        random.seed(99)
        fname = spec.split()[-1]
        try:
            G = obtain_graph(parse_graph_argument(gtype, spec))
            record('SPEC OK', gtype, spec, describe(G))
        except BaseException as e:
            G = None
            record('SPEC EXC', gtype, spec, type(e).__name__, str(e))
        if os.path.exists(fname):
            with open(fname, encoding='utf-8') as f:
                text = f.read()
            record(text)
            if G is not None and fname.endswith(('kthlist', 'txt')) and 'dimacs' not in spec:
                # 'save' stores the very graph the formula is built from
                G2 = readGraph(fname, gtype, 'kthlist')
                record(describe(G2), sorted(G2.edges()) == sorted(G.edges()),
                       G2.number_of_vertices() == G.number_of_vertices())
        else:
            record(None)

    for argv in [
            ['kclique', '3', 'gnm', '6', '8', 'save', 'c1.kthlist'],
            ['tseitin', 'first', 'grid', '2', '3', 'save', 'kthlist', 'c2.out'],
            ['peb', 'pyramid', '2', 'save', 'c3.kthlist'],
            ['stone', '2', 'tree', '2', 'save', 'kthlist', 'c4.out'],
            ['php', 'glrd', '4', '3', '2', 'save', 'c5.kthlist'],
            ['subsetcard', 'regular', '4', '4', '2', 'save', 'kthlist', 'c6.out'],
            ['peb', 'pyramid', '2', 'save', 'kthlist'],
            ['php', 'glrd', '4', '3', '2', 'save', 'gml', 'c7.gml'],
    ]:
        out, err = io.StringIO(), io.StringIO()
        try:
            with contextlib.redirect_stdout(out), contextlib.redirect_stderr(err):
                res = cli(['cnfgen', '-q', '--seed', '13'] + argv, mode='string')
            record('CLI OK', argv, res)
        except BaseException as e:
            record('CLI EXC', argv, type(e).__name__, str(e))
        record(out.getvalue(), err.getvalue())
        fname = argv[-1]
        if os.path.exists(fname):
            with open(fname, encoding='utf-8') as f:
                record(f.read())
        else:
            record(None)
finally:
    os.chdir(cwd)
    shutil.rmtree(tmpdir, ignore_errors=True)

print(H.hexdigest())
