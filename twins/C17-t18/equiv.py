"""Equivalence script for t18: DAG constructions 'tree', 'pyramid', 'path'
of cnfgen/clitools/graph_build.py (obtain_tree / obtain_pyramid / obtain_path).
Run as: cd <checkout> && /venv/bin/python equiv.py
"""
import sys, os, hashlib, random, io, tempfile, contextlib
sys.path.insert(0, os.getcwd())

from cnfgen.clitools.cnfgen import cli as cnfgen_cli
from cnfgen.clitools.pbgen import cli as pbgen_cli
from cnfgen.clitools.cmdline import CLIError
from cnfgen.clitools import graph_build
from cnfgen.clitools.graph_args import make_graph_from_spec, parse_graph_argument, obtain_graph
from cnfgen.families.pebbling import PebblingFormula, StoneFormula
from cnfgen.graphs import dag_pyramid, dag_complete_binary_tree, dag_path

H = hashlib.sha256()


def rec(*items):
    for it in items:
        H.update(repr(it).encode('utf-8'))
        H.update(b'\x00')


def graph_sig(G):
    return (type(G).__name__, G.name, G.order(), G.number_of_edges(),
            sorted(G.edges()))


def attempt(label, f):
    err = io.StringIO()
    try:
        with contextlib.redirect_stderr(err):
            res = f()
        rec(label, 'OK', res, err.getvalue())
    except SystemExit as e:
        rec(label, 'EXIT', e.code, err.getvalue())
    except BaseException as e:
        rec(label, 'EXC', type(e).__name__, str(e),
            type(e.__cause__).__name__, type(e.__context__).__name__,
            err.getvalue())


# 1. direct calls of the three construction functions
names = ['tree', 'pyramid', 'path']
funcs = {'tree': graph_build.obtain_tree,
         'pyramid': graph_build.obtain_pyramid,
         'path': graph_build.obtain_path}
arglists = [[str(h)] for h in range(0, 7)] + [
    [], ['1', '2'], ['-1'], ['-0'], ['1.5'], ['abc'], ['1e1'], [' 3 '],
    ['+2'], [''], [3], [2.0], [2.7], [None], [[1]], ['0', '0', '0'], None, 5,
    '3', '12', (4,), ('2', '3'), [True], ['0x3'], ['٣']]
for n in names:
    for a in arglists:
        parsed = {'graphtype': 'dag', 'construction': n, 'args': a,
                  'filename': None, 'fileformat': None}
        attempt(('direct', n, a), lambda: graph_sig(funcs[n](parsed)))
    attempt(('direct-noargs', n), lambda: graph_sig(funcs[n]({})))

# 2. through the graph argument parser
specs = []
for n in names:
    for tail in ['', '0', '1', '3', '4', '2 2', '-3', 'x', '2.5', '3 save',
                 '3 addedges 1', '2 plantclique 1']:
        specs.append((n + ' ' + tail).strip())
for gt in ['dag', 'digraph', 'simple', 'bipartite']:
    for s in specs:
        attempt(('spec', gt, s),
                lambda: graph_sig(make_graph_from_spec(gt, s.split())))

# 3. through the command line tools, compared with the library
tmp = tempfile.mkdtemp()
for n, lib in [('tree', dag_complete_binary_tree), ('pyramid', dag_pyramid),
               ('path', dag_path)]:
    for h in range(0, 5):
        cmd = ['cnfgen', '-q', 'peb', n, h]
        attempt(('cli', cmd), lambda: cnfgen_cli(cmd, mode='string'))
        F = cnfgen_cli(['cnfgen', 'peb', n, h], mode='formula')
        L = PebblingFormula(lib(h))
        rec('same-as-lib', n, h, list(F.clauses()) == list(L.clauses()),
            F.number_of_variables() == L.number_of_variables(),
            [F.all_variable_labels()] == [L.all_variable_labels()])
        for T in [[], ['-T', 'xor', 2], ['-T', 'or', 2, '-T', 'flip']]:
            cmd = ['cnfgen', '-q', 'stone', 2, n, h] + T
            attempt(('cli', cmd), lambda: cnfgen_cli(cmd, mode='string'))
        fn = os.path.join(tmp, '%s%d.kthlist' % (n, h))
        cmd = ['cnfgen', '-q', 'peb', n, h, 'save', fn]
        attempt(('cli-save', n, h), lambda: cnfgen_cli(cmd, mode='string'))
        with open(fn) as f:
            rec('saved', n, h, f.read())
        cmd = ['cnfgen', '-q', 'peb', fn]
        attempt(('cli-load', n, h), lambda: cnfgen_cli(cmd, mode='string'))
        random.seed(7)
        cmd = ['cnfgen', '-q', '-S', 11, 'stone', 3, n, h, '--sparse', 2]
        attempt(('cli-sparse', n, h), lambda: cnfgen_cli(cmd, mode='string'))
        cmd = ['pbgen', '-q', 'peb', n, h]
        attempt(('pbgen', n, h), lambda: pbgen_cli(cmd, mode='string'))
    for bad in [[], ['-1'], ['x'], ['1', '2'], ['2.5'], ['1', 'foo'], ['1e2']]:
        cmd = ['cnfgen', 'peb', n] + bad
        attempt(('cli-bad', cmd), lambda: cnfgen_cli(cmd, mode='string'))
        cmd = ['cnfgen', 'stone', 2, n] + bad
        attempt(('cli-bad', cmd), lambda: cnfgen_cli(cmd, mode='string'))

# 4. introspection that a user may rely on
for n in names:
    rec(funcs[n].__name__, funcs[n].__doc__)

print(H.hexdigest())
