"""Equivalence digest for the refactoring of
cnfgen.formula.cnfio.guess_output_format

Run as:  cd <checkout> && /venv/bin/python equiv.py
"""
import sys
import os
import io
import hashlib
import random
import warnings

warnings.simplefilter('ignore')
sys.path.insert(0, os.getcwd())

import gc
import re
import pathlib
import shutil
import tempfile
from cnfgen.formula.cnfio import guess_output_format
from cnfgen.formula.cnf import CNF
import importlib
import cnfgen.clitools.msg as msgmod

# (`cnfgen.clitools.cnfgen` the attribute is a function, not the module)
cnfgen_cli = importlib.import_module('cnfgen.clitools.cnfgen')
pbgen_cli = importlib.import_module('cnfgen.clitools.pbgen')
from cnfgen.info import info

# the version string comes from `git describe`: pin it
info['version'] = 'equiv'

H = hashlib.sha256()


def record(*items):
    for x in items:
        H.update(repr(x).encode('utf8'))
        H.update(b'\x00')


class KeepOpen(io.StringIO):
    def close(self):
        pass


def run_main(module, argv, stdin_text=''):
    """Run the `main` entry point of a command line tool in process"""
    old = sys.argv, sys.stdout, sys.stderr, sys.stdin
    out, err = KeepOpen(), KeepOpen()
    sys.argv, sys.stdout, sys.stderr = list(argv), out, err
    sys.stdin = io.StringIO(stdin_text)
    code = 0
    msgmod._prefix = ''   # a fresh process starts with no prefix
    random.seed(1234)
    try:
        try:
            module.main()
        except SystemExit as e:
            code = e.code
        except BaseException as e:  # unhandled internal exception
            code = ('UNHANDLED', type(e).__name__, str(e))
    finally:
        sys.argv, sys.stdout, sys.stderr, sys.stdin = old
    record(argv, code, out.getvalue(), err.getvalue())
    if os.environ.get("EQUIV_DEBUG"): print(argv, code, out.getvalue()[:300], err.getvalue()[:300], file=sys.__stderr__)


class Named:
    """file-like object with an arbitrary `name`"""
    def __init__(self, name):
        self.name = name

    def __repr__(self):
        return 'Named({!r})'.format(self.name)


class BadName:
    """object whose `name` attribute misbehaves"""
    def __init__(self, exc):
        self.exc = exc

    @property
    def name(self):
        raise self.exc

    def __repr__(self):
        return 'BadName({!r})'.format(self.exc)


class StrSubclass(str):
    pass


def stable(text):
    """remove memory addresses from default reprs"""
    return re.sub(r' at 0x[0-9a-fA-F]+', '', text)


def attempt(label, f, *args):
    try:
        res = f(*args)
        record('ok', label, stable(repr(args)), stable(repr(res)))
    except BaseException as e:
        record('exc', label, stable(repr(args)), type(e).__name__,
               stable(str(e)))


# 1. direct calls
names = [
    'f.tex', 'f.opb', 'f.cnf', 'f.dimacs', 'f', '', '.tex', '.opb', 'tex',
    'opb', 'f.TEX', 'f.Opb', 'f.tex.opb', 'f.opb.tex', 'f.tex.', 'f.opb ',
    'dir.tex/f', 'dir.opb/f.cnf', 'dir/f.tex', '/abs/path/f.opb', '-',
    '<stdout>', 'f.latex', 'f.tex~', 'f..tex', '..opb', '...', 'a.b.c.tex',
    StrSubclass('g.tex'), b'f.tex', b'f.opb', b'f', pathlib.PurePosixPath('p.tex'),
    None, 0, 1, 3.5, [], ['f.tex'], ('f.opb', ), {}, object,
]
fileobjs = [Named(n) for n in names] + [
    io.StringIO(), io.BytesIO(), sys.__stdout__, sys.__stderr__,
    BadName(AttributeError('no name')), BadName(ValueError('closed')),
    BadName(IndexError('idx')), BadName(KeyError('key')),
    BadName(TypeError('type')), BadName(OSError('os')),
]
requests = [
    None, 'latex', 'dimacs', 'opb', 'tex', 'cnf', '', 'LATEX', 'Dimacs',
    'autodetect', 0, False, True, 1, [], ['latex'], ('opb', ), b'latex',
    StrSubclass('latex'),
]
for req in requests:
    for n in names + fileobjs:
        attempt('guess', guess_output_format, n, req)

# 2. CNF.to_file and the command line tools writing to named files
tools = {'cnfgen': cnfgen_cli, 'pbgen': pbgen_cli}
outnames = ['out.tex', 'out.opb', 'out.cnf', 'out', 'out.TEX', 'out.tex.opb',
            'out.opb.tex', '.tex', '.opb', 'tex', 'out.latex', 'out.dimacs']
cwd = os.getcwd()
tmpdir = tempfile.mkdtemp()
try:
    os.chdir(tmpdir)
    os.mkdir('dir.tex')
    os.mkdir('dir.opb')

    def content(fname):
        gc.collect()
        try:
            with open(fname) as f:
                return f.read()
        except OSError as e:
            return ('unreadable', type(e).__name__)

    F = CNF([[1, -2], [2, 3], [-1, -3]])
    for fmt in [None, 'latex', 'dimacs', 'opb', 'tex', 'nosuch', 0]:
        for fname in outnames + ['dir.tex/f', 'dir.opb/f.cnf', 'dir.opb/f.tex']:
            attempt('to_file', F.to_file, fname, fmt)
            record(fname, content(fname))
            if os.path.exists(fname) and not os.path.isdir(fname):
                os.remove(fname)
            # as an open file object
            try:
                with open(fname, 'w') as fobj:
                    attempt('to_file-obj', F.to_file, fobj, fmt)
            except OSError as e:
                record('cannot open', fname, type(e).__name__)
            record(fname, content(fname))
            if os.path.exists(fname) and not os.path.isdir(fname):
                os.remove(fname)
        out = io.StringIO()
        attempt('to_file-stringio', F.to_file, out, fmt)
        record(out.getvalue())

    for tool in ['cnfgen', 'pbgen']:
        for fname in outnames + ['dir.tex/f', 'dir.opb/f.cnf', 'nodir/f.tex', 'dir.tex']:
            for extra in [[], ['-of', 'latex'], ['-of', 'opb'], ['-of', 'dimacs'],
                          ['-l'], ['-of', 'nosuch']]:
                argv = [tool, '-o', fname] + extra + ['php', '3', '2']
                run_main(tools[tool], argv)
                record(fname, content(fname))
                if os.path.exists(fname) and not os.path.isdir(fname):
                    os.remove(fname)
                # errors detected after the output file has been opened
                argv = [tool, '-q', '-o', fname] + extra + ['php', '3']
                argv += ['2', '1', '0']
                run_main(tools[tool], argv)
                record(fname, content(fname))
                if os.path.exists(fname) and not os.path.isdir(fname):
                    os.remove(fname)
    # standard output
    for tool in ['cnfgen', 'pbgen']:
        for extra in [[], ['-of', 'latex'], ['-of', 'opb'], ['-of', 'dimacs'],
                      ['-l'], ['-o', '-'], ['-o', '-', '-of', 'opb']]:
            run_main(tools[tool], [tool, '-q'] + extra + ['op', '3'])
            run_main(tools[tool], [tool] + extra + ['--seed', '5', 'randkcnf', '2', '4', '3'])
            run_main(tools[tool], [tool] + extra + ['randkcnf', '5', '4', '3'])
finally:
    os.chdir(cwd)
    shutil.rmtree(tmpdir, ignore_errors=True)

print(H.hexdigest())
