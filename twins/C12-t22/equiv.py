#!/usr/bin/env python
"""Equivalence harness for t22: comment header of OPB and DIMACS files
(cnfgen.utils.opb.to_opb_file, cnfgen.utils.parsedimacs.to_dimacs_file).

Run as: cd <checkout> && /venv/bin/python equiv.py
Prints one SHA256 digest of everything observed.
"""
import hashlib
import io
import os
import random
import sys
import tempfile
from collections import OrderedDict

sys.path.insert(0, os.getcwd())

from cnfgen.info import info
# the version string comes from `git describe`: pin it, so that the
# digest does not depend on the commit that is checked out
info['version'] = 'pinned-version'
from cnfgen.formula.cnf import CNF
from cnfgen.formula.opb import OPB
from cnfgen.utils.opb import to_opb_file
from cnfgen.utils.parsedimacs import to_dimacs_file
from cnfgen.clitools.cnfgen import cli as cnfgen_cli
from cnfgen.clitools.pbgen import cli as pbgen_cli

LOG = []


def rec(*items):
    LOG.append(repr(items))


class Recorder:
    """File like object that records each single write"""
    def __init__(self, fail_after=None):
        self.writes = []
        self.fail_after = fail_after

    def write(self, text):
        if self.fail_after is not None and len(self.writes) >= self.fail_after:
            raise IOError("disk full after {}".format(len(self.writes)))
        self.writes.append(text)
        return len(text)


class Grumpy:
    def __str__(self):
        raise RuntimeError("no string for you")


class Shouting:
    def __format__(self, spec):
        return "SHOUT[{}]".format(spec)

    def __str__(self):
        return "str-not-used"


HEADERS = [
    None,   # keep the default header
    OrderedDict(),
    OrderedDict([('description', 'plain')]),
    OrderedDict([('description', 'café αβ \U0001F600'), ('note', '')]),
    OrderedDict([('description', 'two\nlines'), ('more', 'a\r\nb\rc\x0bd\x0ce\x1cf\x85g h i')]),
    OrderedDict([('description', '\n'), ('x', '\n\n'), ('y', 'tail\n'), ('z', '\nhead')]),
    OrderedDict([('description', None), (3, 4), ((1, 2), [5, 6]), ('f', 1.5)]),
    OrderedDict([('description', 'd'), ('', ''), (' ', '  '), ('* fake', 'p cnf 1 1')]),
    OrderedDict([('description', 'ok'), ('bad', Grumpy()), ('after', 'never')]),
    OrderedDict([('description', Shouting()), ('k', 'v')]),
    OrderedDict([('über\nkey', 'value')]),
    {'description': 'a plain dict', 'generator': 'g', 'zz': 'last'},
]


def formulas():
    rnd = random.Random(77)
    yield 'cnf-empty', CNF()
    yield 'cnf-emptyclause', CNF([[]])
    yield 'cnf-small', CNF([[1, -2, 3], [-1], [2, 4]])
    F = CNF()
    a = F.new_variable('alpha\nbeta')
    B = F.new_block(2, 2, label='b_{{{},{}}}')
    c = F.new_variable('ç')
    F.add_clause([a, -c])
    F.add_clause(B(1, None))
    F.update_variable_number(8)
    yield 'cnf-named', F
    cls = [[rnd.choice([-1, 1]) * rnd.randint(1, 9) for _ in range(rnd.randint(0, 5))]
           for _ in range(40)]
    yield 'cnf-rand', CNF(cls)
    yield 'opb-empty', OPB()
    yield 'opb-emptycons', OPB([['>=', 1], ['==', 0]])
    F = OPB()
    F.add_constraint([(2, 1), (-3, 2), (1, -3), '<=', 2])
    F.add_constraint([(5, 4), (5, -4), '==', 5])
    F.add_clause([1, -2])
    yield 'opb-small', F
    F = OPB()
    f = F.new_mapping(3, 2, label='f({})=\n{}')
    F.force_complete_mapping(f)
    F.force_injective_mapping(f)
    yield 'opb-named', F


def run_writer(tag, writer, F, **kw):
    for fail_after in (None, 0, 1, 2, 3, 5, 8):
        out = Recorder(fail_after)
        try:
            res = writer(F, out, **kw)
            rec(tag, fail_after, 'ok', res)
        except Exception as e:  # noqa
            rec(tag, fail_after, 'exc', type(e).__name__, str(e))
        rec(tag, fail_after, 'writes', out.writes)
        if fail_after is None:
            text = ''.join(out.writes)
            # every header line is a comment line
            rec(tag, 'lines', text.splitlines(True))


def main():
    for fname, F in formulas():
        iscnf = fname.startswith('cnf')
        for hidx, header in enumerate(HEADERS):
            if header is not None:
                F.header = header
            for hdr in (True, False):
                for vn in (True, False):
                    tag = (fname, hidx, hdr, vn)
                    run_writer(tag + ('opb',), to_opb_file, F,
                               export_header=hdr, export_varnames=vn)
                    if iscnf:
                        run_writer(tag + ('dimacs',), to_dimacs_file, F,
                                   export_header=hdr, export_varnames=vn)
            # defaults of the keyword arguments
            run_writer((fname, hidx, 'defaults', 'opb'), to_opb_file, F)
            if iscnf:
                run_writer((fname, hidx, 'defaults', 'dimacs'), to_dimacs_file, F)
                try:
                    rec(fname, hidx, 'to_dimacs', F.to_dimacs())
                except Exception as e:  # noqa
                    rec(fname, hidx, 'to_dimacs', 'exc', type(e).__name__, str(e))
            for fmt in ('opb', 'dimacs', 'latex'):
                buf = io.StringIO()
                try:
                    F.to_file(buf, fileformat=fmt, export_varnames=True)
                    rec(fname, hidx, 'to_file', fmt, buf.getvalue())
                except Exception as e:  # noqa
                    rec(fname, hidx, 'to_file', fmt, 'exc', type(e).__name__,
                        str(e), buf.getvalue())

    # through real files and stdout
    tmpdir = tempfile.mkdtemp()
    F = CNF([[1, -2], [2]], description='file è test\nsecond')
    G = OPB([[(2, 1), (1, -2), '>=', 2]], description='pb è test\nsecond')
    for name, X, writer in (('a.opb', F, to_opb_file), ('b.cnf', F, to_dimacs_file),
                            ('c.opb', G, to_opb_file)):
        path = os.path.join(tmpdir, name)
        rec(name, writer(X, path, export_header=True, export_varnames=True))
        with open(path, 'rb') as fh:
            rec(name, fh.read())
        os.unlink(path)
    os.rmdir(tmpdir)
    old = sys.stdout
    try:
        for X, writer in ((F, to_opb_file), (F, to_dimacs_file), (G, to_opb_file)):
            sys.stdout = cap = io.StringIO()
            writer(X)
            LOG.append(repr(('stdout', cap.getvalue())))
    finally:
        sys.stdout = old

    # command line tools
    cmds = [
        (cnfgen_cli, ['cnfgen', '-q', '-of', 'opb', 'php', 3, 2]),
        (cnfgen_cli, ['cnfgen', '-of', 'opb', '--varnames', 'php', 3, 2]),
        (cnfgen_cli, ['cnfgen', '--varnames', 'op', 3]),
        (cnfgen_cli, ['cnfgen', 'and', 2, 1]),
        (cnfgen_cli, ['cnfgen', '-of', 'opb', 'and', 0, 0]),
        (pbgen_cli, ['pbgen', 'php', 3, 2]),
        (pbgen_cli, ['pbgen', '--varnames', 'php', 3, 2]),
        (pbgen_cli, ['pbgen', '-q', 'php', 2, 1]),
    ]
    for cli, argv in cmds:
        old_out, old_err = sys.stdout, sys.stderr
        sys.stdout, sys.stderr = cap, caperr = io.StringIO(), io.StringIO()
        try:
            try:
                cli(argv)
                status = 'ok'
            except SystemExit as e:
                status = ('exit', e.code)
            except Exception as e:  # noqa
                status = ('exc', type(e).__name__, str(e))
        finally:
            sys.stdout, sys.stderr = old_out, old_err
        rec('cli', argv, status, cap.getvalue(), caperr.getvalue())

    digest = hashlib.sha256('\n'.join(LOG).encode('utf-8')).hexdigest()
    print(digest)


if __name__ == '__main__':
    main()
