"""Equivalence harness for BinaryMappingVariables.to_index (C11)."""
import hashlib
import sys
sys.path.insert(0, '.')

from cnfgen.formula.cnf import CNF
from cnfgen.formula.basecnf import BaseCNF
from cnfgen.formula.variables import BinaryMappingVariables, VariablesManager

OUT = []


def rec(*args):
    OUT.append(repr(args))


def attempt(tag, fn, *args):
    try:
        res = fn(*args)
        if hasattr(res, '__next__') or hasattr(res, '__iter__') and not isinstance(res, (tuple, list, str)):
            res = list(res)
        rec(tag, args, 'ok', res, type(res).__name__)
    except Exception as e:  # noqa
        rec(tag, args, 'exc', type(e).__name__, str(e))


# direct construction with several offsets
for offset in (0, 1, 7):
    for n in range(0, 7):
        for m in list(range(0, 19)) + [31, 32, 33, 64, 65]:
            F = BaseCNF()
            F.update_variable_number(offset)
            try:
                f = BinaryMappingVariables(F, n, m, labelfmt='b[{},{}]')
            except Exception as e:
                rec('init', offset, n, m, type(e).__name__, str(e))
                continue
            N = len(f)
            rec('shape', offset, n, m, N, f.bits(), list(f), list(f.indices()))
            for lit in range(-(offset + N + 3), offset + N + 4):
                attempt('to_index', f.to_index, lit)
            # round trips
            for idx in f.indices():
                vid = f(*idx)
                rec('rt', idx, vid, f.to_index(vid), f.to_index(-vid), f.label(*idx))
            for vid in f:
                i, b = f.to_index(vid)
                rec('rt2', vid, (i, b), f(i, b), type(i).__name__, type(b).__name__)
            # odd literal types
            for lit in (True, False, 1.0, 2.0, -3.0, 2.5, offset + 1.0, float(offset + N)):
                attempt('to_index_odd', f.to_index, lit)
            for lit in ('a', None, (1,), [2]):
                attempt('to_index_bad', f.to_index, lit)

# negative sizes
for n, m in ((-1, 3), (3, -1), (-2, -2)):
    F = BaseCNF()
    try:
        BinaryMappingVariables(F, n, m)
        rec('neg', n, m, 'ok')
    except Exception as e:
        rec('neg', n, m, type(e).__name__, str(e))

# through the CNF interface, interleaving groups, clauses and raises of the variable number
for n in range(0, 5):
    for m in (0, 1, 2, 3, 5, 8, 9):
        F = CNF()
        x = F.new_variable('x')
        F.add_clause([x, -(x + 2)])
        g = F.new_binary_mapping(n, m, label='g({},{})')
        F.update_variable_number(F.number_of_variables() + 2)
        h = F.new_binary_mapping(m, n + 1)
        y = F.new_block(2, 2, label='y_{}_{}')
        F.add_clause([-1, F.number_of_variables() + 1])
        rec('cnf', n, m, F.number_of_variables(), list(F.all_variable_labels()))
        for grp in (g, h):
            for lit in range(-F.number_of_variables() - 1, F.number_of_variables() + 2):
                attempt('cnf_to_index', grp.to_index, lit)
            for idx in grp.indices():
                rec('cnf_rt', idx, grp(*idx), grp.to_index(grp(*idx)), grp.to_index(-grp(*idx)))
        F.force_complete_mapping(g)
        F.force_injective_mapping(g)
        F.force_nondecreasing_mapping(h)
        rec('cnf_clauses', list(F))
        rec('dimacs', F.to_dimacs())

digest = hashlib.sha256('\n'.join(OUT).encode('utf-8')).hexdigest()
print(digest)
