import sys, os, io, hashlib, argparse, random, contextlib
sys.path.insert(0, os.getcwd())
from cnfgen.clitools import cnfgen as cnfgen_cli
from cnfgen.clitools.pbgen import cli as pbgen_cli
import importlib; cmod = sys.modules['cnfgen.clitools.cnfgen']
from cnfgen.clitools.cmdline import get_formula_helpers, get_transformation_helpers

H = hashlib.sha256()
def rec(*xs):
    for x in xs:
        H.update(repr(x).encode()); H.update(b'\n')

def run(fn, argv, mode='string'):
    err = io.StringIO()
    try:
        with contextlib.redirect_stderr(err):
            out = fn(argv, mode=mode)
        if mode == 'formula':
            out = (list(out.clauses()) if hasattr(out, 'clauses') else None, out.to_dimacs(), sorted(out.header.items()))
        rec('OK', argv, out)
    except SystemExit as e:
        rec('EXIT', argv, e.code)
    except BaseException as e:
        rec('EXC', argv, type(e).__name__, str(e))
    rec(err.getvalue())

cmds = [
    ['cnfgen', 'php', 3, 2],
    ['cnfgen', '-q', 'php', 3, 2],
    ['cnfgen', 'php', 3, 2, '-T'],
    ['cnfgen', 'php', 3, 2, '-T', '-T', 'xor', 2],
    ['cnfgen', '-T', 'xor', 2],
    ['cnfgen', '-T'],
    ['cnfgen'],
    [],
    ['-T'],
    ['-T', 'php', 3, 2],
    ['cnfgen', 'php', 3, 2, '-T', 'xor', 2],
    ['cnfgen', 'php', 3, 2, '-T', 'xor', 2, '-T', 'or', 2],
    ['cnfgen', 'php', 3, 2, '-T', 'or', 2, '-T', 'xor', 2],
    ['cnfgen', 'php', 3, 2, '-T', 'flip', '-T', 'none', '-T', 'eq', 2, '-T', 'flip'],
    ['cnfgen', 'php', 3, 2, '-T', 'lift', 2, '-T', 'ite'],
    ['cnfgen', 'php', 3, 2, '-T', 'foo'],
    ['cnfgen', 'php', 3, 2, '-T', 'xor'],
    ['cnfgen', 'php', 3, 2, '-T', 'xor', 0],
    ['cnfgen', 'php', 3, 2, '-T', 'xor', 2, 3],
    ['cnfgen', 'php', 'x', '-T', 'xor', 2],
    ['cnfgen', 'php', 3, 2, '-t', 'xor', 2],
    ['cnfgen', 'php', 3, 2, '-TT', 'xor', 2],
    ['cnfgen', 'php', 3, 2, ' -T', 'xor', 2],
    ['cnfgen', '-T', 'xor', 2, 'php', 3, 2],
    ['cnfgen', '--seed', 5, 'randkcnf', 3, 6, 8, '-T', 'shuffle'],
    ['cnfgen', '--seed', 5, 'randkcnf', 3, 6, 8, '-T', 'shuffle', '-p', '-T', 'shuffle', '-c', '-v'],
    ['cnfgen', '--seed', 5, 'randkcnf', 3, 6, 8, '-T', 'xorcomp', 4, 2, '-T', 'shuffle'],
    ['cnfgen', '-of', 'opb', 'op', 3, '-T', 'maj', 3],
    ['cnfgen', '-of', 'latex', 'op', 3, '-T', 'neq', 2, '-T', 'one', 2],
    ['cnfgen', 'op', 3, '-T', 'atleast', 3, 2, '-T', 'atmost', 2, 1],
    ['cnfgen', 'op', 3, '-T', 'exact', 3, 2, '-T', 'anybut', 2, 1],
    ['cnfgen', 'peb', 'pyramid', 2, '-T', 'xor', 2],
    ['cnfgen', 'tseitin', 'first', 'grid', 2, 3, '-T', 'or', 2, '-T', 'flip'],
    ['cnfgen', '-h'],
    ['cnfgen', 'php', 3, 2, '-T', 'xor', '-h'],
    ['cnfgen', 'php', 3, 2, '-T', '-h'],
]
for c in cmds:
    for mode in ('string', 'formula'):
        out = io.StringIO()
        with contextlib.redirect_stdout(out):
            run(cnfgen_cli, c, mode)
        rec(out.getvalue())
    out = io.StringIO()
    with contextlib.redirect_stdout(out):
        run(pbgen_cli, ['pbgen'] + c[1:])
    rec(out.getvalue())

# direct calls of parse_command_line
fh = get_formula_helpers(); th = get_transformation_helpers()
for argv in [['cnfgen', 'php', '3', '2'], ['cnfgen', 'php', '3', '2', '-T', 'xor', '2', '-T', 'or', '3'],
             ['x', 'op', '4', '-T'], ['x', '-T', '-T'], ['x'], [], ('cnfgen', 'php', '3', '2', '-T', 'flip'),
             iter(['cnfgen', 'and', '2', '2', '-T', 'lift', '3'])]:
    parser, t_parser = cmod.setup_command_line_parsers('cnfgen', fh, th)
    try:
        fa, ta = cmod.parse_command_line(argv, parser, t_parser)
        def clean(ns):
            return sorted((k, getattr(v, '__name__', v)) for k, v in vars(ns).items() if k != 'output')
        rec('OK', clean(fa), [clean(t) for t in ta], type(ta).__name__)
    except SystemExit as e:
        rec('EXIT', e.code)
    except BaseException as e:
        rec('EXC', type(e).__name__, str(e))
print(H.hexdigest())
