"""Equivalence check for DirectedGraph.add_edge (cnfgen/graphs.py), which
maintains the sorted predecessor/successor lists and the `still_a_dag` flag
that pebbling / stone formulas rely on.  Prints one SHA256 digest."""
import sys, os, hashlib, random, io, contextlib
sys.path.insert(0, os.getcwd())

import networkx
from cnfgen.graphs import DirectedGraph, BipartiteGraph, readGraph, writeGraph
from cnfgen.graphs import dag_pyramid, dag_path, dag_complete_binary_tree
from cnfgen.graphs import bipartite_random_left_regular
from cnfgen.families.pebbling import PebblingFormula, StoneFormula, SparseStoneFormula
from cnfgen.clitools import cnfgen, CLIError

H = hashlib.sha256()


def rec(*items):
    for it in items:
        H.update(repr(it).encode('utf-8'))
        H.update(b'\x00')


def attempt(tag, fn):
    try:
        rec(tag, 'OK', fn())
    except Exception as e:
        rec(tag, 'EXC', type(e).__name__, str(e))


def snapshot(D):
    n = D.number_of_vertices()
    rec('snap', n, D.number_of_edges(), D.m, D.is_dag(), D.still_a_dag,
        [list(x) for x in D.pred], [list(x) for x in D.succ],
        sorted(D.edgeset), list(D.edges()), list(D.edges_ordered_by_successors()),
        len(D.edges()), D.name)
    for v in D.vertices():
        rec(list(D.predecessors(v)), list(D.successors(v)), D.in_degree(v), D.out_degree(v))


def formulas(D, tag):
    def peb():
        F = PebblingFormula(D)
        return (F.header['description'], F.number_of_variables(), list(F.clauses()),
                list(F.all_variable_labels()))
    attempt((tag, 'peb'), peb)
    if D.number_of_vertices() <= 7:
        for s in [1, 2, 3]:
            def stone():
                F = StoneFormula(D, s)
                return (F.header['description'], F.number_of_variables(), list(F.clauses()))
            attempt((tag, 'stone', s), stone)
        def sstone():
            B = bipartite_random_left_regular(D.number_of_vertices(), 4, 2, seed=11)
            F = SparseStoneFormula(D, B)
            return (F.header['description'], F.number_of_variables(), list(F.clauses()),
                    list(F.all_variable_labels()))
        attempt((tag, 'sstone'), sstone)


rng = random.Random(20240607)

# 1. hand picked boundary cases
D = DirectedGraph(0)
snapshot(D); formulas(D, 'empty')
attempt('edge-on-empty', lambda: D.add_edge(1, 1))
D = DirectedGraph(1, name=None)
snapshot(D); formulas(D, 'single')
for (u, v) in [(0, 1), (1, 0), (1, 2), (2, 1), (-1, 1), (1, 1)]:
    attempt(('single', u, v), lambda: D.add_edge(u, v))
    snapshot(D)
formulas(D, 'selfloop')

D = DirectedGraph(4, name='four')
for (u, v) in [(3, 4), (1, 4), (2, 4), (1, 4), (1, 2), (1, 3), (2, 3), (1, 2)]:
    attempt(('four', u, v), lambda: D.add_edge(u, v))
    snapshot(D)
formulas(D, 'four')
for (u, v) in [(4, 4), (4, 1), (5, 1), (1, 5), (0, 0), (4, 1)]:
    attempt(('four-bad', u, v), lambda: D.add_edge(u, v))
    snapshot(D)
formulas(D, 'four-cyclic')

# 1b. odd vertex types: state after a failed insertion is observable too
D = DirectedGraph(3, name='odd')
for (u, v) in [(1.0, 2.0), (1, 2.0), (2.0, 3), ('a', 1), (1, 'a'), (None, 1), (True, 2),
               (1, 2), (2, True), (2.5, 3), (1, 2.5), ((1,), 2), ([1], 2)]:
    attempt(('odd', repr(u), repr(v)), lambda: D.add_edge(u, v))
    rec('oddstate', D.m, D.still_a_dag, [list(x) for x in D.pred], [list(x) for x in D.succ],
        sorted(D.edgeset, key=repr))

# 2. random graphs, edges inserted in random order with duplicates
for trial in range(60):
    n = rng.randint(1, 9)
    acyclic = trial % 3 != 0
    D = DirectedGraph(n, name='rnd{}'.format(trial))
    nedges = rng.randint(0, 3 * n + 2)
    for _ in range(nedges):
        if rng.random() < 0.15:
            u = rng.randint(0, n + 1)
            v = rng.randint(0, n + 1)
        else:
            u = rng.randint(1, n)
            v = rng.randint(1, n)
        if acyclic and u > v:
            u, v = v, u
        if acyclic and u == v:
            continue
        attempt(('rnd', trial, u, v), lambda: D.add_edge(u, v))
    snapshot(D)
    formulas(D, ('rnd', trial))
    # add_edges_from with repeated edges
    E = list(D.edges())
    rng.shuffle(E)
    D2 = DirectedGraph(n, name='copy')
    D2.add_edges_from(E + E[:3])
    snapshot(D2)
    # round trip through networkx and through the kthlist / gml / dimacs writers
    X = D.to_networkx()
    rec(sorted(X.edges()), sorted(X.nodes()))
    D3 = DirectedGraph.from_networkx(X)
    snapshot(D3)
    for fmt in ['kthlist', 'gml', 'dimacs']:
        def roundtrip():
            buf = io.StringIO()
            writeGraph(D, buf, 'digraph', file_format=fmt)
            text = buf.getvalue()
            back = readGraph(io.StringIO(text), 'digraph', file_format=fmt)
            return (text, back.is_dag(), list(back.edges()),
                    [list(x) for x in back.pred], [list(x) for x in back.succ])
        attempt(('io', trial, fmt), roundtrip)

# 3. networkx digraphs with odd labels through normalize
for labels, edges in [
        (['a', 'b', 'c'], [('a', 'c'), ('a', 'b'), ('b', 'c')]),
        (['c', 'b', 'a'], [('c', 'a'), ('b', 'a'), ('a', 'c')]),
        ([10, 2, 33, 4], [(2, 33), (2, 10), (4, 33), (10, 33), (4, 10)]),
        (['10', '9', '1'], [('1', '9'), ('9', '10'), ('1', '10')])]:
    X = networkx.DiGraph()
    X.add_nodes_from(labels)
    X.add_edges_from(edges)
    X.name = 'nx-' + str(labels[0])
    D = DirectedGraph.normalize(X, 'X')
    snapshot(D)
    formulas(D, ('nx', str(labels)))

# 4. library DAGs
for D in [dag_pyramid(0), dag_pyramid(1), dag_pyramid(3), dag_path(0), dag_path(5),
          dag_complete_binary_tree(0), dag_complete_binary_tree(2)]:
    snapshot(D)
    formulas(D, D.name)

# 5. command line, DAG read from a kthlist file on stdin
kth = """c a small dag
6
1 : 0
2 : 0
3 : 2 1 0
4 : 3 0
5 : 4 1 0
6 : 5 3 2 0
"""
cyc = """3
1 : 3 0
2 : 1 0
3 : 2 0
"""
for text in [kth, cyc]:
    for cmd in [['peb'], ['stone', 2], ['stone', 3, '--sparse', 2]]:
        argv = ['cnfgen', '--seed', '5'] + cmd[:2] + ['kthlist', '-'] + cmd[2:]
        old = sys.stdin
        sys.stdin = io.StringIO(text)
        out, err = io.StringIO(), io.StringIO()
        try:
            with contextlib.redirect_stdout(out), contextlib.redirect_stderr(err):
                res = cnfgen(argv, mode='string')
            rec('cli', argv, res, out.getvalue(), err.getvalue())
        except CLIError as e:
            rec('cli', argv, 'CLIError', str(e))
        except SystemExit as e:
            rec('cli', argv, 'SystemExit', e.code, err.getvalue())
        except Exception as e:
            rec('cli', argv, type(e).__name__, str(e))
        finally:
            sys.stdin = old

print(H.hexdigest())
