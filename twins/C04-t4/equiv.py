#!/usr/bin/env python
"""Equivalence harness for BinaryMappingVariables (construction, flips table, forbid)
and for the mapping constraint builders built on it (property C04):
VariablesManager.force_{complete,functional,injective,surjective,nondecreasing}_mapping
on unary, sparse and binary mappings, for CNF and OPB formulas.

Run as:  cd <checkout> && /venv/bin/python equiv.py
Prints one SHA256 digest of everything observable.
"""
import sys
import os
import hashlib
import itertools
import random

sys.path.insert(0, os.getcwd())

from cnfgen.formula.cnf import CNF
from cnfgen.formula.opb import OPB
from cnfgen.formula.basecnf import BaseCNF
from cnfgen.formula.linear import CNFLinear
from cnfgen.formula.variables import VariablesManager, BinaryMappingVariables
from cnfgen.graphs import BipartiteGraph

H = hashlib.sha256()
NREC = 0


def rec(*items):
    global NREC
    NREC += 1
    H.update(repr(items).encode('utf-8'))
    H.update(b'\n')


def attempt(tag, fn):
    try:
        res = fn()
        rec(tag, 'ok', res)
    except Exception as e:  # noqa
        cause = e.__cause__
        rec(tag, 'exc', type(e).__name__, str(e),
            None if cause is None else (type(cause).__name__, str(cause)))


def snapshot(F):
    return ([list(c) for c in F], F.number_of_variables(), len(F))


FORCES = ['force_complete_mapping', 'force_functional_mapping',
          'force_surjective_mapping', 'force_injective_mapping',
          'force_nondecreasing_mapping']


def bipartite_graphs():
    rng = random.Random(30403)
    # a few fixed ones
    B = BipartiteGraph(2, 3)
    for e in [(1, 2), (1, 3), (2, 1), (2, 3)]:
        B.add_edge(*e)
    yield 'doc', B
    yield 'empty00', BipartiteGraph(0, 0)
    yield 'empty30', BipartiteGraph(3, 0)
    yield 'empty03', BipartiteGraph(0, 3)
    yield 'noedges', BipartiteGraph(3, 4)
    for L in range(1, 5):
        for R in range(1, 5):
            B = BipartiteGraph(L, R)
            for u in range(1, L + 1):
                for v in range(1, R + 1):
                    B.add_edge(u, v)
            yield 'complete{}x{}'.format(L, R), B
    for i in range(40):
        L = rng.randint(1, 6)
        R = rng.randint(1, 6)
        p = rng.choice([0.2, 0.5, 0.8])
        B = BipartiteGraph(L, R)
        pairs = [(u, v) for u in range(1, L + 1) for v in range(1, R + 1)]
        rng.shuffle(pairs)    # insertion order must not matter
        for (u, v) in pairs:
            if rng.random() < p:
                B.add_edge(u, v)
        yield 'rnd{}'.format(i), B


def mappings():
    """(tag, constructor taking a formula and returning the mapping)"""
    for n in range(0, 5):
        for m in range(0, 5):
            yield ('unary', n, m), (lambda F, n=n, m=m: F.new_mapping(n, m))
    for name, B in bipartite_graphs():
        yield ('sparse', name), (lambda F, B=B: F.new_sparse_mapping(B))
    for n in range(0, 5):
        for m in range(0, 10):
            yield ('binary', n, m), (lambda F, n=n, m=m: F.new_binary_mapping(n, m))
    yield ('binary', 2, 17), (lambda F: F.new_binary_mapping(2, 17))
    yield ('binary', 3, 16), (lambda F: F.new_binary_mapping(3, 16))


def describe(f):
    out = [type(f).__name__, len(f), list(f())]
    try:
        out.append(list(f.domain()))
        out.append(list(f.range()))
    except Exception as e:  # noqa
        out.append((type(e).__name__, str(e)))
    if isinstance(f, BinaryMappingVariables):
        out.append(f.bits())
        out.append([list(fl) for fl in f.flips])
        out.append(type(f.flips).__name__)
    return out


def run_each(cls, offset):
    for tag, make in mappings():
        for force in FORCES:
            def go():
                F = cls()
                if offset:
                    F.update_variable_number(offset)
                f = make(F)
                r = getattr(F, force)(f)
                return (r, describe(f), snapshot(F))
            attempt((cls.__name__, offset, tag, force), go)
        # all of them one after the other on the same formula
        def go_all():
            F = cls()
            if offset:
                F.update_variable_number(offset)
            f = make(F)
            res = []
            for force in FORCES:
                try:
                    res.append(getattr(F, force)(f))
                except ValueError as e:
                    res.append(str(e))
                res.append(len(F))
            text = F.to_dimacs() if hasattr(F, 'to_dimacs') else F.to_opb()
            return (res, snapshot(F), text)
        attempt((cls.__name__, offset, tag, 'all'), go_all)


def run_forbid():
    for n in range(0, 4):
        for m in range(0, 10):
            for offset in (0, 5):
                F = CNF()
                F.update_variable_number(offset)
                try:
                    f = F.new_binary_mapping(n, m)
                except Exception as e:  # noqa
                    rec('forbid-new', n, m, offset, type(e).__name__, str(e))
                    continue
                for i in range(-1, n + 2):
                    for j in range(-2, 2 ** f.bits() + 2):
                        attempt(('forbid', n, m, offset, i, j), lambda: f.forbid(i, j))
    for (n, m) in [(-1, 3), (3, -1), (-1, -1)]:
        attempt(('neg', n, m), lambda: describe(CNF().new_binary_mapping(n, m)))
        attempt(('neg-direct', n, m), lambda: describe(BinaryMappingVariables(CNF(), n, m)))


def run_binary_internals():
    for n in range(0, 4):
        for m in list(range(0, 20)) + [31, 32, 33, 64, 65]:
            for offset in (0, 3):
                def go():
                    F = OPB()
                    F.update_variable_number(offset)
                    f = BinaryMappingVariables(F, n, m, labelfmt='b[{}]_{}')
                    out = describe(f)
                    out.append([tuple(fl) for fl in f.flips] ==
                               list(itertools.product([1, -1], repeat=f.bits())))
                    out.append(len(f.flips))
                    out.append(list(f.label()))
                    out.append([f.forbid(i, j) for i in f.domain() for j in range(2 ** f.bits())])
                    out.append(F.number_of_variables())
                    return out
                attempt(('internals', n, m, offset), go)
    F = CNF()
    f = F.new_binary_mapping(3, 6)
    for i, j in [(None, 1), (1, None), ('a', 1), (1, 'a'), (1.0, 1), (1, 1.0), (1, 2.5),
                 (None, None), (1, 8), (1, 7), (1, -8), (1, -9), (0, 8), (0, -9), (4, 100)]:
        attempt(('forbid-odd', repr(i), repr(j)), lambda: f.forbid(i, j))
    # the table of sign patterns is shared by all the calls: it must not be altered by them
    before = [tuple(fl) for fl in f.flips]
    for j in range(8):
        c = f.forbid(2, j)
        c.append(99)
    rec('flips-stable', before == [tuple(fl) for fl in f.flips], before)


def run_errors():
    for cls in (CNF, OPB):
        for force in FORCES:
            F = cls()
            G = cls()
            block = F.new_block(2, 3)
            var = F.new_variable()
            fm = G.new_mapping(2, 2)
            gm = G.new_binary_mapping(2, 3)
            for name, arg in [('block', block), ('var', var), ('none', None), ('int', 3),
                              ('list', [1, 2]), ('foreign-unary', fm), ('foreign-binary', gm)]:
                attempt((cls.__name__, 'err', force, name), lambda: getattr(F, force)(arg))
            rec(cls.__name__, 'err-after', force, snapshot(F), snapshot(G))
    # VariablesManager over a separate plain formula
    for base in (BaseCNF, CNFLinear):
        for force in FORCES:
            def go():
                C = base()
                V = VariablesManager(C)
                f = V.new_mapping(3, 2)
                g = V.new_binary_mapping(3, 5)
                out = []
                for h in (f, g):
                    try:
                        out.append(getattr(V, force)(h))
                    except Exception as e:  # noqa
                        out.append((type(e).__name__, str(e)))
                return (out, snapshot(C))
            attempt((base.__name__, 'manager', force), go)


def run_semantics():
    """Brute force check that the clauses say what the method name says (CNF encoding)."""
    def models(F, nv):
        for bits in itertools.product([False, True], repeat=nv):
            if all(any(bits[abs(l) - 1] == (l > 0) for l in c) for c in F):
                yield bits

    for name, B in bipartite_graphs():
        if B.number_of_edges() > 9:
            continue
        for force in FORCES:
            F = CNF()
            f = F.new_sparse_mapping(B)
            getattr(F, force)(f)
            nv = F.number_of_variables()
            fd = f.to_dict()
            L, R = B.left_order(), B.right_order()
            count = 0
            for bits in itertools.product([False, True], repeat=nv):
                sat = all(any(bits[abs(l) - 1] == (l > 0) for l in c) for c in F)
                img = {u: [v for v in B.right_neighbors(u) if bits[fd[(u, v)] - 1]]
                       for u in range(1, L + 1)}
                pre = {v: [u for u in B.left_neighbors(v) if bits[fd[(u, v)] - 1]]
                       for v in range(1, R + 1)}
                if force == 'force_complete_mapping':
                    want = all(len(img[u]) >= 1 for u in img)
                elif force == 'force_functional_mapping':
                    want = all(len(img[u]) <= 1 for u in img)
                elif force == 'force_surjective_mapping':
                    want = all(len(pre[v]) >= 1 for v in pre)
                elif force == 'force_injective_mapping':
                    want = all(len(pre[v]) <= 1 for v in pre)
                else:
                    want = all(v1 <= v2
                               for u1 in img for u2 in img if u1 < u2
                               for v1 in img[u1] for v2 in img[u2])
                assert sat == want, (name, force, bits)
                count += sat
            rec('sem-sparse', name, force, count)

    for n in range(0, 4):
        for m in range(1, 6):
            for force in FORCES:
                if force == 'force_surjective_mapping':
                    continue
                F = CNF()
                f = F.new_binary_mapping(n, m)
                k = f.bits()
                if n * k > 10:
                    continue
                getattr(F, force)(f)
                count = 0
                for bits in itertools.product([False, True], repeat=n * k):
                    sat = all(any(bits[abs(l) - 1] == (l > 0) for l in c) for c in F)
                    vals = []
                    for i in range(n):
                        chunk = bits[i * k:(i + 1) * k]
                        vals.append(sum(int(b) << (k - 1 - p) for p, b in enumerate(chunk)))
                    if force == 'force_complete_mapping':
                        want = all(v < m for v in vals)
                    elif force == 'force_functional_mapping':
                        want = True
                    elif force == 'force_injective_mapping':
                        want = all(not (vals[a] == vals[b] and vals[a] < m)
                                   for a in range(n) for b in range(a + 1, n))
                    else:
                        want = None
                    if want is not None:
                        assert sat == want, (n, m, force, bits)
                    count += sat
                rec('sem-binary', n, m, force, count)


for klass in (CNF, OPB):
    for off in (0, 7):
        run_each(klass, off)
run_forbid()
run_binary_internals()
run_errors()
run_semantics()

rec('count', NREC)
print(H.hexdigest())
