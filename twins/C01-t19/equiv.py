"""Equivalence check for cnfgen.families.counting (CountingPrinciple,
PerfectMatchingPrinciple) through the library and the command line."""
import hashlib
import sys
import warnings

warnings.simplefilter('ignore')
sys.path.insert(0, '.')

from cnfgen.families.counting import CountingPrinciple, PerfectMatchingPrinciple
from cnfgen.formula.cnf import CNF
from cnfgen.graphs import Graph
from cnfgen.clitools.cnfgen import cli as cnfgen

H = hashlib.sha256()


def record(*items):
    for it in items:
        H.update(repr(it).encode('utf-8'))
        H.update(b'\x00')


def observe(tag, thunk):
    try:
        F = thunk()
        record(tag, 'OK',
               F.header.get('description'),
               F.number_of_variables(),
               F.number_of_clauses(),
               [list(c) for c in F.clauses()],
               list(F.all_variable_labels()),
               F.to_dimacs(),
               F.to_latex())
    except BaseException as e:
        record(tag, 'EXC', type(e).__name__, str(e))


# library, all small parameters (including M < p, M == p, M == 0)
for M in range(0, 10):
    for p in range(1, 6):
        observe(('count', M, p), lambda: CountingPrinciple(M, p))
observe(('count', 12, 3), lambda: CountingPrinciple(12, 3))
observe(('count', 11, 2), lambda: CountingPrinciple(11, 2))

# invalid parameters
for M, p in [(-1, 2), (3, 0), (3, -1), ('a', 2), (3, 'b'), (2.0, 1), (3, 1.5),
             (None, 1), (True, True)]:
    observe(('countbad', repr(M), repr(p)), lambda: CountingPrinciple(M, p))


# a subclass as formula_class
class MyCNF(CNF):
    pass


observe('subclass', lambda: CountingPrinciple(6, 3, formula_class=MyCNF))
record(type(CountingPrinciple(4, 2, formula_class=MyCNF)).__name__)


# perfect matching on a few graphs
def mkgraph(n, edges, name='G'):
    G = Graph(n, name=name)
    for u, v in edges:
        G.add_edge(u, v)
    return G


graphs = [
    mkgraph(0, []),
    mkgraph(1, []),
    mkgraph(2, [(1, 2)]),
    mkgraph(3, [(1, 2), (2, 3), (1, 3)], 'triangle'),
    mkgraph(4, [(1, 2), (2, 3), (3, 4), (1, 4)], 'square'),
    mkgraph(5, [(1, 2), (1, 3), (1, 4), (1, 5)], 'star'),
    mkgraph(6, [(1, 2), (3, 4), (5, 6), (2, 3), (4, 5), (1, 6), (1, 4)]),
    Graph.complete_graph(5),
    Graph.complete_graph(6),
]
for i, G in enumerate(graphs):
    observe(('matching', i), lambda: PerfectMatchingPrinciple(G))
observe('matchingbad', lambda: PerfectMatchingPrinciple("not a graph"))
observe('matchingbad2', lambda: PerfectMatchingPrinciple(None))

# command line
for argv in [
    ['count', 6, 3], ['count', 7, 3], ['count', 0, 1], ['count', 2, 5],
    ['count', 5, 0], ['count', -1, 2], ['count', 'x', 2], ['count', 5],
    ['parity', 0], ['parity', 1], ['parity', 4], ['parity', 5], ['parity', -2],
    ['matching', 'complete', 4], ['matching', 'complete', 5],
    ['matching', 'grid', 2, 3], ['matching', 'gnd', 6, 3],
    ['matching', 'gnp', 6, '0.5'], ['matching'],
    ['-of', 'latex', 'count', 4, 2], ['-of', 'opb', 'count', 5, 2],
]:
    args = ['cnfgen', '-q', '--seed', '17'] + [str(a) for a in argv]
    try:
        record(argv, 'OK', cnfgen(args, mode='string'))
    except SystemExit as e:
        record(argv, 'EXIT', e.code)
    except BaseException as e:
        record(argv, 'EXC', type(e).__name__, str(e))

print(H.hexdigest())
