#!/usr/bin/env python
"""Equivalence script for t23: choice of the output format

Exercises cnfgen.formula.cnfio.guess_output_format directly and through
CNF.to_file / OPB.to_file / the command line tools (options -o and -of),
then reads the DIMACS files back.
Prints one SHA256 digest of everything observed.
"""
import contextlib
import hashlib
import io
import os
import pathlib
import random
import sys
import tempfile

sys.path.insert(0, os.getcwd())

from cnfgen.formula.cnfio import guess_output_format, CNFio
from cnfgen.formula.cnf import CNF
from cnfgen.formula.opb import OPB
import cnfgen
from cnfgen.clitools.cnfgen import cli as cnfgen_cli
from cnfgen.clitools.pbgen import cli as pbgen_cli
from cnfgen.clitools.cnfshuffle import cli as cnfshuffle_cli

LOG = []


def rec(*items):
    LOG.append(repr(items))


def attempt(tag, fn, *args, **kwargs):
    try:
        res = fn(*args, **kwargs)
        rec(tag, 'ok', res if isinstance(res, (type(None), bool, int, str, list, tuple))
            else type(res).__name__)
        return res
    except BaseException as e:  # noqa
        rec(tag, 'exc', type(e).__name__, str(e))
        return None


class Named:
    def __init__(self, name):
        self.name = name

    def __repr__(self):
        return 'Named(%r)' % (self.name,)


class NamedStringIO(io.StringIO):
    def __init__(self, name):
        io.StringIO.__init__(self)
        self.name = name


class RaisingName:
    def __init__(self, exc):
        self.exc = exc

    @property
    def name(self):
        raise self.exc

    def __repr__(self):
        return 'RaisingName(%s)' % type(self.exc).__name__


class Nameless:
    def __repr__(self):
        return 'Nameless()'


class StrSubclass(str):
    pass


class EqLatex:
    """Compares equal to 'latex'"""
    def __eq__(self, other):
        return other == 'latex'

    def __hash__(self):
        return hash('latex')

    def __repr__(self):
        return 'EqLatex()'


def main():
    random.seed(60623)

    names = ['', 'a', 'a.cnf', 'a.tex', 'a.opb', 'a.TEX', 'a.Opb', 'a.dimacs',
             'a.latex', 'tex', 'opb', '.tex', '.opb', '..tex', 'a.tex.', 'a.tex.cnf',
             'a.cnf.tex', 'a.cnf.opb', 'dir.tex/a', 'dir.opb/file.cnf', 'dir/a.tex',
             'a.tex/', 'a. tex', 'a.tex ', ' .opb', 'a.texx', 'a.op', 'a.t',
             '-', '<stdout>', 'a\n.tex', 'é.opb', 'a.tex\x00', '.', '..', 'a..opb',
             'C:\\x\\y.tex', 'a.b.c.d.opb', StrSubclass('z.tex'), StrSubclass('z')]
    objects = ([Named(n) for n in names[:24]] +
               [Named(None), Named(3), Named(0), Named(2.5), Named(b'a.tex'),
                Named(b'a.opb'), Named(b'a'), Named(['a.tex']), Named(('a', 'tex')),
                Named(pathlib.PurePosixPath('q.tex')), Named(pathlib.PurePosixPath('q.opb')),
                Named(pathlib.PurePosixPath('q')), Named(Nameless()),
                Nameless(), None, 0, 7, 2.5, b'a.tex', b'b.opb', ['a.tex'], ('a.tex',),
                {'name': 'a.tex'}, pathlib.PurePosixPath('dir/p.tex'),
                pathlib.PurePosixPath('dir/p.opb'), pathlib.PurePosixPath('dir/p.cnf'),
                pathlib.PurePosixPath('p'), io.StringIO(), io.BytesIO(),
                NamedStringIO('s.tex'), NamedStringIO('s.opb'), NamedStringIO('s.cnf'),
                NamedStringIO(5),
                RaisingName(AttributeError('ae')), RaisingName(ValueError('ve')),
                RaisingName(IndexError('ie')), RaisingName(TypeError('te')),
                RaisingName(KeyError('ke')), RaisingName(OSError('oe')),
                sys.stdout, sys.stderr, sys.stdin])
    requests = [None, 'latex', 'dimacs', 'opb', 'tex', 'cnf', 'LATEX', 'Dimacs', '',
                ' latex', 'latex ', 0, 1, False, True, 2.5, b'latex', b'opb',
                ['latex'], ('opb',), {'dimacs'}, {}, [], StrSubclass('opb'),
                StrSubclass('xyz'), EqLatex(), Nameless(), 'pdf', 'None']

    for ti, target in enumerate(names + objects):
        for ri, req in enumerate(requests):
            attempt('guess(%d,%d)' % (ti, ri), guess_output_format, target, req)
    attempt('guess-kw', guess_output_format, fileorname='k.tex', fileformat_request=None)
    attempt('guess-kw2', guess_output_format, fileformat_request='opb', fileorname='k.tex')
    attempt('guess-noarg', lambda: 'TypeError' if _raises(lambda: guess_output_format('x')) else 'none')

    # ---- through the to_file methods
    F = CNF([[1, -2], [], [3, 2]], description='t23 formula')
    F.update_variable_number(5)
    x = F.new_variable('extra')
    F.add_clause([x, -1])
    P = OPB(description='t23 opb')
    P.add_constraint([(2, 1), (1, -2), '>=', 1])
    E = CNF()
    for tag, obj in (('F', F), ('P', P), ('E', E), ('io', CNFio([[1], [-1]]))):
        for req in [None, 'latex', 'dimacs', 'opb', 'tex', 'cnf', '', 0, ['latex'], 'LATEX']:
            for nm in (None, 'n.tex', 'n.opb', 'n.cnf', 'n', 3, b'n.tex'):
                for h in (False, True):
                    out = io.StringIO() if nm is None else NamedStringIO(nm)
                    attempt('%s:to_file(%r,%r,%s)' % (tag, nm, req, h), obj.to_file, out,
                            fileformat=req, export_header=h, export_varnames=h,
                            extra_text='extra % text')
                    rec(tag, nm, req, h, out.getvalue())
            buf = io.StringIO()
            with contextlib.redirect_stdout(buf):
                attempt('%s:to_file-stdout(%r)' % (tag, req), obj.to_file, None, req)
                attempt('%s:to_file-stdout-kw(%r)' % (tag, req), obj.to_file, fileformat=req)
            rec(tag, 'stdout', req, buf.getvalue())

    cwd = os.getcwd()
    with tempfile.TemporaryDirectory() as tmp:
        os.chdir(tmp)
        os.mkdir('d.tex')
        os.mkdir('d.opb')
        try:
            fnames = ['a.cnf', 'a.tex', 'a.opb', 'a', 'a.TEX', 'a.dimacs', '.tex', '.opb',
                      'a.tex.cnf', 'a.cnf.tex', 'd.tex/a', 'd.opb/a.cnf', 'd.tex/b.opb',
                      'é.tex', 'a b.opb', 'no/such/dir.tex', 'd.tex']
            for tag, obj in (('F', F), ('P', P), ('E', E)):
                for fname in fnames:
                    for req in (None, 'latex', 'dimacs', 'opb', 'bogus'):
                        for h in (False, True):
                            attempt('%s:file(%r,%r,%s)' % (tag, fname, req, h), obj.to_file,
                                    fname, req, h, h)
                            if os.path.isfile(fname):
                                with open(fname, encoding='utf-8') as f:
                                    text = f.read()
                                rec(tag, fname, req, h, text)
                                G = attempt('%s:reread(%r,%r,%s)' % (tag, fname, req, h),
                                            CNF.from_file, fname)
                                if G is not None:
                                    rec('rt', G.number_of_variables(), [list(c) for c in G],
                                        G.header.get('description'))
                                os.unlink(fname)
                # open file objects
                for fname in ('h.cnf', 'h.tex', 'h.opb', 'h'):
                    with open(fname, 'w', encoding='utf-8') as fh:
                        attempt('%s:handle(%r)' % (tag, fname), obj.to_file, fh)
                    with open(fname, encoding='utf-8') as f:
                        rec(tag, 'handle', fname, f.read())
                    fd = os.open(fname, os.O_WRONLY | os.O_TRUNC)
                    with open(fd, 'w', encoding='utf-8') as fh:
                        # fh.name is an integer
                        rec('fdname', isinstance(fh.name, int))
                        attempt('%s:fdhandle(%r)' % (tag, fname), obj.to_file, fh)
                        attempt('%s:fdhandle-req(%r)' % (tag, fname), obj.to_file, fh, 'dimacs' if tag != 'P' else 'opb')
                    with open(fname, encoding='utf-8') as f:
                        rec(tag, 'fdhandle', fname, f.read())

            # ---- command line tools
            cmdlines = []
            for out in (None, 'c.cnf', 'c.tex', 'c.opb', 'c', 'c.TEX', 'd.tex/c'):
                for of in (None, 'dimacs', 'latex', 'opb', 'tex'):
                    for extra in ([], ['-q'], ['--varnames']):
                        argv = ['cnfgen'] + extra
                        if out is not None:
                            argv += ['-o', out]
                        if of is not None:
                            argv += ['-of', of]
                        argv += ['php', '3', '2']
                        cmdlines.append((argv, out))
            cmdlines.append((['cnfgen', '--seed', '5', '-o', 'r.opb', 'randkcnf', '3', '5', '4', '-T', 'shuffle'], 'r.opb'))
            cmdlines.append((['cnfgen', '--seed', '5', '-o', 'r.cnf', 'randkcnf', '3', '5', '4', '-T', 'xor', '2'], 'r.cnf'))
            for argv, out in cmdlines:
                for mode in ('output', 'string'):
                    buf = io.StringIO()
                    err = io.StringIO()
                    with contextlib.redirect_stdout(buf), contextlib.redirect_stderr(err):
                        attempt('cli:%s:%s' % (mode, ' '.join(argv)), cnfgen_cli, argv, mode=mode)
                    rec('cli', mode, argv, buf.getvalue(), err.getvalue())
                    if out is not None and os.path.isfile(out):
                        with open(out, encoding='utf-8') as f:
                            rec('cli-file', out, f.read())
                        G = attempt('cli-reread:' + ' '.join(argv), CNF.from_file, out)
                        if G is not None:
                            rec('cli-rt', G.number_of_variables(), [list(c) for c in G])
                        os.unlink(out)
            for out in (None, 'p.opb', 'p.tex', 'p.cnf', 'p'):
                for of in (None, 'opb', 'latex', 'dimacs'):
                    argv = ['pbgen']
                    if out is not None:
                        argv += ['-o', out]
                    if of is not None:
                        argv += ['-of', of]
                    argv += ['php', '3', '2']
                    buf = io.StringIO()
                    err = io.StringIO()
                    with contextlib.redirect_stdout(buf), contextlib.redirect_stderr(err):
                        attempt('pbcli:' + ' '.join(argv), pbgen_cli, argv, mode='output')
                    rec('pbcli', argv, buf.getvalue(), err.getvalue())
                    if out is not None and os.path.isfile(out):
                        with open(out, encoding='utf-8') as f:
                            rec('pbcli-file', out, f.read())
                        os.unlink(out)
            F.to_file('in.cnf')
            for out in ('s.cnf', 's.tex', 's.opb'):
                argv = ['cnfshuffle', '--seed', '9', '-i', 'in.cnf', '-o', out]
                attempt('shcli:' + ' '.join(argv), cnfshuffle_cli, argv, mode='output')
                with open(out, encoding='utf-8') as f:
                    rec('shcli-file', out, f.read())
        finally:
            os.chdir(cwd)

    blob = "\n".join(LOG).encode('utf-8', errors='backslashreplace')
    print(hashlib.sha256(blob).hexdigest())


def _raises(fn):
    try:
        fn()
    except TypeError:
        return True
    return False


if __name__ == '__main__':
    main()
